#!/usr/bin/env python3
"""usage: BIN=... regress.py RULE1,RULE2,...  — re-evaluates, with your checker binary, every kept mutant that one of the
given rules fired on (per its committed meta.json) and every white-box evasion, and prints those whose detection got WORSE
(no longer reported for a property it was reported for), then re-runs all benign refactorings and prints those that alarm."""
import json, os, re, subprocess, sys, glob
from concurrent.futures import ThreadPoolExecutor
rules=set(sys.argv[1].split(','))
def ev(patch,label):
    r=subprocess.run(['/tmp/fix/evalmut.sh',patch,label],capture_output=True,text=True,env=dict(os.environ,EVALMUT_MAX='40'))
    return r.stdout
def one(d):
    m=json.load(open(d+'/meta.json'))
    if not (rules & set(m.get('rules_fired',[]))): return None
    out=ev(d+'/patch.diff',os.path.basename(d))
    props=set(re.findall(r'== (C\d+): \d+ violation',out))
    lost=set(m.get('detected_for_properties',[]))-props
    return (os.path.basename(d),sorted(lost)) if lost else (os.path.basename(d),[])
ds=sorted(glob.glob('/verif/seeded/C*-m*'))
with ThreadPoolExecutor(8) as ex: res=[r for r in ex.map(one,ds) if r]
print(len(res),'mutants re-evaluated')
for n,l in res:
    if l: print('WORSE',n,'no longer reported for',l)
def ben(f):
    out=ev(f,os.path.basename(f)[:-5])
    return None if 'NOT DETECTED' in out or 'DOES NOT' in out else out
fs=sorted(glob.glob('/verif/seeded/benign/*.diff'))
with ThreadPoolExecutor(8) as ex: al=[a for a in ex.map(ben,fs) if a]
print(len(fs),'benign refactorings,',len(al),'alarm')
for a in al: print('ALARM',a[:600])
