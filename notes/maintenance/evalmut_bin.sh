#!/bin/sh
# usage: evalmut.sh <patch.diff> [label]
# Applies a patch to a scratch copy of /repo (never to /repo itself), checks that it
# compiles, runs every claimed check against the copy, prints which properties/rules fire.
set -u
patch="$(readlink -f "$1")"; label="${2:-$(basename $(dirname "$patch"))}"
d=$(mktemp -d /tmp/ev.XXXXXX)
rsync -a --exclude .git "${MAST_REPO:-/repo}/" "$d/"
( cd "$d" && patch -s -p1 < "$patch" ) || { echo "$label: PATCH DOES NOT APPLY"; rm -rf "$d"; exit 3; }
export GOFLAGS=-mod=mod GOPROXY=off GOSUMDB=off GOTOOLCHAIN=local CGO_ENABLED=0; unset GOWORK
( cd "$d" && go build ./... ) >/dev/null 2>&1 || { echo "$label: DOES NOT COMPILE"; rm -rf "$d"; exit 3; }
out=$(${BIN:-/verif/bin/mastcheck} -property all -tier quick -repo "$d" -verif /verif -no-evidence 2>&1)
echo "$out" | grep -E '^== C[0-9]+: [0-9]+ violation' | sed "s|^|$label: |"
echo "$out" | grep -E '^   (violated|UNDECIDED)' | sed -E "s|^ +|$label:    |" | sort | uniq -c | sort -rn | head -${EVALMUT_MAX:-12}
n=$(echo "$out" | grep -c '^VIOLATION')
[ "$n" = 0 ] && echo "$label: NOT DETECTED"
rm -rf "$d"
