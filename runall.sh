#!/bin/sh
# runs every claimed check (quick) and validates manifest + evidence
cd "$(dirname "$0")"
python3 mkmanifest.py >/dev/null || exit 1
rc=0
for p in $(python3 -c "import json;print(' '.join(c['property_id'] for c in json.load(open('MANIFEST.json'))['checks']))"); do
  ./check.sh $p ${1:-quick} | grep -E '^(==.*:|VIOLATION|KNOWN-FINDING|ERROR)' || true
done
python3-vt validate.py
