#!/bin/sh
# usage: check.sh <property-id> [quick|thorough]
# Static analysis of /repo's current working tree; nothing from /repo is executed.
set -u
cd "$(dirname "$0")"
export GOFLAGS=-mod=mod GOPROXY=off GOSUMDB=off GOTOOLCHAIN=local CGO_ENABLED=0
unset GOWORK
if [ ! -x bin/mastcheck ] || [ -n "$(find checker -name '*.go' -newer bin/mastcheck -not -path '*/vendor/*' -not -path '*/testdata/*' 2>/dev/null | head -1)" ]; then
  (cd checker && GOFLAGS=-mod=vendor go build -o ../bin/mastcheck ./cmd/mastcheck) || { echo "ERROR: cannot build mastcheck"; exit 2; }
fi
prop="$1"; tier="${2:-${VERIF_TIER:-quick}}"
exec bin/mastcheck -property "$prop" -tier "$tier" -repo "${MAST_REPO:-/repo}" -verif "$(pwd)"
