#!/bin/sh
# rebuilds bin/mastcheck from checker/ (vendored dependencies, offline)
cd "$(dirname "$0")/checker" || exit 2
export GOPROXY=off GOSUMDB=off GOTOOLCHAIN=local CGO_ENABLED=0 GOFLAGS=-mod=vendor; unset GOWORK
sh ./normcallee.sh >/dev/null 2>&1
go build -o ../bin/mastcheck ./cmd/mastcheck
