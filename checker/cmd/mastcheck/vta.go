package main

import (
	"fmt"
	"os"
	"sort"
	"strings"

	"golang.org/x/tools/go/callgraph"
	"golang.org/x/tools/go/callgraph/cha"
	"golang.org/x/tools/go/callgraph/vta"
	"golang.org/x/tools/go/packages"
	"golang.org/x/tools/go/ssa"
	"golang.org/x/tools/go/ssa/ssautil"

	"mastcheck/ir"
	"mastcheck/rules"
)

// vtaCrossCheck builds the whole program (dependencies included) and a VTA
// call graph, and verifies that for every call through a function value in
// the repository, each repository function VTA finds as a callee is among
// the callees the rules' resolver uses. A callee the resolver misses would
// make reachability-based rules unsound, so it is reported as undecided.
func vtaCrossCheck(repo string, quick *ir.Program, F *rules.Facts) (checked int, missing []string, err error) {
	cfg := &packages.Config{Mode: packages.LoadAllSyntax, Dir: repo,
		Env: append(os.Environ(), "GOFLAGS=-mod=mod", "GOPROXY=off", "GOSUMDB=off", "GOWORK=off", "GOTOOLCHAIN=local", "CGO_ENABLED=0")}
	pkgs, err := packages.Load(cfg, ".", "./persist/file", "./persist/s3")
	if err != nil {
		return 0, nil, err
	}
	if packages.PrintErrors(pkgs) > 0 {
		return 0, nil, fmt.Errorf("load errors")
	}
	prog, _ := ssautil.AllPackages(pkgs, ssa.InstantiateGenerics)
	prog.Build()
	all := ssautil.AllFunctions(prog)
	cg := vta.CallGraph(all, cha.CallGraph(prog))
	// resolver's view, keyed by (caller name, call position)
	type key struct{ fn, pos string }
	mine := map[key]map[string]bool{}
	for _, fn := range quick.Funcs {
		for _, ci := range rules.CallsOf(fn) {
			if ci.Common().IsInvoke() || ir.Callee(ci.Common()) != nil {
				continue
			}
			k := key{ir.FuncName(fn), quick.Pos(ci.Pos())}
			mine[k] = map[string]bool{}
			for _, c := range F.Callees(ci) {
				mine[k][ir.FuncName(c)] = true
			}
		}
	}
	own := func(f *ssa.Function) bool {
		return f != nil && f.Pkg != nil && strings.HasPrefix(f.Pkg.Pkg.Path(), ir.MastPath) && f.Synthetic == ""
	}
	fset := prog.Fset
	rel := func(f *ssa.Function) string { return ir.FuncName(f) }
	for f, node := range cg.Nodes {
		if !own(f) {
			continue
		}
		for _, e := range node.Out {
			if e.Site == nil || e.Site.Common().IsInvoke() || ir.Callee(e.Site.Common()) != nil {
				continue
			}
			if !own(e.Callee.Func) {
				continue
			}
			p := fset.Position(e.Site.Pos())
			pos := fmt.Sprintf("%s:%d", strings.TrimPrefix(p.Filename, repo+"/"), p.Line)
			k := key{rel(f), pos}
			checked++
			set, ok := mine[k]
			if !ok {
				missing = append(missing, fmt.Sprintf("%s at %s: call site unknown to the resolver", k.fn, k.pos))
				continue
			}
			if !set[rel(e.Callee.Func)] {
				missing = append(missing, fmt.Sprintf("%s at %s: VTA callee %s not resolved", k.fn, k.pos, rel(e.Callee.Func)))
			}
		}
	}
	sort.Strings(missing)
	_ = callgraph.Node{}
	return checked, missing, nil
}
