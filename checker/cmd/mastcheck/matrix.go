package main

import (
	"encoding/json"
	"os"
	"os/exec"
	"path/filepath"
	"sort"
	"strings"
	"sync"
)

type fault struct {
	ID    string   `json:"id"`
	Props []string `json:"props"`
	Rule  string   `json:"rule"`
	File  string   `json:"file"`
	Old   string   `json:"old"`
	New   string   `json:"new"`
	Note  string   `json:"note"`
}

// sensitivity applies every seeded fault aimed at prop as an in-memory overlay
// of the current sources and analyses it in a subprocess (the fault is never
// written to /repo and never executed). It measures the checker, not the
// repository, and therefore never influences the exit code.
func sensitivity(prop, repo, verif string) map[string]interface{} {
	b, err := os.ReadFile(filepath.Join(verif, "seeded", "faults.json"))
	if err != nil {
		return map[string]interface{}{"error": err.Error()}
	}
	var fs []fault
	if err := json.Unmarshal(b, &fs); err != nil {
		return map[string]interface{}{"error": err.Error()}
	}
	type res struct{ id, verdict, rules string }
	var mu sync.Mutex
	var out []res
	sem := make(chan struct{}, 16)
	var wg sync.WaitGroup
	self, _ := os.Executable()
	for _, f := range fs {
		aimed := false
		for _, p := range f.Props {
			if p == prop {
				aimed = true
			}
		}
		if !aimed {
			continue
		}
		src, err := os.ReadFile(filepath.Join(repo, f.File))
		if err != nil || strings.Count(string(src), f.Old) < 1 {
			out = append(out, res{f.ID, "n/a", "anchor text absent in the current tree"})
			continue
		}
		wg.Add(1)
		sem <- struct{}{}
		go func(f fault) {
			defer wg.Done()
			defer func() { <-sem }()
			tmp, _ := os.CreateTemp("", "mastcheck-overlay-*.json")
			json.NewEncoder(tmp).Encode([]map[string]string{{"file": f.File, "old": f.Old, "new": f.New}})
			tmp.Close()
			defer os.Remove(tmp.Name())
			cmd := exec.Command(self, "-property", prop, "-overlay", tmp.Name(), "-no-evidence", "-repo", repo, "-verif", verif)
			o, _ := cmd.Output()
			rules := map[string]bool{}
			for _, l := range strings.Split(string(o), "\n") {
				if (strings.HasPrefix(l, "   violated") || strings.HasPrefix(l, "   UNDECIDED")) && strings.Contains(l, "rule=") {
					r := strings.Fields(strings.SplitN(l, "rule=", 2)[1])[0]
					rules[r] = true
				}
			}
			var rs []string
			for r := range rules {
				rs = append(rs, r)
			}
			sort.Strings(rs)
			v := "missed"
			switch {
			case cmd.ProcessState != nil && cmd.ProcessState.ExitCode() == 2:
				v = "does-not-load"
			case rules[f.Rule]:
				v = "detected"
			case len(rs) > 0:
				v = "detected-by-other-rule"
			}
			mu.Lock()
			out = append(out, res{f.ID, v, strings.Join(rs, ",")})
			mu.Unlock()
		}(f)
	}
	wg.Wait()
	sort.Slice(out, func(i, j int) bool { return out[i].id < out[j].id })
	counts := map[string]int{}
	var detail []map[string]string
	for _, r := range out {
		counts[r.verdict]++
		detail = append(detail, map[string]string{"fault": r.id, "verdict": r.verdict, "rules_fired": r.rules})
	}
	return map[string]interface{}{
		"what":    "seeded single-edit faults applied as in-memory overlays of the current sources and only analysed; informational, never part of the exit code",
		"applied": len(out) - counts["n/a"], "detected": counts["detected"] + counts["detected-by-other-rule"],
		"missed": counts["missed"], "not_applicable": counts["n/a"], "does_not_load": counts["does-not-load"],
		"detail": detail,
	}
}

// mutantsFor re-analyses the independently written, confirmed mutants kept in
// seeded/<id>/ whose target is prop: each patch is applied to a scratch copy
// of the repository (never to the repository itself), analysed and removed.
// Informational, like the sensitivity matrix.
func mutantsFor(prop, repo, verif string) map[string]interface{} {
	dirs, _ := filepath.Glob(filepath.Join(verif, "seeded", prop+"-m*"))
	sort.Strings(dirs)
	type res struct {
		id, verdict, rules string
	}
	out := make([]res, len(dirs))
	var wg sync.WaitGroup
	sem := make(chan struct{}, 8)
	for i, d := range dirs {
		wg.Add(1)
		sem <- struct{}{}
		go func(i int, d string) {
			defer wg.Done()
			defer func() { <-sem }()
			cmd := exec.Command(filepath.Join(verif, "evalmut.sh"), filepath.Join(d, "patch.diff"), filepath.Base(d))
			cmd.Env = append(os.Environ(), "EVALMUT_MAX=40", "MAST_REPO="+repo)
			o, _ := cmd.Output()
			txt := string(o)
			v := "missed"
			switch {
			case strings.Contains(txt, "DOES NOT APPLY"):
				v = "n/a (patch no longer applies)"
			case strings.Contains(txt, "DOES NOT COMPILE"):
				v = "n/a (does not compile)"
			case strings.Contains(txt, "== "+prop+": "):
				v = "detected"
			case strings.Contains(txt, "violation(s)"):
				v = "detected for another property only"
			}
			rules := map[string]bool{}
			for _, l := range strings.Split(txt, "\n") {
				if strings.Contains(l, "rule=") {
					rules[strings.Fields(strings.SplitN(l, "rule=", 2)[1])[0]] = true
				}
			}
			var rs []string
			for r := range rules {
				rs = append(rs, r)
			}
			sort.Strings(rs)
			out[i] = res{filepath.Base(d), v, strings.Join(rs, ",")}
		}(i, d)
	}
	wg.Wait()
	n := 0
	var detail []map[string]string
	for _, r := range out {
		if r.verdict == "detected" {
			n++
		}
		detail = append(detail, map[string]string{"mutant": r.id, "verdict": r.verdict, "rules_fired": r.rules})
	}
	return map[string]interface{}{
		"what":     "independently written mutants of this property (sub-agents given only the property text), each confirmed to pass the suite and to break the property by a demonstration; patch applied to a scratch copy and analysed, never executed; informational",
		"mutants":  len(out),
		"detected": n,
		"detail":   detail,
	}
}
