// mastcheck decides structural clauses of the properties in
// /verif/properties.jsonl by static analysis of jrhy/mast's current working
// tree. It never executes code from the repository.
//
//	mastcheck -property C02 [-tier quick|thorough] [-repo /repo] [-verif /verif]
//	mastcheck -replay evidence/violations/C02-OWN-....json
//	mastcheck -list
package main

import (
	"encoding/json"
	"flag"
	"fmt"
	"os"
	"path/filepath"
	"regexp"
	"sort"
	"strconv"
	"strings"
	"time"

	"mastcheck/ir"
	"mastcheck/rules"
)

type knownEntry struct {
	Property string `json:"property"`
	Rule     string `json:"rule"`
	Key      string `json:"key"`
	Status   string `json:"status"` // known | fixed
	Commit   string `json:"commit,omitempty"`
	What     string `json:"what"`
	Demo     string `json:"demo,omitempty"`
}

type knownFile struct {
	Comment  string       `json:"_comment,omitempty"`
	Findings []knownEntry `json:"findings"`
}

func main() {
	prop := flag.String("property", "", "property id (C01..C19) or 'all'")
	tier := flag.String("tier", os.Getenv("VERIF_TIER"), "quick | thorough")
	repo := flag.String("repo", "/repo", "repository root")
	verif := flag.String("verif", "/verif", "verif root (evidence, known findings)")
	list := flag.Bool("list", false, "list rules and their properties")
	replay := flag.String("replay", "", "re-evaluate the obligation recorded in a violation file")
	ruleFlag := flag.String("rule", "", "run only this rule (debugging)")
	verbose := flag.Bool("v", false, "print every obligation")
	overlay := flag.String("overlay", "", "JSON file {\"file\":..., \"old\":..., \"new\":...}[]: analyse an in-memory edit (sensitivity matrix)")
	noEvidence := flag.Bool("no-evidence", false, "do not write evidence files")
	flag.Parse()
	if *tier == "" {
		*tier = "quick"
	}
	if *list {
		for _, r := range rules.All() {
			fmt.Printf("%s\t%s\t%s\n", r.ID, strings.Join(r.Props, ","), r.Doc)
		}
		return
	}
	if *replay != "" {
		os.Exit(doReplay(*replay, *repo, *verif))
	}
	if *prop == "" && *ruleFlag == "" {
		fmt.Fprintln(os.Stderr, "need -property")
		os.Exit(2)
	}
	start := time.Now()
	seed := 0
	if s := os.Getenv("VERIF_SEED"); s != "" {
		seed, _ = strconv.Atoi(s)
	}

	ov, err := loadOverlay(*overlay, *repo)
	if err != nil {
		fmt.Fprintln(os.Stderr, "overlay:", err)
		os.Exit(2)
	}
	props := []string{*prop}
	if *prop == "all" {
		props = rules.Properties()
	}
	exit := 0
	runs, err := analyse(*repo, ov, *tier, props, *ruleFlag)
	if err != nil {
		fmt.Printf("ERROR: cannot analyse %s: %v\n", *repo, err)
		fmt.Printf("(fail closed: a tree that does not load or type-check cannot be shown to satisfy anything)\n")
		os.Exit(2)
	}
	known := loadKnown(filepath.Join(*verif, "known_findings.json"))
	for _, p := range props {
		code := report(p, runs, known, *tier, seed, *verif, *verbose, start, !*noEvidence && *overlay == "", *repo)
		if code > exit {
			exit = code
		}
	}
	os.Exit(exit)
}

func short(s string, n int) string {
	if len(s) > n {
		return s[:n] + "…"
	}
	return s
}

type edit struct {
	File string `json:"file"`
	Old  string `json:"old"`
	New  string `json:"new"`
}

func loadOverlay(path, repo string) (map[string][]byte, error) {
	if path == "" {
		return nil, nil
	}
	b, err := os.ReadFile(path)
	if err != nil {
		return nil, err
	}
	var edits []edit
	if err := json.Unmarshal(b, &edits); err != nil {
		return nil, err
	}
	out := map[string][]byte{}
	for _, e := range edits {
		fn := filepath.Join(repo, e.File)
		src, ok := out[fn]
		if !ok {
			src, err = os.ReadFile(fn)
			if err != nil {
				return nil, err
			}
		}
		if !strings.Contains(string(src), e.Old) {
			return nil, fmt.Errorf("anchor text absent in %s", e.File)
		}
		out[fn] = []byte(strings.Replace(string(src), e.Old, e.New, 1))
	}
	return out, nil
}

// run holds the result of analysing one configuration.
type run struct {
	VTAChecked int
	VTAMissing []string
	Config     string
	P          *ir.Program
	Res        *rules.Result
	Rules      []*rules.Rule
}

func analyse(repo string, ov map[string][]byte, tier string, props []string, onlyRule string) ([]*run, error) {
	type cfg struct {
		label string
		env   []string
	}
	cfgs := []cfg{{"native", nil}}
	if tier == "thorough" {
		cfgs = append(cfgs, cfg{"GOARCH=386", []string{"GOARCH=386", "GOOS=linux"}},
			cfg{"GOOS=windows", []string{"GOOS=windows", "GOARCH=amd64"}})
	}
	var rs []*rules.Rule
	seen := map[string]bool{}
	for _, p := range props {
		for _, r := range rules.ForProperty(p) {
			if !seen[r.ID] {
				seen[r.ID] = true
				rs = append(rs, r)
			}
		}
	}
	if onlyRule != "" {
		rs = nil
		for _, id := range strings.Split(onlyRule, ",") {
			r := rules.ByID(id)
			if r == nil {
				return nil, fmt.Errorf("no rule %s", id)
			}
			rs = append(rs, r)
		}
	}
	var out []*run
	for _, c := range cfgs {
		P, err := ir.Load(ir.Options{Dir: repo, Overlay: ov, Env: c.env, Config: c.label})
		if err != nil {
			return nil, fmt.Errorf("[%s] %w", c.label, err)
		}
		F := rules.NewFacts(P)
		res := rules.Run(P, rs, F)
		r := &run{Config: c.label, P: P, Res: res, Rules: rs}
		if tier == "thorough" && c.label == "native" && ov == nil {
			n, missing, err := vtaCrossCheck(repo, P, F)
			r.VTAChecked, r.VTAMissing = n, missing
			if err != nil {
				r.VTAMissing = append(r.VTAMissing, "VTA cross-check could not run: "+err.Error())
			}
		}
		out = append(out, r)
	}
	return out, nil
}

func loadKnown(path string) []knownEntry {
	b, err := os.ReadFile(path)
	if err != nil {
		return nil
	}
	var kf knownFile
	if err := json.Unmarshal(b, &kf); err != nil {
		fmt.Printf("ERROR: %s does not parse: %v\n", path, err)
		os.Exit(2)
	}
	return kf.Findings
}

var unsafeName = regexp.MustCompile(`[^A-Za-z0-9_.-]+`)

func report(prop string, runs []*run, known []knownEntry, tier string, seed int, verif string, verbose bool, start time.Time, writeEvidence bool, repo string) int {
	owned := map[string]bool{}
	var ruleIDs []string
	for _, r := range rules.ForProperty(prop) {
		owned[r.ID] = true
		ruleIDs = append(ruleIDs, r.ID)
	}
	if len(runs) > 0 && len(runs[0].Rules) > 0 && len(ruleIDs) == 0 {
		for _, r := range runs[0].Rules {
			owned[r.ID] = true
			ruleIDs = append(ruleIDs, r.ID)
		}
	}
	if len(ruleIDs) == 0 {
		fmt.Printf("ERROR: property %s has no rules (not claimed)\n", prop)
		return 2
	}
	// merge findings across configurations by key
	type merged struct {
		f       rules.Finding
		configs []string
	}
	fm := map[string]*merged{}
	var obls []rules.Obligation
	var notes []string
	perRule := map[string]int{}
	nfunc, ninstr, npkgs := 0, 0, 0
	for i, r := range runs {
		for _, f := range r.Res.Findings {
			if !owned[f.Rule] {
				continue
			}
			if prop != "" && len(rules.ForProperty(prop)) > 0 && !f.HasProp(prop) {
				continue
			}
			if m, ok := fm[f.Key]; ok {
				m.configs = append(m.configs, r.Config)
			} else {
				fm[f.Key] = &merged{f, []string{r.Config}}
			}
		}
		if i == 0 {
			for _, o := range r.Res.Obls {
				if owned[o.Rule] {
					obls = append(obls, o)
				}
			}
			notes = r.Res.Notes
			for id, n := range r.Res.PerRule {
				if owned[id] {
					perRule[id] = n
				}
			}
			nfunc = len(r.P.Funcs)
			ninstr = r.P.NumInstrs()
			npkgs = len(r.P.Pkgs)
		}
	}
	var keys []string
	for k := range fm {
		keys = append(keys, k)
	}
	sort.Strings(keys)

	fmt.Printf("== %s tier=%s rules=%s configs=%d packages=%d functions=%d ssa_instructions=%d\n",
		prop, tier, strings.Join(ruleIDs, ","), len(runs), npkgs, nfunc, ninstr)
	sort.Strings(ruleIDs)
	for _, id := range ruleIDs {
		fmt.Printf("   rule %-14s obligations examined: %d\n", id, perRule[id])
	}
	if verbose {
		for _, o := range obls {
			fmt.Printf("   [%s] %-9s %-18s %s — %s\n", o.Rule, o.Verdict, o.Pos, o.What, o.Why)
		}
		for _, n := range notes {
			fmt.Printf("   note: %s\n", n)
		}
	}
	violations := 0
	var knownHits []string
	os.MkdirAll(filepath.Join(verif, "evidence", "violations"), 0o755)
	for _, k := range keys {
		m := fm[k]
		f := m.f
		isKnown := false
		for _, ke := range known {
			if ke.Status == "known" && ke.Property == prop && ke.Key == f.Key {
				isKnown = true
				fmt.Printf("KNOWN-FINDING: property=%s %s [%s at %s]\n", prop, ke.What, f.Key, f.Pos)
				knownHits = append(knownHits, f.Key)
			}
		}
		if isKnown {
			continue
		}
		violations++
		kind := "violated"
		if f.Undecided {
			kind = "UNDECIDED (fails closed)"
		}
		fmt.Printf("   %s rule=%s at %s in %s [%s]\n      %s\n", kind, f.Rule, f.Pos, f.Func, strings.Join(m.configs, ","), f.Msg)
		for _, w := range f.Witness {
			fmt.Printf("      witness: %s\n", w)
		}
		fmt.Printf("      key: %s\n", f.Key)
		name := unsafeName.ReplaceAllString(prop+"-"+f.Key, "_")
		if len(name) > 150 {
			name = name[:150]
		}
		path := filepath.Join(verif, "evidence", "violations", name+".json")
		if writeEvidence {
			b, _ := json.MarshalIndent(map[string]interface{}{"property": prop, "finding": f, "configs": m.configs, "repo": repo}, "", " ")
			os.WriteFile(path, b, 0o644)
		}
		fmt.Printf("VIOLATION property=%s replay=%s\n", prop, path)
	}
	// evidence
	nOK, nNontrivial := 0, 0
	distinct := map[string]bool{}
	for _, o := range obls {
		if o.Verdict == "ok" {
			nOK++
		}
		if !o.Trivial {
			distinct[o.Rule+"|"+o.What] = true
		}
	}
	nNontrivial = len(distinct)
	var samples []interface{}
	perRuleSample := map[string]int{}
	for _, o := range obls {
		if o.Trivial && perRuleSample[o.Rule] > 0 {
			continue
		}
		if perRuleSample[o.Rule] >= 6 {
			continue
		}
		perRuleSample[o.Rule]++
		samples = append(samples, map[string]string{"rule": o.Rule, "obligation": o.What, "at": o.Pos, "verdict": o.Verdict, "why": o.Why})
	}
	var docs []string
	for _, id := range ruleIDs {
		docs = append(docs, id+": "+rules.ByID(id).Doc)
	}
	var cfgNames []string
	for _, r := range runs {
		cfgNames = append(cfgNames, r.Config)
	}
	ev := map[string]interface{}{
		"property_id": prop,
		"tier":        tier,
		"seed":        seed,
		"level":       "other",
		"coverage": map[string]interface{}{
			"explanation": "Static analysis (go/packages + go/types + go/ssa, x/tools v0.29.0) of the current working tree of " + repo +
				"; nothing is executed. Decides only the structural clauses listed under 'rules' — necessary conditions of " + prop +
				", not the behaviour itself (see MANIFEST level_note and DESIGN.md §4). Every obligation is enumerated from the SSA/AST of this run.",
			"rules":               docs,
			"rule_instances":      perRule,
			"packages":            npkgs,
			"functions":           nfunc,
			"ssa_instructions":    ninstr,
			"configurations":      cfgNames,
			"obligations":         len(obls),
			"discharged":          nOK,
			"evaluations":         len(obls),
			"distinct_nontrivial": nNontrivial,
			"rule":                "one obligation per rule instance found in the SSA/AST (write site, call site, branch, declaration); non-trivial = not discharged by the rule's trivial case (e.g. a write whose base is a plain local allocation); distinct = distinct (rule, construct, function)",
			"samples":             samples,
			"known_findings":      knownHits,
			"notes":               notes,
			"predicates_inlined":  append([]string{}, ir.InlineLog...),
			"exhaustive":          true,
		},
		"assumptions": rules.Assumptions(prop),
		"wall_s":      time.Since(start).Seconds(),
		"violations":  violations,
	}
	if tier == "thorough" && len(runs) > 0 {
		ev["coverage"].(map[string]interface{})["call_resolution_crosscheck"] = map[string]interface{}{
			"what":    "whole-program VTA call graph (LoadAllSyntax): every repository callee VTA finds for a call through a function value must be among the callees the rules' resolver uses",
			"edges":   runs[0].VTAChecked,
			"missing": runs[0].VTAMissing,
		}
		fmt.Printf("   VTA cross-check of call resolution: %d dynamic edges into repository functions, %d not covered by the resolver\n", runs[0].VTAChecked, len(runs[0].VTAMissing))
		for _, m := range runs[0].VTAMissing {
			violations++
			fmt.Printf("   UNDECIDED (fails closed) call resolution: %s\n", m)
			fmt.Printf("VIOLATION property=%s replay=%s\n", prop, filepath.Join(verif, "evidence", prop+".json"))
		}
		ev["violations"] = violations
	}
	if tier == "thorough" && writeEvidence {
		sens := sensitivity(prop, repo, verif)
		ev["coverage"].(map[string]interface{})["sensitivity"] = sens
		fmt.Printf("   sensitivity matrix (informational): applied=%v detected=%v missed=%v n/a=%v\n", sens["applied"], sens["detected"], sens["missed"], sens["not_applicable"])
		mu := mutantsFor(prop, repo, verif)
		ev["coverage"].(map[string]interface{})["independent_mutants"] = mu
		fmt.Printf("   independent mutants (informational): %v of %v detected\n", mu["detected"], mu["mutants"])
		ev["wall_s"] = time.Since(start).Seconds()
	}
	if writeEvidence {
		b, _ := json.MarshalIndent(ev, "", " ")
		if err := os.WriteFile(filepath.Join(verif, "evidence", prop+".json"), b, 0o644); err != nil {
			fmt.Printf("ERROR: cannot write evidence: %v\n", err)
			return 2
		}
	}
	if violations > 0 {
		fmt.Printf("== %s: %d violation(s), %d known finding(s)\n", prop, violations, len(knownHits))
		return 1
	}
	fmt.Printf("== %s: holds on everything analysed (%d obligations, %d non-trivial, %d known finding(s))\n", prop, len(obls), nNontrivial, len(knownHits))
	return 0
}

func doReplay(path, repo, verif string) int {
	b, err := os.ReadFile(path)
	if err != nil {
		fmt.Println("ERROR:", err)
		return 2
	}
	var v struct {
		Property string        `json:"property"`
		Finding  rules.Finding `json:"finding"`
	}
	if err := json.Unmarshal(b, &v); err != nil {
		fmt.Println("ERROR:", err)
		return 2
	}
	runs, err := analyse(repo, nil, "quick", []string{v.Property}, v.Finding.Rule)
	if err != nil {
		fmt.Println("ERROR:", err)
		return 2
	}
	for _, f := range runs[0].Res.Findings {
		if f.Key == v.Finding.Key {
			fmt.Printf("still present: %s at %s in %s\n  %s\n", f.Key, f.Pos, f.Func, f.Msg)
			for _, w := range f.Witness {
				fmt.Printf("  witness: %s\n", w)
			}
			fmt.Printf("VIOLATION property=%s replay=%s\n", v.Property, path)
			return 1
		}
	}
	fmt.Printf("obligation %s is discharged on the current tree\n", v.Finding.Key)
	return 0
}
