package ir

import (
	"fmt"
	"go/constant"
	"go/token"
	"go/types"

	"golang.org/x/tools/go/ssa"
)

// ResolveCell sees through the heap cells go/ssa creates for captured or
// address-taken scalars: `t0 = new *T (x); *t0 = v; ... *t0` with exactly one
// store and no escape other than closure capture is the value v.
func ResolveCell(v ssa.Value) ssa.Value {
	for i := 0; i < 8; i++ {
		u, ok := v.(*ssa.UnOp)
		if !ok || u.Op != token.MUL {
			return v
		}
		a, ok := u.X.(*ssa.Alloc)
		if !ok {
			return v
		}
		s := SingleStore(a)
		if s == nil {
			if sv := structCellValue(a, u); sv != nil {
				v = sv
				continue
			}
			return v
		}
		v = s.Val
	}
	return v
}

// SingleStore returns the only store into scalar cell a, or nil if the cell
// has several stores, is an aggregate (fields/elements addressed) or its
// address escapes other than by closure capture.
func SingleStore(a *ssa.Alloc) *ssa.Store {
	var st *ssa.Store
	if a.Referrers() == nil {
		return nil
	}
	for _, r := range *a.Referrers() {
		switch x := r.(type) {
		case *ssa.Store:
			if x.Addr != a {
				return nil // address stored somewhere
			}
			if st != nil {
				return nil
			}
			st = x
		case *ssa.UnOp, *ssa.MakeClosure, *ssa.DebugRef:
		default:
			return nil
		}
	}
	return st
}

// CellStores returns all stores into cell a (a local variable spilled to the
// heap) and whether the cell's address escapes other than into closures.
func CellStores(a *ssa.Alloc) (stores []*ssa.Store, escapes bool) {
	if a.Referrers() == nil {
		return nil, false
	}
	for _, r := range *a.Referrers() {
		switch x := r.(type) {
		case *ssa.Store:
			if x.Addr != a {
				escapes = true
			} else {
				stores = append(stores, x)
			}
		case *ssa.UnOp, *ssa.MakeClosure, *ssa.DebugRef:
		case *ssa.FieldAddr, *ssa.IndexAddr:
		default:
			escapes = true
		}
	}
	return
}

// Strip removes value-preserving wrappers (interface boxing, type changes).
func Strip(v ssa.Value) ssa.Value {
	for {
		switch x := v.(type) {
		case *ssa.MakeInterface:
			v = x.X
		case *ssa.ChangeInterface:
			v = x.X
		case *ssa.ChangeType:
			v = x.X
		default:
			return v
		}
	}
}

// Sym renders a value as a symbolic access path. Two values with the same
// path denote the same storage location or the same pure expression over
// the same inputs; equality of the *contents* additionally needs that no
// store intervenes (see StoresBetween). Values that cannot be named get a
// unique token so that they never compare equal to anything else.
func Sym(v ssa.Value) string { return sym(v, 0) }

func sym(v ssa.Value, d int) string {
	if v == nil {
		return "<nil-value>"
	}
	if d > 16 {
		return "…" + v.Name()
	}
	v = ResolveCell(v)
	switch x := v.(type) {
	case *ssa.Const:
		if x.Value == nil {
			return "nil"
		}
		if x.Value.Kind() == constant.Int {
			return x.Value.ExactString()
		}
		return x.Value.ExactString()
	case *ssa.Parameter:
		return "P:" + x.Name()
	case *ssa.FreeVar:
		return "FV:" + x.Name()
	case *ssa.Global:
		return "G:" + x.Name()
	case *ssa.Alloc:
		return fmt.Sprintf("A:%s@%s", x.Comment, x.Name())
	case *ssa.FieldAddr:
		return sym(x.X, d+1) + "." + FieldName(x.X.Type(), x.Field)
	case *ssa.Field:
		return sym(x.X, d+1) + "." + FieldName(x.X.Type(), x.Field)
	case *ssa.IndexAddr:
		return sym(x.X, d+1) + "[" + sym(x.Index, d+1) + "]"
	case *ssa.Index:
		return sym(x.X, d+1) + "[" + sym(x.Index, d+1) + "]"
	case *ssa.Lookup:
		return sym(x.X, d+1) + "{" + sym(x.Index, d+1) + "}"
	case *ssa.UnOp:
		if x.Op == token.MUL {
			// a field read from a local struct copy (`*t0 = r; t1 = &t0.f; *t1`, the spill of a
			// by-value receiver or parameter): the field of the copied value
			if fa, ok := x.X.(*ssa.FieldAddr); ok {
				if a, ok := fa.X.(*ssa.Alloc); ok {
					if sv := structCellValue(a, x); sv != nil {
						return sym(sv, d+1) + "." + FieldName(fa.X.Type(), fa.Field)
					}
				}
			}
			// a load: the path of the location, marked as its content
			return "*" + sym(x.X, d+1)
		}
		return x.Op.String() + sym(x.X, d+1)
	case *ssa.BinOp:
		return "(" + sym(x.X, d+1) + x.Op.String() + sym(x.Y, d+1) + ")"
	case *ssa.Call:
		if b, ok := x.Call.Value.(*ssa.Builtin); ok && (b.Name() == "len" || b.Name() == "cap") {
			return b.Name() + "(" + sym(x.Call.Args[0], d+1) + ")"
		}
		return "call@" + x.Name()
	case *ssa.Extract:
		return fmt.Sprintf("%s#%d", sym(x.Tuple, d+1), x.Index)
	case *ssa.Phi:
		return "phi@" + x.Name()
	case *ssa.Slice:
		lo, hi := "", ""
		if x.Low != nil {
			lo = sym(x.Low, d+1)
		}
		if x.High != nil {
			hi = sym(x.High, d+1)
		}
		return sym(x.X, d+1) + "[" + lo + ":" + hi + "]"
	case *ssa.MakeInterface:
		return sym(x.X, d+1)
	case *ssa.ChangeInterface:
		return sym(x.X, d+1)
	case *ssa.ChangeType:
		return sym(x.X, d+1)
	case *ssa.Convert:
		return "conv(" + sym(x.X, d+1) + ")"
	case *ssa.TypeAssert:
		return "assert<" + types.TypeString(x.AssertedType, nil) + ">(" + sym(x.X, d+1) + ")"
	case *ssa.Function:
		return "fn:" + x.Name()
	case *ssa.MakeClosure:
		return "closure:" + x.Fn.Name()
	}
	return fmt.Sprintf("%T@%s", v, v.Name())
}

// Fact is a branch condition known to hold (Truth) at some program point.
type Fact struct {
	Cond  ssa.Value
	Truth bool
	// From is the block ending in the `if`.
	From *ssa.BasicBlock
}

// FactsAt returns the branch conditions that hold on entry to block b on
// every path: for each block d on b's dominator chain whose immediate
// dominator ends in an `if` and which is entered only from that `if`.
// It covers if/else, early returns, && and || chains and type switches.
func FactsAt(b *ssa.BasicBlock) []Fact {
	return expandPhiFacts(factsAt(b), 0, true)
}

// ExpandFacts adds what follows from the given facts when a condition is a short-circuit φ.
func ExpandFacts(fs []Fact) []Fact { return expandPhiFacts(fs, 0, true) }

// expandPhiFacts: go/ssa evaluates `a && b` used as a value (e.g. the case of a
// tagless switch) into a φ of (false, b): when such a φ is known true, b is true
// and everything known where b was evaluated holds as well (dually for ||).
func expandPhiFacts(fs []Fact, depth int, withDominators bool) []Fact {
	if depth > 4 {
		return fs
	}
	out := fs
	for _, f := range fs {
		phi, ok := f.Cond.(*ssa.Phi)
		if !ok {
			continue
		}
		var live ssa.Value
		var livePred *ssa.BasicBlock
		okShape := true
		for i, e := range phi.Edges {
			if v, isC := ConstBool(e); isC && v != f.Truth {
				continue // this edge contributes the opposite constant: not the one taken
			}
			if live != nil {
				okShape = false
			}
			live, livePred = e, phi.Block().Preds[i]
		}
		if !okShape || live == nil {
			continue
		}
		var extra []Fact
		if _, isC := ConstBool(live); !isC {
			extra = append(extra, Fact{live, f.Truth, livePred})
		}
		if withDominators {
			extra = append(extra, factsAt(livePred)...)
		}
		out = append(out, expandPhiFacts(extra, depth+1, withDominators)...)
	}
	return out
}

func factsAt(b *ssa.BasicBlock) []Fact {
	var out []Fact
	for d := b; d != nil; d = d.Idom() {
		if len(d.Preds) != 1 {
			continue
		}
		p := d.Preds[0]
		if len(p.Instrs) == 0 {
			continue
		}
		iff, ok := p.Instrs[len(p.Instrs)-1].(*ssa.If)
		if !ok {
			continue
		}
		if p.Succs[0] == d && p.Succs[1] != d {
			out = append(out, Fact{iff.Cond, true, p})
		} else if p.Succs[1] == d && p.Succs[0] != d {
			out = append(out, Fact{iff.Cond, false, p})
		}
	}
	return out
}

// NilTest decodes `x != nil` / `x == nil` (either operand order, through
// `!`): it returns the tested value and whether cond==true means non-nil.
func NilTest(cond ssa.Value) (v ssa.Value, trueMeansNonNil bool, ok bool) {
	neg := false
	for {
		u, isU := cond.(*ssa.UnOp)
		if !isU || u.Op != token.NOT {
			break
		}
		neg = !neg
		cond = u.X
	}
	bin, isB := cond.(*ssa.BinOp)
	if !isB || (bin.Op != token.EQL && bin.Op != token.NEQ) {
		return nil, false, false
	}
	var other ssa.Value
	if c, ok := bin.Y.(*ssa.Const); ok && c.Value == nil && isNilable(c.Type()) {
		other = bin.X
	} else if c, ok := bin.X.(*ssa.Const); ok && c.Value == nil && isNilable(c.Type()) {
		other = bin.Y
	} else {
		return nil, false, false
	}
	t := bin.Op == token.NEQ
	if neg {
		t = !t
	}
	return other, t, true
}

func isNilable(t types.Type) bool {
	switch t.Underlying().(type) {
	case *types.Pointer, *types.Interface, *types.Slice, *types.Map, *types.Chan, *types.Signature:
		return true
	case *types.Basic:
		return t.Underlying().(*types.Basic).Kind() == types.UntypedNil
	}
	return false
}

// NonNilAt reports whether the value with symbolic path s is known non-nil on
// entry to block b by a dominating branch.
func NonNilAt(b *ssa.BasicBlock, s string) bool {
	for _, f := range FactsAt(b) {
		v, tnn, ok := NilTest(f.Cond)
		if !ok {
			continue
		}
		if f.Truth == tnn && Sym(v) == s {
			return true
		}
	}
	return false
}

// InstrIndex returns the index of ins in its block.
func InstrIndex(ins ssa.Instruction) int {
	for i, x := range ins.Block().Instrs {
		if x == ins {
			return i
		}
	}
	return -1
}

// Before reports whether a is executed before b on every path that reaches b
// (a dominates b, instruction-level).
func Before(a, b ssa.Instruction) bool {
	if a.Block() == b.Block() {
		return InstrIndex(a) < InstrIndex(b)
	}
	return a.Block().Dominates(b.Block())
}

// ReachableFrom computes the blocks reachable from `from` (inclusive),
// not following edges for which skip returns true.
func ReachableFrom(from *ssa.BasicBlock, skip func(from, to *ssa.BasicBlock) bool) map[*ssa.BasicBlock]bool {
	seen := map[*ssa.BasicBlock]bool{from: true}
	work := []*ssa.BasicBlock{from}
	for len(work) > 0 {
		b := work[len(work)-1]
		work = work[:len(work)-1]
		for _, s := range b.Succs {
			if skip != nil && skip(b, s) {
				continue
			}
			if !seen[s] {
				seen[s] = true
				work = append(work, s)
			}
		}
	}
	return seen
}

// CanReach reports whether block `to` is reachable from block `from` by at
// least one edge sequence (from==to counts only via a cycle unless same).
func CanReach(from, to *ssa.BasicBlock) bool {
	if from == to {
		return true
	}
	return ReachableFrom(from, nil)[to]
}

// InstrReaches reports whether instruction b may execute after instruction a.
func InstrReaches(a, b ssa.Instruction) bool {
	if a.Block() == b.Block() && InstrIndex(a) < InstrIndex(b) {
		return true
	}
	for _, s := range a.Block().Succs {
		if CanReach(s, b.Block()) {
			return true
		}
	}
	return false
}

// ConstBool returns the value of a boolean constant condition.
func ConstBool(v ssa.Value) (val, ok bool) {
	c, isC := v.(*ssa.Const)
	if !isC || c.Value == nil || c.Value.Kind() != constant.Bool {
		return false, false
	}
	return constant.BoolVal(c.Value), true
}

// PanicOnly reports whether every path from b ends in a panic (no return).
func PanicOnly(b *ssa.BasicBlock) bool {
	seen := map[*ssa.BasicBlock]bool{}
	var walk func(*ssa.BasicBlock) bool
	walk = func(x *ssa.BasicBlock) bool {
		if seen[x] {
			return true
		}
		seen[x] = true
		if len(x.Instrs) == 0 {
			return false
		}
		switch x.Instrs[len(x.Instrs)-1].(type) {
		case *ssa.Panic:
			return true
		case *ssa.Return:
			return false
		}
		if len(x.Succs) == 0 {
			return false
		}
		for _, s := range x.Succs {
			if !walk(s) {
				return false
			}
		}
		return true
	}
	return walk(b)
}

// Returns lists the return instructions of fn.
func Returns(fn *ssa.Function) []*ssa.Return {
	var out []*ssa.Return
	for _, b := range fn.Blocks {
		if len(b.Instrs) == 0 || IsDead(b) {
			continue
		}
		if r, ok := b.Instrs[len(b.Instrs)-1].(*ssa.Return); ok {
			out = append(out, r)
		}
	}
	return out
}

// DeadHook lets the rule layer declare further blocks infeasible (code under a debug flag nothing sets, the
// error branch of a callee that cannot fail). IsDead is consulted by Returns and by the rules' call enumeration:
// what cannot execute cannot break a property, and must not raise an alarm either.
var DeadHook func(b *ssa.BasicBlock) bool

var deadMemo = map[*ssa.BasicBlock]bool{}

// ResetDeadMemo must be called when a new program is loaded.
func ResetDeadMemo() { deadMemo = map[*ssa.BasicBlock]bool{} }

func IsDead(b *ssa.BasicBlock) bool {
	if v, ok := deadMemo[b]; ok {
		return v
	}
	deadMemo[b] = false // re-entrancy guard
	v := DeadByConst(b) || (DeadHook != nil && DeadHook(b))
	deadMemo[b] = v
	return v
}

// IsNilConst reports whether v is the nil constant.
func IsNilConst(v ssa.Value) bool {
	c, ok := v.(*ssa.Const)
	return ok && c.Value == nil && isNilable(c.Type())
}

// IsErrorType reports whether t is the predeclared error interface.
func IsErrorType(t types.Type) bool {
	return types.Identical(t, types.Universe.Lookup("error").Type())
}

// ErrorResultIndex returns the index of the (last) error result of sig, or -1.
func ErrorResultIndex(sig *types.Signature) int {
	r := sig.Results()
	for i := r.Len() - 1; i >= 0; i-- {
		if IsErrorType(r.At(i).Type()) {
			return i
		}
	}
	return -1
}

// ForwardLoad sees through the store-then-load pairs go/ssa emits for a return
// in a function whose named results live in heap cells (captured by a closure,
// or spilled because of a defer): `*r = v; ...; t = *r; return t` with both in
// one block and neither a call nor another store to the cell between them is v.
func ForwardLoad(v ssa.Value) ssa.Value {
	ld, ok := v.(*ssa.UnOp)
	if !ok || ld.Op != token.MUL {
		return v
	}
	cell, ok := ld.X.(*ssa.Alloc)
	if !ok {
		return v
	}
	b := ld.Block()
	at := -1
	for i, ins := range b.Instrs {
		if ins == ssa.Instruction(ld) {
			at = i
		}
	}
	for i := at - 1; i >= 0; i-- {
		switch x := b.Instrs[i].(type) {
		case *ssa.Store:
			if x.Addr == ssa.Value(cell) {
				return x.Val
			}
			if _, isAlloc := x.Addr.(*ssa.Alloc); !isAlloc {
				if _, isFA := x.Addr.(*ssa.FieldAddr); !isFA {
					if _, isIA := x.Addr.(*ssa.IndexAddr); !isIA {
						return v
					}
				}
			}
		case ssa.CallInstruction:
			return v
		}
	}
	return v
}

// structCellValue: cell a holds a struct that is written exactly once, as a whole, before the load at `use`,
// and is otherwise only read field by field (never addressed, passed on or captured): the stored struct value.
func structCellValue(a *ssa.Alloc, use *ssa.UnOp) ssa.Value {
	if a.Referrers() == nil {
		return nil
	}
	var st *ssa.Store
	for _, r := range *a.Referrers() {
		switch x := r.(type) {
		case *ssa.Store:
			if x.Addr != ssa.Value(a) || st != nil {
				return nil
			}
			st = x
		case *ssa.FieldAddr:
			if x.Referrers() == nil {
				continue
			}
			for _, r2 := range *x.Referrers() {
				switch y := r2.(type) {
				case *ssa.UnOp:
					if y.Op != token.MUL {
						return nil
					}
				case *ssa.DebugRef:
				default:
					return nil
				}
			}
		case *ssa.UnOp, *ssa.DebugRef:
		default:
			return nil
		}
	}
	if st == nil || !Before(st, use) {
		return nil
	}
	return st.Val
}
