package ir

import (
	"go/ast"
	"go/token"
	"go/types"
	"os"
	"sort"
	"strings"

	"golang.org/x/tools/go/packages"
)

// Bound-method values written back as closures.
//
// Many rules anchor on "the closure the node store sends on the queue" and read what it captured. A maintainer who
// turns such a closure into a small struct with a run method and sends the method value —
//
//	w := &queuedWrite{ctx: ctx, persist: persist, name: hash, ...}
//	storeQ <- w.run
//
// changes nothing about the program: the struct holds what the closure captured, the method body is the closure body
// with `w.f` where the captured variable was read. Instead of teaching every rule to look through the synthetic
// bound-method wrapper and the struct's fields, the loader presents the program with the closure written back (same
// approach as predicate inlining, see inline.go): the literal becomes one fresh local per field (assigned once, in
// the literal's order), and `w.run` becomes a function literal with the method's signature and body, each `w.f`
// replaced by the local of f.
//
// The rewrite is exact, and only done, when
//   - x is declared by `x := &T{k: e, ...}` (keyed, T a struct type of the same package) and its ONLY other occurrence
//     is the method value `x.m` (not called): the struct is reachable through the bound receiver alone;
//   - m has a named pointer receiver w and w occurs in m's body only as the operand of a direct field selection `w.f`
//     that is read (not assigned, not incremented, not addressed; no array- or struct-typed field, whose use may take
//     the address implicitly): nobody can change a field after the literal, so the value read at run time is the
//     value stored by the literal;
//   - every field read is set by the literal;
//   - every package-level / imported name of the body means the same thing at the place of `x.m`.
//
// m itself is removed when the method value was its only use (otherwise rules would see its body twice). If the
// rewritten program does not type-check (say, m lives in a file with other imports) the loader drops the rewrite and
// the original program is analysed.
func boundMethodRewrite(pkgs []*packages.Package, overlay map[string][]byte) (map[string][]byte, []string) {
	read := func(name string) []byte {
		if b, ok := overlay[name]; ok {
			return b
		}
		b, _ := os.ReadFile(name)
		return b
	}
	type edit struct {
		start, end int
		text       string
	}
	edits := map[string][]edit{}
	var log []string
	for _, p := range pkgs {
		info := p.TypesInfo
		// method declarations of the package, and how often each function object is used
		decls := map[*types.Func]*ast.FuncDecl{}
		uses := map[types.Object]int{}
		for _, f := range p.Syntax {
			for _, d := range f.Decls {
				if fd, ok := d.(*ast.FuncDecl); ok && fd.Body != nil && fd.Recv != nil {
					if obj, _ := info.Defs[fd.Name].(*types.Func); obj != nil {
						decls[obj] = fd
					}
				}
			}
		}
		for _, obj := range info.Uses {
			uses[obj]++
		}
		removed := map[*ast.FuncDecl]bool{}
		for _, f := range p.Syntax {
			tf := p.Fset.File(f.Pos())
			if tf == nil || strings.HasSuffix(tf.Name(), "_test.go") {
				continue
			}
			for _, d := range f.Decls {
				fd, ok := d.(*ast.FuncDecl)
				if !ok || fd.Body == nil {
					continue
				}
				// parents, for "is this selector called / assigned / addressed"
				parent := map[ast.Node]ast.Node{}
				var stack []ast.Node
				ast.Inspect(fd, func(n ast.Node) bool {
					if n == nil {
						stack = stack[:len(stack)-1]
						return true
					}
					if len(stack) > 0 {
						parent[n] = stack[len(stack)-1]
					}
					stack = append(stack, n)
					return true
				})
				names := map[string]bool{}
				ast.Inspect(fd, func(n ast.Node) bool {
					if id, ok := n.(*ast.Ident); ok {
						names[id.Name] = true
					}
					return true
				})
				// locals of fd that are never written after their definition: reading one later reads what the literal read.
				// (written: assigned, incremented, a range variable; or its address is taken other than to be stored
				// in a variable/field while the package has no store through a pointer of that type at all)
				written := map[types.Object]bool{}
				markW := func(e ast.Expr, define bool) {
					if id, ok := ast.Unparen(e).(*ast.Ident); ok {
						if obj := info.Uses[id]; obj != nil {
							written[obj] = true
						}
					}
				}
				ast.Inspect(fd, func(n ast.Node) bool {
					switch x := n.(type) {
					case *ast.AssignStmt:
						for _, l := range x.Lhs {
							markW(l, x.Tok == token.DEFINE)
						}
					case *ast.IncDecStmt:
						markW(x.X, false)
					case *ast.RangeStmt:
						if x.Key != nil {
							markW(x.Key, false)
						}
						if x.Value != nil {
							markW(x.Value, false)
						}
					case *ast.UnaryExpr:
						if x.Op != token.AND {
							break
						}
						id, ok := ast.Unparen(x.X).(*ast.Ident)
						if !ok {
							break
						}
						obj := info.Uses[id]
						if obj == nil {
							break
						}
						stored := false
						switch u := parent[x].(type) {
						case *ast.AssignStmt:
							for _, r := range u.Rhs {
								if r == ast.Expr(x) {
									stored = true
								}
							}
						case *ast.KeyValueExpr:
							stored = u.Value == ast.Expr(x)
						}
						if !stored || derefStored(p, obj.Type()) {
							written[obj] = true
						}
					}
					return true
				})
				standsForItself := func(e ast.Expr) bool {
					id, ok := ast.Unparen(e).(*ast.Ident)
					if !ok {
						return false
					}
					v, ok := info.Uses[id].(*types.Var)
					if !ok || v.IsField() || written[v] || v.Pkg() != p.Types || v.Parent() == nil || v.Parent() == p.Types.Scope() {
						return false
					}
					if !(v.Pos() >= fd.Pos() && v.Pos() < fd.End()) {
						return false
					}
					switch types.Unalias(v.Type()).Underlying().(type) {
					case *types.Struct, *types.Array:
						return false // (a method call or slicing may take the address implicitly)
					}
					return true
				}
				var assigns []*ast.AssignStmt
				ast.Inspect(fd.Body, func(n ast.Node) bool {
					if as, ok := n.(*ast.AssignStmt); ok && as.Tok == token.DEFINE && len(as.Lhs) == 1 && len(as.Rhs) == 1 {
						assigns = append(assigns, as)
					}
					return true
				})
				for _, as := range assigns {
					x, ok := as.Lhs[0].(*ast.Ident)
					if !ok || x.Name == "_" {
						continue
					}
					xobj, _ := info.Defs[x].(*types.Var)
					if xobj == nil {
						continue
					}
					rhs0 := ast.Unparen(as.Rhs[0])
					if un, isUn := rhs0.(*ast.UnaryExpr); isUn && un.Op == token.AND {
						rhs0 = ast.Unparen(un.X)
					}
					lit, ok := rhs0.(*ast.CompositeLit)
					if !ok {
						continue
					}
					named, _ := types.Unalias(info.TypeOf(lit)).(*types.Named)
					if named == nil || named.Obj().Pkg() != p.Types || named.TypeArgs().Len() > 0 {
						continue
					}
					if _, isStruct := named.Underlying().(*types.Struct); !isStruct {
						continue
					}
					type fieldInit struct {
						name string
						val  ast.Expr
					}
					var inits []fieldInit
					set := map[string]bool{}
					keyed := true
					for _, el := range lit.Elts {
						kv, ok := el.(*ast.KeyValueExpr)
						if !ok {
							keyed = false
							break
						}
						k, ok := kv.Key.(*ast.Ident)
						if !ok || set[k.Name] {
							keyed = false
							break
						}
						set[k.Name] = true
						inits = append(inits, fieldInit{k.Name, kv.Value})
					}
					if !keyed || len(inits) == 0 {
						continue
					}
					// the only other occurrence of x: the method value x.m
					var useIDs []*ast.Ident
					ast.Inspect(fd.Body, func(n ast.Node) bool {
						if id, ok := n.(*ast.Ident); ok && info.Uses[id] == types.Object(xobj) {
							useIDs = append(useIDs, id)
						}
						return true
					})
					if len(useIDs) != 1 {
						continue
					}
					sel, ok := parent[useIDs[0]].(*ast.SelectorExpr)
					if !ok || sel.X != ast.Expr(useIDs[0]) {
						continue
					}
					sn := info.Selections[sel]
					if sn == nil || sn.Kind() != types.MethodVal || len(sn.Index()) != 1 {
						continue
					}
					up := parent[sel]
					for {
						pe, isParen := up.(*ast.ParenExpr)
						if !isParen {
							break
						}
						up = parent[pe]
					}
					if ce, isCall := up.(*ast.CallExpr); isCall && ast.Unparen(ce.Fun) == ast.Expr(sel) {
						continue // a call, not a method value
					}
					m, _ := sn.Obj().(*types.Func)
					md := decls[m]
					if m == nil || md == nil || md == fd || removed[md] || m.Pkg() != p.Types {
						continue
					}
					msig := m.Type().(*types.Signature)
					if msig.Recv() == nil {
						continue
					}
					rt := types.Unalias(msig.Recv().Type())
					if rp, isPtr := rt.(*types.Pointer); isPtr {
						rt = types.Unalias(rp.Elem())
					}
					if rt != types.Type(named) {
						continue
					}
					if len(md.Recv.List) != 1 || len(md.Recv.List[0].Names) != 1 || md.Recv.List[0].Names[0].Name == "_" {
						continue
					}
					wobj, _ := info.Defs[md.Recv.List[0].Names[0]].(*types.Var)
					if wobj == nil {
						continue
					}
					mf := p.Fset.File(md.Pos())
					if mf == nil {
						continue
					}
					msrc := read(mf.Name())
					// parents inside the method
					mparent := map[ast.Node]ast.Node{}
					stack = stack[:0]
					ast.Inspect(md, func(n ast.Node) bool {
						if n == nil {
							stack = stack[:len(stack)-1]
							return true
						}
						if len(stack) > 0 {
							mparent[n] = stack[len(stack)-1]
						}
						stack = append(stack, n)
						return true
					})
					direct := map[string]string{}
					for _, fi := range inits {
						if standsForItself(fi.val) && fieldTypeIs(named, fi.name, info.TypeOf(fi.val)) {
							direct[fi.name] = ast.Unparen(fi.val).(*ast.Ident).Name
						}
					}
					tmp := func(field string) string {
						if d, ok := direct[field]; ok {
							return d
						}
						return "bm۰" + x.Name + "۰" + field
					}
					ok = true
					type rep struct {
						s, e int
						t    string
					}
					var reps []rep
					readFields := map[string]bool{}
					base := mf.Offset(md.Body.Pos())
					at := useIDs[0].Pos()
					inner := p.Types.Scope().Innermost(at)
					ast.Inspect(md.Body, func(n ast.Node) bool {
						id, isID := n.(*ast.Ident)
						if !isID || !ok {
							return ok
						}
						if strings.HasPrefix(id.Name, "bm۰") {
							ok = false
							return false
						}
						obj := info.Uses[id]
						if obj == nil {
							return true
						}
						if obj == types.Object(wobj) {
							fs, isSel := mparent[id].(*ast.SelectorExpr)
							if !isSel || fs.X != ast.Expr(id) {
								ok = false
								return false
							}
							fsn := info.Selections[fs]
							if fsn == nil || fsn.Kind() != types.FieldVal || len(fsn.Index()) != 1 || !set[fs.Sel.Name] {
								ok = false
								return false
							}
							switch types.Unalias(fsn.Type()).Underlying().(type) {
							case *types.Array, *types.Struct:
								ok = false
								return false
							}
							var cur ast.Node = fs
							up := mparent[cur]
							for {
								pe, isParen := up.(*ast.ParenExpr)
								if !isParen {
									break
								}
								cur, up = pe, mparent[pe]
							}
							switch u := up.(type) {
							case *ast.UnaryExpr:
								if u.Op == token.AND {
									ok = false
								}
							case *ast.IncDecStmt:
								ok = false
							case *ast.AssignStmt:
								for _, l := range u.Lhs {
									if l == cur.(ast.Expr) {
										ok = false
									}
								}
							case *ast.RangeStmt:
								if u.Key == cur.(ast.Expr) || u.Value == cur.(ast.Expr) {
									ok = false
								}
							}
							if !ok {
								return false
							}
							readFields[fs.Sel.Name] = true
							reps = append(reps, rep{mf.Offset(fs.Pos()) - base, mf.Offset(fs.End()) - base, tmp(fs.Sel.Name)})
							return true
						}
						// a name of the package, the universe or an import: the same thing at the place of x.m
						if ps, isSel := mparent[id].(*ast.SelectorExpr); (isSel && ps.Sel == id) || obj.Parent() == nil {
							return true // the selected name of a selection (field, method, qualified identifier: decided by its operand)
						}
						if obj.Pos().IsValid() && obj.Pos() >= md.Pos() && obj.Pos() < md.End() {
							return true // declared inside the method
						}
						if inner == nil {
							ok = false
							return false
						}
						_, there := inner.LookupParent(id.Name, at)
						if pn, isPkg := obj.(*types.PkgName); isPkg {
							tp, isPkg2 := there.(*types.PkgName)
							if !isPkg2 || tp.Imported() != pn.Imported() {
								ok = false
							}
						} else if there != obj {
							ok = false
						}
						return ok
					})
					if !ok || len(readFields) == 0 {
						continue
					}
					for _, fi := range inits {
						if _, isDirect := direct[fi.name]; !isDirect && names[tmp(fi.name)] {
							ok = false
						}
					}
					if !ok {
						continue
					}
					// the closure
					body := string(msrc[base:mf.Offset(md.Body.End())])
					sort.Slice(reps, func(i, j int) bool { return reps[i].s > reps[j].s })
					for _, r := range reps {
						body = body[:r.s] + r.t + body[r.e:]
					}
					sigText := string(msrc[mf.Offset(md.Type.Params.Pos()):mf.Offset(md.Type.End())])
					closure := "func" + sigText + " " + body
					// the locals, in the literal's order
					src := read(tf.Name())
					var lhs, rhs []string
					for _, fi := range inits {
						if _, isDirect := direct[fi.name]; isDirect {
							continue // (reading a variable has no effect: nothing to evaluate at the literal)
						}
						if readFields[fi.name] {
							lhs = append(lhs, tmp(fi.name))
						} else {
							lhs = append(lhs, "_")
						}
						// the field's declared type: an untyped constant or nil must not change type
						ft := ""
						st := named.Underlying().(*types.Struct)
						for i := 0; i < st.NumFields(); i++ {
							if st.Field(i).Name() == fi.name {
								ft = types.TypeString(st.Field(i).Type(), func(q *types.Package) string {
									if q == p.Types {
										return ""
									}
									return q.Name()
								})
							}
						}
						val := strings.ReplaceAll(string(src[tf.Offset(fi.val.Pos()):tf.Offset(fi.val.End())]), "\n", " ")
						if tv, has := info.Types[fi.val]; !has || ft == "" {
							ok = false
						} else if tv.IsNil() || tv.Value != nil || !fieldTypeIs(named, fi.name, tv.Type) {
							val = "(" + ft + ")(" + val + ")"
						}
						rhs = append(rhs, val)
					}
					if !ok {
						continue
					}
					allBlank := true
					for _, l := range lhs {
						if l != "_" {
							allBlank = false
						}
					}
					tok := " := "
					if allBlank {
						tok = " = "
					}
					decl := strings.Join(lhs, ", ") + tok + strings.Join(rhs, ", ")
					if len(lhs) == 0 {
						decl = ""
					}
					edits[tf.Name()] = append(edits[tf.Name()],
						edit{tf.Offset(as.Pos()), tf.Offset(as.End()), decl},
						edit{tf.Offset(sel.Pos()), tf.Offset(sel.End()), closure})
					if uses[m] == 1 {
						removed[md] = true
						s := md.Pos()
						if md.Doc != nil {
							s = md.Doc.Pos()
						}
						edits[mf.Name()] = append(edits[mf.Name()], edit{mf.Offset(s), mf.Offset(md.End()), ""})
					}
					log = append(log, "method value "+x.Name+"."+m.Name()+" in "+fd.Name.Name+" (as a closure)")
				}
			}
		}
	}
	if len(edits) == 0 {
		return nil, nil
	}
	out := map[string][]byte{}
	for k, v := range overlay {
		out[k] = v
	}
	for name, es := range edits {
		src := read(name)
		sort.Slice(es, func(i, j int) bool { return es[i].start > es[j].start })
		last := len(src) + 1
		for _, e := range es {
			if e.end > last {
				return nil, nil // overlapping edits: leave the program as it is
			}
			src = append(append(append([]byte(nil), src[:e.start]...), e.text...), src[e.end:]...)
			last = e.start
		}
		out[name] = src
	}
	sort.Strings(log)
	return out, log
}

// fieldTypeIs: field `name` of struct type T has exactly type t.
func fieldTypeIs(T *types.Named, name string, t types.Type) bool {
	st, ok := T.Underlying().(*types.Struct)
	if !ok {
		return false
	}
	for i := 0; i < st.NumFields(); i++ {
		if st.Field(i).Name() == name {
			return types.Identical(st.Field(i).Type(), t)
		}
	}
	return false
}

// derefStored: some statement of package p stores through a pointer to a value of type t (`*q = v`, `*q++`).
func derefStored(p *packages.Package, t types.Type) bool {
	found := false
	for _, f := range p.Syntax {
		ast.Inspect(f, func(n ast.Node) bool {
			var lhs []ast.Expr
			switch x := n.(type) {
			case *ast.AssignStmt:
				lhs = x.Lhs
			case *ast.IncDecStmt:
				lhs = []ast.Expr{x.X}
			}
			for _, l := range lhs {
				if st, ok := ast.Unparen(l).(*ast.StarExpr); ok {
					if pt, ok := types.Unalias(p.TypesInfo.TypeOf(st.X)).Underlying().(*types.Pointer); ok && types.Identical(pt.Elem(), t) {
						found = true
					}
				}
			}
			return !found
		})
	}
	return found
}
