package ir

import (
	"go/ast"
	"go/token"
	"go/types"
	"os"
	"sort"
	"strings"

	"golang.org/x/tools/go/packages"
	"golang.org/x/tools/go/types/typeutil"
)

// Predicate inlining.
//
// Many rules read branch conditions: "the pop is reached only where position+1 < len(node.Key) is false", "the link
// stepped over was found nil". A maintainer who gives such a condition a name — hasKeyAfter(pe), hasChildAt(node, i),
// it.isLink(), countsFit(k, v, l) — changes nothing about the program, but the condition now sits in another
// function, in terms of that function's parameters. Instead of teaching every rule to look through such helpers, the
// loader presents the program with them written back where they are used: a call of an unexported function of the
// repository whose whole body is `return <expr>` with <expr> a side-effect-free boolean expression over its
// parameters (field selections, indexing, len/cap, comparisons, arithmetic, && || !; also a one-expression helper of
// any result type, such as `wrap(op, err)` = fmt.Errorf("%s: %w", op, err)) and whose arguments are side-effect free
// as well is replaced by that expression. The replacement is done on the source text through the
// loader's overlay and type-checked again; if the rewritten program does not type-check, the original is analysed.
// The helper itself stays in the program. Functions that rules anchor on by name are exempt.

var inlineExempt = map[string]bool{"isEmpty": true}

// InlineLog lists the rewrites of the last Load (for the evidence).
var InlineLog []string

// InlinedSetters names the pure setter functions whose calls were written back as assignments at their call sites in
// the last Load: what they store is judged there, with the caller's expressions.
var InlinedSetters = map[string]bool{}

type inlineCand struct {
	fn     *types.Func
	decl   *ast.FuncDecl
	expr   ast.Expr
	file   *token.File
	src    []byte
	params []string // receiver first (if any), then parameters
	isCall bool     // a thin wrapper: the expression is one call with side-effect-free operands
}

// thinCall: e is a single call whose function operand and arguments are side-effect free (`return persist.Store(ctx,
// name, encoded)`, `return m.load(ctx, link)`). With side-effect-free arguments at the call site, writing the call back
// there evaluates exactly what the wrapper evaluated, in the same order: the one effect is the wrapped call itself.
func thinCall(e ast.Expr, info *types.Info, cands map[*types.Func]*inlineCand) bool {
	ce, ok := ast.Unparen(e).(*ast.CallExpr)
	if !ok || ce.Ellipsis.IsValid() {
		return false
	}
	if tv, has := info.Types[ce.Fun]; has && (tv.IsType() || tv.IsBuiltin()) {
		return false
	}
	switch f := ast.Unparen(ce.Fun).(type) {
	case *ast.Ident:
	case *ast.SelectorExpr:
		if !pureExpr(f.X, info, cands, false) {
			return false
		}
	default:
		return false
	}
	for _, a := range ce.Args {
		if !pureExpr(a, info, cands, false) {
			return false
		}
	}
	return true
}

func pureExpr(e ast.Expr, info *types.Info, cands map[*types.Func]*inlineCand, allowCand bool) bool {
	ok := true
	ast.Inspect(e, func(n ast.Node) bool {
		if !ok {
			return false
		}
		switch x := n.(type) {
		case nil:
			return false
		case *ast.Ident, *ast.BasicLit, *ast.SelectorExpr, *ast.IndexExpr, *ast.ParenExpr, *ast.BinaryExpr, *ast.StarExpr:
			return true
		case *ast.UnaryExpr:
			if x.Op == token.ARROW {
				ok = false
			}
			return ok
		case *ast.CallExpr:
			if id, isId := ast.Unparen(x.Fun).(*ast.Ident); isId {
				if b, isB := info.Uses[id].(*types.Builtin); isB && (b.Name() == "len" || b.Name() == "cap") {
					return true
				}
			}
			// constructors of errors and strings: no effect beyond their result
			if sel, isSel := ast.Unparen(x.Fun).(*ast.SelectorExpr); isSel {
				if f, _ := info.Uses[sel.Sel].(*types.Func); f != nil && f.Pkg() != nil {
					switch f.Pkg().Path() + "." + f.Name() {
					case "fmt.Errorf", "errors.New", "fmt.Sprintf":
						return true
					}
				}
			}
			// a conversion to a basic type
			if tv, has := info.Types[x.Fun]; has && tv.IsType() {
				if _, basic := tv.Type.Underlying().(*types.Basic); basic {
					return true
				}
			}
			if allowCand {
				if f, _ := typeutil.Callee(info, x).(*types.Func); f != nil && cands[f] != nil {
					return true
				}
			}
			ok = false
			return false
		default:
			ok = false
			return false
		}
	})
	return ok
}

// inlineRewrite computes the overlay with predicate helpers written back at their call sites. nil if nothing to do.
func inlineRewrite(pkgs []*packages.Package, overlay map[string][]byte) (map[string][]byte, []string) {
	read := func(name string) []byte {
		if b, ok := overlay[name]; ok {
			return b
		}
		b, _ := os.ReadFile(name)
		return b
	}
	cands := map[*types.Func]*inlineCand{}
	for _, p := range pkgs {
		for _, f := range p.Syntax {
			tf := p.Fset.File(f.Pos())
			if tf == nil || strings.HasSuffix(tf.Name(), "_test.go") {
				continue
			}
			for _, d := range f.Decls {
				fd, ok := d.(*ast.FuncDecl)
				if !ok || fd.Body == nil || len(fd.Body.List) != 1 || fd.Name.IsExported() || inlineExempt[fd.Name.Name] {
					continue
				}
				// (a generic helper is fine as long as its expression does not mention its type parameters: checked
				// by the type-check of the rewritten program)
				ret, ok := fd.Body.List[0].(*ast.ReturnStmt)
				if !ok || len(ret.Results) != 1 {
					continue
				}
				obj, _ := p.TypesInfo.Defs[fd.Name].(*types.Func)
				if obj == nil {
					continue
				}
				sig := obj.Type().(*types.Signature)
				if sig.Results().Len() < 1 || sig.Variadic() {
					continue
				}
				if _, isCall := ast.Unparen(ret.Results[0]).(*ast.CallExpr); sig.Results().Len() != 1 && !isCall {
					continue
				}
				// (predicates first of all; the same treatment serves any one-expression helper: `wrap(op, err)` =
				// fmt.Errorf("%s: %w", op, err), a unit conversion, an accessor expression)
				var params []string
				named := true
				if fd.Recv != nil {
					if len(fd.Recv.List) != 1 || len(fd.Recv.List[0].Names) != 1 || fd.Recv.List[0].Names[0].Name == "_" {
						continue
					}
					params = append(params, fd.Recv.List[0].Names[0].Name)
				}
				for _, fl := range fd.Type.Params.List {
					if len(fl.Names) == 0 {
						named = false
					}
					for _, n := range fl.Names {
						if n.Name == "_" {
							named = false
						}
						params = append(params, n.Name)
					}
				}
				if !named {
					continue
				}
				cands[obj] = &inlineCand{fn: obj, decl: fd, expr: ret.Results[0], file: tf, params: params}
			}
		}
	}
	// purity (a predicate may use other predicates; those are inlined on a later pass)
	for f, c := range cands {
		var info *types.Info
		for _, p := range pkgs {
			if p.Types == f.Pkg() {
				info = p.TypesInfo
			}
		}
		if info == nil {
			delete(cands, f)
		} else if !pureExpr(c.expr, info, cands, true) {
			if thinCall(c.expr, info, cands) {
				c.isCall = true
			} else {
				delete(cands, f)
			}
		}
	}
	if len(cands) == 0 {
		return nil, nil
	}
	for _, c := range cands {
		c.src = read(c.file.Name())
	}
	type edit struct {
		start, end int
		text       string
	}
	edits := map[string][]edit{}
	var log []string
	for _, p := range pkgs {
		info := p.TypesInfo
		for _, f := range p.Syntax {
			tf := p.Fset.File(f.Pos())
			if tf == nil || strings.HasSuffix(tf.Name(), "_test.go") {
				continue
			}
			src := read(tf.Name())
			text := func(n ast.Node) string { return string(src[tf.Offset(n.Pos()):tf.Offset(n.End())]) }
			for _, d := range f.Decls {
				fd, ok := d.(*ast.FuncDecl)
				if !ok || fd.Body == nil {
					continue
				}
				// names declared inside the caller (a free name of the predicate must not be captured by one of them)
				declared := map[string]bool{}
				ast.Inspect(fd, func(n ast.Node) bool {
					if id, ok := n.(*ast.Ident); ok {
						if _, isDef := info.Defs[id]; isDef {
							declared[id.Name] = true
						}
					}
					return true
				})
				var calls []*ast.CallExpr
				ast.Inspect(fd.Body, func(n ast.Node) bool {
					if ce, ok := n.(*ast.CallExpr); ok {
						calls = append(calls, ce)
					}
					return true
				})
				for _, ce := range calls {
					callee, _ := typeutil.Callee(info, ce).(*types.Func)
					c := cands[callee]
					if c == nil || c.decl == fd {
						continue
					}
					// an outer call whose arguments contain another candidate call waits for the next pass
					nested := false
					for _, other := range calls {
						if other != ce && other.Pos() >= ce.Pos() && other.End() <= ce.End() {
							if oc, _ := typeutil.Callee(info, other).(*types.Func); oc != nil && cands[oc] != nil {
								nested = true
							}
						}
					}
					if nested {
						continue
					}
					var args []ast.Expr
					if c.decl.Recv != nil {
						sel, ok := ast.Unparen(ce.Fun).(*ast.SelectorExpr)
						if !ok {
							continue
						}
						args = append(args, sel.X)
					}
					args = append(args, ce.Args...)
					if len(args) != len(c.params) || ce.Ellipsis.IsValid() {
						continue
					}
					okArgs := true
					for _, a := range args {
						if !pureExpr(a, info, nil, false) {
							okArgs = false
						}
					}
					if !okArgs {
						continue
					}
					// substitute
					var calleeInfo *types.Info
					for _, q := range pkgs {
						if q.Types == callee.Pkg() {
							calleeInfo = q.TypesInfo
						}
					}
					if calleeInfo == nil || callee.Pkg() != p.Types {
						continue // (a predicate of another package would need qualified names)
					}
					type rep struct {
						s, e int
						t    string
					}
					var reps []rep
					captured := false
					base := c.file.Offset(c.expr.Pos())
					ast.Inspect(c.expr, func(n ast.Node) bool {
						if sel, ok := n.(*ast.SelectorExpr); ok {
							// only the operand of a selection can be a parameter
							ast.Inspect(sel.X, func(m ast.Node) bool { return true })
						}
						id, ok := n.(*ast.Ident)
						if !ok {
							return true
						}
						obj := calleeInfo.Uses[id]
						if v, isVar := obj.(*types.Var); isVar && !v.IsField() && v.Parent() != nil && v.Parent() != callee.Pkg().Scope() {
							for i, pn := range c.params {
								if pn == id.Name {
									reps = append(reps, rep{c.file.Offset(id.Pos()) - base, c.file.Offset(id.End()) - base, "(" + strings.ReplaceAll(text(args[i]), "\n", " ") + ")"})
								}
							}
							return true
						}
						if obj != nil && obj.Parent() == callee.Pkg().Scope() && declared[id.Name] {
							captured = true // a package-level name of the predicate is shadowed in the caller
						}
						return true
					})
					if captured {
						continue
					}
					body := string(c.src[base:c.file.Offset(c.expr.End())])
					sort.Slice(reps, func(i, j int) bool { return reps[i].s > reps[j].s })
					for _, r := range reps {
						body = body[:r.s] + r.t + body[r.e:]
					}
					if c.isCall {
						body = strings.ReplaceAll(body, "\n", " ") // (a call needs no parentheses, and `defer (f())` would not compile)
					} else {
						body = "(" + strings.ReplaceAll(body, "\n", " ") + ")"
					}
					edits[tf.Name()] = append(edits[tf.Name()], edit{tf.Offset(ce.Pos()), tf.Offset(ce.End()), body})
					log = append(log, callee.Name()+" in "+fd.Name.Name)
				}
			}
		}
	}
	if len(edits) == 0 {
		return nil, nil
	}
	out := map[string][]byte{}
	for k, v := range overlay {
		out[k] = v
	}
	for name, es := range edits {
		src := read(name)
		sort.Slice(es, func(i, j int) bool { return es[i].start > es[j].start })
		last := len(src) + 1
		for _, e := range es {
			if e.end > last {
				continue // overlapping (nested) edit: next pass
			}
			src = append(append(append([]byte(nil), src[:e.start]...), e.text...), src[e.end:]...)
			last = e.start
		}
		out[name] = src
	}
	sort.Strings(log)
	return out, log
}

// Setter inlining: `m.setHeight(h, s, g)` where setHeight is nothing but `m.height = h; m.shrinkBelowSize = s;
// m.growAfterSize = g` is written back as the parallel assignment `m.height, m.shrinkBelowSize, m.growAfterSize = h, s, g`
// (all right-hand sides evaluated first, exactly as the call evaluates its arguments first), so that rules which read
// what is stored into those fields see the caller's expressions rather than a parameter.
func setterRewrite(pkgs []*packages.Package, overlay map[string][]byte) (map[string][]byte, []string) {
	read := func(name string) []byte {
		if b, ok := overlay[name]; ok {
			return b
		}
		b, _ := os.ReadFile(name)
		return b
	}
	type setter struct {
		params []string // receiver first
		lhsX   []int    // index into params of the assigned object
		field  []string
		rhs    []int // index into params of the stored parameter
		recv   bool
	}
	cands := map[*types.Func]*setter{}
	for _, p := range pkgs {
		for _, f := range p.Syntax {
			tf := p.Fset.File(f.Pos())
			if tf == nil || strings.HasSuffix(tf.Name(), "_test.go") {
				continue
			}
			for _, d := range f.Decls {
				fd, ok := d.(*ast.FuncDecl)
				if !ok || fd.Body == nil || len(fd.Body.List) == 0 || fd.Name.IsExported() || fd.Type.TypeParams != nil || (fd.Type.Results != nil && len(fd.Type.Results.List) > 0) {
					continue
				}
				obj, _ := p.TypesInfo.Defs[fd.Name].(*types.Func)
				if obj == nil || obj.Type().(*types.Signature).Variadic() {
					continue
				}
				st := &setter{recv: fd.Recv != nil}
				okDecl := true
				if fd.Recv != nil {
					if len(fd.Recv.List) != 1 || len(fd.Recv.List[0].Names) != 1 {
						continue
					}
					st.params = append(st.params, fd.Recv.List[0].Names[0].Name)
				}
				for _, fl := range fd.Type.Params.List {
					if len(fl.Names) == 0 {
						okDecl = false
					}
					for _, n := range fl.Names {
						st.params = append(st.params, n.Name)
					}
				}
				idx := func(name string) int {
					for i, pn := range st.params {
						if pn == name && name != "_" {
							return i
						}
					}
					return -1
				}
				for _, s := range fd.Body.List {
					as, ok := s.(*ast.AssignStmt)
					if !ok || as.Tok != token.ASSIGN || len(as.Lhs) != 1 || len(as.Rhs) != 1 {
						okDecl = false
						break
					}
					sel, ok := as.Lhs[0].(*ast.SelectorExpr)
					if !ok {
						okDecl = false
						break
					}
					xid, ok1 := sel.X.(*ast.Ident)
					rid, ok2 := as.Rhs[0].(*ast.Ident)
					if !ok1 || !ok2 || idx(xid.Name) < 0 || idx(rid.Name) < 0 {
						okDecl = false
						break
					}
					// the assigned object is reached through a pointer (otherwise the store is into a copy)
					if tv, has := p.TypesInfo.Types[sel.X]; !has {
						okDecl = false
						break
					} else if _, isPtr := tv.Type.Underlying().(*types.Pointer); !isPtr {
						okDecl = false
						break
					}
					st.lhsX = append(st.lhsX, idx(xid.Name))
					st.field = append(st.field, sel.Sel.Name)
					st.rhs = append(st.rhs, idx(rid.Name))
				}
				if okDecl {
					cands[obj] = st
				}
			}
		}
	}
	if len(cands) == 0 {
		return nil, nil
	}
	type edit struct {
		start, end int
		text       string
	}
	edits := map[string][]edit{}
	var log []string
	for _, p := range pkgs {
		info := p.TypesInfo
		for _, f := range p.Syntax {
			tf := p.Fset.File(f.Pos())
			if tf == nil || strings.HasSuffix(tf.Name(), "_test.go") {
				continue
			}
			src := read(tf.Name())
			text := func(n ast.Node) string {
				return strings.ReplaceAll(string(src[tf.Offset(n.Pos()):tf.Offset(n.End())]), "\n", " ")
			}
			ast.Inspect(f, func(n ast.Node) bool {
				es, ok := n.(*ast.ExprStmt)
				if !ok {
					return true
				}
				ce, ok := es.X.(*ast.CallExpr)
				if !ok || ce.Ellipsis.IsValid() {
					return true
				}
				callee, _ := typeutil.Callee(info, ce).(*types.Func)
				st := cands[callee]
				if st == nil || callee.Pkg() != p.Types {
					return true
				}
				var args []ast.Expr
				if st.recv {
					sel, ok := ast.Unparen(ce.Fun).(*ast.SelectorExpr)
					if !ok {
						return true
					}
					args = append(args, sel.X)
				}
				args = append(args, ce.Args...)
				if len(args) != len(st.params) {
					return true
				}
				for _, a := range args {
					if !pureExpr(a, info, nil, false) {
						return true
					}
				}
				// a receiver given as a value (`m.set(..)` with m addressable) is taken by address by the call
				var lhs, rhs []string
				for i := range st.field {
					lhs = append(lhs, "("+text(args[st.lhsX[i]])+")."+st.field[i])
					rhs = append(rhs, "("+text(args[st.rhs[i]])+")")
				}
				edits[tf.Name()] = append(edits[tf.Name()], edit{tf.Offset(es.Pos()), tf.Offset(es.End()), strings.Join(lhs, ", ") + " = " + strings.Join(rhs, ", ")})
				log = append(log, callee.Name()+" (setter)")
				InlinedSetters[callee.FullName()] = true
				return true
			})
		}
	}
	if len(edits) == 0 {
		return nil, nil
	}
	out := map[string][]byte{}
	for k, v := range overlay {
		out[k] = v
	}
	for name, es := range edits {
		src := read(name)
		sort.Slice(es, func(i, j int) bool { return es[i].start > es[j].start })
		for _, e := range es {
			src = append(append(append([]byte(nil), src[:e.start]...), e.text...), src[e.end:]...)
		}
		out[name] = src
	}
	sort.Strings(log)
	return out, log
}
