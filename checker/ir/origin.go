package ir

import (
	"go/token"

	"golang.org/x/tools/go/ssa"
)

// BindingOf returns the value bound to free variable fv where its closure is
// created (nil if the closure is created at more than one site).
func BindingOf(fv *ssa.FreeVar) ssa.Value {
	fn := fv.Parent()
	idx := -1
	for i, f := range fn.FreeVars {
		if f == fv {
			idx = i
		}
	}
	par := fn.Parent()
	if par == nil || idx < 0 {
		return nil
	}
	var found ssa.Value
	n := 0
	for _, b := range par.Blocks {
		for _, ins := range b.Instrs {
			if mc, ok := ins.(*ssa.MakeClosure); ok && mc.Fn == fn && idx < len(mc.Bindings) {
				found = mc.Bindings[idx]
				n++
			}
		}
	}
	if n != 1 {
		return nil
	}
	return found
}

// Origin follows a value out of closures: free variables are replaced by what
// is bound to them, single-store cells by the stored value. The result is a
// value of the outermost function that defines it (an Alloc for variables
// that are assigned more than once).
func Origin(v ssa.Value) ssa.Value {
	for i := 0; i < 16; i++ {
		switch x := v.(type) {
		case *ssa.FreeVar:
			b := BindingOf(x)
			if b == nil {
				return v
			}
			v = b
			continue
		case *ssa.UnOp:
			if x.Op != token.MUL {
				return v
			}
			cell := Origin(x.X)
			if a, ok := cell.(*ssa.Alloc); ok {
				if st := OnlyStoreAnywhere(a); st != nil {
					v = st.Val
					continue
				}
			}
			return v
		case *ssa.MakeInterface:
			v = x.X
			continue
		case *ssa.ChangeInterface:
			v = x.X
			continue
		case *ssa.ChangeType:
			v = x.X
			continue
		}
		return v
	}
	return v
}

// CellOf: if v is (a load of) a local variable cell — possibly seen from a
// closure through a free variable — return the cell's Alloc.
func CellOf(v ssa.Value) *ssa.Alloc {
	v = Strip(v)
	if u, ok := v.(*ssa.UnOp); ok && u.Op == token.MUL {
		v = u.X
	}
	for i := 0; i < 8; i++ {
		switch x := v.(type) {
		case *ssa.Alloc:
			return x
		case *ssa.FreeVar:
			b := BindingOf(x)
			if b == nil {
				return nil
			}
			v = b
		default:
			return nil
		}
	}
	return nil
}

// AllCellStores lists the stores into cell a from its function and from all
// closures capturing it; escapes reports any other use of the address.
func AllCellStores(a *ssa.Alloc) (stores []*ssa.Store, escapes bool) {
	var visit func(cell ssa.Value, fn *ssa.Function)
	visit = func(cell ssa.Value, fn *ssa.Function) {
		refs := cell.Referrers()
		if refs != nil {
			for _, r := range *refs {
				switch y := r.(type) {
				case *ssa.Store:
					if y.Addr == cell {
						stores = append(stores, y)
					} else {
						escapes = true
					}
				case *ssa.UnOp, *ssa.DebugRef, *ssa.FieldAddr, *ssa.IndexAddr:
				case *ssa.MakeClosure:
					cf := y.Fn.(*ssa.Function)
					for i, bv := range y.Bindings {
						if bv == cell {
							visit(cf.FreeVars[i], cf)
						}
					}
				case ssa.CallInstruction:
					// method call on the address (wg.Add, mu.Lock): not a store
					com := y.Common()
					if len(com.Args) > 0 && com.Args[0] == cell && com.StaticCallee() != nil && com.StaticCallee().Signature.Recv() != nil {
						continue
					}
					escapes = true
				default:
					escapes = true
				}
			}
		}
	}
	visit(a, a.Parent())
	return
}

// OnlyStoreAnywhere returns the single store into cell a counting closures.
func OnlyStoreAnywhere(a *ssa.Alloc) *ssa.Store {
	st, esc := AllCellStores(a)
	if esc || len(st) != 1 {
		return nil
	}
	return st[0]
}

// SameOrigin reports whether two values denote the same variable/value after
// resolving closures and cells.
func SameOrigin(a, b ssa.Value) bool {
	if a == nil || b == nil {
		return false
	}
	oa, ob := Origin(a), Origin(b)
	if oa == ob {
		return true
	}
	ca, cb := CellOf(a), CellOf(b)
	if ca != nil && ca == cb {
		return true
	}
	// both are loads of the same field path of the same origin
	if oa.Parent() != nil && oa.Parent() == ob.Parent() && Sym(oa) == Sym(ob) {
		switch oa.(type) {
		case *ssa.Call, *ssa.Phi, *ssa.Extract:
			return false
		}
		return true
	}
	return false
}

// DeadByConst reports whether block b is unreachable because a dominating
// branch tests a boolean constant (go/ssa keeps `if false` edges).
func DeadByConst(b *ssa.BasicBlock) bool {
	for _, f := range FactsAt(b) {
		if v, ok := ConstBool(f.Cond); ok && v != f.Truth {
			return true
		}
	}
	return false
}

// FlowHeld is FlowFact for facts established and released by instructions
// (lock held between Lock and Unlock): gen/kill per instruction.
func FlowHeld(use ssa.Instruction, gen, kill func(ssa.Instruction) bool) bool {
	fn := use.Parent()
	n := len(fn.Blocks)
	in := make([]bool, n)
	out := make([]bool, n)
	for i := range in {
		in[i], out[i] = true, true
	}
	in[0] = false
	transfer := func(b *ssa.BasicBlock, st bool, upto ssa.Instruction) bool {
		for _, ins := range b.Instrs {
			if ins == upto {
				break
			}
			if gen(ins) {
				st = true
			}
			if kill(ins) {
				st = false
			}
		}
		return st
	}
	for changed := true; changed; {
		changed = false
		for _, b := range fn.Blocks {
			v := b.Index != 0
			for _, p := range b.Preds {
				if !out[p.Index] {
					v = false
				}
			}
			if len(b.Preds) == 0 && b.Index != 0 {
				v = true
			}
			o := transfer(b, v, nil)
			if v != in[b.Index] || o != out[b.Index] {
				in[b.Index], out[b.Index] = v, o
				changed = true
			}
		}
	}
	return transfer(use.Block(), in[use.Block().Index], use)
}

// MustPass reports whether every path from the entry of fn to instruction
// `to` executes an instruction satisfying pred (before `to`).
func MustPass(to ssa.Instruction, pred func(ssa.Instruction) bool) bool {
	return FlowHeld(to, pred, func(ssa.Instruction) bool { return false })
}

// Callee is StaticCallee with instantiations of generic functions mapped to
// their generic origin: the rules analyse one body per source function, and
// the origin is the one listed in Program.Funcs. c is a *ssa.CallCommon or a
// ssa.CallCommon.
func Callee(c interface{}) *ssa.Function {
	var fn *ssa.Function
	switch x := c.(type) {
	case *ssa.CallCommon:
		fn = x.StaticCallee()
	case ssa.CallCommon:
		fn = x.StaticCallee()
	}
	if fn != nil && fn.Origin() != nil {
		return fn.Origin()
	}
	return fn
}
