// Package ir loads jrhy/mast from its current working tree, type-checks it,
// builds SSA, and offers the small set of program facts the rules share:
// cells, symbolic access paths, dominating branch facts, pruned reachability,
// the static call graph and per-function effect summaries.
//
// Nothing from the analysed repository is ever executed.
package ir

import (
	"fmt"
	"go/ast"
	"go/token"
	"go/types"
	"os"
	"path/filepath"
	"sort"
	"strings"

	"golang.org/x/tools/go/packages"
	"golang.org/x/tools/go/ssa"
	"golang.org/x/tools/go/ssa/ssautil"
)

const (
	MastPath = "github.com/jrhy/mast"
	FilePath = "github.com/jrhy/mast/persist/file"
	S3Path   = "github.com/jrhy/mast/persist/s3"
)

// Program is the analysed repository.
type Program struct {
	Dir   string
	Fset  *token.FileSet
	Pkgs  map[string]*packages.Package // by import path
	SSA   *ssa.Program
	SPkgs map[string]*ssa.Package
	// Funcs holds every source-level function of the three repository
	// packages, including anonymous functions, sorted by position.
	Funcs []*ssa.Function
	// Callers maps a function to the static call sites (call, go, defer)
	// that target it.
	Callers map[*ssa.Function][]ssa.CallInstruction
	// Config label ("native", "GOARCH=386", ...)
	Config string

	nInstr int
}

// Options for Load.
type Options struct {
	Dir     string            // repository root
	Overlay map[string][]byte // absolute file name -> replacement contents
	Env     []string          // extra environment (GOARCH=386 ...)
	Config  string
	// Patterns overrides the default package patterns (used for the
	// positive examples, which live in their own module).
	Patterns []string
	// MainPath overrides MastPath for positive examples.
	MainPath string
}

// Load type-checks and SSA-builds the repository. Any load or type error is
// returned: the checker fails closed.
func Load(o Options) (*Program, error) {
	env := append(os.Environ(),
		"GOFLAGS=-mod=mod", "GOPROXY=off", "GOSUMDB=off", "GOWORK=off",
		"GOTOOLCHAIN=local", "CGO_ENABLED=0")
	env = append(env, o.Env...)
	cfg := &packages.Config{
		Mode:    packages.LoadSyntax,
		Dir:     o.Dir,
		Env:     env,
		Overlay: o.Overlay,
		Tests:   false,
	}
	pats := o.Patterns
	if pats == nil {
		pats = []string{".", "./persist/file", "./persist/s3"}
	}
	pkgs, err := packages.Load(cfg, pats...)
	if err != nil {
		return nil, fmt.Errorf("packages.Load: %w", err)
	}
	if len(pkgs) == 0 {
		return nil, fmt.Errorf("no packages loaded from %s", o.Dir)
	}
	var errs []string
	for _, p := range pkgs {
		for _, e := range p.Errors {
			errs = append(errs, e.Error())
		}
		if p.Types == nil || p.TypesInfo == nil || len(p.Syntax) == 0 {
			errs = append(errs, fmt.Sprintf("package %s: no syntax/types", p.PkgPath))
		}
	}
	if len(errs) > 0 {
		return nil, fmt.Errorf("load errors: %s", strings.Join(errs, "; "))
	}
	// predicate helpers written back at their call sites (see inline.go); a rewrite that does not type-check is dropped
	InlineLog = nil
	InlinedSetters = map[string]bool{}
	if os.Getenv("MASTCHECK_NOINLINE") == "" && o.Patterns == nil {
		cur := o.Overlay
		for pass := 0; pass < 5; pass++ {
			ov, log := boundMethodRewrite(pkgs, cur)
			if ov == nil {
				ov, log = inlineRewrite(pkgs, cur)
			}
			if ov == nil {
				ov, log = setterRewrite(pkgs, cur)
			}
			if ov == nil {
				break
			}
			cfg2 := *cfg
			cfg2.Overlay = ov
			pkgs2, err2 := packages.Load(&cfg2, pats...)
			bad := err2 != nil || len(pkgs2) != len(pkgs)
			for _, p := range pkgs2 {
				if len(p.Errors) > 0 || p.Types == nil || p.TypesInfo == nil || len(p.Syntax) == 0 {
					bad = true
				}
			}
			if bad {
				InlineLog = append(InlineLog, "(a rewrite did not type-check and was dropped)")
				break
			}
			pkgs, cur = pkgs2, ov
			InlineLog = append(InlineLog, log...)
		}
	}
	prog, spkgs := ssautil.Packages(pkgs, ssa.InstantiateGenerics)
	prog.Build()
	curFset = pkgs[0].Fset
	P := &Program{
		Dir:     o.Dir,
		Fset:    pkgs[0].Fset,
		Pkgs:    map[string]*packages.Package{},
		SSA:     prog,
		SPkgs:   map[string]*ssa.Package{},
		Callers: map[*ssa.Function][]ssa.CallInstruction{},
		Config:  o.Config,
	}
	if P.Config == "" {
		P.Config = "native"
	}
	for i, p := range pkgs {
		if spkgs[i] == nil {
			return nil, fmt.Errorf("no SSA for package %s", p.PkgPath)
		}
		P.Pkgs[p.PkgPath] = p
		P.SPkgs[p.PkgPath] = spkgs[i]
	}
	if o.Patterns == nil {
		for _, need := range []string{MastPath, FilePath, S3Path} {
			if P.Pkgs[need] == nil {
				return nil, fmt.Errorf("package %s not loaded", need)
			}
		}
	}
	own := map[*ssa.Package]bool{}
	for _, sp := range P.SPkgs {
		own[sp] = true
	}
	for fn := range ssautil.AllFunctions(prog) {
		if fn.Pkg == nil || !own[fn.Pkg] || fn.Synthetic != "" || fn.Blocks == nil {
			continue
		}
		P.Funcs = append(P.Funcs, fn)
	}
	sort.Slice(P.Funcs, func(i, j int) bool {
		// by file name and offset, not by token.Pos: files are parsed in parallel and their base offsets in the
		// file set differ from run to run
		a, b := P.Funcs[i], P.Funcs[j]
		pa, pb := P.Fset.Position(a.Pos()), P.Fset.Position(b.Pos())
		if pa.Filename != pb.Filename {
			return pa.Filename < pb.Filename
		}
		if pa.Offset != pb.Offset {
			return pa.Offset < pb.Offset
		}
		return a.String() < b.String()
	})
	for _, fn := range P.Funcs {
		for _, b := range fn.Blocks {
			P.nInstr += len(b.Instrs)
			for _, ins := range b.Instrs {
				if ci, ok := ins.(ssa.CallInstruction); ok {
					if c := Callee(ci.Common()); c != nil {
						P.Callers[c] = append(P.Callers[c], ci)
					}
				}
			}
		}
	}
	return P, nil
}

// NumInstrs is the number of SSA instructions in the repository's functions.
func (P *Program) NumInstrs() int { return P.nInstr }

// Pos renders a position relative to the repository root.
func (P *Program) Pos(p token.Pos) string {
	if !p.IsValid() {
		return "?"
	}
	q := P.Fset.Position(p)
	rel, err := filepath.Rel(P.Dir, q.Filename)
	if err != nil || strings.HasPrefix(rel, "..") {
		rel = q.Filename
	}
	return fmt.Sprintf("%s:%d", rel, q.Line)
}

// InstrPos finds a usable position for an instruction (many SSA instructions
// carry none; fall back on neighbours in the block, then on the function).
func (P *Program) InstrPos(ins ssa.Instruction) string {
	if ins.Pos().IsValid() {
		return P.Pos(ins.Pos())
	}
	if v, ok := ins.(ssa.Value); ok {
		_ = v
	}
	b := ins.Block()
	if b != nil {
		idx := -1
		for i, x := range b.Instrs {
			if x == ins {
				idx = i
				break
			}
		}
		for d := 1; d < len(b.Instrs); d++ {
			for _, j := range []int{idx - d, idx + d} {
				if j >= 0 && j < len(b.Instrs) && b.Instrs[j].Pos().IsValid() {
					return P.Pos(b.Instrs[j].Pos()) + "~"
				}
			}
		}
	}
	if ins.Parent() != nil {
		return P.Pos(ins.Parent().Pos()) + "~"
	}
	return "?"
}

// FuncName is a stable, readable name: "(*Mast).Insert", "split",
// "(*Mast).flush$1$1", prefixed with the package name outside package mast.
func FuncName(fn *ssa.Function) string {
	if fn == nil {
		return "<nil>"
	}
	s := fn.RelString(fn.Package().Pkg)
	if fn.Package().Pkg.Path() != MastPath {
		s = fn.Package().Pkg.Name() + "." + s
	}
	return s
}

// Func finds a function of package pkg by its FuncName-style relative name.
func (P *Program) Func(pkgPath, rel string) *ssa.Function {
	sp := P.SPkgs[pkgPath]
	if sp == nil {
		return nil
	}
	for _, fn := range P.Funcs {
		if fn.Pkg == sp && fn.RelString(sp.Pkg) == rel {
			return fn
		}
	}
	return nil
}

// MastFunc finds a function of the main package.
func (P *Program) MastFunc(rel string) *ssa.Function { return P.Func(MastPath, rel) }

// Method finds method name on named type T (pointer or value receiver) in pkg.
func (P *Program) Method(pkgPath, typ, name string) *ssa.Function {
	for _, rel := range []string{"(*" + typ + ")." + name, "(" + typ + ")." + name} {
		if f := P.Func(pkgPath, rel); f != nil {
			return f
		}
	}
	return nil
}

// Named looks a package-level named type up.
func (P *Program) Named(pkgPath, name string) *types.Named {
	p := P.Pkgs[pkgPath]
	if p == nil {
		return nil
	}
	o := p.Types.Scope().Lookup(name)
	if o == nil {
		return nil
	}
	tn, ok := o.(*types.TypeName)
	if !ok {
		return nil
	}
	n, _ := tn.Type().(*types.Named)
	return n
}

// StructOf returns the struct underlying named type name.
func (P *Program) StructOf(pkgPath, name string) *types.Struct {
	n := P.Named(pkgPath, name)
	if n == nil {
		return nil
	}
	s, _ := n.Underlying().(*types.Struct)
	return s
}

// FuncDecl returns the AST declaration of a source function (nil for
// anonymous functions).
func (P *Program) FuncDecl(fn *ssa.Function) *ast.FuncDecl {
	if d, ok := fn.Syntax().(*ast.FuncDecl); ok {
		return d
	}
	return nil
}

// Info is the types.Info of the package containing fn.
func (P *Program) Info(fn *ssa.Function) *types.Info {
	for _, p := range P.Pkgs {
		if p.Types == fn.Package().Pkg {
			return p.TypesInfo
		}
	}
	return nil
}

// IsPtrToNamed reports whether t is *pkg.name.
func IsPtrToNamed(t types.Type, name string) bool {
	p, ok := t.Underlying().(*types.Pointer)
	if !ok {
		return false
	}
	return IsNamed(p.Elem(), name)
}

// IsNamed reports whether t is the named type name (any package of the
// repository; the rules use it only for the repository's own type names).
func IsNamed(t types.Type, name string) bool {
	n, ok := t.(*types.Named)
	if !ok {
		if a, ok2 := t.(*types.Alias); ok2 {
			return IsNamed(types.Unalias(a), name)
		}
		return false
	}
	return n.Obj().Name() == name && n.Obj().Pkg() != nil && strings.HasPrefix(n.Obj().Pkg().Path(), MastPath)
}

// FieldName is the name of field i of the struct pointed to / held by t.
func FieldName(t types.Type, i int) string {
	u := t.Underlying()
	if p, ok := u.(*types.Pointer); ok {
		u = p.Elem().Underlying()
	}
	st, ok := u.(*types.Struct)
	if !ok || i >= st.NumFields() {
		return "?"
	}
	return st.Field(i).Name()
}

// Parent chain helpers ------------------------------------------------------

// Outermost returns the named function enclosing a (possibly anonymous) fn.
func Outermost(fn *ssa.Function) *ssa.Function {
	for fn.Parent() != nil {
		fn = fn.Parent()
	}
	return fn
}

// curFset is the file set of the program under analysis (one program at a time).
var curFset *token.FileSet

// PosLess orders two positions by file name and offset. token.Pos values themselves are not comparable across
// files from run to run: files are parsed in parallel and get their base offsets in the order they finish.
func PosLess(a, b token.Pos) bool {
	if curFset == nil {
		return a < b
	}
	pa, pb := curFset.Position(a), curFset.Position(b)
	if pa.Filename != pb.Filename {
		return pa.Filename < pb.Filename
	}
	return pa.Offset < pb.Offset
}
