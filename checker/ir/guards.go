package ir

import (
	"go/constant"
	"go/token"
	"strings"

	"golang.org/x/tools/go/ssa"
)

// LoadDeps returns the symbolic paths of every memory location the value v
// is computed from (the addresses of all loads in its expression tree).
func LoadDeps(v ssa.Value) []string {
	var out []string
	seen := map[ssa.Value]bool{}
	var walk func(v ssa.Value, d int)
	walk = func(v ssa.Value, d int) {
		if v == nil || seen[v] || d > 20 {
			return
		}
		seen[v] = true
		switch x := v.(type) {
		case *ssa.UnOp:
			if x.Op == token.MUL {
				if a, ok := x.X.(*ssa.Alloc); ok {
					if st := SingleStore(a); st != nil {
						walk(st.Val, d+1)
						return
					}
				}
				out = append(out, Sym(x.X))
			}
			walk(x.X, d+1)
		case *ssa.FieldAddr:
			walk(x.X, d+1)
		case *ssa.Field:
			walk(x.X, d+1)
		case *ssa.IndexAddr:
			walk(x.X, d+1)
			walk(x.Index, d+1)
		case *ssa.Index:
			walk(x.X, d+1)
			walk(x.Index, d+1)
		case *ssa.BinOp:
			walk(x.X, d+1)
			walk(x.Y, d+1)
		case *ssa.Slice:
			walk(x.X, d+1)
			walk(x.Low, d+1)
			walk(x.High, d+1)
		case *ssa.MakeInterface:
			walk(x.X, d+1)
		case *ssa.ChangeType:
			walk(x.X, d+1)
		case *ssa.Convert:
			walk(x.X, d+1)
		case *ssa.Call:
			if b, ok := x.Call.Value.(*ssa.Builtin); ok && (b.Name() == "len" || b.Name() == "cap") {
				walk(x.Call.Args[0], d+1)
			}
		}
	}
	walk(v, 0)
	return out
}

// lastField returns the trailing ".field" or ".field[" element of a path.
func lastField(s string) string {
	// strip a trailing index
	depth := 0
	end := len(s)
	for end > 0 && s[end-1] == ']' {
		i := end - 1
		for ; i >= 0; i-- {
			if s[i] == ']' {
				depth++
			} else if s[i] == '[' {
				depth--
				if depth == 0 {
					break
				}
			}
		}
		if i < 0 {
			break
		}
		end = i
	}
	t := s[:end]
	if i := strings.LastIndex(t, "."); i >= 0 {
		suffix := ""
		if end < len(s) {
			suffix = "[]"
		}
		return t[i:] + suffix
	}
	return s
}

// MayClobber reports whether a store to address path st may change a
// location among deps: identical path, or (no pointer analysis) the same
// trailing field — element stores only clobber element locations.
func MayClobber(st string, deps []string) bool {
	lf := lastField(st)
	// a store into a local allocation (fresh memory of this invocation) can
	// only change locations whose path goes through that same allocation
	root := strings.TrimLeft(st, "*")
	allocTok := ""
	if strings.HasPrefix(root, "A:") {
		allocTok = root
		if i := strings.IndexAny(root, ".["); i >= 0 {
			allocTok = root[:i]
		}
	}
	for _, d := range deps {
		if d == st {
			return true
		}
		if allocTok != "" && !strings.Contains(d, allocTok) {
			continue
		}
		if strings.HasPrefix(lf, ".") && lastField(d) == lf {
			return true
		}
	}
	return false
}

// StoresBetween returns the stores that may execute after taking the edge
// test→from and before instruction use, on paths that do not pass through
// the test block again (a re-executed test re-establishes the fact).
func StoresBetween(from *ssa.BasicBlock, use ssa.Instruction) []*ssa.Store {
	var test *ssa.BasicBlock
	if len(from.Preds) == 1 {
		test = from.Preds[0]
	}
	var out []*ssa.Store
	ub := use.Block()
	skip := func(_, to *ssa.BasicBlock) bool { return to == test }
	fwd := ReachableFrom(from, skip)
	for b := range fwd {
		if b != ub && !ReachableFrom(b, skip)[ub] {
			continue
		}
		// can the use block be re-entered without re-testing?
		cyc := false
		if b == ub {
			for _, s := range ub.Succs {
				if s != test && ReachableFrom(s, skip)[ub] {
					cyc = true
				}
			}
		}
		for _, ins := range b.Instrs {
			if b == ub && !cyc && InstrIndex(ins) >= InstrIndex(use) {
				continue
			}
			if st, ok := ins.(*ssa.Store); ok {
				out = append(out, st)
			}
		}
	}
	return out
}

// GuardedNonNil reports whether value v (used at instruction use) is known
// non-nil: a dominating branch tested the same symbolic path, and no store
// that may clobber a location the path depends on lies between test and use.
func GuardedNonNil(v ssa.Value, use ssa.Instruction) (ok bool, why string) {
	s := Sym(v)
	if FlowNonNil(v, use) {
		return true, "on every path a test " + s + " != nil precedes with no intervening store to it"
	}
	for _, f := range FactsAt(use.Block()) {
		tv, tnn, isNil := NilTest(f.Cond)
		if !isNil || f.Truth != tnn || Sym(tv) != s {
			continue
		}
		// successor entered on that edge
		var edgeTo *ssa.BasicBlock
		if f.Truth {
			edgeTo = f.From.Succs[0]
		} else {
			edgeTo = f.From.Succs[1]
		}
		deps := LoadDeps(v)
		clob := false
		for _, st := range StoresBetween(edgeTo, use) {
			if MayClobber(Sym(st.Addr), deps) {
				clob = true
				why = "tested non-nil, but a store to " + Sym(st.Addr) + " may intervene"
			}
		}
		if !clob {
			return true, "dominating test " + s + " != nil"
		}
	}
	if why == "" {
		why = "no dominating non-nil test of " + s
	}
	return false, why
}

// LenAtLeast1 decodes a branch fact into "len(S) >= 1" and returns Sym(S).
// It understands len(S) ==/!=/</<=/>/>= c with either operand order, and
// `v < 0` / `v >= 0` for v = len(S)-1.
func LenAtLeast1(f Fact) (sliceSym string, ok bool) {
	cond, truth := f.Cond, f.Truth
	for {
		u, isU := cond.(*ssa.UnOp)
		if !isU || u.Op != token.NOT {
			break
		}
		truth = !truth
		cond = u.X
	}
	bin, isB := cond.(*ssa.BinOp)
	if !isB {
		return "", false
	}
	op := bin.Op
	x, y := bin.X, bin.Y
	cx, xc := constInt(x)
	if xc {
		// c op expr  ==> expr op' c
		x, y = y, x
		switch op {
		case token.LSS:
			op = token.GTR
		case token.LEQ:
			op = token.GEQ
		case token.GTR:
			op = token.LSS
		case token.GEQ:
			op = token.LEQ
		}
		_ = cx
	}
	c, yc := constInt(y)
	if !yc {
		return "", false
	}
	// x may be len(S) or len(S)-1
	off := int64(0)
	if b, ok := x.(*ssa.BinOp); ok && b.Op == token.SUB {
		if k, isK := constInt(b.Y); isK {
			off = k
			x = b.X
		}
	} else if b, ok := x.(*ssa.BinOp); ok && b.Op == token.ADD {
		if k, isK := constInt(b.Y); isK {
			off = -k
			x = b.X
		}
	}
	call, isCall := x.(*ssa.Call)
	if !isCall {
		return "", false
	}
	if bi, ok := call.Call.Value.(*ssa.Builtin); !ok || bi.Name() != "len" {
		return "", false
	}
	// (len - off) op c, with truth  ==> len op (c+off)
	c += off
	if !truth {
		switch op {
		case token.EQL:
			op = token.NEQ
		case token.NEQ:
			op = token.EQL
		case token.LSS:
			op = token.GEQ
		case token.LEQ:
			op = token.GTR
		case token.GTR:
			op = token.LEQ
		case token.GEQ:
			op = token.LSS
		}
	}
	atLeast1 := false
	switch op {
	case token.NEQ:
		atLeast1 = c == 0 // len != 0 (len is never negative)
	case token.GTR:
		atLeast1 = c >= 0
	case token.GEQ:
		atLeast1 = c >= 1
	case token.EQL:
		atLeast1 = c >= 1
	}
	if !atLeast1 {
		return "", false
	}
	return Sym(call.Call.Args[0]), true
}

func constInt(v ssa.Value) (int64, bool) {
	c, ok := v.(*ssa.Const)
	if !ok || c.Value == nil || c.Value.Kind() != constant.Int {
		return 0, false
	}
	n, exact := constant.Int64Val(c.Value)
	return n, exact
}

// ConstInt exposes constInt.
func ConstInt(v ssa.Value) (int64, bool) { return constInt(v) }

// LenMinus1 recognises v = len(S) - 1 and returns S.
func LenMinus1(v ssa.Value) (ssa.Value, bool) {
	b, ok := v.(*ssa.BinOp)
	if !ok || b.Op != token.SUB {
		return nil, false
	}
	if k, isK := constInt(b.Y); !isK || k != 1 {
		return nil, false
	}
	call, ok := b.X.(*ssa.Call)
	if !ok {
		return nil, false
	}
	if bi, ok := call.Call.Value.(*ssa.Builtin); !ok || bi.Name() != "len" {
		return nil, false
	}
	return call.Call.Args[0], true
}

// GuardedLenAtLeast1 reports whether len(S)>=1 is known at instruction use
// (dominating test on the same path, no clobbering store in between).
func GuardedLenAtLeast1(S ssa.Value, use ssa.Instruction, from *ssa.BasicBlock) (bool, string) {
	s := Sym(S)
	b := from
	if b == nil {
		b = use.Block()
	}
	why := "no dominating test that len(" + s + ") > 0"
	for _, f := range FactsAt(b) {
		ss, ok := LenAtLeast1(f)
		if !ok || ss != s {
			continue
		}
		var edgeTo *ssa.BasicBlock
		if f.Truth {
			edgeTo = f.From.Succs[0]
		} else {
			edgeTo = f.From.Succs[1]
		}
		deps := append(LoadDeps(S), strings.TrimPrefix(s, "*"))
		clob := false
		for _, st := range StoresBetween(edgeTo, use) {
			if MayClobber(Sym(st.Addr), deps) {
				if "*"+Sym(st.Addr) == s && growsOnly(st, s) {
					continue // S = append(S, …): the length does not decrease
				}
				clob = true
				why = "len tested, but a store to " + Sym(st.Addr) + " may intervene"
			}
		}
		if !clob {
			return true, "dominating test len(" + s + ") > 0"
		}
	}
	return false, why
}

// EdgeFacts returns the facts that hold when control flows along the edge
// p→b: the facts on entry to p plus the condition p branches on.
func EdgeFacts(p, b *ssa.BasicBlock) []Fact {
	out := FactsAt(p)
	if len(p.Instrs) == 0 || len(p.Succs) != 2 || p.Succs[0] == p.Succs[1] {
		return out
	}
	iff, ok := p.Instrs[len(p.Instrs)-1].(*ssa.If)
	if !ok {
		return out
	}
	if p.Succs[0] == b {
		out = append(out, Fact{iff.Cond, true, p})
	} else if p.Succs[1] == b {
		out = append(out, Fact{iff.Cond, false, p})
	}
	return out
}

// NonNegative decodes a fact into "v >= 0" for the SSA value v itself.
func NonNegative(f Fact, v ssa.Value) bool {
	cond, truth := f.Cond, f.Truth
	for {
		u, isU := cond.(*ssa.UnOp)
		if !isU || u.Op != token.NOT {
			break
		}
		truth = !truth
		cond = u.X
	}
	bin, ok := cond.(*ssa.BinOp)
	if !ok {
		return false
	}
	op, x, y := bin.Op, bin.X, bin.Y
	if _, xc := constInt(x); xc {
		x, y = y, x
		switch op {
		case token.LSS:
			op = token.GTR
		case token.LEQ:
			op = token.GEQ
		case token.GTR:
			op = token.LSS
		case token.GEQ:
			op = token.LEQ
		}
	}
	c, yc := constInt(y)
	if !yc || x != v {
		return false
	}
	if !truth {
		switch op {
		case token.LSS:
			op = token.GEQ
		case token.LEQ:
			op = token.GTR
		case token.GTR:
			op = token.LEQ
		case token.GEQ:
			op = token.LSS
		case token.EQL:
			op = token.NEQ
		case token.NEQ:
			op = token.EQL
		}
	}
	switch op {
	case token.GEQ:
		return c >= 0
	case token.GTR:
		return c >= -1
	case token.EQL:
		return c >= 0
	}
	return false
}

// growsOnly: st stores append(<load of the same location>, …).
func growsOnly(st *ssa.Store, s string) bool {
	call, ok := st.Val.(*ssa.Call)
	if !ok {
		return false
	}
	if b, ok := call.Call.Value.(*ssa.Builtin); !ok || b.Name() != "append" {
		return false
	}
	return Sym(call.Call.Args[0]) == s
}

// FlowFact decides, by a forward must-dataflow over the CFG of use's
// function, whether a fact holds at instruction use on every path: the fact
// is established by taking a branch edge for which establishes returns true,
// killed by any instruction for which kills returns true, and unknown at
// function entry. (Greatest fixpoint: a loop whose every entry establishes
// the fact and whose body re-establishes it after each kill keeps it.)
func FlowFact(use ssa.Instruction, establishes func(Fact) bool, kills func(ssa.Instruction) bool) bool {
	return FlowFactGen(use, establishes, nil, kills)
}

// FlowFactGen is FlowFact with instructions that establish the fact as well (an event that makes it hold).
func FlowFactGen(use ssa.Instruction, establishes func(Fact) bool, gens func(ssa.Instruction) bool, kills func(ssa.Instruction) bool) bool {
	fn := use.Parent()
	n := len(fn.Blocks)
	in := make([]bool, n)
	out := make([]bool, n)
	for i := range in {
		in[i], out[i] = true, true
	}
	in[0] = false
	transfer := func(b *ssa.BasicBlock, st bool, upto ssa.Instruction) bool {
		for _, ins := range b.Instrs {
			if ins == upto {
				break
			}
			if kills(ins) {
				st = false
			}
			if gens != nil && gens(ins) {
				st = true
			}
		}
		return st
	}
	edge := func(p, b *ssa.BasicBlock) bool {
		if len(p.Instrs) > 0 && len(p.Succs) == 2 && p.Succs[0] != p.Succs[1] {
			if iff, ok := p.Instrs[len(p.Instrs)-1].(*ssa.If); ok {
				truth := p.Succs[0] == b
				// (facts of the φ's operands only: dominating facts may have been killed since)
				for _, f := range expandPhiFacts([]Fact{{iff.Cond, truth, p}}, 0, false) {
					if establishes(f) {
						return true
					}
				}
				// `a && b` evaluated into a φ (the case of a tagless switch): when the φ is true b is true, and so is a,
				// tested on the only way into b's block — provided nothing on that straight line to here kills the fact
				for _, f := range phiChainFacts(Fact{iff.Cond, truth, p}, kills) {
					if establishes(f) {
						return true
					}
				}
			}
		}
		return out[p.Index]
	}
	for changed := true; changed; {
		changed = false
		for _, b := range fn.Blocks {
			v := true
			if b.Index == 0 {
				v = false
			}
			for _, p := range b.Preds {
				if !edge(p, b) {
					v = false
				}
			}
			if len(b.Preds) == 0 && b.Index != 0 {
				v = true // unreachable (e.g. recover block)
			}
			o := transfer(b, v, nil)
			if v != in[b.Index] || o != out[b.Index] {
				in[b.Index], out[b.Index] = v, o
				changed = true
			}
		}
	}
	return transfer(use.Block(), in[use.Block().Index], use)
}

// FlowLenAtLeast1: len(<path s>) ≥ 1 holds at use on every path (tests on
// the same path establish it; stores that may change the slice or a location
// its path depends on kill it, except S = append(S, …)).
func FlowLenAtLeast1(s string, deps []string, use ssa.Instruction) bool {
	deps = append(append([]string(nil), deps...), strings.TrimPrefix(s, "*"))
	return FlowFact(use,
		func(f Fact) bool {
			ss, ok := LenAtLeast1(f)
			return ok && ss == s
		},
		func(ins ssa.Instruction) bool {
			st, ok := ins.(*ssa.Store)
			if !ok {
				return false
			}
			as := Sym(st.Addr)
			if !MayClobber(as, deps) {
				return false
			}
			if "*"+as == s && growsOnly(st, s) {
				return false
			}
			return true
		})
}

// FlowNonNil: the value with path Sym(v) is non-nil at use on every path.
func FlowNonNil(v ssa.Value, use ssa.Instruction) bool {
	s := Sym(v)
	deps := LoadDeps(v)
	return FlowFact(use,
		func(f Fact) bool {
			tv, tnn, ok := NilTest(f.Cond)
			return ok && f.Truth == tnn && Sym(tv) == s
		},
		func(ins ssa.Instruction) bool {
			st, ok := ins.(*ssa.Store)
			return ok && MayClobber(Sym(st.Addr), deps)
		})
}

// phiChainFacts: for a short-circuit φ known to be f.Truth, the tests on the single-entry chain of blocks leading to
// the operand that decided it (the dominating `a` of `a && b`), as long as no instruction between that test and the
// branch on the φ kills the fact being tracked.
func phiChainFacts(f Fact, kills func(ssa.Instruction) bool) []Fact {
	phi, ok := f.Cond.(*ssa.Phi)
	if !ok {
		return nil
	}
	var livePred *ssa.BasicBlock
	n := 0
	for i, e := range phi.Edges {
		if v, isC := ConstBool(e); isC && v != f.Truth {
			continue
		}
		n++
		livePred = phi.Block().Preds[i]
	}
	if n != 1 || livePred == nil {
		return nil
	}
	clean := func(b *ssa.BasicBlock) bool {
		for _, ins := range b.Instrs {
			if kills != nil && kills(ins) {
				return false
			}
		}
		return true
	}
	if !clean(phi.Block()) {
		return nil
	}
	var out []Fact
	for cur, steps := livePred, 0; steps < 8; steps++ {
		if len(cur.Preds) != 1 || !clean(cur) {
			break
		}
		pp := cur.Preds[0]
		if len(pp.Instrs) == 0 || len(pp.Succs) != 2 || pp.Succs[0] == pp.Succs[1] {
			break
		}
		iff, isIf := pp.Instrs[len(pp.Instrs)-1].(*ssa.If)
		if !isIf {
			break
		}
		out = append(out, expandPhiFacts([]Fact{{iff.Cond, pp.Succs[0] == cur, pp}}, 0, false)...)
		cur = pp
	}
	return out
}
