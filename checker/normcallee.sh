#!/bin/sh
# Rewrites X.StaticCallee() into ir.Callee(X) in the rule sources (idempotent). ir.Callee maps an
# instantiation of a generic function to its generic origin, which is the function the rules analyse.
cd "$(dirname "$0")"
perl -0pi -e 's/\b([A-Za-z_][A-Za-z_0-9]*(?:\.[A-Za-z_][A-Za-z_0-9]*(?:\(\))?)*)\.StaticCallee\(\)/ir.Callee($1)/g' rules/*.go cmd/mastcheck/*.go
