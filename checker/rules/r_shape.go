package rules

import (
	"fmt"
	"go/token"
	"go/types"
	"sort"
	"strings"

	"golang.org/x/tools/go/ssa"

	"mastcheck/ir"
)

func init() {
	Register(&Rule{ID: "DIRTYWRITERS", Props: []string{"C13"}, Min: 5,
		Doc: "dirty=true is stored only on nodes created by the current operation (fresh) or on the copied nodes of the search path (ToMut results inside mutators): " +
			"no other node of the previous version is ever scheduled for rewriting.",
		Run: runDIRTYWRITERS})
	Register(&Rule{ID: "NOOPEARLY", Props: []string{"C13"}, Min: 1,
		Doc: "Insert of an equal value (reflect.DeepEqual with the stored value) returns nil before any tree-visible effect: a no-op leaves the tree clean.",
		Run: runNOOPEARLY})
	Register(&Rule{ID: "ISDIRTY", Props: []string{"C13"}, Min: 1,
		Doc: "on the branch where the root is an in-memory node, IsDirty's result is that node's dirty flag (not a constant).",
		Run: runISDIRTY})
	Register(&Rule{ID: "THRESH", Props: []string{"C04"}, Min: 4,
		Doc: "height, growAfterSize and shrinkBelowSize change together: every function that stores one stores all three, with grow computing (height+1, shrink←old grow, grow·bf) and shrink the inverse; " +
			"LoadMast derives both thresholds from Root.Height and Root.BranchFactor only; NewInMemory's constants agree with height 0.",
		Run: runTHRESH})
	Register(&Rule{ID: "NOEMPTY", Props: []string{"C04", "C09", "C08"}, Min: 3,
		Doc: "no entry-less node is persisted or linked: flush tests the root node for emptiness before storing it (so the empty map has one persisted form, Link=nil); " +
			"every *mastNode stored into a Link slot or as root by a mutator is guarded by !isEmpty or is a ToShared copy of an existing link (Mast.store's own refusal of an entry-less node is not demanded: with every caller guarded it cannot fire).",
		Run: runNOEMPTY})
	Register(&Rule{ID: "TRIPLE", Props: []string{"C09"}, Min: 5,
		Doc: "Key, Value and Link of a node are parallel: a function that stores or appends to a node's Key header also does so for Value and Link of the same node, and a Key element store is paired with a Value element store.",
		Run: runTRIPLE})
}

func runDIRTYWRITERS(c *Ctx) {
	P := c.P
	A := c.Facts.Own()
	mut := c.Facts.Reach(c.Entries("(*Mast).Insert", "(*Mast).Delete")...)
	for _, w := range A.Writes {
		if w.Field != "dirty" || w.Kind != "field" {
			continue
		}
		st := w.Instr.(*ssa.Store)
		if v, isC := ir.ConstBool(st.Val); isC && !v {
			continue
		}
		if ir.DeadByConst(st.Block()) {
			continue
		}
		pos := P.InstrPos(st)
		what := fmt.Sprintf("%s.dirty = %s in %s", ir.Sym(w.Base), ir.Sym(st.Val), ir.FuncName(w.Fn))
		if _, isC := ir.ConstBool(st.Val); !isC {
			// flag copied from another node (xcopy)
			c.OK(pos, what, "copied with the node (struct copy)", true)
			continue
		}
		switch {
		case w.Class.Own == Fresh:
			c.OK(pos, what, "fresh node created by this operation", false)
		case w.Class.Own == Unshared && mut[w.Fn]:
			c.OK(pos, what, "copied path node inside a mutator ("+w.Class.Why+")", false)
		case w.Class.Own == ParamOwn && dirtyParamOK(c, A, mut, w.Fn, w.Class.Param, 0):
			c.OK(pos, what, "parameter "+w.Class.Param.Name()+" of a private helper: every call site passes a node created by the operation or a copied path node inside a mutator", false)
		default:
			c.Violation(w.Fn, pos, "dirty=true on a node that is neither new nor a copied path node",
				"a node of the previous version is scheduled for rewriting although no modified key lies in it ("+w.Class.Why+")")
		}
	}
	// composite literals with dirty: true are fresh by construction
	for _, fn := range P.Funcs {
		for _, b := range fn.Blocks {
			for _, ins := range b.Instrs {
				if st, ok := ins.(*ssa.Store); ok {
					if fa, ok := st.Addr.(*ssa.FieldAddr); ok && ir.FieldName(fa.X.Type(), fa.Field) == "dirty" {
						if _, isAlloc := fa.X.(*ssa.Alloc); isAlloc && isNodePtr(fa.X.Type()) {
							_ = st
						}
					}
				}
			}
		}
	}
}

// dirtyParamOK: fn is a private helper (all call sites known) and each of them passes, for parameter p, a node that
// is fresh, or unshared inside a mutator, or its own parameter under the same condition (two levels).
func dirtyParamOK(c *Ctx, A *ownAnalysis, mut map[*ssa.Function]bool, fn *ssa.Function, p *ssa.Parameter, depth int) bool {
	if p == nil || depth > 2 || fn.Parent() != nil || fn.Object() == nil || fn.Object().Exported() || c.Facts.addrTaken[fn] {
		return false
	}
	callers := c.P.Callers[fn]
	if len(callers) == 0 {
		return false
	}
	k := paramIndex(p)
	for _, cs := range callers {
		args := cs.Common().Args
		if k < 0 || k >= len(args) {
			return false
		}
		cl := A.Classify(args[k], cs)
		switch {
		case cl.Own == Fresh:
		case cl.Own == Unshared && mut[cs.Parent()]:
		case cl.Own == ParamOwn && dirtyParamOK(c, A, mut, cs.Parent(), cl.Param, depth+1):
		default:
			return false
		}
	}
	return true
}

func runNOOPEARLY(c *Ctx) {
	P := c.P
	ins := c.MustFunc("(*Mast).Insert")
	if ins == nil {
		return
	}
	// the scopes of Insert's region: Insert itself, and each private helper of it under the chain of calls leading to it
	type scope struct {
		fn    *ssa.Function
		chain []*ssa.Call
	}
	scopes := []scope{{ins, nil}}
	seenScope := map[string]bool{}
	for _, rs := range regionSites(c, ins) {
		if len(rs.chain) == 0 {
			continue
		}
		key := ir.FuncName(rs.ci.Parent())
		for _, cs := range rs.chain {
			key += "@" + P.InstrPos(cs)
		}
		if !seenScope[key] {
			seenScope[key] = true
			scopes = append(scopes, scope{rs.ci.Parent(), rs.chain})
		}
	}
	isDeepEqual := func(v ssa.Value) bool {
		call, ok := v.(*ssa.Call)
		if !ok {
			return false
		}
		sc := ir.Callee(call.Call)
		if sc == nil || sc.String() != "reflect.DeepEqual" || len(call.Call.Args) != 2 {
			return false
		}
		// what is compared is the stored value of ONE entry with the value handed in: an element of a node's Value
		// list on one side, a parameter on the other (comparing the whole list, or a key, never comes out equal —
		// or comes out equal for the wrong reason)
		elem, prm := false, false
		for _, a := range call.Call.Args {
			v := ir.Strip(ir.ResolveCell(a))
			if ld, ok := v.(*ssa.UnOp); ok && ld.Op == token.MUL {
				if ia, ok := ld.X.(*ssa.IndexAddr); ok {
					if _, f, ok := nodeSliceRoot(ia.X); ok && f == "Value" {
						elem = true
					}
				}
			}
			if _, ok := v.(*ssa.Parameter); ok {
				prm = true
			}
		}
		return elem && prm
	}
	// the helper's answer is Insert's answer: each call of the chain is returned as it is
	tail := func(chain []*ssa.Call) bool {
		for _, cs := range chain {
			ei := ir.ErrorResultIndex(cs.Parent().Signature)
			okTail := false
			if cs.Referrers() != nil && ei >= 0 && cs.Call.Signature().Results().Len() == 1 {
				for _, r := range *cs.Referrers() {
					if ret, isRet := r.(*ssa.Return); isRet && ret.Results[ei] == ssa.Value(cs) {
						okTail = true
					}
				}
			}
			if !okTail {
				return false
			}
		}
		return true
	}
	// the first effect that can run before instruction `at` of scope sc
	firstEffect := func(sc scope, at ssa.Instruction) *Effect {
		for i, cs := range sc.chain {
			holder := ins
			if i > 0 {
				holder = ir.Callee(sc.chain[i-1].Call)
			}
			effs := c.Facts.EffectsIn(holder)
			for k := range effs {
				if effs[k].Instr != ssa.Instruction(cs) && ir.InstrReaches(effs[k].Instr, cs) {
					return &effs[k]
				}
			}
		}
		effs := c.Facts.EffectsIn(sc.fn)
		for k := range effs {
			if ir.InstrReaches(effs[k].Instr, at) {
				return &effs[k]
			}
		}
		return nil
	}
	found := 0
	for _, sc := range scopes {
		ei := ir.ErrorResultIndex(sc.fn.Signature)
		if ei < 0 {
			continue
		}
		for _, r := range ir.Returns(sc.fn) {
			if !ir.IsNilConst(r.Results[ei]) {
				continue
			}
			isNoop := false
			for _, f := range ir.FactsAt(r.Block()) {
				if f.Truth && isDeepEqual(f.Cond) {
					isNoop = true
				}
			}
			if !isNoop || !tail(sc.chain) {
				continue
			}
			found++
			if first := firstEffect(sc, r); first == nil {
				c.OK(P.InstrPos(r), "no-op Insert returns early", "no tree-visible effect precedes the equal-value return", false)
			} else {
				c.Violation(ins, P.InstrPos(r), "effect before the no-op return", "inserting an equal value already changed the tree ("+first.Desc+" at "+P.InstrPos(first.Instr)+"): the tree reports dirty and the next MakeRoot rewrites the path")
			}
		}
	}
	// (2) once the key was found, nothing is changed unless the values were compared and differ: every effect
	// in the key-found region sits on the false edge of DeepEqual(stored value, new value)
	isKeyFound := func(f ir.Fact) bool {
		bin, ok := f.Cond.(*ssa.BinOp)
		if !ok || !((bin.Op == token.EQL && f.Truth) || (bin.Op == token.NEQ && !f.Truth)) {
			return false
		}
		k, isK := ir.ConstInt(bin.Y)
		if !isK || k != 0 {
			return false
		}
		_, isInt := bin.X.Type().Underlying().(*types.Basic)
		return isInt
	}
	for _, sc := range scopes {
		for _, b := range sc.fn.Blocks {
			for _, in := range b.Instrs {
				de, ok := in.(*ssa.Call)
				if !ok || !isDeepEqual(de) {
					continue
				}
				var keyFound ssa.Value
				whole := false // the whole helper runs in the key-found region (the fact holds at a call of the chain)
				for _, f := range ir.FactsAt(b) {
					if isKeyFound(f) {
						keyFound = f.Cond
					}
				}
				var foundAt *ssa.Call
				if keyFound == nil {
					for _, cs := range sc.chain {
						for _, f := range ir.FactsAt(cs.Block()) {
							if isKeyFound(f) {
								keyFound, whole, foundAt = f.Cond, true, cs
							}
						}
					}
				}
				if keyFound == nil {
					continue
				}
				check := func(fn *ssa.Function, skip ssa.Instruction, all bool) {
					effs := c.Facts.EffectsIn(fn)
					for i := range effs {
						if effs[i].Instr == skip {
							continue
						}
						eb := effs[i].Instr.Block()
						inRegion, onFalse := all, false
						for _, f := range ir.FactsAt(eb) {
							if f.Cond == keyFound {
								if bin := keyFound.(*ssa.BinOp); (bin.Op == token.EQL) == f.Truth {
									inRegion = true
								}
							}
							if f.Cond == ssa.Value(de) && !f.Truth {
								onFalse = true
							}
						}
						if !inRegion {
							continue
						}
						if onFalse {
							c.OK(P.InstrPos(effs[i].Instr), "update of an existing key: "+effs[i].Desc, "only on the false edge of DeepEqual(stored, new)", false)
						} else {
							c.Violation(ins, P.InstrPos(effs[i].Instr), "existing key updated without the values having been compared",
								"on some path the key was found and the tree is changed ("+effs[i].Desc+") although DeepEqual(stored value, new value) was not evaluated to false: re-inserting an equal value dirties the path and the next MakeRoot rewrites nodes for an unmodified tree")
						}
					}
				}
				check(sc.fn, nil, whole)
				if whole {
					// effects of the function holding the key-found test, other than the call that compares the values
					check(foundAt.Parent(), foundAt, false)
				}
			}
		}
	}
	if found == 0 {
		c.Violation(ins, P.Pos(ins.Pos()), "no early return for an equal value", "Insert of a value equal to the stored one no longer returns before mutating: every no-op insert dirties and rewrites the search path")
	}
}

func runISDIRTY(c *Ctx) {
	P := c.P
	fn := c.MustFunc("(*Mast).IsDirty")
	if fn == nil {
		return
	}
	// collect the values returned; at least one must be the load of .dirty of the node type-asserted from m.root
	okSeen := false
	for _, r := range ir.Returns(fn) {
		vals := []ssa.Value{r.Results[0]}
		if phi, ok := r.Results[0].(*ssa.Phi); ok {
			vals = phi.Edges
		}
		for _, v := range vals {
			ld, ok := v.(*ssa.UnOp)
			if !ok || ld.Op != token.MUL {
				continue
			}
			fa, ok := ld.X.(*ssa.FieldAddr)
			if !ok || !isNodePtr(fa.X.Type()) || ir.FieldName(fa.X.Type(), fa.Field) != "dirty" {
				continue
			}
			// the node comes from a type assertion on the root
			node := fa.X
			if ex, ok := node.(*ssa.Extract); ok {
				node = ex.Tuple
			}
			if ta, ok := node.(*ssa.TypeAssert); ok {
				if _, isRoot := rootLoad(ta.X); isRoot {
					okSeen = true
				}
			}
		}
	}
	if okSeen {
		c.OK(P.Pos(fn.Pos()), "IsDirty returns root.(*mastNode).dirty", "data-dependent on the root node's flag", false)
	} else {
		c.Violation(fn, P.Pos(fn.Pos()), "IsDirty does not read the root node's dirty flag", "a modified tree can report clean (or a clean one dirty)")
	}
	// (2) where the root is not an in-memory node the answer is decided by what else the root can be: a name (the
	// tree equals that persisted version: clean) or nil (empty: modified exactly when the 'emptied since the last
	// persisted version' mark says so). Every value IsDirty can return on those paths is judged with the facts of
	// the path it comes from.
	type leaf struct {
		v     ssa.Value
		facts []ir.Fact
		at    *ssa.BasicBlock
	}
	var leaves []leaf
	var expand func(v ssa.Value, facts []ir.Fact, at *ssa.BasicBlock, d int)
	expand = func(v ssa.Value, facts []ir.Fact, at *ssa.BasicBlock, d int) {
		phi, isPhi := v.(*ssa.Phi)
		if !isPhi || d > 4 {
			leaves = append(leaves, leaf{v, facts, at})
			return
		}
		for i, e := range phi.Edges {
			pb := phi.Block().Preds[i]
			fs := append([]ir.Fact(nil), ir.FactsAt(pb)...)
			if iff, ok := pb.Instrs[len(pb.Instrs)-1].(*ssa.If); ok && pb.Succs[0] != pb.Succs[1] {
				fs = append(fs, ir.ExpandFacts([]ir.Fact{{Cond: iff.Cond, Truth: pb.Succs[0] == phi.Block(), From: pb}})...)
			}
			expand(e, fs, pb, d+1)
		}
	}
	for _, r := range ir.Returns(fn) {
		expand(r.Results[0], ir.FactsAt(r.Block()), r.Block(), 0)
	}
	for _, lf := range leaves {
		if ld, ok := lf.v.(*ssa.UnOp); ok && ld.Op == token.MUL {
			if fa, ok := ld.X.(*ssa.FieldAddr); ok && isNodePtr(fa.X.Type()) {
				continue // the in-memory root's own flag: clause (1)
			}
		}
		rootNil, known := false, false
		for _, f := range lf.facts {
			if tv, tnn, ok := ir.NilTest(f.Cond); ok {
				if _, isRoot := rootLoad(tv); isRoot {
					rootNil, known = f.Truth != tnn, true
				}
			}
		}
		pos := P.InstrPos(lf.at.Instrs[len(lf.at.Instrs)-1])
		isMark := false
		if ld, ok := lf.v.(*ssa.UnOp); ok && ld.Op == token.MUL {
			if fa, ok := ld.X.(*ssa.FieldAddr); ok && ir.IsPtrToNamed(fa.X.Type(), "Mast") {
				if bt, ok := ld.Type().Underlying().(*types.Basic); ok && bt.Kind() == types.Bool {
					isMark = true
				}
			}
		}
		cv, isConst := ir.ConstBool(lf.v)
		switch {
		case !known:
			c.Violation(fn, pos, "IsDirty answers without telling a nil root from a name",
				"on a path where the root is not an in-memory node the answer ("+pathDesc(ir.Sym(lf.v))+") is given without a test of root == nil: a name means 'equal to that persisted version' (clean), nil means empty (modified exactly when the tree was emptied since)")
		case rootNil && isMark:
			c.OK(pos, "IsDirty with a nil root", "answers with the emptied mark", false)
		case rootNil:
			c.Violation(fn, pos, "IsDirty with a nil root does not answer with the emptied mark",
				"with a nil root IsDirty returns "+pathDesc(ir.Sym(lf.v))+": a tree whose last entry was deleted since it was loaded must report modified, a tree that was loaded or persisted empty must report clean — only the mark tells them apart")
		case isConst && !cv:
			c.OK(pos, "IsDirty with a name as root", "answers clean", false)
		default:
			c.Violation(fn, pos, "IsDirty with a name as root does not answer clean",
				"the root is the name of a persisted version, so the tree equals it; IsDirty returns "+pathDesc(ir.Sym(lf.v))+" there")
		}
	}
}

// ---- THRESH ------------------------------------------------------------------------

var threshFields = []string{"height", "growAfterSize", "shrinkBelowSize"}

func mastFieldStore(ins ssa.Instruction) (base ssa.Value, field string, st *ssa.Store, ok bool) {
	st, ok = ins.(*ssa.Store)
	if !ok {
		return
	}
	fa, isFA := st.Addr.(*ssa.FieldAddr)
	if !isFA || !ir.IsPtrToNamed(fa.X.Type(), "Mast") {
		return nil, "", nil, false
	}
	return fa.X, ir.FieldName(fa.X.Type(), fa.Field), st, true
}

// mastFieldLoad: v is a load of <X>.<field> for a *Mast X.
func mastFieldLoad(v ssa.Value, field string) bool {
	for {
		switch x := v.(type) {
		case *ssa.Convert:
			v = x.X
			continue
		case *ssa.ChangeType:
			v = x.X
			continue
		}
		break
	}
	ld, ok := v.(*ssa.UnOp)
	if !ok || ld.Op != token.MUL {
		return false
	}
	fa, ok := ld.X.(*ssa.FieldAddr)
	return ok && ir.IsPtrToNamed(fa.X.Type(), "Mast") && ir.FieldName(fa.X.Type(), fa.Field) == field
}

func runTHRESH(c *Ctx) {
	P := c.P
	type fs struct {
		stores map[string][]*ssa.Store
		local  bool
		// for a store made by a private helper on the function's behalf (see below): the calls that lead from the
		// function to the helper holding the store, outermost first (parallel to stores); nil for the function's own
		vias map[string][][]ssa.CallInstruction
		// the tree stored into, in the function's own terms (parallel to stores)
		bases map[string][]ssa.Value
	}
	per := map[*ssa.Function]*fs{}
	for _, fn := range P.Funcs {
		if o := fn.Object(); o != nil {
			if tf, isF := o.(*types.Func); isF && ir.InlinedSetters[tf.FullName()] {
				continue // a pure setter: what it stores was judged where it is called (see ir/inline.go)
			}
		}
		for _, b := range fn.Blocks {
			for _, ins := range b.Instrs {
				base, f, st, ok := mastFieldStore(ins)
				if !ok {
					continue
				}
				isT := false
				for _, t := range threshFields {
					if t == f {
						isT = true
					}
				}
				if !isT {
					continue
				}
				if per[fn] == nil {
					per[fn] = &fs{stores: map[string][]*ssa.Store{}}
				}
				per[fn].stores[f] = append(per[fn].stores[f], st)
				if _, local := ir.ResolveCell(base).(*ssa.Alloc); local {
					per[fn].local = true
				}
			}
		}
	}
	// A private helper that moves only some of the three fields of the tree it is handed (`m.raiseSizeLimits()`: the two
	// thresholds, next to grow's own `m.height++`) is not a unit of its own: it is judged where it is called, its stores
	// counted as stores of the caller made at the call. That is sound only if every use of the helper is such a call (it
	// is unexported, never used as a value, only called by plain calls of functions analysed here), so that no store of
	// it goes unjudged; any other partial writer is judged on its own, as before.
	missingOf := func(s *fs) []string {
		var missing []string
		for _, t := range threshFields {
			if len(s.stores[t]) == 0 {
				missing = append(missing, t)
			}
		}
		return missing
	}
	escapes := threshEscapingFuncs(P)
	eff := map[*ssa.Function]*fs{}
	state := map[*ssa.Function]int{}
	var effOf func(fn *ssa.Function) *fs
	var partial func(fn *ssa.Function) bool
	// translate: the tree a helper stores into (in the helper's terms: its receiver/parameter, or a variable its
	// closure captured) in the terms of the caller
	translate := func(g *ssa.Function, base ssa.Value, call *ssa.Call) ssa.Value {
		switch r := ir.ResolveCell(base).(type) {
		case *ssa.Parameter:
			for i, prm := range g.Params {
				if prm == r && i < len(call.Call.Args) && !call.Call.IsInvoke() {
					return call.Call.Args[i]
				}
			}
		case *ssa.UnOp:
			fv, isFV := r.X.(*ssa.FreeVar)
			mc, isMC := call.Call.Value.(*ssa.MakeClosure)
			if r.Op != token.MUL || !isFV || !isMC {
				return nil
			}
			for i, v := range g.FreeVars {
				if v == fv && i < len(mc.Bindings) {
					if cell, isCell := mc.Bindings[i].(*ssa.Alloc); isCell {
						if st := ir.SingleStore(cell); st != nil {
							return st.Val
						}
					}
					return mc.Bindings[i]
				}
			}
		case *ssa.FreeVar:
			if mc, isMC := call.Call.Value.(*ssa.MakeClosure); isMC {
				for i, v := range g.FreeVars {
					if v == r && i < len(mc.Bindings) {
						return mc.Bindings[i]
					}
				}
			}
		}
		return nil
	}
	newFS := func() *fs {
		return &fs{stores: map[string][]*ssa.Store{}, vias: map[string][][]ssa.CallInstruction{}, bases: map[string][]ssa.Value{}}
	}
	effOf = func(fn *ssa.Function) *fs {
		if state[fn] == 2 {
			return eff[fn]
		}
		if state[fn] == 1 {
			return nil // recursion: not a helper of itself
		}
		state[fn] = 1
		var out *fs
		if own := per[fn]; own != nil {
			out = newFS()
			out.local = own.local
			for _, t := range threshFields {
				for _, st := range own.stores[t] {
					out.stores[t] = append(out.stores[t], st)
					out.vias[t] = append(out.vias[t], nil)
					out.bases[t] = append(out.bases[t], st.Addr.(*ssa.FieldAddr).X)
				}
			}
		}
		for _, b := range fn.Blocks {
			for _, ins := range b.Instrs {
				call, isCall := ins.(*ssa.Call)
				if !isCall {
					continue
				}
				g := ir.Callee(call.Call)
				if g == nil || g == fn || g.Blocks == nil || !isOwn(P, g) || !partial(g) {
					continue
				}
				ge := eff[g]
				if out == nil {
					out = newFS()
				}
				for _, t := range threshFields {
					for i, st := range ge.stores[t] {
						tb := translate(g, ge.bases[t][i], call)
						out.stores[t] = append(out.stores[t], st)
						out.vias[t] = append(out.vias[t], append([]ssa.CallInstruction{call}, ge.vias[t][i]...))
						out.bases[t] = append(out.bases[t], tb)
						if _, local := ir.ResolveCell(tb).(*ssa.Alloc); local {
							out.local = true
						}
					}
				}
			}
		}
		state[fn] = 2
		eff[fn] = out
		return out
	}
	partial = func(g *ssa.Function) bool {
		e := effOf(g)
		if e == nil || e.local || len(missingOf(e)) == 0 || escapes[g] {
			return false
		}
		if o := g.Object(); o != nil && o.Exported() {
			return false
		}
		callers := P.Callers[g]
		if len(callers) == 0 {
			return false
		}
		for _, cs := range callers {
			call, plain := cs.(*ssa.Call)
			if !plain || call.Parent() == g {
				return false
			}
			// the caller (itself, or through another helper it calls) moves one of the fields this one leaves alone: the
			// two are parts of one update. A caller that adds nothing (Insert calling grow) is not what the partial writer
			// is a helper of; the writer is then judged, and reported, on its own
			complements := false
			has := func(f *ssa.Function) {
				if own := per[f]; own != nil {
					for _, t := range missingOf(e) {
						if len(own.stores[t]) > 0 {
							complements = true
						}
					}
				}
			}
			has(call.Parent())
			for _, b := range call.Parent().Blocks {
				for _, ins := range b.Instrs {
					if oc, isC := ins.(*ssa.Call); isC {
						if h := ir.Callee(oc.Call); h != nil && h != g && h != call.Parent() {
							has(h)
						}
					}
				}
			}
			if !complements {
				return false
			}
			for _, t := range threshFields {
				for _, bv := range e.bases[t] {
					if bv == nil || translate(g, bv, call) == nil {
						return false
					}
				}
			}
		}
		return true
	}
	var fns []*ssa.Function
	for _, fn := range P.Funcs {
		if o := fn.Object(); o != nil {
			if tf, isF := o.(*types.Func); isF && ir.InlinedSetters[tf.FullName()] {
				continue
			}
		}
		if e := effOf(fn); e != nil && !partial(fn) {
			fns = append(fns, fn)
		}
	}
	// the order in which two stores happen, each given with the calls leading to it
	seqOf := func(via []ssa.CallInstruction, last ssa.Instruction) []ssa.Instruction {
		var out []ssa.Instruction
		for _, cs := range via {
			out = append(out, cs)
		}
		return append(out, last)
	}
	seqBefore := func(a, b []ssa.Instruction) bool {
		for i := 0; i < len(a) && i < len(b); i++ {
			if a[i] != b[i] {
				return ir.Before(a[i], b[i])
			}
		}
		return false
	}
	sort.Slice(fns, func(i, j int) bool { return ir.PosLess(fns[i].Pos(), fns[j].Pos()) })
	for _, fn := range fns {
		s := eff[fn]
		pos := P.Pos(fn.Pos())
		var missing []string
		for _, t := range threshFields {
			if len(s.stores[t]) == 0 {
				missing = append(missing, t)
			}
		}
		if s.local {
			// constructor: height may be left zero only if the thresholds are the height-0 constants
			c.checkCtorThresholds(fn, s.stores)
			continue
		}
		if len(missing) > 0 {
			c.Violation(fn, pos, "updates "+strings.Join(presentOf(s.stores), ",")+" but not "+strings.Join(missing, ","),
				"height and the two size thresholds must change together (thresholds are bf^height and bf^(height+1)); a tree whose thresholds drift from its height grows/shrinks at the wrong sizes and no longer has the canonical shape")
			continue
		}
		// stores made through helpers: all into one tree, and none of them made twice
		if helped, why := false, ""; true {
			var first ssa.Value
			for _, t := range threshFields {
				for i := range s.stores[t] {
					if s.vias[t][i] != nil {
						helped = true
					}
					bv := ir.ResolveCell(s.bases[t][i])
					if first == nil {
						first = bv
					} else if bv != first && ir.Sym(bv) != ir.Sym(first) {
						why = "the stores into " + t + " and " + threshFields[0] + " are made into different trees"
					}
					for j := 0; j < i; j++ {
						a, b := seqOf(s.vias[t][j], s.stores[t][j]), seqOf(s.vias[t][i], s.stores[t][i])
						if (s.vias[t][i] != nil || s.vias[t][j] != nil) && (seqBefore(a, b) || seqBefore(b, a)) {
							why = t + " is moved twice (the helper that moves it is called where it was already moved)"
						}
					}
				}
			}
			if helped && why != "" {
				c.Violation(fn, pos, "threshold update has the wrong shape", why)
				continue
			}
		}
		// shapes
		hs := s.stores["height"][0]
		hsVia, gsVia, ssVia := s.vias["height"][0], s.vias["growAfterSize"][0], s.vias["shrinkBelowSize"][0]
		hb, okH := hs.Val.(*ssa.BinOp)
		dir := 0
		if okH && mastFieldLoad(hb.X, "height") {
			if k, isK := ir.ConstInt(hb.Y); isK && k == 1 {
				if hb.Op == token.ADD {
					dir = 1
				} else if hb.Op == token.SUB {
					dir = -1
				}
			}
		}
		if dir == 0 {
			c.Violation(fn, P.InstrPos(hs), "height not changed by exactly one", "height must move one level at a time together with the thresholds")
			continue
		}
		ok := true
		why := ""
		gs := s.stores["growAfterSize"][0]
		ss := s.stores["shrinkBelowSize"][0]
		// `v := m.f; if guard { v /= bf }; m.f = v`: the stored value is a φ of the old value (no change) and the update —
		// the same as updating under the guard
		updateOf := func(v ssa.Value, field string) ssa.Value {
			phi, ok := v.(*ssa.Phi)
			if !ok || len(phi.Edges) != 2 {
				return v
			}
			for i, e := range phi.Edges {
				if mastFieldLoad(e, field) {
					return phi.Edges[1-i]
				}
			}
			return v
		}
		gb, _ := updateOf(gs.Val, "growAfterSize").(*ssa.BinOp)
		if dir == 1 {
			// grow·bf ; shrink ← old grow
			if gb == nil || gb.Op != token.MUL || !mastFieldLoad(gb.X, "growAfterSize") || !mastFieldLoad(gb.Y, "branchFactor") {
				ok, why = false, "growAfterSize is not multiplied by branchFactor"
			}
			if !mastFieldLoad(ss.Val, "growAfterSize") {
				ok, why = false, "shrinkBelowSize is not set to the previous growAfterSize"
			} else if ld, isLd := ss.Val.(*ssa.UnOp); isLd && !seqBefore(seqOf(ssVia, ld), seqOf(gsVia, gs)) {
				ok, why = false, "shrinkBelowSize reads growAfterSize after it was already multiplied"
			}
		} else {
			sb, _ := updateOf(ss.Val, "shrinkBelowSize").(*ssa.BinOp)
			if gb == nil || gb.Op != token.QUO || !mastFieldLoad(gb.X, "growAfterSize") || !mastFieldLoad(gb.Y, "branchFactor") {
				ok, why = false, "growAfterSize is not divided by branchFactor"
			}
			if sb == nil || sb.Op != token.QUO || !mastFieldLoad(sb.X, "shrinkBelowSize") || !mastFieldLoad(sb.Y, "branchFactor") {
				ok, why = false, "shrinkBelowSize is not divided by branchFactor"
			}
		}
		// the three stores happen together: the threshold stores are conditioned exactly as the height store,
		// apart from a guard on the threshold's own value (shrinkBelowSize > 1 keeps the division from reaching 0)
		if ok {
			type fk struct {
				cond  string
				truth bool
			}
			factsOf := func(b *ssa.BasicBlock) map[fk]ssa.Value {
				m := map[fk]ssa.Value{}
				for _, f := range ir.FactsAt(b) {
					m[fk{ir.Sym(f.Cond), f.Truth}] = f.Cond
				}
				return m
			}
			// a store made by a helper happens under what holds at the call (in this function's terms) and under what
			// the helper tests on its way to the store (in the helper's terms: only the threshold's own guard is admissible)
			outerBlock := func(via []ssa.CallInstruction, st *ssa.Store) *ssa.BasicBlock {
				if len(via) > 0 {
					return via[0].Block()
				}
				return st.Block()
			}
			innerFacts := func(via []ssa.CallInstruction, st *ssa.Store) map[fk]ssa.Value {
				m := map[fk]ssa.Value{}
				for i := range via {
					var b *ssa.BasicBlock
					if i+1 < len(via) {
						b = via[i+1].Block()
					} else {
						b = st.Block()
					}
					for k, v := range factsOf(b) {
						m[k] = v
					}
				}
				return m
			}
			hf := factsOf(outerBlock(hsVia, hs))
			for k := range innerFacts(hsVia, hs) {
				ok, why = false, "the height change is conditioned on "+pathDesc(k.cond)+" inside the helper that makes it, which the threshold update is not"
			}
			// the only admissible extra condition: "the threshold is still above 1" (dividing 1 would give 0)
			selfGuard := func(cond ssa.Value, truth bool) bool {
				bin, isBin := cond.(*ssa.BinOp)
				if !isBin {
					return false
				}
				isT := func(v ssa.Value) bool {
					return mastFieldLoad(v, "shrinkBelowSize") || mastFieldLoad(v, "growAfterSize")
				}
				x, y, op := bin.X, bin.Y, bin.Op
				if isT(y) {
					x, y = y, x
					switch op {
					case token.LSS:
						op = token.GTR
					case token.GTR:
						op = token.LSS
					case token.LEQ:
						op = token.GEQ
					case token.GEQ:
						op = token.LEQ
					}
				}
				k, isK := ir.ConstInt(y)
				if !isT(x) || !isK {
					return false
				}
				if !truth {
					switch op {
					case token.LSS:
						op = token.GEQ
					case token.GEQ:
						op = token.LSS
					case token.LEQ:
						op = token.GTR
					case token.GTR:
						op = token.LEQ
					case token.EQL:
						op = token.NEQ
					case token.NEQ:
						op = token.EQL
					}
				}
				// any form that lets every threshold ≥ 2 through and stops before dividing 1 (or 0): the thresholds
				// are powers of the branch factor, so > 0, ≥ 1, > 1, ≥ 2, ≠ 0 and ≠ 1 all agree where it matters
				return (op == token.GTR && (k == 0 || k == 1)) || (op == token.GEQ && (k == 1 || k == 2)) || (op == token.NEQ && (k == 0 || k == 1))
			}
			for si, st := range []*ssa.Store{gs, ss} {
				stVia := [][]ssa.CallInstruction{gsVia, ssVia}[si]
				tf := factsOf(outerBlock(stVia, st))
				for k, cond := range innerFacts(stVia, st) {
					if !selfGuard(cond, k.truth) {
						ok, why = false, "the threshold update is conditioned on "+pathDesc(k.cond)+" inside the helper that makes it, which the height change is not"
					}
				}
				for k, cond := range tf {
					if _, same := hf[k]; !same && !selfGuard(cond, k.truth) {
						ok, why = false, "the threshold update is conditioned on "+pathDesc(k.cond)+", which the height change is not: on the other branch height moves and the thresholds stay"
					}
				}
				for k := range hf {
					if _, same := tf[k]; !same {
						ok, why = false, "the height change is conditioned on "+pathDesc(k.cond)+", which the threshold update is not"
					}
				}
			}
		}
		if ok {
			c.OK(pos, fmt.Sprintf("%s moves height by %+d with both thresholds", ir.FuncName(fn), dir), "all three stored, values have the expected shape", false)
		} else {
			c.Violation(fn, pos, "threshold update has the wrong shape", why)
		}
	}
	if len(fns) < 3 {
		c.Undecided(nil, "-", "threshold writers", "expected grow, shrink and constructors to store the thresholds")
	}
}

func presentOf(m map[string][]*ssa.Store) []string {
	var out []string
	for _, t := range threshFields {
		if len(m[t]) > 0 {
			out = append(out, t)
		}
	}
	return out
}

// rootFieldDeps collects the Root fields (loads of r.<field>) a value depends
// on through operands, phis and the conditions of loops containing the phis.
func rootFieldDeps(v ssa.Value, seen map[ssa.Value]bool, out map[string]bool) {
	rootFieldDepsE(v, seen, out, map[*ssa.Parameter]ssa.Value{}, 0)
}

// rootFieldDepsE follows the value into same-package helpers (`r.shrinkThreshold()`): the helper's results stand for
// the call, its parameters for the arguments; what a helper with no body or an unresolved callee returns is recorded
// as the dependency "call:<name>" so that it never passes for a pure function of the record's fields.
func rootFieldDepsE(v ssa.Value, seen map[ssa.Value]bool, out map[string]bool, env map[*ssa.Parameter]ssa.Value, depth int) {
	if v == nil || seen[v] {
		return
	}
	seen[v] = true
	rootFieldDeps := func(v ssa.Value, seen map[ssa.Value]bool, out map[string]bool) {
		rootFieldDepsE(v, seen, out, env, depth)
	}
	if p, ok := v.(*ssa.Parameter); ok {
		if a, bound := env[p]; bound {
			rootFieldDeps(a, seen, out)
		}
		return
	}
	if ex, ok := v.(*ssa.Extract); ok {
		if call, isCall := ex.Tuple.(*ssa.Call); isCall {
			if h := ir.Callee(call.Call); h != nil && h.Blocks != nil && h.Pkg != nil && h.Pkg.Pkg.Path() == ir.MastPath && depth < 3 && len(call.Call.Args) == len(h.Params) {
				for i, hp := range h.Params {
					env[hp] = call.Call.Args[i]
				}
				for _, r := range ir.Returns(h) {
					if ex.Index < len(r.Results) {
						rootFieldDepsE(r.Results[ex.Index], seen, out, env, depth+1)
					}
				}
				return
			}
		}
	}
	if call, isCall := v.(*ssa.Call); isCall {
		if _, isB := call.Call.Value.(*ssa.Builtin); !isB {
			if h := ir.Callee(call.Call); h != nil && h.Blocks != nil && h.Pkg != nil && h.Pkg.Pkg.Path() == ir.MastPath && depth < 3 && len(call.Call.Args) == len(h.Params) && h.Signature.Results().Len() == 1 {
				for i, hp := range h.Params {
					env[hp] = call.Call.Args[i]
				}
				for _, r := range ir.Returns(h) {
					rootFieldDepsE(r.Results[0], seen, out, env, depth+1)
				}
				return
			}
		}
	}
	if ld, ok := v.(*ssa.UnOp); ok && ld.Op == token.MUL {
		if fa, ok := ld.X.(*ssa.FieldAddr); ok && ir.IsPtrToNamed(fa.X.Type(), "Root") {
			out[ir.FieldName(fa.X.Type(), fa.Field)] = true
			return
		}
		if a, ok := ld.X.(*ssa.Alloc); ok {
			if sts, _ := ir.AllCellStores(a); len(sts) > 0 {
				for _, st := range sts {
					rootFieldDeps(st.Val, seen, out)
				}
			}
		}
	}
	if phi, ok := v.(*ssa.Phi); ok {
		// a φ also depends on what decided which way it was entered: the branch at the end of each predecessor, and —
		// for the φ of a loop header (the header's own test decides whether the body runs again) — the header's branch
		b := phi.Block()
		isHeader := false
		for _, p := range b.Preds {
			if b.Dominates(p) {
				isHeader = true
			}
			if len(p.Instrs) > 0 {
				if iff, ok := p.Instrs[len(p.Instrs)-1].(*ssa.If); ok {
					rootFieldDeps(iff.Cond, seen, out)
				}
			}
		}
		if isHeader && len(b.Instrs) > 0 {
			if iff, ok := b.Instrs[len(b.Instrs)-1].(*ssa.If); ok {
				rootFieldDeps(iff.Cond, seen, out)
			}
		}
	}
	if ins, ok := v.(ssa.Instruction); ok {
		for _, op := range ins.Operands(nil) {
			if op != nil && *op != nil {
				rootFieldDeps(*op, seen, out)
			}
		}
	}
}

func (c *Ctx) checkCtorThresholds(fn *ssa.Function, stores map[string][]*ssa.Store) {
	P := c.P
	pos := P.Pos(fn.Pos())
	g, s := stores["growAfterSize"], stores["shrinkBelowSize"]
	if len(g) == 0 || len(s) == 0 {
		c.Violation(fn, pos, "constructor leaves a threshold unset", "a tree with a zero threshold grows or shrinks at the wrong sizes")
		return
	}
	gk, gC := ir.ConstInt(g[0].Val)
	sk, sC := ir.ConstInt(s[0].Val)
	if gC && sC {
		// NewInMemory: height 0 ⇒ shrink = bf^0 = 1, grow = bf^1 = branchFactor constant
		bf := int64(-1)
		for _, b := range fn.Blocks {
			for _, ins := range b.Instrs {
				if _, f, st, ok := mastFieldStore(ins); ok && f == "branchFactor" {
					if k, isK := ir.ConstInt(st.Val); isK {
						bf = k
					}
				}
			}
		}
		if len(stores["height"]) > 0 {
			if hk, isK := ir.ConstInt(stores["height"][0].Val); !isK || hk != 0 {
				c.Undecided(fn, pos, "constant thresholds with non-zero height", "cannot relate constant thresholds to a non-zero height")
				return
			}
		}
		if sk == 1 && gk == bf {
			c.OK(pos, "constructor "+ir.FuncName(fn)+" thresholds", fmt.Sprintf("height 0: shrinkBelowSize=1=bf^0, growAfterSize=%d=branchFactor", gk), false)
		} else {
			c.Violation(fn, pos, "constant thresholds disagree with height 0", fmt.Sprintf("shrinkBelowSize=%d growAfterSize=%d branchFactor=%d: must be 1 and branchFactor", sk, gk, bf))
		}
		return
	}
	// LoadMast: both derive from Root.Height and Root.BranchFactor only
	for name, st := range map[string]*ssa.Store{"growAfterSize": g[0], "shrinkBelowSize": s[0]} {
		deps := map[string]bool{}
		rootFieldDeps(st.Val, map[ssa.Value]bool{}, deps)
		var ds []string
		for d := range deps {
			ds = append(ds, d)
		}
		sort.Strings(ds)
		if deps["Height"] && deps["BranchFactor"] && len(deps) == 2 {
			c.OK(P.InstrPos(st), name+" in "+ir.FuncName(fn), "derived from Root.Height and Root.BranchFactor only", false)
		} else {
			c.Violation(fn, P.InstrPos(st), name+" not derived from Root.Height and Root.BranchFactor", "depends on {"+strings.Join(ds, ",")+"}: a reloaded tree must get thresholds bf^height and bf^(height+1), nothing else")
		}
	}
	// grow = shrink * bf (possibly both computed by one helper returning the pair)
	gv, sv := g[0].Val, s[0].Val
	henv := map[*ssa.Parameter]ssa.Value{}
	if gi, env, ok := helperResult(gv); ok {
		if si, _, ok2 := helperResult(sv); ok2 && sameCall(gv, sv) {
			gv, sv = gi, si
			for k, v := range env {
				henv[k] = v
			}
		}
	}
	if mul, ok := stripConv(gv).(*ssa.BinOp); ok && mul.Op == token.MUL {
		if ir.Sym(stripConv(mul.X)) == ir.Sym(stripConv(sv)) || ir.Sym(stripConv(mul.Y)) == ir.Sym(stripConv(sv)) {
			// the other factor is the tree's own branch factor (the record's), not a constant or another quantity
			other := mul.Y
			if ir.Sym(stripConv(mul.Y)) == ir.Sym(stripConv(sv)) {
				other = mul.X
			}
			od := map[string]bool{}
			rootFieldDepsE(other, map[ssa.Value]bool{}, od, henv, 0)
			if od["BranchFactor"] && len(od) == 1 {
				c.OK(P.InstrPos(g[0]), "growAfterSize = shrinkBelowSize·bf in "+ir.FuncName(fn), "same value multiplied once by Root.BranchFactor", false)
			} else {
				c.Violation(fn, P.InstrPos(g[0]), "growAfterSize is not shrinkBelowSize times the tree's branch factor",
					"the factor between the two thresholds must be the branch factor recorded in the root: with a constant (the default 16) a reloaded tree of another branch factor grows at other sizes than the same tree kept in memory, so heights and root names diverge after further edits")
			}
		} else {
			c.Violation(fn, P.InstrPos(g[0]), "growAfterSize is not shrinkBelowSize·branchFactor", "thresholds computed from different values")
		}
	} else if mul, ok := g[0].Val.(*ssa.BinOp); !ok || mul.Op != token.MUL {
		c.Violation(fn, P.InstrPos(g[0]), "growAfterSize is not shrinkBelowSize·branchFactor", "the two thresholds must differ by exactly one factor of branchFactor")
	} else {
		mul := g[0].Val.(*ssa.BinOp)
		same := ir.Sym(mul.X) == ir.Sym(s[0].Val) || ir.Sym(mul.Y) == ir.Sym(s[0].Val)
		if same {
			c.OK(P.InstrPos(g[0]), "growAfterSize = shrinkBelowSize·bf in "+ir.FuncName(fn), "same value multiplied once", false)
		} else {
			c.Violation(fn, P.InstrPos(g[0]), "growAfterSize is not shrinkBelowSize·branchFactor", "thresholds computed from different values")
		}
	}
	if hs := stores["height"]; len(hs) > 0 {
		deps := map[string]bool{}
		rootFieldDeps(hs[0].Val, map[ssa.Value]bool{}, deps)
		if !(deps["Height"] && len(deps) == 1) {
			c.Violation(fn, P.InstrPos(hs[0]), "height not taken from Root.Height", "the reloaded tree's height must be the recorded one")
		}
	} else {
		c.Violation(fn, pos, "constructor does not set height", "height stays 0 while thresholds follow Root.Height")
	}
}

// ---- NOEMPTY ------------------------------------------------------------------------

// isEmptyFact: block b is under the fact isEmpty(x) == false.
func notEmptyFact(b *ssa.BasicBlock, x ssa.Value) bool {
	sx := ir.Sym(ir.ResolveCell(x))
	for _, f := range ir.FactsAt(b) {
		cond, truth := f.Cond, f.Truth
		if u, ok := cond.(*ssa.UnOp); ok && u.Op == token.NOT {
			cond, truth = u.X, !truth
		}
		call, ok := cond.(*ssa.Call)
		if !ok || truth {
			continue
		}
		sc := ir.Callee(call.Call)
		if sc == nil || sc.Name() != "isEmpty" || len(call.Call.Args) == 0 {
			continue
		}
		if ir.Sym(ir.ResolveCell(call.Call.Args[0])) == sx {
			return true
		}
	}
	return false
}

func runNOEMPTY(c *Ctx) {
	P := c.P
	store, _ := persistingStoreFn(c)
	sh := findFlush(c)
	if store == nil || sh == nil {
		return
	}
	// (1) flush → node store: the root node is known non-empty
	for _, cs := range c.P.Callers[store] {
		if cs.Parent() != sh.F {
			continue
		}
		root := cs.Common().Args[0]
		if notEmptyFact(cs.Block(), root) {
			c.OK(P.InstrPos(cs), "flush stores the root node", "dominated by !isEmpty(root node)", false)
		} else {
			f := c.Violation(sh.F, P.InstrPos(cs), "root node persisted without an emptiness test",
				"a never-populated tree has an entry-less node as root; persisting it gives Link=hash(empty node) while an emptied tree gives Link=nil: equal (empty) contents, different roots — and an entry-less node in the store")
			f.Props = append(f.Props, "C13") // persisting an unmodified empty tree must write nothing
		}
	}
	// (2) *mastNode values stored into Link slots / Mast.root outside constructors
	A := c.Facts.Own()
	check := func(fn *ssa.Function, st *ssa.Store, where string) {
		v := ir.Strip(st.Val)
		if !isNodePtr(v.Type()) {
			// a link computed by a helper (`linkOrNil(node)`): every return of the helper that yields a node
			// is guarded inside the helper
			if call, ok := v.(*ssa.Call); ok {
				if sc := ir.Callee(call.Call); sc != nil && isOwn(c.P, sc) && sc.Blocks != nil && sc.Signature.Results().Len() == 1 {
					for _, r := range ir.Returns(sc) {
						rv := ir.Strip(r.Results[0])
						if !isNodePtr(rv.Type()) {
							continue
						}
						what := fmt.Sprintf("%s = %s(…) in %s: returned node %s", where, sc.Name(), ir.FuncName(fn), ir.Sym(rv))
						if notEmptyFact(r.Block(), rv) {
							c.OK(P.InstrPos(st), what, "the helper returns the node only under !isEmpty", false)
						} else {
							c.Violation(fn, P.InstrPos(st), "node linked without an emptiness test ("+where+" via "+sc.Name()+")",
								"an entry-less node can become reachable (and later persisted): the shape invariant 'no entry-less node other than pass-through nodes' and the uniqueness of the persisted form both break")
						}
					}
				}
			}
			return
		}
		pos := P.InstrPos(st)
		what := fmt.Sprintf("%s = node %s in %s", where, ir.Sym(v), ir.FuncName(fn))
		if notEmptyFact(st.Block(), v) {
			c.OK(pos, what, "guarded by !isEmpty", false)
			return
		}
		// ToShared copy of an already linked child
		if ex, ok := v.(*ssa.Extract); ok && ex.Index == 0 {
			if call, ok := ex.Tuple.(*ssa.Call); ok {
				if sc := ir.Callee(call.Call); sc != nil && sc.Name() == "ToShared" {
					c.OK(pos, what, "ToShared copy of an existing link", false)
					return
				}
			}
		}
		c.Violation(fn, pos, "node linked without an emptiness test ("+where+")",
			"an entry-less node can become reachable (and later persisted): the shape invariant 'no entry-less node other than pass-through nodes' and the uniqueness of the persisted form both break")
	}
	for _, w := range A.Writes {
		if w.Field == "Link" && w.Kind == "elem" {
			if st, ok := w.Instr.(*ssa.Store); ok {
				check(w.Fn, st, "Link[i]")
			}
		}
	}
	for _, fn := range P.Funcs {
		for _, b := range fn.Blocks {
			for _, ins := range b.Instrs {
				base, f, st, ok := mastFieldStore(ins)
				if !ok || f != "root" {
					continue
				}
				if _, local := ir.ResolveCell(base).(*ssa.Alloc); local {
					continue // constructors may install an in-memory empty root; flush's guard keeps it out of the store
				}
				check(fn, st, "Mast.root")
			}
		}
	}
	// (Mast.store's own refusal of entry-less nodes is a second line of defence behind (2); it is not demanded:
	// with every caller guarded it cannot fire, and removing a check that cannot fire changes nothing.)
}

// ---- TRIPLE -------------------------------------------------------------------------

func runTRIPLE(c *Ctx) {
	P := c.P
	A := c.Facts.Own()
	type key struct {
		fn   *ssa.Function
		base string
	}
	hdr := map[key]map[string]ssa.Instruction{}
	elem := map[key]map[string]ssa.Instruction{}
	for _, w := range A.Writes {
		if w.Field != "Key" && w.Field != "Value" && w.Field != "Link" {
			if w.Field == "Node" && w.Kind == "escape" {
				// whole embedded Node handed to a decoder: all three at once
				k := key{w.Fn, ir.Sym(ir.ResolveCell(w.Base))}
				if hdr[k] == nil {
					hdr[k] = map[string]ssa.Instruction{}
				}
				for _, f := range []string{"Key", "Value", "Link"} {
					hdr[k][f] = w.Instr
				}
			}
			continue
		}
		k := key{w.Fn, ir.Sym(ir.ResolveCell(w.Base))}
		switch w.Kind {
		case "field", "append", "escape":
			if hdr[k] == nil {
				hdr[k] = map[string]ssa.Instruction{}
			}
			if hdr[k][w.Field] == nil {
				hdr[k][w.Field] = w.Instr
			}
		case "elem":
			if elem[k] == nil {
				elem[k] = map[string]ssa.Instruction{}
			}
			if elem[k][w.Field] == nil {
				elem[k][w.Field] = w.Instr
			}
		}
	}
	var ks []key
	for k := range hdr {
		ks = append(ks, k)
	}
	sort.Slice(ks, func(i, j int) bool {
		if ks[i].fn.Pos() != ks[j].fn.Pos() {
			return ir.PosLess(ks[i].fn.Pos(), ks[j].fn.Pos())
		}
		return ks[i].base < ks[j].base
	})
	for _, k := range ks {
		m := hdr[k]
		if m["Key"] == nil && m["Value"] == nil {
			continue // Link alone: restoring/trimming the link list
		}
		pos := P.Pos(k.fn.Pos())
		for _, f := range []string{"Key", "Value"} {
			if m[f] != nil {
				pos = P.InstrPos(m[f])
				break
			}
		}
		var missing []string
		for _, f := range []string{"Key", "Value", "Link"} {
			if m[f] == nil {
				missing = append(missing, f)
			}
		}
		what := fmt.Sprintf("slice headers of %s in %s", pathDesc(k.base), ir.FuncName(k.fn))
		if len(missing) == 0 {
			c.OK(pos, what, "Key, Value and Link all (re)built", false)
		} else {
			c.Violation(k.fn, pos, "rebuilds some of Key/Value/Link of "+pathDesc(k.base)+" but not "+strings.Join(missing, ","),
				"the three slices are parallel (n keys, n values, n+1 links); changing the length of one without the others shifts values or children against their keys")
		}
	}
	// block-level pairing of Key and Value header stores: the two are always
	// rebuilt side by side; a branch that grows Key but not Value shifts every
	// later value against its key even if another branch updates both.
	type bkey struct {
		b    *ssa.BasicBlock
		base string
	}
	blk := map[bkey]map[string]ssa.Instruction{}
	for _, w := range A.Writes {
		if w.Kind != "field" || (w.Field != "Key" && w.Field != "Value") {
			continue
		}
		k := bkey{w.Instr.Block(), ir.Sym(ir.ResolveCell(w.Base))}
		if blk[k] == nil {
			blk[k] = map[string]ssa.Instruction{}
		}
		blk[k][w.Field] = w.Instr
	}
	var bks []bkey
	for k := range blk {
		bks = append(bks, k)
	}
	sort.Slice(bks, func(i, j int) bool {
		ii, jj := firstInstr(blk[bks[i]]), firstInstr(blk[bks[j]])
		return ir.PosLess(ii.Pos(), jj.Pos())
	})
	for _, k := range bks {
		m := blk[k]
		fn := k.b.Parent()
		if m["Key"] != nil && m["Value"] != nil {
			c.OK(P.InstrPos(m["Key"]), fmt.Sprintf("Key and Value of %s rebuilt together in %s", pathDesc(k.base), ir.FuncName(fn)), "same basic block", false)
			continue
		}
		have, miss := "Key", "Value"
		if m["Key"] == nil {
			have, miss = "Value", "Key"
		}
		c.Violation(fn, P.InstrPos(m[have]), fmt.Sprintf("%s of %s changed on a branch that leaves %s alone", have, pathDesc(k.base), miss),
			"Key and Value are parallel slices; this branch changes the length/contents of one only, so values no longer line up with their keys")
	}
	var es []key
	for k := range elem {
		es = append(es, k)
	}
	sort.Slice(es, func(i, j int) bool { return ir.PosLess(es[i].fn.Pos(), es[j].fn.Pos()) })
	for _, k := range es {
		m := elem[k]
		if m["Key"] == nil {
			continue
		}
		what := fmt.Sprintf("element stores of %s in %s", pathDesc(k.base), ir.FuncName(k.fn))
		if m["Value"] != nil {
			c.OK(P.InstrPos(m["Key"]), what, "Key[i] paired with Value[i]", false)
		} else {
			c.Violation(k.fn, P.InstrPos(m["Key"]), "Key element stored without the Value element", "an entry's key changes while its value stays that of the previous key")
		}
	}
}

var _ = types.Typ

func firstInstr(m map[string]ssa.Instruction) ssa.Instruction {
	var best ssa.Instruction
	for _, i := range m {
		if best == nil || ir.PosLess(i.Pos(), best.Pos()) {
			best = i
		}
	}
	return best
}

// helperResult: if v is the (i-th) result of a call to a repository function
// with a single return statement, return that return operand and the mapping
// of the helper's parameters to the call's arguments.
func helperResult(v ssa.Value) (inner ssa.Value, env map[*ssa.Parameter]ssa.Value, ok bool) {
	v = stripConv(v)
	idx := 0
	var call *ssa.Call
	switch x := v.(type) {
	case *ssa.Extract:
		call, _ = x.Tuple.(*ssa.Call)
		idx = x.Index
	case *ssa.Call:
		call = x
	}
	if call == nil {
		return nil, nil, false
	}
	f := ir.Callee(call.Call)
	if f == nil || f.Blocks == nil {
		return nil, nil, false
	}
	rets := ir.Returns(f)
	if len(rets) != 1 || idx >= len(rets[0].Results) {
		return nil, nil, false
	}
	env = map[*ssa.Parameter]ssa.Value{}
	for i, p := range f.Params {
		if i < len(call.Call.Args) {
			env[p] = call.Call.Args[i]
		}
	}
	return rets[0].Results[idx], env, true
}

func sameCall(a, b ssa.Value) bool {
	ca := func(v ssa.Value) *ssa.Call {
		switch x := stripConv(v).(type) {
		case *ssa.Extract:
			c, _ := x.Tuple.(*ssa.Call)
			return c
		case *ssa.Call:
			return x
		}
		return nil
	}
	return ca(a) != nil && ca(a) == ca(b)
}

// threshEscapingFuncs: the functions of the repository that are used other than by being called directly (stored,
// passed, bound as a method value, deferred through a variable): their call sites are not all known.
func threshEscapingFuncs(P *ir.Program) map[*ssa.Function]bool {
	out := map[*ssa.Function]bool{}
	bound := map[types.Object]bool{}
	var ops []*ssa.Value
	for _, fn := range P.Funcs {
		for _, b := range fn.Blocks {
			for _, ins := range b.Instrs {
				ci, isCall := ins.(ssa.CallInstruction)
				mc, isMC := ins.(*ssa.MakeClosure)
				ops = ins.Operands(ops[:0])
				for _, op := range ops {
					if op == nil || *op == nil {
						continue
					}
					f, isF := (*op).(*ssa.Function)
					if !isF {
						continue
					}
					switch {
					case isCall && op == &ci.Common().Value:
						// called
					case isMC && op == &mc.Fn:
						if f.Synthetic != "" && f.Object() != nil {
							bound[f.Object()] = true // m.helper as a value
						}
						if mc.Referrers() == nil {
							out[f] = true
							break
						}
						for _, r := range *mc.Referrers() {
							if _, isDbg := r.(*ssa.DebugRef); isDbg {
								continue
							}
							rc, isC := r.(ssa.CallInstruction)
							if !isC || rc.Common().Value != ssa.Value(mc) {
								out[f] = true
								continue
							}
							for _, a := range rc.Common().Args {
								if a == ssa.Value(mc) {
									out[f] = true
								}
							}
						}
					default:
						out[f] = true
					}
				}
			}
		}
	}
	for _, fn := range P.Funcs {
		if o := fn.Object(); o != nil && bound[o] {
			out[fn] = true
		}
	}
	return out
}
