package rules

// Helpers shared by the load-path rules (MUSTCHECK, ROOTCLAUSES, NOPANICLOAD,
// LOADBOUND): valuation-pruned control flow (DESIGN §3.2: constant conditions
// and Mast.debug=false), panic-bound blocks, classification of returned
// errors, and a register-free rendering of branch conditions for finding keys.

import (
	"fmt"
	"go/token"
	"go/types"
	"sort"
	"strings"

	"golang.org/x/tools/go/ssa"

	"mastcheck/ir"
)

// lpPrune holds the pruned view of every function.
type lpPrune struct {
	c          *Ctx
	debugFalse bool   // Mast.debug is never set: loads of it evaluate to false
	debugWhy   string // why (or why not)
	fns        map[*ssa.Function]*lpFunc
}

// lpFunc is the pruned CFG of one function.
type lpFunc struct {
	fn    *ssa.Function
	live  map[*ssa.BasicBlock]bool              // reachable from entry under the valuation
	succ  map[*ssa.BasicBlock][]*ssa.BasicBlock // live successor edges
	bound map[*ssa.BasicBlock]bool              // live, no return reachable, a panic reachable
}

func lpIsMastPtr(t types.Type) bool { return ir.IsPtrToNamed(t, "Mast") }

// lpDebugField reports whether addr is &X.debug for a Mast X.
func lpDebugField(addr ssa.Value) bool {
	fa, ok := addr.(*ssa.FieldAddr)
	if !ok {
		return false
	}
	return lpIsMastPtr(fa.X.Type()) && ir.FieldName(fa.X.Type(), fa.Field) == "debug"
}

// lpDebugNeverSet verifies, over every non-test function of the repository,
// that nothing can make Mast.debug true: every store to the field stores the
// constant false and the field's address is used only for loads and stores.
func lpDebugNeverSet(P *ir.Program) (bool, string) {
	st := P.StructOf(ir.MastPath, "Mast")
	if st == nil {
		return false, "type Mast does not resolve"
	}
	has := false
	for i := 0; i < st.NumFields(); i++ {
		if st.Field(i).Name() == "debug" {
			has = true
		}
	}
	if !has {
		return true, "Mast has no field debug"
	}
	loads, stores := 0, 0
	for _, fn := range P.Funcs {
		for _, b := range fn.Blocks {
			for _, ins := range b.Instrs {
				fa, ok := ins.(*ssa.FieldAddr)
				if !ok || !lpDebugField(fa) || fa.Referrers() == nil {
					continue
				}
				for _, r := range *fa.Referrers() {
					switch x := r.(type) {
					case *ssa.DebugRef:
					case *ssa.UnOp:
						if x.Op == token.MUL {
							loads++
							continue
						}
						return false, "address of Mast.debug used by " + x.String() + " in " + ir.FuncName(fn)
					case *ssa.Store:
						if x.Addr == ssa.Value(fa) {
							if v, ok := ir.ConstBool(x.Val); ok && !v {
								stores++
								continue
							}
							return false, "store to Mast.debug of a value that is not the constant false in " + ir.FuncName(fn) + " at " + P.InstrPos(x)
						}
						return false, "address of Mast.debug stored in " + ir.FuncName(fn)
					default:
						return false, "address of Mast.debug escapes in " + ir.FuncName(fn)
					}
				}
			}
		}
	}
	return true, fmt.Sprintf("no non-test function stores true to Mast.debug or leaks its address (%d loads, %d stores of false)", loads, stores)
}

func newLpPrune(c *Ctx) *lpPrune {
	p := &lpPrune{c: c, fns: map[*ssa.Function]*lpFunc{}}
	p.debugFalse, p.debugWhy = lpDebugNeverSet(c.P)
	return p
}

// condVal evaluates a branch condition under the valuation: boolean constants
// (debugMutation) and, if verified, Mast.debug=false.
func (p *lpPrune) condVal(cond ssa.Value) (val, known bool) {
	if v, ok := ir.ConstBool(cond); ok {
		return v, true
	}
	switch x := cond.(type) {
	case *ssa.UnOp:
		if x.Op == token.NOT {
			v, k := p.condVal(x.X)
			return !v, k
		}
		if x.Op == token.MUL && p.debugFalse && lpDebugField(x.X) {
			return false, true
		}
	case *ssa.Field:
		if p.debugFalse && ir.IsNamed(x.X.Type(), "Mast") && ir.FieldName(x.X.Type(), x.Field) == "debug" {
			return false, true
		}
	}
	return false, false
}

// deadEdge reports whether the CFG edge from→to contradicts the valuation.
func (p *lpPrune) deadEdge(from, to *ssa.BasicBlock) bool {
	if len(from.Instrs) == 0 {
		return false
	}
	iff, ok := from.Instrs[len(from.Instrs)-1].(*ssa.If)
	if !ok || len(from.Succs) != 2 || from.Succs[0] == from.Succs[1] {
		return false
	}
	v, known := p.condVal(iff.Cond)
	if !known {
		return false
	}
	if v {
		return to == from.Succs[1]
	}
	return to == from.Succs[0]
}

func (p *lpPrune) of(fn *ssa.Function) *lpFunc {
	if f := p.fns[fn]; f != nil {
		return f
	}
	f := &lpFunc{fn: fn, live: map[*ssa.BasicBlock]bool{}, succ: map[*ssa.BasicBlock][]*ssa.BasicBlock{}, bound: map[*ssa.BasicBlock]bool{}}
	p.fns[fn] = f
	if len(fn.Blocks) == 0 {
		return f
	}
	f.live = ir.ReachableFrom(fn.Blocks[0], p.deadEdge)
	for b := range f.live {
		for _, s := range b.Succs {
			if !p.deadEdge(b, s) {
				f.succ[b] = append(f.succ[b], s)
			}
		}
	}
	for b := range f.live {
		ret, pan := false, false
		for x := range f.reach(b) {
			if len(x.Instrs) == 0 {
				continue
			}
			switch x.Instrs[len(x.Instrs)-1].(type) {
			case *ssa.Return:
				ret = true
			case *ssa.Panic:
				pan = true
			}
		}
		if !ret && pan {
			f.bound[b] = true
		}
	}
	return f
}

// reach returns the blocks reachable from b (inclusive) over live edges.
func (f *lpFunc) reach(b *ssa.BasicBlock) map[*ssa.BasicBlock]bool {
	seen := map[*ssa.BasicBlock]bool{b: true}
	work := []*ssa.BasicBlock{b}
	for len(work) > 0 {
		x := work[len(work)-1]
		work = work[:len(work)-1]
		for _, s := range f.succ[x] {
			if !seen[s] {
				seen[s] = true
				work = append(work, s)
			}
		}
	}
	return seen
}

// active: live and not panic-bound.
func (f *lpFunc) active(b *ssa.BasicBlock) bool { return f.live[b] && !f.bound[b] }

// inCycle reports whether b lies on a cycle of active blocks.
func (f *lpFunc) inCycle(b *ssa.BasicBlock) bool {
	seen := map[*ssa.BasicBlock]bool{}
	var work []*ssa.BasicBlock
	for _, s := range f.succ[b] {
		if f.active(s) && !seen[s] {
			seen[s] = true
			work = append(work, s)
		}
	}
	for len(work) > 0 {
		x := work[len(work)-1]
		work = work[:len(work)-1]
		if x == b {
			return true
		}
		for _, s := range f.succ[x] {
			if f.active(s) && !seen[s] {
				seen[s] = true
				work = append(work, s)
			}
		}
	}
	return seen[b]
}

// ---- classification of returned errors --------------------------------------

const (
	lpErrNil    = iota // certainly nil
	lpErrNonNil        // certainly non-nil
	lpErrMaybe         // unknown
)

// lpErrClass classifies error value v as seen at the end of block at.
func lpErrClass(v ssa.Value, at *ssa.BasicBlock, depth int) int {
	if v == nil {
		return lpErrMaybe
	}
	if ir.IsNilConst(v) {
		return lpErrNil
	}
	v = ir.ResolveCell(v)
	if ir.IsNilConst(v) {
		return lpErrNil
	}
	switch x := v.(type) {
	case *ssa.MakeInterface:
		return lpErrNonNil
	case *ssa.ChangeInterface:
		return lpErrClass(x.X, at, depth+1)
	case *ssa.Call:
		if sc := ir.Callee(x.Call); sc != nil {
			switch sc.String() {
			case "fmt.Errorf", "errors.New":
				return lpErrNonNil
			}
			// a wrapper whose every return is a certainly non-nil error
			if sc.Blocks != nil && depth < 3 && ir.IsErrorType(x.Type()) {
				rets := ir.Returns(sc)
				all := len(rets) > 0
				for _, r := range rets {
					if len(r.Results) != 1 || lpErrClass(r.Results[0], r.Block(), depth+1) != lpErrNonNil {
						all = false
					}
				}
				if all {
					return lpErrNonNil
				}
			}
		}
	case *ssa.Phi:
		if depth < 4 {
			all := -1
			for i, e := range x.Edges {
				k := lpErrClass(e, x.Block().Preds[i], depth+1)
				if all == -1 {
					all = k
				} else if all != k {
					all = lpErrMaybe
				}
			}
			if all >= 0 && all != lpErrMaybe {
				return all
			}
		}
	}
	for _, f := range ir.FactsAt(at) {
		tv, tnn, ok := ir.NilTest(f.Cond)
		if !ok || ir.ResolveCell(tv) != v {
			continue
		}
		if f.Truth == tnn {
			return lpErrNonNil
		}
		return lpErrNil
	}
	return lpErrMaybe
}

// lpErrorValue returns the error result of call instruction ci (the call value
// itself, or the Extract of the error component), nil if it is never bound.
func lpErrorValue(ci ssa.CallInstruction) (e ssa.Value, idx int) {
	call, ok := ci.(*ssa.Call)
	if !ok {
		return nil, -1
	}
	sig := call.Call.Signature()
	idx = ir.ErrorResultIndex(sig)
	if idx < 0 {
		return nil, -1
	}
	if sig.Results().Len() == 1 {
		return call, idx
	}
	if call.Referrers() != nil {
		for _, r := range *call.Referrers() {
			if ex, ok := r.(*ssa.Extract); ok && ex.Index == idx {
				return ex, idx
			}
		}
	}
	return nil, idx
}

func lpUsed(v ssa.Value) bool {
	if v == nil || v.Referrers() == nil {
		return false
	}
	for _, r := range *v.Referrers() {
		if _, ok := r.(*ssa.DebugRef); !ok {
			return true
		}
	}
	return false
}

// lpPropagates decides whether a non-nil error result of call ci in its
// function can only lead to returns that carry a non-nil error: walking from
// the call, never taking the "error is nil" edge of a test of that error, no
// return with a nil (or unknown) error may be reachable. It returns
// lpErrNonNil (propagated), lpErrNil (dropped: a success return is reachable)
// or lpErrMaybe, and a description of the offending return.
func lpPropagates(P *ir.Program, ci ssa.CallInstruction) (int, string) {
	fn := ci.Parent()
	e, _ := lpErrorValue(ci)
	ei := ir.ErrorResultIndex(fn.Signature)
	if ei < 0 {
		return lpErrMaybe, ir.FuncName(fn) + " has no error result"
	}
	if e == nil || !lpUsed(e) {
		return lpErrNil, "the error result is never used"
	}
	isE := func(v ssa.Value) bool {
		for i := 0; i < 4; i++ {
			if ch, ok := v.(*ssa.ChangeInterface); ok {
				v = ch.X
				continue
			}
			break
		}
		return ir.ResolveCell(v) == e
	}
	skip := func(from, to *ssa.BasicBlock) bool {
		if len(from.Instrs) == 0 || len(from.Succs) != 2 || from.Succs[0] == from.Succs[1] {
			return false
		}
		iff, ok := from.Instrs[len(from.Instrs)-1].(*ssa.If)
		if !ok {
			return false
		}
		tv, tnn, ok := ir.NilTest(iff.Cond)
		if !ok || ir.ResolveCell(tv) != e {
			return false
		}
		nilSucc := from.Succs[1]
		if !tnn {
			nilSucc = from.Succs[0]
		}
		return to == nilSucc
	}
	worst, why := lpErrNonNil, ""
	var blocks []*ssa.BasicBlock
	for b := range ir.ReachableFrom(ci.Block(), skip) {
		blocks = append(blocks, b)
	}
	sort.Slice(blocks, func(i, j int) bool { return blocks[i].Index < blocks[j].Index })
	for _, b := range blocks {
		if len(b.Instrs) == 0 {
			continue
		}
		r, ok := b.Instrs[len(b.Instrs)-1].(*ssa.Return)
		if !ok || ei >= len(r.Results) {
			continue
		}
		if isE(r.Results[ei]) {
			continue
		}
		switch lpErrClass(r.Results[ei], b, 0) {
		case lpErrNil:
			return lpErrNil, "a return with nil error at " + P.InstrPos(r) + " is reachable while the error is non-nil"
		case lpErrMaybe:
			worst, why = lpErrMaybe, "cannot classify the error returned at "+P.InstrPos(r)
		}
	}
	return worst, why
}

// lpRejects decides whether every return reachable from block start carries a
// non-nil error (the edge into start "rejects").
func lpRejects(P *ir.Program, start *ssa.BasicBlock) (int, string) {
	fn := start.Parent()
	ei := ir.ErrorResultIndex(fn.Signature)
	if ei < 0 {
		return lpErrMaybe, ir.FuncName(fn) + " has no error result"
	}
	worst, why := lpErrNonNil, ""
	var blocks []*ssa.BasicBlock
	for b := range ir.ReachableFrom(start, nil) {
		blocks = append(blocks, b)
	}
	sort.Slice(blocks, func(i, j int) bool { return blocks[i].Index < blocks[j].Index })
	for _, b := range blocks {
		if len(b.Instrs) == 0 {
			continue
		}
		r, ok := b.Instrs[len(b.Instrs)-1].(*ssa.Return)
		if !ok || ei >= len(r.Results) {
			continue
		}
		switch lpErrClass(r.Results[ei], b, 0) {
		case lpErrNil:
			return lpErrNil, "reaches the return with nil error at " + P.InstrPos(r)
		case lpErrMaybe:
			worst, why = lpErrMaybe, "cannot classify the error returned at "+P.InstrPos(r)
		}
	}
	return worst, why
}

// lpAvoidReachesSuccess: starting at `from`, never entering block `avoid`,
// not following edges for which skip is true, is a return with a nil or
// unknown error (or, if stopAt is non-nil, block stopAt) reachable?
func lpAvoidReachesSuccess(P *ir.Program, from, avoid, stopAt *ssa.BasicBlock, within map[*ssa.BasicBlock]bool,
	skip func(from, to *ssa.BasicBlock) bool, counts func(*ssa.Return) bool) (bool, string) {
	if from == avoid {
		return false, ""
	}
	fn := from.Parent()
	ei := ir.ErrorResultIndex(fn.Signature)
	sk := func(a, b *ssa.BasicBlock) bool {
		if b == avoid {
			return true
		}
		if within != nil && !within[b] && b != stopAt {
			return true
		}
		return skip != nil && skip(a, b)
	}
	seen := ir.ReachableFrom(from, sk)
	if stopAt != nil && seen[stopAt] && stopAt != from {
		return true, "block " + fmt.Sprint(stopAt.Index)
	}
	// a self loop back to `from` counts when from is the stop block's target
	var blocks []*ssa.BasicBlock
	for b := range seen {
		blocks = append(blocks, b)
	}
	sort.Slice(blocks, func(i, j int) bool { return blocks[i].Index < blocks[j].Index })
	for _, b := range blocks {
		if len(b.Instrs) == 0 {
			continue
		}
		r, ok := b.Instrs[len(b.Instrs)-1].(*ssa.Return)
		if !ok || (counts != nil && !counts(r)) {
			continue
		}
		if ei < 0 || ei >= len(r.Results) {
			return true, "return at " + P.InstrPos(r)
		}
		if lpErrClass(r.Results[ei], b, 0) != lpErrNonNil {
			return true, "return at " + P.InstrPos(r)
		}
	}
	return false, ""
}

// ---- register-free rendering of conditions ----------------------------------

func lpNegOp(op token.Token) token.Token {
	switch op {
	case token.EQL:
		return token.NEQ
	case token.NEQ:
		return token.EQL
	case token.LSS:
		return token.GEQ
	case token.GEQ:
		return token.LSS
	case token.GTR:
		return token.LEQ
	case token.LEQ:
		return token.GTR
	}
	return token.ILLEGAL
}

func lpFlipOp(op token.Token) token.Token {
	switch op {
	case token.LSS:
		return token.GTR
	case token.GTR:
		return token.LSS
	case token.LEQ:
		return token.GEQ
	case token.GEQ:
		return token.LEQ
	}
	return op
}

// lpCallName names the target of a call without registers: the callee's name,
// or the field a function value was loaded from.
func lpCallName(com *ssa.CallCommon) string {
	if com.IsInvoke() {
		return com.Method.Name()
	}
	if sc := ir.Callee(com); sc != nil {
		return sc.Name()
	}
	if b, ok := com.Value.(*ssa.Builtin); ok {
		return b.Name()
	}
	return describeFuncValue(com.Value)
}

// lpDesc renders a value by its dataflow origin (field names, callee names,
// constants), never by SSA register or local-variable name.
func lpDesc(v ssa.Value, d int) string {
	if v == nil {
		return "?"
	}
	if d > 10 {
		return "…"
	}
	v = ir.ResolveCell(v)
	switch x := v.(type) {
	case *ssa.Const:
		if x.Value == nil {
			return "nil"
		}
		return x.Value.ExactString()
	case *ssa.BinOp:
		return lpDesc(x.X, d+1) + x.Op.String() + lpDesc(x.Y, d+1)
	case *ssa.UnOp:
		if x.Op == token.MUL {
			return lpDescAddr(x.X, d+1)
		}
		return x.Op.String() + lpDesc(x.X, d+1)
	case *ssa.Field:
		return ir.FieldName(x.X.Type(), x.Field)
	case *ssa.Call:
		if b, ok := x.Call.Value.(*ssa.Builtin); ok && len(x.Call.Args) > 0 {
			return b.Name() + "(" + lpDesc(x.Call.Args[0], d+1) + ")"
		}
		n := lpCallName(&x.Call)
		if ir.IsErrorType(x.Type()) {
			return n + ".err"
		}
		return n
	case *ssa.Extract:
		if c, ok := x.Tuple.(*ssa.Call); ok {
			n := lpCallName(&c.Call)
			if ir.IsErrorType(x.Type()) {
				return n + ".err"
			}
			if x.Index == 0 {
				return n
			}
			return fmt.Sprintf("%s#%d", n, x.Index)
		}
		return "tuple"
	case *ssa.MakeInterface:
		return lpDesc(x.X, d+1)
	case *ssa.ChangeInterface:
		return lpDesc(x.X, d+1)
	case *ssa.ChangeType:
		return lpDesc(x.X, d+1)
	case *ssa.Convert:
		return lpDesc(x.X, d+1)
	case *ssa.Parameter:
		return "arg(" + types.TypeString(x.Type(), func(*types.Package) string { return "" }) + ")"
	case *ssa.FreeVar:
		return "captured(" + types.TypeString(x.Type(), func(*types.Package) string { return "" }) + ")"
	case *ssa.Phi:
		return "φ"
	case *ssa.TypeAssert:
		return "assert(" + lpDesc(x.X, d+1) + ")"
	case *ssa.Global:
		return x.Name()
	}
	return "?"
}

func lpDescAddr(a ssa.Value, d int) string {
	switch x := a.(type) {
	case *ssa.FieldAddr:
		f := ir.FieldName(x.X.Type(), x.Field)
		if lpIsMastPtr(x.X.Type()) {
			return "m." + f
		}
		return f
	case *ssa.IndexAddr:
		return lpDesc(x.X, d+1) + "[" + lpDesc(x.Index, d+1) + "]"
	case *ssa.Global:
		return x.Name()
	}
	return lpDesc(a, d+1)
}

// lpDescCond renders condition cond as it holds when truth is its outcome.
func lpDescCond(cond ssa.Value, truth bool) string {
	for {
		u, ok := cond.(*ssa.UnOp)
		if !ok || u.Op != token.NOT {
			break
		}
		truth = !truth
		cond = u.X
	}
	if b, ok := cond.(*ssa.BinOp); ok {
		op := b.Op
		if !truth {
			if n := lpNegOp(op); n != token.ILLEGAL {
				op = n
				truth = true
			}
		}
		s := lpDesc(b.X, 0) + op.String() + lpDesc(b.Y, 0)
		if !truth {
			return "!(" + s + ")"
		}
		return s
	}
	s := lpDesc(cond, 0)
	if !truth {
		return "!" + s
	}
	return s
}

// lpGuard is one branch edge that leads into a panic-bound region.
type lpGuard struct {
	If    *ssa.If
	Truth bool // outcome of If.Cond on the edge into the region
}

// lpGuardsOf finds the branch edges through which the panic-bound region
// containing block b is entered (empty: the region starts at function entry).
func (f *lpFunc) lpGuardsOf(b *ssa.BasicBlock) []lpGuard {
	// region: panic-bound blocks from which b is reachable
	var out []lpGuard
	seenG := map[*ssa.BasicBlock]bool{}
	seen := map[*ssa.BasicBlock]bool{b: true}
	work := []*ssa.BasicBlock{b}
	for len(work) > 0 {
		x := work[len(work)-1]
		work = work[:len(work)-1]
		for _, p := range x.Preds {
			if !f.live[p] {
				continue
			}
			isSucc := false
			for _, s := range f.succ[p] {
				if s == x {
					isSucc = true
				}
			}
			if !isSucc {
				continue
			}
			if f.bound[p] {
				if !seen[p] {
					seen[p] = true
					work = append(work, p)
				}
				continue
			}
			if seenG[p] || len(p.Instrs) == 0 {
				continue
			}
			if iff, ok := p.Instrs[len(p.Instrs)-1].(*ssa.If); ok {
				seenG[p] = true
				out = append(out, lpGuard{iff, p.Succs[0] == x})
			}
		}
	}
	sort.Slice(out, func(i, j int) bool { return out[i].If.Block().Index < out[j].If.Block().Index })
	return out
}

func lpGuardText(gs []lpGuard) string {
	if len(gs) == 0 {
		return "unconditional"
	}
	var parts []string
	for _, g := range gs {
		parts = append(parts, lpDescCond(g.If.Cond, g.Truth))
	}
	sort.Strings(parts)
	return strings.Join(parts, " or ")
}

// lpRecvOrMastParam returns the index of the first parameter of type *Mast.
func lpMastParam(fn *ssa.Function) int {
	for i, p := range fn.Params {
		if lpIsMastPtr(p.Type()) {
			return i
		}
	}
	return -1
}

// ---- refined resolution of calls through function values -------------------------
//
// Facts.Callees resolves a dynamic call to every address-taken repository
// function of identical signature. For the load-path rules that is too coarse
// (the marshaler captured by DefaultKeyCompare has the signature of flush's
// versioned marshaler, which is never stored in Mast.marshal). lpResolver
// traces the called value to its origins — closures and functions stored in the
// struct field, global, cell, parameter or captured variable it is read from —
// and keeps only the CHA candidates among them. If the trace meets a shape it
// does not understand it falls back on the CHA set (never fewer callees than
// can be justified).

type lpResolver struct {
	c        *Ctx
	fieldSt  map[string][]ssa.Value      // "pkg.Type.field" -> values stored
	globalSt map[*ssa.Global][]ssa.Value // global -> values stored
	closers  map[*ssa.Function][]*ssa.MakeClosure
	memo     map[ssa.CallInstruction][]*ssa.Function
}

func lpFieldKey(t types.Type, field int) string {
	u := t.Underlying()
	if p, ok := u.(*types.Pointer); ok {
		t = p.Elem()
	}
	return types.TypeString(t, nil) + "." + ir.FieldName(t, field)
}

func newLpResolver(c *Ctx) *lpResolver {
	R := &lpResolver{c: c, fieldSt: map[string][]ssa.Value{}, globalSt: map[*ssa.Global][]ssa.Value{},
		closers: map[*ssa.Function][]*ssa.MakeClosure{}, memo: map[ssa.CallInstruction][]*ssa.Function{}}
	fns := append([]*ssa.Function(nil), c.P.Funcs...)
	for _, sp := range c.P.SPkgs {
		if f := sp.Func("init"); f != nil {
			fns = append(fns, f)
		}
	}
	for _, fn := range fns {
		for _, b := range fn.Blocks {
			for _, ins := range b.Instrs {
				switch x := ins.(type) {
				case *ssa.Store:
					switch a := x.Addr.(type) {
					case *ssa.FieldAddr:
						k := lpFieldKey(a.X.Type(), a.Field)
						R.fieldSt[k] = append(R.fieldSt[k], x.Val)
					case *ssa.Global:
						R.globalSt[a] = append(R.globalSt[a], x.Val)
					}
				case *ssa.MakeClosure:
					if g, ok := x.Fn.(*ssa.Function); ok {
						R.closers[g] = append(R.closers[g], x)
					}
				}
			}
		}
	}
	return R
}

// origins traces function value v; opaque reports an untraceable shape.
func (R *lpResolver) origins(v ssa.Value) (fns map[*ssa.Function]bool, opaque bool) {
	fns = map[*ssa.Function]bool{}
	seen := map[ssa.Value]bool{v: true}
	work := []ssa.Value{v}
	push := func(x ssa.Value) {
		if x != nil && !seen[x] {
			seen[x] = true
			work = append(work, x)
		}
	}
	for n := 0; len(work) > 0; n++ {
		if n > 2000 {
			return fns, true
		}
		x := work[len(work)-1]
		work = work[:len(work)-1]
		switch y := x.(type) {
		case *ssa.Function:
			fns[y] = true
		case *ssa.MakeClosure:
			if g, ok := y.Fn.(*ssa.Function); ok {
				fns[g] = true
			}
		case *ssa.Const:
		case *ssa.ChangeType:
			push(y.X)
		case *ssa.Phi:
			for _, e := range y.Edges {
				push(e)
			}
		case *ssa.FreeVar:
			fn := y.Parent()
			idx := -1
			for i, fv := range fn.FreeVars {
				if fv == y {
					idx = i
				}
			}
			for _, mc := range R.closers[fn] {
				if idx >= 0 && idx < len(mc.Bindings) {
					push(mc.Bindings[idx])
				}
			}
		case *ssa.Parameter:
			fn := y.Parent()
			if R.c.Facts.addrTaken[fn] || fn.Parent() != nil {
				return fns, true // may be called through a value: arguments unknown
			}
			idx := paramIndex(y)
			for _, ci := range R.c.P.Callers[fn] {
				if args := ci.Common().Args; idx < len(args) {
					push(args[idx])
				}
			}
			// an exported function may also be called by the user with a user
			// function: not a repository callee.
		case *ssa.Alloc:
			if y.Referrers() != nil {
				for _, r := range *y.Referrers() {
					switch st := r.(type) {
					case *ssa.Store:
						if st.Addr == ssa.Value(y) {
							push(st.Val)
						} else {
							return fns, true
						}
					case *ssa.UnOp, *ssa.DebugRef, *ssa.MakeClosure:
					default:
						return fns, true
					}
				}
			}
		case *ssa.UnOp:
			if y.Op != token.MUL {
				return fns, true
			}
			switch a := y.X.(type) {
			case *ssa.FieldAddr:
				for _, sv := range R.fieldSt[lpFieldKey(a.X.Type(), a.Field)] {
					push(sv)
				}
			case *ssa.Global:
				for _, sv := range R.globalSt[a] {
					push(sv)
				}
			case *ssa.Alloc, *ssa.FreeVar:
				push(a)
			default:
				return fns, true
			}
		case *ssa.Call:
			g := ir.Callee(y.Call)
			if g == nil || g.Blocks == nil {
				return fns, true
			}
			for _, r := range ir.Returns(g) {
				if len(r.Results) == 1 {
					push(r.Results[0])
				} else {
					return fns, true
				}
			}
		case *ssa.Extract:
			// component i of a package function's result tuple: its i-th
			// return value on every return
			call, ok := y.Tuple.(*ssa.Call)
			if !ok {
				return fns, true
			}
			g := ir.Callee(call.Call)
			if g == nil || g.Blocks == nil {
				return fns, true
			}
			for _, r := range ir.Returns(g) {
				if y.Index < len(r.Results) {
					push(r.Results[y.Index])
				} else {
					return fns, true
				}
			}
		default:
			return fns, true
		}
	}
	return fns, false
}

// Callees is Facts.Callees narrowed by the origin trace for dynamic calls.
func (R *lpResolver) Callees(ci ssa.CallInstruction) []*ssa.Function {
	if out, ok := R.memo[ci]; ok {
		return out
	}
	all := R.c.Facts.Callees(ci)
	out := all
	com := ci.Common()
	if !com.IsInvoke() && ir.Callee(com) == nil && len(all) > 0 {
		if _, isB := com.Value.(*ssa.Builtin); !isB {
			if fns, opaque := R.origins(com.Value); !opaque {
				out = nil
				for _, g := range all {
					if fns[g] {
						out = append(out, g)
					}
				}
			}
		}
	}
	R.memo[ci] = out
	return out
}
