package rules

// MARKREAD — who may read the session marks of a tree.
//
// Mast.emptied ("the last entry was deleted since the tree was loaded or last persisted") exists so that IsDirty can
// answer for a tree whose root is nil. It is set where the root becomes nil and cleared only by a successful persist —
// an Insert into the emptied tree does not clear it. It therefore says nothing about the tree's *contents*: a tree that
// was emptied and filled again still carries it. Any function other than IsDirty and the persisting function that lets
// it decide something (C06-m32: the diff took `m.root == nil || m.emptied` for "this side is empty" and reported none
// of the entries of a refilled tree, while Iter and Get still saw them) answers for the wrong tree.

import (
	"go/token"
	"go/types"

	"golang.org/x/tools/go/ssa"

	"mastcheck/ir"
)

func init() {
	Register(&Rule{ID: "MARKREAD", Props: []string{"C06", "C07", "C01", "C10", "C15", "C12"}, Min: 1,
		Doc: "the bookkeeping marks IsDirty reads besides the root (today: Mast.emptied, set where the root becomes nil and cleared only by a successful persist, so it survives a later Insert) say whether the tree differs from its persisted version, not what it holds: no function other than IsDirty and the persisting function (with the private helpers split out of them) reads such a mark. A read anywhere else — a diff or an iteration that takes the mark for 'this tree is empty' — answers for a tree that was emptied and filled again as if it were empty.",
		Run: runMARKREAD})
}

func runMARKREAD(c *Ctx) {
	P := c.P
	isd := c.MustFunc("(*Mast).IsDirty")
	if isd == nil {
		return
	}
	marks := map[string]bool{}
	for _, b := range isd.Blocks {
		for _, ins := range b.Instrs {
			if ld, ok := ins.(*ssa.UnOp); ok && ld.Op == token.MUL {
				if fa, ok := ld.X.(*ssa.FieldAddr); ok && ir.IsPtrToNamed(fa.X.Type(), "Mast") {
					if bt, ok := ld.Type().Underlying().(*types.Basic); ok && bt.Kind() == types.Bool {
						marks[ir.FieldName(fa.X.Type(), fa.Field)] = true
					}
				}
			}
		}
	}
	// a helper split out of IsDirty reads the mark on its behalf
	readers := map[*ssa.Function]bool{isd: true}
	for _, f := range regionOf(c, isd) {
		readers[f] = true
	}
	if sh := findFlush(c); sh != nil {
		for _, f := range regionOf(c, sh.F) {
			readers[f] = true
		}
	}
	if len(marks) == 0 {
		// IsDirty answers from the root alone: nothing to police (ROOTDIRTY then demands a dirty node for every root)
		c.OK(P.Pos(isd.Pos()), "marks read by IsDirty", "none", true)
		return
	}
	for _, fn := range P.Funcs {
		if fn.Pkg == nil || fn.Pkg.Pkg.Path() != ir.MastPath {
			continue
		}
		for _, b := range fn.Blocks {
			if ir.IsDead(b) {
				continue
			}
			for _, ins := range b.Instrs {
				var fa *ssa.FieldAddr
				switch x := ins.(type) {
				case *ssa.UnOp:
					if x.Op == token.MUL {
						fa, _ = x.X.(*ssa.FieldAddr)
					}
				}
				if fa == nil || !ir.IsPtrToNamed(fa.X.Type(), "Mast") {
					continue
				}
				f := ir.FieldName(fa.X.Type(), fa.Field)
				if !marks[f] {
					continue
				}
				pos := P.InstrPos(ins)
				if readers[ir.Outermost(fn)] || readers[fn] {
					c.OK(pos, "read of Mast."+f+" in "+ir.FuncName(fn), "by IsDirty / the persisting function", false)
					continue
				}
				// a read whose only use is a store into the same field of another Mast (a field-by-field copy) decides nothing
				if onlyCopiedToSameField(ins.(*ssa.UnOp), f) {
					c.OK(pos, "read of Mast."+f+" in "+ir.FuncName(fn), "copied into the same field of another tree, decides nothing", false)
					continue
				}
				c.Violation(fn, pos, "read of Mast."+f+" outside IsDirty",
					"Mast."+f+" records that the tree differs from its persisted version (it is set when the last entry is deleted and cleared only by a successful persist — a later Insert leaves it set); here it is read by a function that is neither IsDirty nor the persisting function: whatever it decides (this side is empty, nothing to iterate) is wrong for a tree that was emptied and filled again")
			}
		}
	}
}

func onlyCopiedToSameField(ld *ssa.UnOp, field string) bool {
	refs := ld.Referrers()
	if refs == nil || len(*refs) == 0 {
		return false
	}
	for _, r := range *refs {
		switch x := r.(type) {
		case *ssa.DebugRef:
		case *ssa.Store:
			fa, ok := x.Addr.(*ssa.FieldAddr)
			if !ok || x.Val != ssa.Value(ld) || !ir.IsPtrToNamed(fa.X.Type(), "Mast") || ir.FieldName(fa.X.Type(), fa.Field) != field {
				return false
			}
		default:
			return false
		}
	}
	return true
}
