package rules

import (
	"strings"
	"fmt"
	"go/types"
	"sort"

	"golang.org/x/tools/go/ssa"

	"mastcheck/ir"
)

// Facts are program facts shared by the rules, computed once per loaded
// configuration.
type Facts struct {
	P *ir.Program

	// resolved call edges: static callees, closures, and — for calls
	// through function values — every repository function of identical
	// signature whose value is taken somewhere (CHA for func values).
	callees map[ssa.CallInstruction][]*ssa.Function
	// external names a call that leaves the repository: "Persist.Load",
	// "NodeCache.Add", "callback:keyOrder", "ext:fmt.Errorf", ...
	external map[ssa.CallInstruction]string

	addrTaken map[*ssa.Function]bool

	debugFuncs   map[*ssa.Function]string
	debugWritten int // 0 unknown, 1 never written, 2 written
	neverFail    map[*ssa.Function]bool

	MayLoad  map[*ssa.Function]bool // may reach Persist.Load
	MayStore map[*ssa.Function]bool // may reach Persist.Store
	MayFail  map[*ssa.Function]bool // some return carries a possibly non-nil error

	own *ownAnalysis

	propReach map[string]map[*ssa.Function]bool
	eff       *effectInfo
	sentProd  map[*ssa.Global]bool
}

// NewFacts computes the shared facts.
func NewFacts(P *ir.Program) *Facts {
	F := &Facts{P: P,
		callees:   map[ssa.CallInstruction][]*ssa.Function{},
		external:  map[ssa.CallInstruction]string{},
		addrTaken: map[*ssa.Function]bool{},
		MayLoad:   map[*ssa.Function]bool{},
		MayStore:  map[*ssa.Function]bool{},
		MayFail:   map[*ssa.Function]bool{},
	}
	ir.ResetDeadMemo()
	pn := pathNames(P)
	posFieldName, nodeFieldName = pn.idx, pn.node
	ir.DeadHook = F.deadBlock
	F.resolveCalls()
	F.effects()
	currentFacts = F
	return F
}

// deadBlock: b cannot execute — it is dominated by `Mast.debug == true` (a private field nothing outside the package's
// tests sets), or by `err != nil` for the error of a static callee every one of whose returns yields a nil error
// (savePathForRoot): the caller's error branch for such a callee is unreachable.
func (F *Facts) deadBlock(b *ssa.BasicBlock) bool {
	if F.debugWritten == 0 {
		F.debugWritten = 1
		for _, g := range F.P.Funcs {
			for _, bb := range g.Blocks {
				for _, ins := range bb.Instrs {
					if _, f, _, ok := mastFieldStore(ins); ok && f == "debug" {
						F.debugWritten = 2
					}
				}
			}
		}
	}
	for _, f := range ir.FactsAt(b) {
		if F.debugWritten == 1 && mastFieldLoad(f.Cond, "debug") && f.Truth {
			return true
		}
		tv, tnn, isNil := ir.NilTest(f.Cond)
		if !isNil || f.Truth != tnn || !ir.IsErrorType(tv.Type()) {
			continue
		}
		// tv non-nil: is it the error result of a callee that never fails?
		var call *ssa.Call
		switch x := ir.ResolveCell(tv).(type) {
		case *ssa.Call:
			call = x
		case *ssa.Extract:
			call, _ = x.Tuple.(*ssa.Call)
		}
		if call == nil {
			continue
		}
		callee := ir.Callee(call.Call)
		if callee == nil || callee.Blocks == nil || !isOwn(F.P, callee) {
			continue
		}
		if F.neverFails(callee, 0) {
			return true
		}
	}
	return false
}

// neverFails: every return of fn yields a nil error (directly, or the error of another function that never fails).
func (F *Facts) neverFails(fn *ssa.Function, depth int) bool {
	if v, ok := F.neverFail[fn]; ok {
		return v
	}
	if F.neverFail == nil {
		F.neverFail = map[*ssa.Function]bool{}
	}
	F.neverFail[fn] = false
	ei := ir.ErrorResultIndex(fn.Signature)
	if ei < 0 || depth > 2 {
		return false
	}
	ok := true
	n := 0
	for _, b := range fn.Blocks {
		if len(b.Instrs) == 0 {
			continue
		}
		r, isRet := b.Instrs[len(b.Instrs)-1].(*ssa.Return)
		if !isRet || (len(b.Preds) == 0 && b.Index != 0) {
			continue
		}
		n++
		if !ir.IsNilConst(ir.ResolveCell(r.Results[ei])) {
			ok = false
		}
	}
	ok = ok && n > 0
	F.neverFail[fn] = ok
	return ok
}

// currentFacts is the fact base of the configuration being analysed (rules run sequentially).
var currentFacts *Facts

// sentinelProduced: some repository function returns the package-level error g directly.
func (F *Facts) sentinelProduced(g *ssa.Global) bool {
	if F.sentProd == nil {
		F.sentProd = map[*ssa.Global]bool{}
		for _, fn := range F.P.Funcs {
			ei := ir.ErrorResultIndex(fn.Signature)
			if ei < 0 {
				continue
			}
			for _, r := range ir.Returns(fn) {
				if ld, ok := r.Results[ei].(*ssa.UnOp); ok {
					if gg, ok := ld.X.(*ssa.Global); ok {
						F.sentProd[gg] = true
					}
				}
			}
		}
	}
	return F.sentProd[g]
}

func isOwn(P *ir.Program, fn *ssa.Function) bool {
	if fn == nil || fn.Pkg == nil {
		return false
	}
	for _, sp := range P.SPkgs {
		if sp == fn.Pkg {
			return true
		}
	}
	return false
}

func (F *Facts) resolveCalls() {
	P := F.P
	// address-taken functions: used as an operand other than in call position
	for _, fn := range P.Funcs {
		for _, b := range fn.Blocks {
			for _, ins := range b.Instrs {
				var callV ssa.Value
				if ci, ok := ins.(ssa.CallInstruction); ok {
					callV = ci.Common().Value
				}
				for _, op := range ins.Operands(nil) {
					if op == nil || *op == nil {
						continue
					}
					switch v := (*op).(type) {
					case *ssa.Function:
						if v != callV && isOwn(P, v) {
							F.addrTaken[v] = true
						}
					case *ssa.MakeClosure:
						_ = v
					}
				}
				if mc, ok := ins.(*ssa.MakeClosure); ok {
					if f, ok := mc.Fn.(*ssa.Function); ok && mc.Referrers() != nil {
						for _, r := range *mc.Referrers() {
							if _, ok := r.(*ssa.DebugRef); ok {
								continue
							}
							if ci, ok := r.(ssa.CallInstruction); ok && ci.Common().Value == mc {
								asArg := false
								for _, a := range ci.Common().Args {
									if a == mc {
										asArg = true
									}
								}
								if !asArg {
									continue
								}
							}
							F.addrTaken[f] = true
						}
					}
				}
			}
		}
	}
	for _, fn := range P.Funcs {
		for _, b := range fn.Blocks {
			for _, ins := range b.Instrs {
				ci, ok := ins.(ssa.CallInstruction)
				if !ok {
					continue
				}
				com := ci.Common()
				if com.IsInvoke() {
					recv := com.Value.Type()
					name := types.TypeString(recv, func(*types.Package) string { return "" })
					// an unexported interface declared in the repository is a private seam (`type nodeLoader interface{ load(…) }`
					// introduced to decouple a helper): only the repository's own types can be behind it, and a call through it
					// reaches their methods (adv16-E-a4: a loop loading the left spine in LoadMast was invisible to LOADBOUND
					// because it called load through such an interface). Resolved by class hierarchy over the repository's types.
					if nt, isNamed := types.Unalias(recv).(*types.Named); isNamed && nt.Obj().Pkg() != nil && isOwnPkgPath(nt.Obj().Pkg().Path()) && !nt.Obj().Exported() {
						if iface, isI := nt.Underlying().(*types.Interface); isI {
							for _, cand := range P.Funcs {
								if cand.Parent() != nil || cand.Name() != com.Method.Name() || cand.Signature.Recv() == nil || cand.Blocks == nil {
									continue
								}
								rt := cand.Signature.Recv().Type()
								if types.Implements(rt, iface) || types.Implements(types.NewPointer(rt), iface) {
									F.callees[ci] = append(F.callees[ci], cand)
								}
							}
							if len(F.callees[ci]) > 0 {
								continue
							}
						}
					}
					F.external[ci] = name + "." + com.Method.Name()
					// in-repo implementations of the repository's exported interfaces are not
					// followed: the properties treat Persist/NodeCache/Key as
					// user-supplied.
					continue
				}
				if sc := ir.Callee(com); sc != nil {
					if isOwn(P, sc) && sc.Blocks != nil {
						F.callees[ci] = []*ssa.Function{sc}
					} else {
						F.external[ci] = "ext:" + sc.String()
					}
					continue
				}
				if _, ok := com.Value.(*ssa.Builtin); ok {
					F.external[ci] = "builtin:" + com.Value.Name()
					continue
				}
				// dynamic call through a function value
				sig, _ := com.Value.Type().Underlying().(*types.Signature)
				label := "callback:" + describeFuncValue(com.Value)
				F.external[ci] = label
				if sig != nil {
					for _, cand := range P.Funcs {
						if F.addrTaken[cand] && types.Identical(cand.Signature, sig) {
							F.callees[ci] = append(F.callees[ci], cand)
						}
					}
				}
			}
		}
	}
}

func describeFuncValue(v ssa.Value) string {
	v = ir.ResolveCell(v)
	switch x := v.(type) {
	case *ssa.UnOp:
		if fa, ok := x.X.(*ssa.FieldAddr); ok {
			return ir.FieldName(fa.X.Type(), fa.Field)
		}
	case *ssa.Field:
		return ir.FieldName(x.X.Type(), x.Field)
	case *ssa.Parameter:
		return "param " + x.Name()
	case *ssa.FreeVar:
		return "captured " + x.Name()
	}
	return v.Name()
}

// Callees returns the repository functions a call may reach.
func (F *Facts) Callees(ci ssa.CallInstruction) []*ssa.Function { return F.callees[ci] }

// External names the non-repository target of a call ("" if none).
func (F *Facts) External(ci ssa.CallInstruction) string { return F.external[ci] }

// CallsOf lists the call instructions of fn (call, go, defer).
func CallsOf(fn *ssa.Function) []ssa.CallInstruction {
	var out []ssa.CallInstruction
	for _, b := range fn.Blocks {
		if ir.IsDead(b) {
			continue
		}
		for _, ins := range b.Instrs {
			if ci, ok := ins.(ssa.CallInstruction); ok {
				out = append(out, ci)
			}
		}
	}
	return out
}

func (F *Facts) effects() {
	P := F.P
	for _, fn := range P.Funcs {
		ei := ir.ErrorResultIndex(fn.Signature)
		if ei >= 0 {
			for _, r := range ir.Returns(fn) {
				if ei < len(r.Results) && !ir.IsNilConst(r.Results[ei]) {
					F.MayFail[fn] = true
				}
			}
		}
		for _, ci := range CallsOf(fn) {
			switch F.external[ci] {
			case "Persist.Load":
				F.MayLoad[fn] = true
			case "Persist.Store":
				F.MayStore[fn] = true
			}
		}
	}
	for changed := true; changed; {
		changed = false
		for _, fn := range P.Funcs {
			for _, ci := range CallsOf(fn) {
				for _, c := range F.callees[ci] {
					if F.debugOnlyFunc(c) != "" {
						continue // diagnostic dump under Mast.debug / on the way to an assertion panic: not part of the operation
					}
					if F.MayLoad[c] && !F.MayLoad[fn] {
						F.MayLoad[fn] = true
						changed = true
					}
					if F.MayStore[c] && !F.MayStore[fn] {
						F.MayStore[fn] = true
						changed = true
					}
				}
			}
			// a function that creates a closure which may load is itself
			// charged only when it calls it; nothing to do here.
		}
	}
}

// Reach returns the functions reachable from the entries through resolved
// calls, plus every anonymous function created by a reached function.
func (F *Facts) Reach(entries ...*ssa.Function) map[*ssa.Function]bool {
	seen := map[*ssa.Function]bool{}
	var work []*ssa.Function
	push := func(f *ssa.Function) {
		if f != nil && !seen[f] && f.Blocks != nil {
			seen[f] = true
			work = append(work, f)
		}
	}
	for _, e := range entries {
		push(e)
	}
	for len(work) > 0 {
		fn := work[len(work)-1]
		work = work[:len(work)-1]
		for _, a := range fn.AnonFuncs {
			push(a)
		}
		for _, ci := range CallsOf(fn) {
			for _, c := range F.callees[ci] {
				push(c)
			}
		}
	}
	return seen
}

// CallChain finds one call chain from any entry to target (for witnesses).
func (F *Facts) CallChain(entries []*ssa.Function, target *ssa.Function) []string {
	prev := map[*ssa.Function]*ssa.Function{}
	seen := map[*ssa.Function]bool{}
	var q []*ssa.Function
	for _, e := range entries {
		if e != nil && !seen[e] {
			seen[e] = true
			q = append(q, e)
		}
	}
	for len(q) > 0 {
		fn := q[0]
		q = q[1:]
		if fn == target {
			var chain []string
			for f := fn; f != nil; f = prev[f] {
				chain = append([]string{ir.FuncName(f)}, chain...)
			}
			return chain
		}
		next := append([]*ssa.Function(nil), fn.AnonFuncs...)
		for _, ci := range CallsOf(fn) {
			next = append(next, F.callees[ci]...)
		}
		for _, c := range next {
			if !seen[c] && c.Blocks != nil {
				seen[c] = true
				prev[c] = fn
				q = append(q, c)
			}
		}
	}
	return nil
}

// Exported API entry points of package mast.
func (F *Facts) ExportedEntries() []*ssa.Function {
	var out []*ssa.Function
	for _, fn := range F.P.Funcs {
		if fn.Parent() != nil || fn.Pkg.Pkg.Path() != ir.MastPath {
			continue
		}
		if !fn.Object().Exported() {
			continue
		}
		if fn.Signature.Recv() != nil {
			// exported method of an exported type only
			rt := fn.Signature.Recv().Type()
			if p, ok := rt.(*types.Pointer); ok {
				rt = p.Elem()
			}
			if n, ok := rt.(*types.Named); ok && !n.Obj().Exported() {
				continue
			}
		}
		out = append(out, fn)
	}
	sort.Slice(out, func(i, j int) bool { return ir.PosLess(out[i].Pos(), out[j].Pos()) })
	return out
}

// Entry resolves API entry points by FuncName; missing ones are reported
// through c.AnchorMissing.
func (c *Ctx) Entries(names ...string) []*ssa.Function {
	var out []*ssa.Function
	for _, n := range names {
		fn := c.P.MastFunc(n)
		if fn == nil {
			fn = roleFunc(c.P, n)
		}
		if fn == nil {
			c.AnchorMissing("function " + n)
			continue
		}
		out = append(out, fn)
	}
	return out
}

// MustFunc resolves one function of package mast or records a missing anchor.
func (c *Ctx) MustFunc(name string) *ssa.Function {
	fn := c.P.MastFunc(name)
	if fn == nil {
		if fn = roleFunc(c.P, name); fn != nil {
			c.Note("anchor %s resolved by signature to %s", name, ir.FuncName(fn))
			return fn
		}
	}
	if fn == nil {
		c.AnchorMissing("function " + name)
	}
	return fn
}

func fmtChain(chain []string) string {
	s := ""
	for i, x := range chain {
		if i > 0 {
			s += " → "
		}
		s += x
	}
	return s
}

var _ = fmt.Sprintf

// debugOnlyFunc: fn (or the function it is nested in) can only run from code guarded by Mast.debug, a private
// field that no non-test code ever sets: every call site is in a block dominated by `debug == true`, or in another
// such function. Returns the reason, or "".
func (F *Facts) debugOnlyFunc(fn *ssa.Function) string {
	if F.debugFuncs == nil {
		F.debugFuncs = map[*ssa.Function]string{}
		P := F.P
		// is the field ever written?
		written := false
		for _, g := range P.Funcs {
			for _, b := range g.Blocks {
				for _, ins := range b.Instrs {
					if _, f, _, ok := mastFieldStore(ins); ok && f == "debug" {
						written = true
					}
				}
			}
		}
		if !written {
			for changed := true; changed; {
				changed = false
				for _, g := range P.Funcs {
					if g.Parent() != nil || F.debugFuncs[g] != "" || F.addrTaken[g] {
						continue
					}
					if g.Object() == nil || g.Object().Exported() {
						continue
					}
					callers := P.Callers[g]
					if len(callers) == 0 {
						continue
					}
					all := true
					for _, cs := range callers {
						outer := ir.Outermost(cs.Parent())
						if outer == g {
							continue // recursion
						}
						if debugOnly(cs.Block()) || ir.PanicOnly(cs.Block()) || F.debugFuncs[outer] != "" {
							continue
						}
						all = false
					}
					if all {
						F.debugFuncs[g] = "diagnostic output: reachable only under Mast.debug (never set outside the package's tests) or on the way to an assertion panic"
						changed = true
					}
				}
			}
		}
	}
	return F.debugFuncs[ir.Outermost(fn)]
}

func isOwnPkgPath(p string) bool { return p == ir.MastPath || strings.HasPrefix(p, ir.MastPath+"/") }
