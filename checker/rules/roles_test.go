package rules

import (
	"testing"

	"mastcheck/ir"
)

func TestRoles(t *testing.T) {
	P, err := ir.Load(ir.Options{Dir: "/repo"})
	if err != nil {
		t.Fatal(err)
	}
	for name := range roleSignatures {
		byName := P.MastFunc(name)
		byRole := roleFunc(P, name)
		if byName == nil || byRole != byName {
			got := "<nil>"
			if byName != nil {
				got = sigKey(byName)
			}
			t.Errorf("%s: by name %v, by role %v; signature today: %s", name, byName, byRole, got)
		}
	}
}
