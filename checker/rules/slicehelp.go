package rules

import (
	"golang.org/x/tools/go/ssa"

	"mastcheck/ir"
)

// penv binds the parameters of a followed helper to the caller's argument
// values (chained for nested helpers): slice-provenance questions about a
// helper's result are answered in terms of what the caller passed in.
type penv struct {
	m  map[*ssa.Parameter]ssa.Value
	up *penv
}

func (e *penv) lookup(p *ssa.Parameter) (ssa.Value, *penv, bool) {
	for ; e != nil; e = e.up {
		if v, ok := e.m[p]; ok {
			return v, e.up, true
		}
	}
	return nil, nil, false
}

// helperReturns: for a call (or the Extract of one) to a static in-repo helper with a body, the values its
// returns yield at the given result index, with the environment that binds the helper's parameters.
func helperReturns(v ssa.Value, env *penv) ([]ssa.Value, *penv, *ssa.Function) {
	idx := 0
	var call *ssa.Call
	switch x := v.(type) {
	case *ssa.Call:
		call = x
	case *ssa.Extract:
		call, _ = x.Tuple.(*ssa.Call)
		idx = x.Index
	}
	if call == nil {
		return nil, nil, nil
	}
	callee := ir.Callee(call.Call)
	if callee == nil || callee.Blocks == nil || callee.Pkg == nil || len(call.Call.Args) != len(callee.Params) {
		return nil, nil, nil
	}
	ne := &penv{m: map[*ssa.Parameter]ssa.Value{}, up: env}
	for i, p := range callee.Params {
		ne.m[p] = call.Call.Args[i]
	}
	var out []ssa.Value
	for _, r := range ir.Returns(callee) {
		if idx < len(r.Results) {
			out = append(out, r.Results[idx])
		}
	}
	if len(out) == 0 {
		return nil, nil, nil
	}
	return out, ne, callee
}

// sliceRootParam: the parameter a slice value is derived from by reslicing, append-to-it and φ.
func sliceRootParam(v ssa.Value, d int) *ssa.Parameter {
	if d > 8 {
		return nil
	}
	switch x := v.(type) {
	case *ssa.Parameter:
		return x
	case *ssa.Slice:
		return sliceRootParam(x.X, d+1)
	case *ssa.ChangeType:
		return sliceRootParam(x.X, d+1)
	case *ssa.Call:
		if b, ok := x.Call.Value.(*ssa.Builtin); ok && b.Name() == "append" {
			return sliceRootParam(x.Call.Args[0], d+1)
		}
	case *ssa.Phi:
		var p *ssa.Parameter
		for _, e := range x.Edges {
			q := sliceRootParam(e, d+1)
			if q == nil || (p != nil && q != p) {
				return nil
			}
			p = q
		}
		return p
	}
	return nil
}

// stdSliceOp: a call of a standard-library slice helper whose result is backed by its first argument or by fresh
// storage, exactly like append: slices.Insert, slices.Delete, slices.Grow, slices.Clip, slices.Compact.
func stdSliceOp(call *ssa.Call) (name string, ok bool) {
	sc := ir.Callee(call.Call)
	if sc == nil {
		return "", false
	}
	switch n := sc.String(); n {
	case "slices.Insert", "slices.Delete", "slices.Grow", "slices.Clip":
		return n, len(call.Call.Args) >= 1
	}
	return "", false
}
