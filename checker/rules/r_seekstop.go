package rules

import (
	"fmt"
	"go/token"
	"go/types"
	"strings"

	"golang.org/x/tools/go/ssa"

	"mastcheck/ir"
)

// SEEKSTOP: a cursor positioned by key (Ceil) descends one node per level and stops at the node that holds the probe:
// the search path of a key ends where the key is. A descent that goes on below an exact match reads the right spine
// of the entry's left subtree and climbs back — the same answer, for up to `height` extra node reads per call.

func init() {
	Register(&Rule{ID: "SEEKSTOP", Props: []string{"C16"}, Min: 1,
		Doc: "in (*Cursor).Ceil (and the private helpers split out of it) every node load is reached only after the probe has been compared with the entry at the current position " +
			"and found different (the not-equal edge of a test of keyOrder(probe, …) against 0), or the position has been found to be past the node's last key (the false edge of position < len(Key)); " +
			"a call that recomputes the position or a change of the path invalidates the knowledge (must-dataflow).",
		Run: runSEEKSTOP})
}

func runSEEKSTOP(c *Ctx) {
	P := c.P
	ceil := c.MustFunc("(*Cursor).Ceil")
	load := c.MustFunc("(*Mast).load")
	if ceil == nil || load == nil {
		return
	}
	var probe *ssa.Parameter
	for _, p := range ceil.Params {
		if _, isIface := p.Type().Underlying().(interface{ NumMethods() int }); isIface && !strings.Contains(p.Type().String(), "Context") {
			probe = p
		}
	}
	if probe == nil {
		c.AnchorMissing("the probe key parameter of Cursor.Ceil")
		return
	}
	// calls that may move the position: callees that (transitively) store a path entry's position
	movesPos := map[*ssa.Function]bool{}
	for _, fn := range P.Funcs {
		for _, b := range fn.Blocks {
			for _, ins := range b.Instrs {
				if st, ok := ins.(*ssa.Store); ok {
					if fa, ok := st.Addr.(*ssa.FieldAddr); ok && ir.FieldName(fa.X.Type(), fa.Field) == posFieldName {
						movesPos[ir.Outermost(fn)] = true
					}
				}
			}
		}
	}
	n := 0
	ceilProbe := probe
	for _, fn := range regionOf(c, ceil) {
		probe := probe
		if fn != ceil {
			// a helper is decided in its own body when every call site (in Ceil) hands it the probe unchanged
			probe = nil
			for j, hp := range fn.Params {
				all := len(P.Callers[fn]) > 0
				for _, cs := range P.Callers[fn] {
					args := cs.Common().Args
					if cs.Parent() != ceil || j >= len(args) || ir.ResolveCell(ir.Strip(args[j])) != ssa.Value(ceilProbe) {
						all = false
					}
				}
				if all {
					probe = hp
				}
			}
			if probe == nil {
				if c.Facts.MayLoad[fn] && !movesPos[fn] {
					c.Undecided(fn, P.Pos(fn.Pos()), "helper of Ceil that reads nodes is not handed the probe", "cannot relate the helper's comparisons to Ceil's probe key")
				}
				continue
			}
		}
		for _, ci := range CallsOf(fn) {
			call, ok := ci.(*ssa.Call)
			if !ok {
				continue
			}
			loads := false
			for _, callee := range c.Facts.Callees(ci) {
				if callee == load || c.Facts.MayLoad[callee] {
					loads = true
				}
			}
			if !loads || movesPosCall(c, ci, movesPos) {
				continue // the search step itself (search1) loads nothing below the current node
			}
			n++
			pos := P.InstrPos(call)
			what := "node read in " + ir.FuncName(fn)
			var baseFact func(fc ir.Fact, probe *ssa.Parameter) bool
			baseFact = func(fc ir.Fact, probe *ssa.Parameter) bool {
				bin, isBin := fc.Cond.(*ssa.BinOp)
				if !isBin {
					return false
				}
				// position < len(Key) refuted
				if ld, isLd := ir.ResolveCell(bin.X).(*ssa.UnOp); isLd && ld.Op == token.MUL {
					if fa, isFA := ld.X.(*ssa.FieldAddr); isFA && ir.FieldName(fa.X.Type(), fa.Field) == posFieldName && isLenCall(bin.Y) && strings.HasSuffix(ir.Sym(bin.Y), ".Key)") {
						if (bin.Op == token.LSS && !fc.Truth) || (bin.Op == token.GEQ && fc.Truth) || (bin.Op == token.EQL && fc.Truth) || (bin.Op == token.NEQ && !fc.Truth) {
							return true
						}
					}
				}
				// keyOrder(probe, entry) != 0
				if k, isK := ir.ConstInt(bin.Y); isK && k == 0 {
					if ex, isEx := ir.ResolveCell(bin.X).(*ssa.Extract); isEx && ex.Index == 0 {
						if cmpCall, isC := ex.Tuple.(*ssa.Call); isC && strings.HasPrefix(c.Facts.External(cmpCall), "callback:") {
							usesProbe := false
							for _, a := range cmpCall.Call.Args {
								if ir.ResolveCell(ir.Strip(a)) == ssa.Value(probe) {
									usesProbe = true
								}
							}
							if usesProbe && ((bin.Op == token.EQL && !fc.Truth) || (bin.Op == token.NEQ && fc.Truth) ||
								(bin.Op == token.LSS && fc.Truth) || (bin.Op == token.GTR && fc.Truth)) {
								return true
							}
						}
					}
				}
				return false
			}
			ok2 := ir.FlowFact(call, func(fc ir.Fact) bool {
				if baseFact(fc, probe) {
					return true
				}
				// a predicate helper handed the probe (`found, err := c.pointsAtKey(pe, key)`): it answers false only
				// where the position is past the last key or the probe differs from the entry there
				if ex, isEx := ir.ResolveCell(fc.Cond).(*ssa.Extract); isEx && ex.Index == 0 && !fc.Truth {
					if hc, isC := ex.Tuple.(*ssa.Call); isC {
						return stopPredicate(c, hc, probe, baseFact)
					}
				}
				if hc, isC := ir.ResolveCell(fc.Cond).(*ssa.Call); isC && !fc.Truth {
					return stopPredicate(c, hc, probe, baseFact)
				}
				return false
			}, func(i ssa.Instruction) bool {
				if ci2, isCall := i.(ssa.CallInstruction); isCall && movesPosCall(c, ci2, movesPos) {
					return true
				}
				if st, isSt := i.(*ssa.Store); isSt {
					s := ir.Sym(st.Addr)
					return strings.HasSuffix(s, "."+posFieldName) || strings.HasSuffix(s, ".path")
				}
				return false
			})
			if ok2 {
				c.OK(pos, what, "reached only after the probe differed from the entry at the position, or the position is past the last key", false)
			} else {
				c.Violation(fn, pos, "descent continues without comparing the probe with the entry found",
					"on some path Ceil loads the child below the current position although the entry at that position may be the probe itself: the cursor then walks down the right spine of the entry's left subtree and back up, reading up to height extra nodes for a key that sits in an upper layer")
			}
		}
	}
	if n == 0 {
		c.AnchorMissing("node loads in Cursor.Ceil")
	}
}

func movesPosCall(c *Ctx, ci ssa.CallInstruction, movesPos map[*ssa.Function]bool) bool {
	for _, callee := range c.Facts.Callees(ci) {
		if movesPos[callee] {
			return true
		}
	}
	return false
}

// SEEKLEAF: SeekIter answers a successor query ("every entry not smaller than the probe"). The probe's own layer says
// nothing about where its successor is: entries between an absent probe and the next key of an upper node live in the
// layers below that node. So the descent of a range scan goes to the leaves (or stops on the probe itself), every
// level it passed contributes the entries to the right of the position taken, and nothing short-cuts that.

func init() {
	Register(&Rule{ID: "SEEKLEAF", Props: []string{"C10"}, Min: 3,
		Doc: "in (*Mast).SeekIter (and the private helpers split out of it): (1) the descent is parameterised with targetLayer 0 (it stops early only on the probe itself), not with the probe's layer; " +
			"(2) every success return after the descent lies inside or after the loop over the search path: no test of the position found or of the layer reached ends the scan without visiting the upper levels; " +
			"(3) the per-level iteration inside that loop runs only for a path entry whose node differs from the next deeper entry's node (a descent that ends above the leaves records the last node once per remaining level).",
		Run: runSEEKLEAF})
}

func inSeekRegion(c *Ctx, fn *ssa.Function) bool {
	seek := c.P.MastFunc("(*Mast).SeekIter")
	if seek == nil {
		return false
	}
	for _, f := range regionOf(c, seek) {
		if f == ir.Outermost(fn) {
			return true
		}
	}
	return false
}

func runSEEKLEAF(c *Ctx) {
	P := c.P
	seek := c.MustFunc("(*Mast).SeekIter")
	if seek == nil {
		return
	}
	region := regionOf(c, seek)
	// (1)
	lits := 0
	for _, fn := range region {
		for _, b := range fn.Blocks {
			for _, ins := range b.Instrs {
				st, ok := ins.(*ssa.Store)
				if !ok {
					continue
				}
				fa, ok := st.Addr.(*ssa.FieldAddr)
				if !ok || !ir.IsPtrToNamed(fa.X.Type(), "findOptions") || ir.FieldName(fa.X.Type(), fa.Field) != "targetLayer" {
					continue
				}
				if _, isLit := fa.X.(*ssa.Alloc); !isLit {
					continue
				}
				lits++
				if k, isK := ir.ConstInt(st.Val); isK && k == 0 {
					c.OK(P.InstrPos(st), "descent of the range scan in "+ir.FuncName(fn), "targetLayer 0: to the leaves, or to the probe itself", false)
				} else {
					c.Violation(fn, P.InstrPos(st), "range scan stops its descent at a layer computed from the probe",
						"the successor of an absent probe is not at the probe's layer: entries between the probe and the next key of the node reached live in the subtree below that position; stopping there skips them, and yields nothing at all when the node has no later key")
				}
			}
		}
	}
	// the descent call: the call of SeekIter's region that is handed the address of the options
	var descent *ssa.Call
	for _, ci := range CallsOf(seek) {
		call, ok := ci.(*ssa.Call)
		if !ok {
			continue
		}
		for _, a := range call.Call.Args {
			if ir.IsPtrToNamed(a.Type(), "findOptions") {
				descent = call
			}
		}
	}
	if lits > 0 && descent == nil {
		// the descent may have been split out into a private helper (seekPath) that builds the options, descends and
		// hands back the path recorded: the call of that helper stands for the descent, provided the helper itself
		// does not cut the result short
		descent = seekDescentHelperCall(c, seek, region)
	}
	if lits == 0 || descent == nil {
		c.AnchorMissing("the findOptions literal and the descent call of SeekIter")
		return
	}
	// (2)
	ei := ir.ErrorResultIndex(seek.Signature)
	var cyc []*ssa.BasicBlock
	for _, b := range seek.Blocks {
		if inCycle(b) && ir.InstrReaches(descent, b.Instrs[0]) {
			cyc = append(cyc, b)
		}
	}
	// the loop may have been extracted into a private helper that is handed the path: the call stands for the loop
	var loopCalls []*ssa.Call
	var helperCyc []*ssa.BasicBlock
	for _, ci := range CallsOf(seek) {
		call, ok := ci.(*ssa.Call)
		if !ok || !ir.InstrReaches(descent, call) {
			continue
		}
		h := ir.Callee(call.Call)
		if h == nil || h == seek {
			continue
		}
		inReg := false
		for _, f := range region {
			if f == h {
				inReg = true
			}
		}
		takesPath := false
		for _, a := range call.Call.Args {
			if sl, ok := a.Type().Underlying().(*types.Slice); ok && ir.IsNamed(sl.Elem(), pathNames(P).typ) {
				takesPath = true
			}
		}
		if !inReg || !takesPath {
			continue
		}
		has := false
		for _, b := range h.Blocks {
			if inCycle(b) {
				helperCyc = append(helperCyc, b)
				has = true
			}
		}
		if has {
			loopCalls = append(loopCalls, call)
		}
	}
	if len(cyc) == 0 && len(loopCalls) == 0 {
		c.Violation(seek, P.InstrPos(descent), "no loop over the search path after the descent", "the levels above the position found are never visited: only the entries of one node are yielded")
		return
	}
	for _, r := range ir.Returns(seek) {
		if ei < 0 || !ir.IsNilConst(r.Results[ei]) || !ir.InstrReaches(descent, r) {
			continue
		}
		inOrAfter := false
		for _, h := range cyc {
			if h.Dominates(r.Block()) {
				inOrAfter = true
			}
		}
		for _, lc := range loopCalls {
			if ir.Before(lc, r) {
				inOrAfter = true
			}
		}
		if inOrAfter {
			c.OK(P.InstrPos(r), "success return of SeekIter after the descent", "inside or after the loop over the search path", false)
		} else {
			c.Violation(seek, P.InstrPos(r), "range scan ends before visiting the search path",
				"a test after the descent returns success without iterating: when the probe is past the last key of the node reached (or its layer has no node) the later entries of the upper levels are never yielded")
		}
	}
	// (3)
	n3 := 0
	for _, b := range append(append([]*ssa.BasicBlock(nil), cyc...), helperCyc...) {
		for _, ins := range b.Instrs {
			call, ok := ins.(*ssa.Call)
			if !ok {
				continue
			}
			yields := false
			for _, callee := range c.Facts.Callees(call) {
				if callee.Pkg != nil && callee.Pkg.Pkg.Path() == ir.MastPath && len(callee.Params) > 0 && isNodePtr(callee.Params[0].Type()) {
					yields = true
				}
			}
			if !yields {
				continue
			}
			n3++
			ok3 := ir.FlowFact(call, func(fc ir.Fact) bool {
				bin, isBin := fc.Cond.(*ssa.BinOp)
				if !isBin {
					return false
				}
				if isNodePtr(bin.X.Type()) && isNodePtr(bin.Y.Type()) {
					_, xn := ir.ResolveCell(bin.X).(*ssa.Const)
					_, yn := ir.ResolveCell(bin.Y).(*ssa.Const)
					if !xn && !yn && ((bin.Op == token.NEQ && fc.Truth) || (bin.Op == token.EQL && !fc.Truth)) {
						return strings.Contains(ir.Sym(bin.X), "."+nodeFieldName) && strings.Contains(ir.Sym(bin.Y), "."+nodeFieldName)
					}
				}
				// no deeper entry: i+1 < len(path) refuted
				if lc, isLen := ir.ResolveCell(bin.Y).(*ssa.Call); isLen && isLenCall(bin.Y) && len(lc.Call.Args) == 1 && isPathSlice(P, lc.Call.Args[0].Type()) {
					// exactly the next deeper entry: index+1
					if add, isAdd := ir.ResolveCell(bin.X).(*ssa.BinOp); isAdd && add.Op == token.ADD {
						if k, isK := ir.ConstInt(add.Y); isK && k == 1 {
							return (bin.Op == token.LSS && !fc.Truth) || (bin.Op == token.GEQ && fc.Truth)
						}
					}
					return false
				}
				return false
			}, func(ssa.Instruction) bool { return false })
			// the skip must go on with the next level up, not end the scan: the block entered when the two nodes are the
			// same lies in the loop
			skipEnds := false
			for _, sb := range b.Parent().Blocks {
				if len(sb.Instrs) == 0 || !inCycle(sb) {
					continue
				}
				iff, isIf := sb.Instrs[len(sb.Instrs)-1].(*ssa.If)
				if !isIf {
					continue
				}
				bin, isBin := iff.Cond.(*ssa.BinOp)
				if !isBin || !isNodePtr(bin.X.Type()) || !isNodePtr(bin.Y.Type()) ||
					!strings.Contains(ir.Sym(bin.X), "."+nodeFieldName) || !strings.Contains(ir.Sym(bin.Y), "."+nodeFieldName) {
					continue
				}
				same := sb.Succs[0]
				if bin.Op == token.NEQ {
					same = sb.Succs[1]
				} else if bin.Op != token.EQL {
					continue
				}
				if !inCycle(same) {
					skipEnds = true
				}
			}
			if ok3 && skipEnds {
				c.Violation(seek, P.InstrPos(call), "a node recorded twice ends the range scan",
					"where the next deeper entry names the same node the loop is left instead of continued: every level above the node at which the descent ended is dropped (SeekIter(5) yields only the tail of one node)")
			} else if ok3 {
				c.OK(P.InstrPos(call), "per-level iteration of the range scan", "only for an entry whose node differs from the next deeper entry's (or the deepest entry)", false)
			} else {
				c.Violation(seek, P.InstrPos(call), "a node recorded twice on the search path is iterated twice",
					"a descent that ends above the leaves (nil link) records the same node for every remaining level; iterating each record yields that node's entries several times")
			}
		}
	}
	if n3 == 0 {
		c.AnchorMissing("the per-level iteration call in SeekIter's loop")
	}
}

// seekDescentHelperCall: the single call in SeekIter of a private helper of its region that contains the descent (the
// call handed the address of a findOptions built there) and whose every success return after that descent yields the
// path the descent recorded, untouched: the options' path field (or the options themselves). A helper that returns
// anything else after the descent (nil, a slice of the path) is reported: that is a scan that ends, or starts too
// high, without visiting the search path (clause 2).
func seekDescentHelperCall(c *Ctx, seek *ssa.Function, region []*ssa.Function) *ssa.Call {
	P := c.P
	var found *ssa.Call
	for _, ci := range CallsOf(seek) {
		call, ok := ci.(*ssa.Call)
		if !ok {
			continue
		}
		h := ir.Callee(call.Call)
		if h == nil || h == seek || h.Blocks == nil {
			continue
		}
		inReg := false
		for _, f := range region {
			if f == h {
				inReg = true
			}
		}
		if !inReg {
			continue
		}
		var inner *ssa.Call
		var opts ssa.Value
		nInner := 0
		for _, hci := range CallsOf(h) {
			hc, ok := hci.(*ssa.Call)
			if !ok {
				continue
			}
			for _, a := range hc.Call.Args {
				if ir.IsPtrToNamed(a.Type(), "findOptions") {
					inner, opts = hc, a
					nInner++
				}
			}
		}
		if inner == nil {
			continue
		}
		if _, isLocal := opts.(*ssa.Alloc); !isLocal || nInner != 1 || found != nil {
			c.Undecided(h, P.InstrPos(inner), "descent of the range scan in a helper", "the helper's options are not a local literal handed to one descent call, or SeekIter calls several such helpers")
			return nil
		}
		ei := ir.ErrorResultIndex(h.Signature)
		// the path field is written by the descent only
		for _, b := range h.Blocks {
			for _, ins := range b.Instrs {
				if st, ok := ins.(*ssa.Store); ok {
					if fa, ok := st.Addr.(*ssa.FieldAddr); ok && fa.X == opts && isPathSlice(P, st.Val.Type()) {
						c.Violation(h, P.InstrPos(st), "the search path is rewritten between the descent and the loop over it",
							"the helper that performs the descent of the range scan changes the path recorded: levels dropped from it are never visited")
					}
				}
			}
		}
		for _, r := range ir.Returns(h) {
			if !ir.InstrReaches(inner, r) || (ei >= 0 && !ir.IsNilConst(r.Results[ei])) {
				continue
			}
			whole := false
			for j, res := range r.Results {
				if j == ei {
					continue
				}
				if res == opts {
					whole = true // &options
				}
				if ld, ok := res.(*ssa.UnOp); ok && ld.Op == token.MUL && ir.InstrReaches(inner, ld) {
					if ld.X == opts {
						whole = true // the options by value
					}
					if fa, ok := ld.X.(*ssa.FieldAddr); ok && fa.X == opts && isPathSlice(P, ld.Type()) {
						whole = true // options.path
					}
				}
			}
			if whole {
				c.OK(P.InstrPos(r), "success return of "+ir.FuncName(h)+" after the descent", "hands SeekIter the whole path recorded by the descent", false)
			} else {
				c.Violation(h, P.InstrPos(r), "range scan ends before visiting the search path",
					"after the descent the helper returns success without the path it recorded (or with a part of it): the later entries of the levels left out are never yielded")
			}
		}
		found = call // a helper reported above still anchors the remaining clauses
	}
	return found
}

// stopPredicate: the call hands the probe to a same-package helper whose boolean answer, when false (and its error
// nil), means "the probe is not the entry at the position": every nil-error return of the helper yields the constant
// true, or the constant false under one of the base facts inside the helper, or a comparison of
// keyOrder(probe, …) with 0 (whose being false is the base fact itself).
func stopPredicate(c *Ctx, hc *ssa.Call, probe *ssa.Parameter, baseFact func(ir.Fact, *ssa.Parameter) bool) bool {
	h := ir.Callee(hc.Call)
	if h == nil || h.Blocks == nil || h.Pkg == nil || h.Pkg.Pkg.Path() != ir.MastPath || len(hc.Call.Args) != len(h.Params) {
		return false
	}
	var hp *ssa.Parameter
	for i, a := range hc.Call.Args {
		if ir.ResolveCell(ir.Strip(a)) == ssa.Value(probe) {
			hp = h.Params[i]
		}
	}
	if hp == nil {
		return false
	}
	ei := ir.ErrorResultIndex(h.Signature)
	n := 0
	for _, r := range ir.Returns(h) {
		if ei >= 0 && !ir.IsNilConst(r.Results[ei]) {
			continue
		}
		n++
		rv := ir.ResolveCell(r.Results[0])
		if v, isC := ir.ConstBool(rv); isC {
			if v {
				continue
			}
			okFalse := false
			for _, f := range ir.FactsAt(r.Block()) {
				if baseFact(f, hp) {
					okFalse = true
				}
			}
			if !okFalse {
				return false
			}
			continue
		}
		// an expression: its being false must be a base fact
		okExpr := false
		for _, f := range ir.ExpandFacts([]ir.Fact{{Cond: rv, Truth: false, From: r.Block()}}) {
			if baseFact(f, hp) {
				okExpr = true
			}
		}
		if !okExpr {
			return false
		}
	}
	return n > 0
}

func isPathSlice(P *ir.Program, t types.Type) bool {
	sl, ok := t.Underlying().(*types.Slice)
	return ok && ir.IsNamed(sl.Elem(), pathNames(P).typ)
}

// PATHRECORD: the descent hands its callers two things: the node and position where it stopped, and the path that
// leads there. SeekIter walks the path, Insert and Delete rewrite it. A return that skips the bookkeeping (an early
// exit added as an optimisation) leaves the last node out: the range scan then starts one level too high and skips
// the entries of the node where the probe's successor is.

func init() {
	Register(&Rule{ID: "PATHRECORD", Props: []string{"C10", "C01"}, Min: 1,
		Doc: "in the descent (findNode, resolved by role) every success return that hands back a node of this invocation (not the result of the recursive call) is reached only after an entry was appended to the options' path in this invocation (must-dataflow over the stores to findOptions.path).",
		Run: runPATHRECORD})
}

func runPATHRECORD(c *Ctx) {
	P := c.P
	fn := c.MustFunc("(*mastNode).findNode")
	if fn == nil {
		return
	}
	ei := ir.ErrorResultIndex(fn.Signature)
	n := 0
	for _, r := range ir.Returns(fn) {
		if ei < 0 || !ir.IsNilConst(ir.ForwardLoad(r.Results[ei])) {
			continue
		}
		if ex, ok := r.Results[0].(*ssa.Extract); ok {
			if call, ok := ex.Tuple.(*ssa.Call); ok && ir.Callee(call.Call) == fn {
				continue // the recursive call's own answer
			}
		}
		n++
		ok := ir.FlowFactGen(r, func(ir.Fact) bool { return false }, func(i ssa.Instruction) bool {
			st, isSt := i.(*ssa.Store)
			if !isSt {
				return false
			}
			fa, isFA := st.Addr.(*ssa.FieldAddr)
			return isFA && ir.IsPtrToNamed(fa.X.Type(), "findOptions") && isPathSlice(P, st.Val.Type())
		}, func(ssa.Instruction) bool { return false })
		if ok {
			c.OK(P.InstrPos(r), "success return of the descent", "after the node was recorded on the search path", false)
		} else {
			c.Violation(fn, P.InstrPos(r), "the descent returns a node it did not record on the path",
				"on some path findNode hands back a node and a position without having appended them to options.path: the callers that walk the path (SeekIter's range scan, the rewrite of the path in Insert and Delete) miss the node where the search ended")
		}
	}
	if n == 0 {
		c.AnchorMissing("a success return of findNode that is not the recursive call's")
	}
}

// DESCENTSTOP and ITERLAZY: two more faces of "read only what the answer needs" (C16).
//
// DESCENTSTOP: the shared descent (findNode) stops at the node that holds the probe. Exact operations aim at the
// key's own layer and never notice, but a range scan aims at layer 0 and would read the whole spine below a key it
// has already found in an upper layer.
//
// ITERLAZY: iteration hands entries to the callback as it goes and loads a child only when the walk reaches it: an
// iteration stopped by the callback (ErrIterDone) after the first entry reads one spine, not every sibling on the way.

func init() {
	Register(&Rule{ID: "DESCENTSTOP", Props: []string{"C16"}, Min: 1,
		Doc: "in the descent (findNode, by role) every call that reads the next node is reached only where the comparison of the probe with this node's keys did not come out equal (the cmp != 0 edge of a test of a comparator result), on every path (must-dataflow; a new comparison invalidates the knowledge).",
		Run: runDESCENTSTOP})
	Register(&Rule{ID: "ITERLAZY", Props: []string{"C16"}, Min: 2,
		Doc: "in the functions that walk a node for Iter/SeekIter (they take the entry callback) every loop that loads a child also delivers in the same loop (calls the callback, or hands the child with the callback to a walker): no loop loads children ahead of the walk.",
		Run: runITERLAZY})
}

// comparatorValued: v is a key-comparison result, or a variable that only ever holds such results and constants.
func comparatorValued(c *Ctx, v ssa.Value, cmps map[ssa.Value]bool, d int) bool {
	if d > 4 {
		return false
	}
	if cmps[v] {
		return true
	}
	if ld, ok := v.(*ssa.UnOp); ok && ld.Op == token.MUL {
		if a, ok := ld.X.(*ssa.Alloc); ok {
			stores, _ := ir.AllCellStores(a)
			any := false
			for _, st := range stores {
				if _, isC := st.Val.(*ssa.Const); isC {
					continue
				}
				if l2, isLd := st.Val.(*ssa.UnOp); isLd && l2.Op == token.MUL && l2.X == ssa.Value(a) {
					continue // the variable stored back into itself (a named result on return)
				}
				if !comparatorValued(c, st.Val, cmps, d+1) {
					return false
				}
				any = true
			}
			return any
		}
		// a field of a private search-state struct (`p.cmp` of keyProbe{…}): every store into that field of that
		// struct type, anywhere in the package, is a comparator result (or a constant, or the field copied over)
		if fa, ok := ld.X.(*ssa.FieldAddr); ok {
			st := fa.X.Type()
			if pt, isP := st.Underlying().(*types.Pointer); isP {
				st = pt.Elem()
			}
			if nt, isN := types.Unalias(st).(*types.Named); isN && nt.Obj().Pkg() != nil && nt.Obj().Pkg().Path() == ir.MastPath && nt.Obj().Name() != "Mast" && nt.Obj().Name() != "mastNode" && nt.Obj().Name() != "Node" {
				any := false
				for _, fn := range c.P.Funcs {
					for _, b := range fn.Blocks {
						for _, ins := range b.Instrs {
							sto, ok := ins.(*ssa.Store)
							if !ok {
								continue
							}
							fa2, ok := sto.Addr.(*ssa.FieldAddr)
							if !ok || fa2.Field != fa.Field {
								continue
							}
							t2 := fa2.X.Type()
							if pt, isP := t2.Underlying().(*types.Pointer); isP {
								t2 = pt.Elem()
							}
							if !types.Identical(types.Unalias(t2), nt) {
								continue
							}
							if _, isC := sto.Val.(*ssa.Const); isC {
								continue
							}
							if !comparatorValued(c, sto.Val, cmps, d+1) {
								return false
							}
							any = true
						}
					}
				}
				return any
			}
		}
		if fv, ok := ld.X.(*ssa.FreeVar); ok {
			if b, ok := bindingOf(fv).(*ssa.Alloc); ok {
				stores, _ := ir.AllCellStores(b)
				any := false
				for _, st := range stores {
					if _, isC := st.Val.(*ssa.Const); isC {
						continue
					}
					if !comparatorValued(c, st.Val, cmps, d+1) {
						return false
					}
					any = true
				}
				return any
			}
		}
	}
	if phi, ok := v.(*ssa.Phi); ok {
		any := false
		for _, e := range phi.Edges {
			if _, isC := e.(*ssa.Const); isC {
				continue
			}
			if !comparatorValued(c, e, cmps, d+1) {
				return false
			}
			any = true
		}
		return any
	}
	// a result of a same-package search helper (`i, cmp, err := node.searchKeys(m, key)`)
	if ex, ok := v.(*ssa.Extract); ok {
		if call, ok := ex.Tuple.(*ssa.Call); ok {
			if h := ir.Callee(call.Call); h != nil && h.Blocks != nil && h.Pkg != nil && h.Pkg.Pkg.Path() == ir.MastPath {
				any := false
				for _, r := range ir.Returns(h) {
					if ex.Index >= len(r.Results) {
						return false
					}
					rv := ir.ForwardLoad(r.Results[ex.Index])
					if _, isC := rv.(*ssa.Const); isC {
						continue
					}
					if !comparatorValued(c, rv, cmps, d+1) {
						return false
					}
					any = true
				}
				return any
			}
		}
	}
	return false
}

// foundValued: v is a boolean that is true exactly when a comparison came out equal: `cmp == 0` over a comparator
// value, or such a result of a same-package search helper (constants false allowed: "no comparison made").
func foundValued(c *Ctx, v ssa.Value, cmps map[ssa.Value]bool, d int) bool {
	if d > 3 {
		return false
	}
	v = ir.ResolveCell(v)
	if bin, ok := v.(*ssa.BinOp); ok && bin.Op == token.EQL {
		if k, isK := ir.ConstInt(bin.Y); isK && k == 0 {
			return comparatorValued(c, bin.X, cmps, 0)
		}
	}
	if ex, ok := v.(*ssa.Extract); ok {
		if call, ok := ex.Tuple.(*ssa.Call); ok {
			if h := ir.Callee(call.Call); h != nil && h.Blocks != nil && h.Pkg != nil && h.Pkg.Pkg.Path() == ir.MastPath {
				any := false
				for _, r := range ir.Returns(h) {
					if ex.Index >= len(r.Results) {
						return false
					}
					rv := ir.ForwardLoad(r.Results[ex.Index])
					if b, isC := ir.ConstBool(rv); isC {
						if b {
							return false
						}
						continue
					}
					if !foundValued(c, rv, cmps, d+1) {
						return false
					}
					any = true
				}
				return any
			}
		}
	}
	return false
}

func runDESCENTSTOP(c *Ctx) {
	P := c.P
	fn := c.MustFunc("(*mastNode).findNode")
	if fn == nil {
		return
	}
	cmps := map[ssa.Value]bool{}
	for _, v := range comparatorResults(c) {
		cmps[v] = true
	}
	n := 0
	for _, ci := range CallsOf(fn) {
		call, ok := ci.(*ssa.Call)
		if !ok {
			continue
		}
		reads := false
		for _, callee := range c.Facts.Callees(ci) {
			if c.Facts.MayLoad[callee] && callee != fn {
				reads = true
			}
		}
		if !reads {
			continue
		}
		n++
		ok2 := ir.FlowFact(call, func(fc ir.Fact) bool {
			if !fc.Truth && foundValued(c, fc.Cond, cmps, 0) {
				return true // `found` is false
			}
			bin, isBin := fc.Cond.(*ssa.BinOp)
			if !isBin {
				return false
			}
			k, isK := ir.ConstInt(bin.Y)
			if !isK || k != 0 || !comparatorValued(c, bin.X, cmps, 0) {
				return false
			}
			return (bin.Op == token.EQL && !fc.Truth) || (bin.Op == token.NEQ && fc.Truth) || (bin.Op == token.LSS && fc.Truth) || (bin.Op == token.GTR && fc.Truth)
		}, func(i ssa.Instruction) bool {
			// a new comparison (directly, or by the search that runs the predicate) may change the variable
			if st, isSt := i.(*ssa.Store); isSt {
				if a, isA := st.Addr.(*ssa.Alloc); isA {
					ld := &ssa.UnOp{}
					_ = ld
					stores, _ := ir.AllCellStores(a)
					for _, s2 := range stores {
						if cmps[s2.Val] {
							return true
						}
					}
				}
			}
			if c2, isCall := i.(*ssa.Call); isCall {
				for _, a := range c2.Call.Args {
					if _, isClosure := a.(*ssa.MakeClosure); isClosure {
						return true
					}
				}
				if cmps[c2] {
					return true
				}
			}
			return false
		})
		if ok2 {
			c.OK(P.InstrPos(call), "next node read by the descent", "only where the probe was not found in this node", false)
		} else {
			c.Violation(fn, P.InstrPos(call), "the descent goes on below a node that holds the probe",
				"findNode reads the next node without having tested that the comparison with this node's keys did not come out equal: a range scan (SeekIter descends to layer 0) then walks the whole spine below a key it already found in an upper layer — the same result for up to height extra reads")
		}
	}
	if n == 0 {
		c.AnchorMissing("a node-reading call in findNode")
	}
}

func runITERLAZY(c *Ctx) {
	P := c.P
	roots := c.Entries("(*Mast).Iter", "(*Mast).SeekIter")
	reach := c.Facts.Reach(roots...)
	n := 0
	for _, fn := range P.Funcs {
		if fn.Pkg == nil || fn.Pkg.Pkg.Path() != ir.MastPath || !reach[ir.Outermost(fn)] {
			continue
		}
		// takes the entry callback: func(key, value) error
		var cb *ssa.Parameter
		for _, p := range fn.Params {
			if sig, ok := p.Type().Underlying().(*types.Signature); ok && sig.Params().Len() == 2 && sig.Results().Len() == 1 && ir.IsErrorType(sig.Results().At(0).Type()) {
				cb = p
			}
		}
		if cb == nil || len(fn.Params) == 0 || !isNodePtr(fn.Params[0].Type()) {
			continue
		}
		// the cycles of fn: blocks grouped by mutual reachability
		for _, b := range fn.Blocks {
			if !inCycle(b) {
				continue
			}
			for _, ins := range b.Instrs {
				call, ok := ins.(*ssa.Call)
				if !ok {
					continue
				}
				loads, handsOn := false, false
				for _, callee := range c.Facts.Callees(call) {
					if c.Facts.MayLoad[callee] {
						if usesValue(call, cb) {
							handsOn = true
						} else {
							loads = true
						}
					}
				}
				if handsOn && !loads {
					n++
					c.OK(P.InstrPos(call), "child walked by "+ir.FuncName(fn), "the callee that reads it is handed the callback: it delivers as it goes", true)
					continue
				}
				if !loads {
					continue
				}
				n++
				delivers := false
				fromB := ir.ReachableFrom(b, nil)
				for _, b2 := range fn.Blocks {
					if !fromB[b2] || !ir.ReachableFrom(b2, nil)[b] {
						continue // not in the same cycle
					}
					for _, i2 := range b2.Instrs {
						c2, ok := i2.(*ssa.Call)
						if !ok {
							continue
						}
						if ir.ResolveCell(c2.Call.Value) == ssa.Value(cb) || usesValue(c2, cb) {
							delivers = true
						}
					}
				}
				if delivers {
					c.OK(P.InstrPos(call), "child loaded by "+ir.FuncName(fn), "in the loop that delivers its entries", false)
				} else {
					c.Violation(fn, P.InstrPos(call), "children are loaded ahead of the walk",
						"a loop of the node walk loads children without delivering anything in the same loop: an iteration the callback stops after the first entry has by then read every sibling on its path (19 nodes instead of 6 on a height-5 tree)")
				}
			}
		}
	}
	if n == 0 {
		c.AnchorMissing("a child load inside a loop of the node walk")
	}
}

// ITERALL: the entries of a node are delivered in order *with the subtrees between them*. A loop that hands a node's
// entries to the callback one after the other without looking at the node's links in the same loop skips every
// child that hangs between those entries.

func init() {
	Register(&Rule{ID: "ITERALL", Props: []string{"C10", "C01"}, Min: 1,
		Doc: "in the node walk under Iter and SeekIter, every loop that delivers a node's entries (calls the entry callback with node.Key[i], node.Value[i]) also visits that node's links in the same loop " +
			"(reads node.Link[…] and hands it to a call that can load): between two delivered entries the subtree between them is walked.",
		Run: runITERALL})
}

func runITERALL(c *Ctx) {
	P := c.P
	roots := c.Entries("(*Mast).Iter", "(*Mast).SeekIter")
	reach := c.Facts.Reach(roots...)
	n := 0
	for _, fn := range P.Funcs {
		if fn.Pkg == nil || fn.Pkg.Pkg.Path() != ir.MastPath || !reach[ir.Outermost(fn)] {
			continue
		}
		var cb *ssa.Parameter
		for _, p := range fn.Params {
			if sig, ok := p.Type().Underlying().(*types.Signature); ok && sig.Params().Len() == 2 && sig.Results().Len() == 1 && ir.IsErrorType(sig.Results().At(0).Type()) {
				cb = p
			}
		}
		if cb == nil {
			continue
		}
		for _, b := range fn.Blocks {
			if ir.IsDead(b) {
				continue
			}
			// a delivery outside every loop (the per-slot body extracted into a helper; seekIter's first entry):
			// "the same loop" is then the function itself
			looped := inCycle(b)
			for _, ins := range b.Instrs {
				call, ok := ins.(*ssa.Call)
				if !ok || ir.ResolveCell(call.Call.Value) != ssa.Value(cb) || len(call.Call.Args) != 2 {
					continue
				}
				// delivers node.Key[i]
				var keyBase ssa.Value
				if ld, ok := ir.Strip(call.Call.Args[0]).(*ssa.UnOp); ok && ld.Op == token.MUL {
					if ia, ok := ld.X.(*ssa.IndexAddr); ok {
						if base, f, ok := nodeSliceRoot(ia.X); ok && f == "Key" {
							keyBase = ir.ResolveCell(base)
						}
					}
				}
				if keyBase == nil {
					continue
				}
				n++
				visits := false
				fromB := ir.ReachableFrom(b, nil)
				for _, b2 := range fn.Blocks {
					if looped && (!fromB[b2] || !ir.ReachableFrom(b2, nil)[b]) {
						continue // not in the same cycle
					}
					for _, i2 := range b2.Instrs {
						// a read of node.Link[j] / a range over node.Link in this loop …
						var lv ssa.Value
						switch y := i2.(type) {
						case *ssa.IndexAddr:
							if base, f, ok := nodeSliceRoot(y.X); ok && f == "Link" && ir.ResolveCell(base) == keyBase {
								lv = y
							}
						case *ssa.Index:
							if base, f, ok := nodeSliceRoot(y.X); ok && f == "Link" && ir.ResolveCell(base) == keyBase {
								lv = y
							}
						}
						if lv != nil {
							visits = true
						}
					}
				}
				// … or the loop ranges over node.Link (the element arrives through the range's Next)
				if !visits {
					for _, b2 := range fn.Blocks {
						for _, i2 := range b2.Instrs {
							if rg, ok := i2.(*ssa.Range); ok {
								if base, f, ok := nodeSliceRoot(rg.X); ok && f == "Link" && ir.ResolveCell(base) == keyBase {
									visits = visits || (ir.ReachableFrom(rg.Block(), nil)[b])
								}
							}
						}
					}
				}
				// and some call of the loop can load (the visit is not just a nil test)
				loads := false
				for _, b2 := range fn.Blocks {
					if looped && (!fromB[b2] || !ir.ReachableFrom(b2, nil)[b]) {
						continue
					}
					for _, i2 := range b2.Instrs {
						if c2, ok := i2.(*ssa.Call); ok {
							for _, callee := range c.Facts.Callees(c2) {
								if c.Facts.MayLoad[callee] {
									loads = true
								}
							}
						}
					}
				}
				if !visits && !looped && loads {
					// the extracted per-slot body is handed the link itself
					for _, p := range fn.Params {
						if _, isIface := p.Type().Underlying().(*types.Interface); isIface && !ir.IsErrorType(p.Type()) && p.Referrers() != nil && len(*p.Referrers()) > 0 {
							if !strings.Contains(p.Type().String(), "Context") {
								visits = true
							}
						}
					}
				}
				if visits && loads {
					c.OK(P.InstrPos(call), "entries delivered by a loop of "+ir.FuncName(fn), "the same loop reads the node's links and walks them", false)
				} else {
					c.Violation(fn, P.InstrPos(call), "entries delivered without the subtrees between them",
						"a loop hands a node's entries to the callback one after the other without visiting the node's links in the same loop: every child that hangs between two of those entries is skipped, so a scan from a probe (or a whole iteration) silently omits keys")
				}
			}
		}
	}
	if n == 0 {
		c.AnchorMissing("a loop of the node walk that delivers node.Key[i]")
	}
}

// usesValue: the call passes v as an argument.
func usesValue(call *ssa.Call, v ssa.Value) bool {
	for _, a := range call.Call.Args {
		if ir.ResolveCell(a) == v {
			return true
		}
	}
	return false
}

// RECURUSE: a recursive tree operation that hands back several things (split: the part left of the key and the part
// right of it) is called by itself for all of them. Dropping one and recomputing it (loading and splitting the same
// child again for the other half) gives the same tree and doubles the reads at every level below.

func init() {
	Register(&Rule{ID: "RECURUSE", Props: []string{"C16"}, Min: 2,
		Doc: "every call inside a recursion of package mast (the callee can reach the caller again) to a function that returns two or more non-error results uses each of them in live code (outside diagnostics): no half of a recursive split is thrown away and recomputed.",
		Run: runRECURUSE})
}

func runRECURUSE(c *Ctx) {
	P := c.P
	n := 0
	for _, fn := range P.Funcs {
		if fn.Pkg == nil || fn.Pkg.Pkg.Path() != ir.MastPath || c.Facts.debugOnlyFunc(fn) != "" {
			continue
		}
		for _, ci := range CallsOf(fn) {
			call, ok := ci.(*ssa.Call)
			if !ok {
				continue
			}
			h := ir.Callee(call.Call)
			if h == nil || h.Pkg == nil || h.Pkg.Pkg.Path() != ir.MastPath {
				continue
			}
			outer := ir.Outermost(fn)
			if h != outer && !c.Facts.Reach(h)[outer] {
				continue
			}
			res := h.Signature.Results()
			ei := ir.ErrorResultIndex(h.Signature)
			nonErr := 0
			for i := 0; i < res.Len(); i++ {
				if i != ei {
					nonErr++
				}
			}
			if nonErr < 2 {
				continue
			}
			// tail position: all results returned as they are
			if call.Referrers() != nil {
				tail := false
				for _, r := range *call.Referrers() {
					if _, isRet := r.(*ssa.Return); isRet {
						tail = true
					}
				}
				if tail {
					continue
				}
			}
			for i := 0; i < res.Len(); i++ {
				if i == ei {
					continue
				}
				n++
				what := fmt.Sprintf("result #%d of the recursive call %s→%s", i, ir.FuncName(fn), ir.FuncName(h))
				if liveUse(extractAt(call, i), map[ssa.Value]bool{}, 0) {
					c.OK(P.InstrPos(call), what, "used in live code", false)
				} else {
					c.Violation(fn, P.InstrPos(call), fmt.Sprintf("result #%d of the recursive call is dropped", i),
						"one of the parts the recursion hands back is not used (or only printed by diagnostics): the caller has to obtain it again by reading and splitting the same child a second time, at every level below the insert — the same tree for twice the reads")
				}
			}
		}
	}
	if n == 0 {
		c.AnchorMissing("a recursive call returning two or more results")
	}
}

func extractAt(call *ssa.Call, idx int) ssa.Value {
	if call.Referrers() == nil {
		return nil
	}
	for _, r := range *call.Referrers() {
		if ex, ok := r.(*ssa.Extract); ok && ex.Index == idx {
			return ex
		}
	}
	return nil
}

// liveUse: the value reaches something other than diagnostics: a store, a return, an argument of a call outside
// dead (debug-only) blocks, a branch condition; through φs, cells and conversions.
func liveUse(v ssa.Value, seen map[ssa.Value]bool, d int) bool {
	if v == nil || d > 8 || seen[v] || v.Referrers() == nil {
		return false
	}
	seen[v] = true
	for _, r := range *v.Referrers() {
		if _, isDbg := r.(*ssa.DebugRef); isDbg {
			continue
		}
		if ir.IsDead(r.Block()) {
			continue
		}
		switch x := r.(type) {
		case *ssa.Store:
			if x.Val == v {
				// into a variable cell: the variable's loads decide; elsewhere: a live use
				if a, ok := x.Addr.(*ssa.Alloc); ok {
					if a.Referrers() != nil {
						for _, r2 := range *a.Referrers() {
							if ld, ok := r2.(*ssa.UnOp); ok && ld.Op == token.MUL && liveUse(ld, seen, d+1) {
								return true
							}
						}
					}
					continue
				}
				return true
			}
		case *ssa.Phi, *ssa.MakeInterface, *ssa.ChangeInterface, *ssa.ChangeType, *ssa.Convert, *ssa.TypeAssert, *ssa.Extract:
			if liveUse(x.(ssa.Value), seen, d+1) {
				return true
			}
		case *ssa.Slice, *ssa.IndexAddr:
			// the varargs array of a formatting call in live code is still a diagnostic-free use only if that call is live
			if liveUse(x.(ssa.Value), seen, d+1) {
				return true
			}
		default:
			return true
		}
	}
	return false
}
