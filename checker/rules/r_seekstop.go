package rules

import (
	"go/token"
	"strings"

	"golang.org/x/tools/go/ssa"

	"mastcheck/ir"
)

// SEEKSTOP: a cursor positioned by key (Ceil) descends one node per level and stops at the node that holds the probe:
// the search path of a key ends where the key is. A descent that goes on below an exact match reads the right spine
// of the entry's left subtree and climbs back — the same answer, for up to `height` extra node reads per call.

func init() {
	Register(&Rule{ID: "SEEKSTOP", Props: []string{"C16"}, Min: 1,
		Doc: "in (*Cursor).Ceil (and the private helpers split out of it) every node load is reached only after the probe has been compared with the entry at the current position " +
			"and found different (the not-equal edge of a test of keyOrder(probe, …) against 0), or the position has been found to be past the node's last key (the false edge of position < len(Key)); " +
			"a call that recomputes the position or a change of the path invalidates the knowledge (must-dataflow).",
		Run: runSEEKSTOP})
}

func runSEEKSTOP(c *Ctx) {
	P := c.P
	ceil := c.MustFunc("(*Cursor).Ceil")
	load := c.MustFunc("(*Mast).load")
	if ceil == nil || load == nil {
		return
	}
	var probe *ssa.Parameter
	for _, p := range ceil.Params {
		if _, isIface := p.Type().Underlying().(interface{ NumMethods() int }); isIface && !strings.Contains(p.Type().String(), "Context") {
			probe = p
		}
	}
	if probe == nil {
		c.AnchorMissing("the probe key parameter of Cursor.Ceil")
		return
	}
	// calls that may move the position: callees that (transitively) store a path entry's position
	movesPos := map[*ssa.Function]bool{}
	for _, fn := range P.Funcs {
		for _, b := range fn.Blocks {
			for _, ins := range b.Instrs {
				if st, ok := ins.(*ssa.Store); ok {
					if fa, ok := st.Addr.(*ssa.FieldAddr); ok && ir.FieldName(fa.X.Type(), fa.Field) == posFieldName {
						movesPos[ir.Outermost(fn)] = true
					}
				}
			}
		}
	}
	n := 0
	ceilProbe := probe
	for _, fn := range regionOf(c, ceil) {
		probe := probe
		if fn != ceil {
			// a helper is decided in its own body when every call site (in Ceil) hands it the probe unchanged
			probe = nil
			for j, hp := range fn.Params {
				all := len(P.Callers[fn]) > 0
				for _, cs := range P.Callers[fn] {
					args := cs.Common().Args
					if cs.Parent() != ceil || j >= len(args) || ir.ResolveCell(ir.Strip(args[j])) != ssa.Value(ceilProbe) {
						all = false
					}
				}
				if all {
					probe = hp
				}
			}
			if probe == nil {
				if c.Facts.MayLoad[fn] && !movesPos[fn] {
					c.Undecided(fn, P.Pos(fn.Pos()), "helper of Ceil that reads nodes is not handed the probe", "cannot relate the helper's comparisons to Ceil's probe key")
				}
				continue
			}
		}
		for _, ci := range CallsOf(fn) {
			call, ok := ci.(*ssa.Call)
			if !ok {
				continue
			}
			loads := false
			for _, callee := range c.Facts.Callees(ci) {
				if callee == load || c.Facts.MayLoad[callee] {
					loads = true
				}
			}
			if !loads || movesPosCall(c, ci, movesPos) {
				continue // the search step itself (search1) loads nothing below the current node
			}
			n++
			pos := P.InstrPos(call)
			what := "node read in " + ir.FuncName(fn)
			ok2 := ir.FlowFact(call, func(fc ir.Fact) bool {
				bin, isBin := fc.Cond.(*ssa.BinOp)
				if !isBin {
					return false
				}
				// position < len(Key) refuted
				if ld, isLd := ir.ResolveCell(bin.X).(*ssa.UnOp); isLd && ld.Op == token.MUL {
					if fa, isFA := ld.X.(*ssa.FieldAddr); isFA && ir.FieldName(fa.X.Type(), fa.Field) == posFieldName && isLenCall(bin.Y) && strings.HasSuffix(ir.Sym(bin.Y), ".Key)") {
						if (bin.Op == token.LSS && !fc.Truth) || (bin.Op == token.GEQ && fc.Truth) || (bin.Op == token.EQL && fc.Truth) || (bin.Op == token.NEQ && !fc.Truth) {
							return true
						}
					}
				}
				// keyOrder(probe, entry) != 0
				if k, isK := ir.ConstInt(bin.Y); isK && k == 0 {
					if ex, isEx := ir.ResolveCell(bin.X).(*ssa.Extract); isEx && ex.Index == 0 {
						if cmpCall, isC := ex.Tuple.(*ssa.Call); isC && strings.HasPrefix(c.Facts.External(cmpCall), "callback:") {
							usesProbe := false
							for _, a := range cmpCall.Call.Args {
								if ir.ResolveCell(ir.Strip(a)) == ssa.Value(probe) {
									usesProbe = true
								}
							}
							if usesProbe && ((bin.Op == token.EQL && !fc.Truth) || (bin.Op == token.NEQ && fc.Truth) ||
								(bin.Op == token.LSS && fc.Truth) || (bin.Op == token.GTR && fc.Truth)) {
								return true
							}
						}
					}
				}
				return false
			}, func(i ssa.Instruction) bool {
				if ci2, isCall := i.(ssa.CallInstruction); isCall && movesPosCall(c, ci2, movesPos) {
					return true
				}
				if st, isSt := i.(*ssa.Store); isSt {
					s := ir.Sym(st.Addr)
					return strings.HasSuffix(s, "."+posFieldName) || strings.HasSuffix(s, ".path")
				}
				return false
			})
			if ok2 {
				c.OK(pos, what, "reached only after the probe differed from the entry at the position, or the position is past the last key", false)
			} else {
				c.Violation(fn, pos, "descent continues without comparing the probe with the entry found",
					"on some path Ceil loads the child below the current position although the entry at that position may be the probe itself: the cursor then walks down the right spine of the entry's left subtree and back up, reading up to height extra nodes for a key that sits in an upper layer")
			}
		}
	}
	if n == 0 {
		c.AnchorMissing("node loads in Cursor.Ceil")
	}
}

func movesPosCall(c *Ctx, ci ssa.CallInstruction, movesPos map[*ssa.Function]bool) bool {
	for _, callee := range c.Facts.Callees(ci) {
		if movesPos[callee] {
			return true
		}
	}
	return false
}
