package rules

// Helpers shared by the backend rules (r_backends.go): discovery of the
// mast.Persist implementations, receiver-field recognition, decoding of
// variadic argument arrays and string concatenations, and a small
// path-sensitive CFG walker that tracks nil / non-nil (true / false) facts
// about SSA values so that the "chained error" style
//
//	_, err = f.Write(b); if err == nil { err = f.Sync() }; ...; if err != nil { return err }; return nil
//
// is analysed without infeasible paths.

import (
	"fmt"
	"go/constant"
	"go/token"
	"go/types"
	"sort"
	"strings"

	"golang.org/x/tools/go/ssa"

	"mastcheck/ir"
)

// ---------------------------------------------------------------------------
// Persist implementations

type backendImpl struct {
	pkg    string
	named  *types.Named
	viaPtr bool // only *T implements the interface
	load   *ssa.Function
	store  *ssa.Function
}

func (b backendImpl) String() string {
	s := b.named.Obj().Pkg().Name() + "." + b.named.Obj().Name()
	if b.viaPtr {
		return "*" + s
	}
	return s
}

func persistIface(c *Ctx) *types.Interface {
	n := c.P.Named(ir.MastPath, "Persist")
	if n == nil {
		c.AnchorMissing("interface mast.Persist")
		return nil
	}
	it, ok := n.Underlying().(*types.Interface)
	if !ok {
		c.AnchorMissing("interface mast.Persist (not an interface)")
		return nil
	}
	return it
}

// backendImpls lists, for each package, the named non-interface types T for
// which T or *T implements mast.Persist, with their Load and Store methods.
// A package without any implementation is a missing anchor.
func backendImpls(c *Ctx, pkgs ...string) []backendImpl {
	it := persistIface(c)
	if it == nil {
		return nil
	}
	var out []backendImpl
	for _, pp := range pkgs {
		p := c.P.Pkgs[pp]
		if p == nil {
			c.AnchorMissing("package " + pp)
			continue
		}
		found := 0
		names := p.Types.Scope().Names()
		sort.Strings(names)
		for _, nm := range names {
			tn, ok := p.Types.Scope().Lookup(nm).(*types.TypeName)
			if !ok || tn.IsAlias() {
				continue
			}
			named, ok := tn.Type().(*types.Named)
			if !ok {
				continue
			}
			if _, isI := named.Underlying().(*types.Interface); isI {
				continue
			}
			b := backendImpl{pkg: pp, named: named}
			switch {
			case types.Implements(named, it):
			case types.Implements(types.NewPointer(named), it):
				b.viaPtr = true
			default:
				continue
			}
			b.load = c.P.Method(pp, nm, "Load")
			b.store = c.P.Method(pp, nm, "Store")
			if b.load == nil || b.store == nil {
				c.AnchorMissing(fmt.Sprintf("Load/Store methods of %s (promoted through embedding?)", b))
				continue
			}
			found++
			out = append(out, b)
		}
		if found == 0 {
			c.AnchorMissing("an implementation of mast.Persist in package " + pp)
		}
	}
	return out
}

// ---------------------------------------------------------------------------
// receivers

// recvInfo recognises accesses to the fields of a method's receiver, for
// pointer receivers (FieldAddr on the parameter) and value receivers (go/ssa
// spills the parameter into a local: `t0 = local T (p); *t0 = p; &t0.f`).
type recvInfo struct {
	fn    *ssa.Function
	param *ssa.Parameter
	spill *ssa.Alloc
	st    *types.Struct
}

func newRecvInfo(fn *ssa.Function) *recvInfo {
	if fn == nil || fn.Signature.Recv() == nil || len(fn.Params) == 0 {
		return nil
	}
	r := &recvInfo{fn: fn, param: fn.Params[0]}
	t := r.param.Type()
	if p, ok := t.Underlying().(*types.Pointer); ok {
		t = p.Elem()
	} else if refs := r.param.Referrers(); refs != nil {
		for _, u := range *refs {
			if s, ok := u.(*ssa.Store); ok && s.Val == r.param {
				a, ok := s.Addr.(*ssa.Alloc)
				if !ok || a.Referrers() == nil {
					continue
				}
				whole := 0
				for _, q := range *a.Referrers() {
					if qs, ok := q.(*ssa.Store); ok && qs.Addr == a {
						whole++
					}
				}
				if whole == 1 {
					r.spill = a
				}
			}
		}
	}
	r.st, _ = t.Underlying().(*types.Struct)
	return r
}

func (r *recvInfo) isBase(v ssa.Value) bool {
	if r == nil || v == nil {
		return false
	}
	if v == r.param {
		_, isPtr := r.param.Type().Underlying().(*types.Pointer)
		return isPtr
	}
	return r.spill != nil && v == r.spill
}

// isRecvValue: v denotes the receiver itself (for passing it on to a helper
// method): the parameter, or a load of the spilled copy.
func (r *recvInfo) isRecvValue(v ssa.Value) bool {
	if r == nil {
		return false
	}
	if v == r.param {
		return true
	}
	if u, ok := v.(*ssa.UnOp); ok && u.Op == token.MUL && r.spill != nil && u.X == r.spill {
		return true
	}
	return false
}

// fieldOf: v is the content of receiver field `name`.
func (r *recvInfo) fieldOf(v ssa.Value) (string, bool) {
	if r == nil {
		return "", false
	}
	switch x := v.(type) {
	case *ssa.UnOp:
		if x.Op == token.MUL {
			return r.fieldAddrOf(x.X)
		}
	case *ssa.Field:
		if x.X == r.param {
			return ir.FieldName(x.X.Type(), x.Field), true
		}
	}
	return "", false
}

// fieldAddrOf: v is the address of receiver field `name`.
func (r *recvInfo) fieldAddrOf(v ssa.Value) (string, bool) {
	if r == nil {
		return "", false
	}
	if fa, ok := v.(*ssa.FieldAddr); ok && r.isBase(fa.X) {
		return ir.FieldName(fa.X.Type(), fa.Field), true
	}
	return "", false
}

// fieldWritten reports whether the function stores into receiver field name
// (for a value receiver this changes the local copy the rule reasons about).
func (r *recvInfo) fieldWritten(name string) bool {
	if r == nil {
		return false
	}
	for _, b := range r.fn.Blocks {
		for _, ins := range b.Instrs {
			if s, ok := ins.(*ssa.Store); ok {
				if n, ok := r.fieldAddrOf(s.Addr); ok && n == name {
					return true
				}
			}
		}
	}
	return false
}

// ---------------------------------------------------------------------------
// small SSA decoders

// staticID names the statically resolved callee: "os.CreateTemp",
// "(*os.File).Write", "path/filepath.Join"; "" for dynamic calls.
func staticID(ci ssa.CallInstruction) string {
	if ci == nil {
		return ""
	}
	if sc := ir.Callee(ci.Common()); sc != nil {
		return sc.String()
	}
	return ""
}

// callName is a readable name for any call (for keys and messages).
func callName(ci ssa.CallInstruction) string {
	com := ci.Common()
	if com.IsInvoke() {
		return com.Method.Name()
	}
	if sc := ir.Callee(com); sc != nil {
		s := sc.String()
		// shorten long import paths: keep the last path element
		if i := strings.LastIndex(s, "/"); i >= 0 {
			pre := ""
			if strings.HasPrefix(s, "(*") {
				pre = "(*"
			} else if strings.HasPrefix(s, "(") {
				pre = "("
			}
			s = pre + s[i+1:]
		}
		return s
	}
	if b, ok := com.Value.(*ssa.Builtin); ok {
		return b.Name()
	}
	return "call through " + describeFuncValue(com.Value)
}

// variadicElems decodes the argument array go/ssa builds for a variadic call
// `f(a, b)`: `t = new [2]T (varargs); &t[0] = a; &t[1] = b; slice t[:]`.
func variadicElems(v ssa.Value) []ssa.Value {
	sl, ok := v.(*ssa.Slice)
	if !ok || sl.Low != nil || sl.High != nil {
		return nil
	}
	al, ok := sl.X.(*ssa.Alloc)
	if !ok || al.Referrers() == nil {
		return nil
	}
	pt, ok := al.Type().Underlying().(*types.Pointer)
	if !ok {
		return nil
	}
	arr, ok := pt.Elem().Underlying().(*types.Array)
	if !ok || arr.Len() > 16 {
		return nil
	}
	elems := make([]ssa.Value, arr.Len())
	for _, r := range *al.Referrers() {
		switch x := r.(type) {
		case *ssa.IndexAddr:
			c, ok := x.Index.(*ssa.Const)
			if !ok || c.Value == nil || c.Value.Kind() != constant.Int {
				return nil
			}
			i, _ := constant.Int64Val(c.Value)
			if i < 0 || i >= arr.Len() || x.Referrers() == nil {
				return nil
			}
			var st *ssa.Store
			for _, q := range *x.Referrers() {
				s, ok := q.(*ssa.Store)
				if !ok || s.Addr != x || st != nil {
					return nil
				}
				st = s
			}
			if st == nil || elems[i] != nil {
				return nil
			}
			elems[i] = st.Val
		case *ssa.Slice:
			if x != sl {
				return nil
			}
		case *ssa.DebugRef:
		default:
			return nil
		}
	}
	for _, e := range elems {
		if e == nil {
			return nil
		}
	}
	return elems
}

// concatLeaves flattens a string concatenation a + b + c into its operands.
func concatLeaves(v ssa.Value) []ssa.Value {
	v = ir.Strip(ir.ResolveCell(v))
	if b, ok := v.(*ssa.BinOp); ok && b.Op == token.ADD {
		if bt, ok := b.Type().Underlying().(*types.Basic); ok && bt.Info()&types.IsString != 0 {
			return append(concatLeaves(b.X), concatLeaves(b.Y)...)
		}
	}
	return []ssa.Value{v}
}

func constString(v ssa.Value) (string, bool) {
	c, ok := v.(*ssa.Const)
	if !ok || c.Value == nil || c.Value.Kind() != constant.String {
		return "", false
	}
	return constant.StringVal(c.Value), true
}

// errorValue returns the SSA value holding the error result of a call: the
// call itself, or the Extract of the error position; nil if the error
// position is never extracted (discarded with `_`). hasErr tells whether the
// call returns an error at all.
func errorValue(call *ssa.Call) (e ssa.Value, hasErr bool) {
	t := call.Type()
	if tup, ok := t.(*types.Tuple); ok {
		idx := -1
		for i := tup.Len() - 1; i >= 0; i-- {
			if ir.IsErrorType(tup.At(i).Type()) {
				idx = i
				break
			}
		}
		if idx < 0 {
			return nil, false
		}
		if call.Referrers() != nil {
			for _, r := range *call.Referrers() {
				if ex, ok := r.(*ssa.Extract); ok && ex.Index == idx {
					return ex, true
				}
			}
		}
		return nil, true
	}
	if ir.IsErrorType(t) {
		return call, true
	}
	return nil, false
}

// extractOf returns the Extract #idx of a tuple-valued instruction, if any.
func extractOf(tuple ssa.Value, idx int) *ssa.Extract {
	if tuple.Referrers() == nil {
		return nil
	}
	for _, r := range *tuple.Referrers() {
		if ex, ok := r.(*ssa.Extract); ok && ex.Index == idx {
			return ex
		}
	}
	return nil
}

// errPredicate recognises calls that classify an error without consuming
// it: os.IsNotExist(err), errors.Is(err, target), ...
func errPredicate(call *ssa.Call) (arg ssa.Value, ok bool) {
	switch staticID(call) {
	case "os.IsNotExist", "os.IsExist", "os.IsPermission", "os.IsTimeout", "errors.Is", "errors.As":
		if len(call.Call.Args) > 0 {
			return call.Call.Args[0], true
		}
	}
	return nil, false
}

// ---------------------------------------------------------------------------
// path-sensitive walker

type tri int8

const (
	triUnknown tri = iota
	triNo          // nil / false
	triYes         // non-nil / true
)

func triOf(b bool) tri {
	if b {
		return triYes
	}
	return triNo
}

type pstate struct {
	facts map[ssa.Value]tri
	aux   string // rule-specific automaton state
	path  []int  // block indices visited (witness; not part of the state key)
	// result/local cells (go/ssa spills results to locals in functions with
	// defer): the value last stored on this path, and what each load of a
	// cell therefore denotes
	cells map[*ssa.Alloc]ssa.Value
	alias map[ssa.Value]ssa.Value
	// outcome of an inlined callee per result position, handed to the
	// Extract instructions that follow the call
	tup map[*ssa.Call][]tri
}

// deref maps a load of a tracked local cell to the value stored in it on
// this path.
func (s *pstate) deref(v ssa.Value) ssa.Value {
	if v == nil || s == nil {
		return v
	}
	if a, ok := s.alias[v]; ok {
		return a
	}
	return v
}

func (s *pstate) clone() *pstate {
	n := &pstate{facts: make(map[ssa.Value]tri, len(s.facts)+2), aux: s.aux}
	for k, v := range s.facts {
		n.facts[k] = v
	}
	n.path = append([]int(nil), s.path...)
	if len(s.cells) > 0 {
		n.cells = make(map[*ssa.Alloc]ssa.Value, len(s.cells))
		for k, v := range s.cells {
			n.cells[k] = v
		}
	}
	if len(s.alias) > 0 {
		n.alias = make(map[ssa.Value]ssa.Value, len(s.alias))
		for k, v := range s.alias {
			n.alias[k] = v
		}
	}
	if len(s.tup) > 0 {
		n.tup = make(map[*ssa.Call][]tri, len(s.tup))
		for k, v := range s.tup {
			n.tup[k] = v
		}
	}
	return n
}

func (s *pstate) key(b *ssa.BasicBlock) string {
	parts := make([]string, 0, len(s.facts))
	for v, t := range s.facts {
		parts = append(parts, fmt.Sprintf("%s=%d", v.Name(), t))
	}
	for a, v := range s.cells {
		parts = append(parts, fmt.Sprintf("*%s:%s", a.Name(), v.Name()))
	}
	for l, v := range s.alias {
		parts = append(parts, fmt.Sprintf("%s~%s", l.Name(), v.Name()))
	}
	for cl, ts := range s.tup {
		parts = append(parts, fmt.Sprintf("%s!%v", cl.Name(), ts))
	}
	sort.Strings(parts)
	return fmt.Sprintf("%d|%s|%s", b.Index, s.aux, strings.Join(parts, ","))
}

func (s *pstate) pathString() string {
	var sb strings.Builder
	for i, b := range s.path {
		if i > 0 {
			sb.WriteString("→")
		}
		fmt.Fprintf(&sb, "%d", b)
	}
	return "blocks " + sb.String()
}

// pwalker explores every path of fn that is consistent with the nil/bool
// facts collected along it: an `if` whose condition is decided by a fact
// established earlier on the same path (directly, through `!`, through a
// nil-comparison of a value with a known fact, or through a φ whose incoming
// value on the edge taken is known) is followed only along the consistent
// edge. States (block, facts, aux) are memoised; the walk is exhaustive or
// reports overflow.
type pwalker struct {
	fn       *ssa.Function
	onInstr  func(st *pstate, ins ssa.Instruction)
	onReturn func(st *pstate, r *ssa.Return)
	onCall   func(st *pstate, call *ssa.Call) []*pstate
	initAux  string
	limit    int
	n        int
	overflow bool
	seen     map[string]bool
	simple   map[*ssa.Alloc]bool
}

// simpleCell: a local whose only uses are whole-value stores and loads.
func (w *pwalker) simpleCell(v ssa.Value) *ssa.Alloc {
	a, ok := v.(*ssa.Alloc)
	if !ok {
		return nil
	}
	if w.simple == nil {
		w.simple = map[*ssa.Alloc]bool{}
	}
	if ok, done := w.simple[a]; done {
		if ok {
			return a
		}
		return nil
	}
	good := a.Referrers() != nil
	if good {
		for _, r := range *a.Referrers() {
			switch x := r.(type) {
			case *ssa.Store:
				if x.Addr != ssa.Value(a) {
					good = false
				}
			case *ssa.UnOp:
				if x.Op != token.MUL {
					good = false
				}
			case *ssa.DebugRef:
			case *ssa.MakeClosure:
				// a closure (typically deferred clean-up testing the named error result)
				// that only reads the cell leaves its content alone
				if !closureOnlyReads(x, a) {
					good = false
				}
			default:
				good = false
			}
		}
	}
	w.simple[a] = good
	if good {
		return a
	}
	return nil
}

func (w *pwalker) run() {
	if w.limit == 0 {
		w.limit = 50000
	}
	w.seen = map[string]bool{}
	if len(w.fn.Blocks) == 0 {
		return
	}
	w.visit(w.fn.Blocks[0], nil, &pstate{facts: map[ssa.Value]tri{}, aux: w.initAux})
}

// nilness: triYes = known non-nil, triNo = known nil.
func nilness(st *pstate, v ssa.Value) tri {
	if v == nil {
		return triUnknown
	}
	v = st.deref(v)
	if ir.IsNilConst(v) {
		return triNo
	}
	if t, ok := st.facts[v]; ok {
		return t
	}
	switch x := v.(type) {
	case *ssa.MakeInterface:
		return triYes
	case *ssa.Call:
		switch staticID(x) {
		case "fmt.Errorf", "errors.New":
			return triYes
		}
	case *ssa.ChangeInterface:
		return nilness(st, x.X)
	}
	return triUnknown
}

func negTri(t tri) tri {
	switch t {
	case triYes:
		return triNo
	case triNo:
		return triYes
	}
	return triUnknown
}

func evalCond(st *pstate, cond ssa.Value) tri {
	cond = st.deref(cond)
	if b, ok := ir.ConstBool(cond); ok {
		return triOf(b)
	}
	if t, ok := st.facts[cond]; ok {
		return t
	}
	switch x := cond.(type) {
	case *ssa.UnOp:
		if x.Op == token.NOT {
			return negTri(evalCond(st, x.X))
		}
	case *ssa.BinOp:
		if v, tnn, ok := ir.NilTest(x); ok {
			n := nilness(st, v)
			if n == triUnknown {
				return triUnknown
			}
			return triOf((n == triYes) == tnn)
		}
	case *ssa.Call:
		if arg, ok := errPredicate(x); ok && nilness(st, arg) == triNo {
			return triNo // a predicate on a nil error is false
		}
	}
	return triUnknown
}

func assume(st *pstate, cond ssa.Value, truth bool) {
	if _, isC := cond.(*ssa.Const); isC {
		return
	}
	st.facts[cond] = triOf(truth)
	switch x := cond.(type) {
	case *ssa.UnOp:
		if x.Op == token.NOT {
			assume(st, x.X, !truth)
		}
	case *ssa.BinOp:
		if v, tnn, ok := ir.NilTest(x); ok {
			if _, isC := v.(*ssa.Const); !isC {
				st.facts[v] = triOf(truth == tnn)
				if d := st.deref(v); d != v {
					if _, isC := d.(*ssa.Const); !isC {
						st.facts[d] = triOf(truth == tnn)
					}
				}
			}
		}
	case *ssa.Call:
		if arg, ok := errPredicate(x); ok && truth {
			if _, isC := arg.(*ssa.Const); !isC {
				st.facts[arg] = triYes
			}
			if d := st.deref(arg); d != arg {
				if _, isC := d.(*ssa.Const); !isC {
					st.facts[d] = triYes
				}
			}
		}
	}
}

func (w *pwalker) visit(b *ssa.BasicBlock, pred *ssa.BasicBlock, st *pstate) {
	if w.overflow {
		return
	}
	// φ-nodes: evaluated simultaneously on the incoming edge
	if pred != nil {
		pi := -1
		for i, p := range b.Preds {
			if p == pred {
				pi = i
				break
			}
		}
		type upd struct {
			phi *ssa.Phi
			t   tri
			src ssa.Value // the value the φ takes on this edge (cells/φs resolved); nil for constants
		}
		var ups []upd
		for _, ins := range b.Instrs {
			phi, ok := ins.(*ssa.Phi)
			if !ok {
				break
			}
			t := triUnknown
			var src ssa.Value
			if pi >= 0 && pi < len(phi.Edges) {
				e := phi.Edges[pi]
				if isBoolType(phi.Type()) {
					t = evalCond(st, e)
				} else {
					t = nilness(st, e)
				}
				if _, isC := e.(*ssa.Const); !isC {
					src = st.deref(e)
				}
			}
			ups = append(ups, upd{phi, t, src})
		}
		for _, u := range ups {
			if u.t == triUnknown {
				delete(st.facts, u.phi)
			} else {
				st.facts[u.phi] = u.t
			}
			// on this path the φ *is* its incoming value: facts learnt later about
			// the φ (if err == nil …) are facts about that value
			if u.src != nil && u.src != ssa.Value(u.phi) {
				if st.alias == nil {
					st.alias = map[ssa.Value]ssa.Value{}
				}
				st.alias[u.phi] = u.src
			} else {
				delete(st.alias, u.phi)
			}
		}
	}
	k := st.key(b)
	if w.seen[k] {
		return
	}
	w.seen[k] = true
	w.n++
	if w.n > w.limit {
		w.overflow = true
		return
	}
	st.path = append(st.path, b.Index)
	w.exec(b, 0, st)
}

// exec runs the instructions of b from index `from` in state st.
func (w *pwalker) exec(b *ssa.BasicBlock, from int, st *pstate) {
	for i := from; i < len(b.Instrs); i++ {
		ins := b.Instrs[i]
		if _, isPhi := ins.(*ssa.Phi); isPhi {
			continue
		}
		switch t := ins.(type) {
		case *ssa.If:
			switch evalCond(st, t.Cond) {
			case triYes:
				assume(st, t.Cond, true)
				w.visit(b.Succs[0], b, st)
			case triNo:
				assume(st, t.Cond, false)
				w.visit(b.Succs[1], b, st)
			default:
				s1 := st.clone()
				assume(s1, t.Cond, true)
				w.visit(b.Succs[0], b, s1)
				s2 := st
				assume(s2, t.Cond, false)
				w.visit(b.Succs[1], b, s2)
			}
			return
		case *ssa.Jump:
			w.visit(b.Succs[0], b, st)
			return
		case *ssa.Return:
			if w.onReturn != nil {
				w.onReturn(st, t)
			}
			return
		case *ssa.Panic:
			return
		}
		// a re-executed instruction yields a new value: forget what was
		// known about the previous one (loops)
		if v, ok := ins.(ssa.Value); ok {
			delete(st.facts, v)
			delete(st.alias, v)
			for k, t := range st.alias {
				if t == v {
					delete(st.alias, k) // alias of a previous execution (loops)
				}
			}
		}
		switch x := ins.(type) {
		case *ssa.Extract:
			// an inlined callee's outcome is recorded on the tuple; hand it to the error component
			if t, ok := st.facts[x.Tuple]; ok && ir.IsErrorType(x.Type()) {
				st.facts[x] = t
			}
			if cl, ok := x.Tuple.(*ssa.Call); ok {
				if ts, ok := st.tup[cl]; ok && x.Index < len(ts) && ts[x.Index] != triUnknown {
					st.facts[x] = ts[x.Index]
				}
			}
		case *ssa.Store:
			if a := w.simpleCell(x.Addr); a != nil {
				if st.cells == nil {
					st.cells = map[*ssa.Alloc]ssa.Value{}
				}
				st.cells[a] = st.deref(x.Val)
			}
		case *ssa.UnOp:
			if x.Op == token.MUL {
				if a := w.simpleCell(x.X); a != nil {
					if sv, ok := st.cells[a]; ok {
						if st.alias == nil {
							st.alias = map[ssa.Value]ssa.Value{}
						}
						st.alias[x] = sv
					}
				}
			}
		}
		if w.onInstr != nil {
			w.onInstr(st, ins)
		}
		// a hook may replace the state after a call by several successor
		// states (the outcomes of an inlined callee)
		if call, ok := ins.(*ssa.Call); ok && w.onCall != nil {
			if outs := w.onCall(st, call); outs != nil {
				for _, o := range outs {
					if w.overflow {
						return
					}
					w.n++
					if w.n > w.limit {
						w.overflow = true
						return
					}
					w.exec(b, i+1, o)
				}
				return
			}
		}
	}
}

func isBoolType(t types.Type) bool {
	b, ok := t.Underlying().(*types.Basic)
	return ok && b.Info()&types.IsBoolean != 0
}

// ---------------------------------------------------------------------------
// error-drop check (shared by ERRPROP_BACKEND and ATOMICFILE)

type dropResult struct {
	bad      []*ssa.Return // returns reachable after a failing call that may carry a nil error
	witness  map[*ssa.Return]string
	memLoad  bool // some such return returns a value loaded from memory (cannot be classified)
	overflow bool
	reached  bool // the call is reachable at all
}

// errDropCheck decides, for one call that returns an error: on every path on
// which the call has executed and its error is non-nil, does the function
// return a non-nil error? A path on which the error has been classified
// positively by a predicate (os.IsNotExist(err) true, err == sentinel) counts
// as handled.
func errDropCheck(fn *ssa.Function, call *ssa.Call) dropResult {
	return errDropCheckMode(fn, call, false)
}

// errDropCheckMode: with strict set, a positive classification of the error
// (errors.Is/As, os.IsX, == sentinel) does not discharge the obligation: for
// the error of a WRITE no classification licenses reporting success (note that
// errors.As(nil, …) and os.IsX(nil) are false: their true edge is a non-nil edge).
func errDropCheckMode(fn *ssa.Function, call *ssa.Call, strict bool) dropResult {
	res := dropResult{witness: map[*ssa.Return]string{}}
	e, _ := errorValue(call)
	ei := ir.ErrorResultIndex(fn.Signature)
	handled := func(st *pstate) bool {
		if e == nil || strict {
			return false
		}
		for v, t := range st.facts {
			switch x := v.(type) {
			case *ssa.Call:
				if arg, ok := errPredicate(x); ok && (arg == e || st.deref(arg) == e) && t == triYes {
					return true
				}
			case *ssa.BinOp:
				if (x.Op == token.EQL && t == triYes) || (x.Op == token.NEQ && t == triNo) {
					if ((x.X == e || st.deref(x.X) == e) && !ir.IsNilConst(x.Y)) || ((x.Y == e || st.deref(x.Y) == e) && !ir.IsNilConst(x.X)) {
						return true
					}
				}
			}
		}
		return false
	}
	seenBad := map[*ssa.Return]bool{}
	w := &pwalker{fn: fn}
	w.onInstr = func(st *pstate, ins ssa.Instruction) {
		if ins == ssa.Instruction(call) {
			st.aux = "P"
			res.reached = true
			if e == ssa.Value(call) {
				st.facts[e] = triYes
			}
		}
		if e != nil && e != ssa.Value(call) {
			if ex, ok := ins.(*ssa.Extract); ok && ssa.Value(ex) == e && st.aux == "P" {
				st.facts[e] = triYes
			}
		}
	}
	w.onReturn = func(st *pstate, r *ssa.Return) {
		if st.aux != "P" || handled(st) {
			return
		}
		if ei < 0 || ei >= len(r.Results) {
			if !seenBad[r] {
				seenBad[r] = true
				res.bad = append(res.bad, r)
				res.witness[r] = st.pathString()
			}
			return
		}
		v := r.Results[ei]
		if nilness(st, v) == triYes {
			return
		}
		if u, ok := st.deref(v).(*ssa.UnOp); ok && u.Op == token.MUL {
			res.memLoad = true
		}
		if !seenBad[r] {
			seenBad[r] = true
			res.bad = append(res.bad, r)
			res.witness[r] = st.pathString()
		}
	}
	w.run()
	res.overflow = w.overflow
	return res
}

// callsReturningError lists the value-producing calls of fn that have an
// error among their results.
func callsReturningError(fn *ssa.Function) []*ssa.Call {
	var out []*ssa.Call
	for _, b := range fn.Blocks {
		for _, ins := range b.Instrs {
			if c, ok := ins.(*ssa.Call); ok {
				if _, has := errorValue(c); has {
					out = append(out, c)
				}
			}
		}
	}
	return out
}

// resultHasError reports whether the signature's results include an error.
func resultHasError(sig *types.Signature) bool {
	return sig != nil && ir.ErrorResultIndex(sig) >= 0
}

// calleeSig returns the signature of the called function or method.
func calleeSig(com *ssa.CallCommon) *types.Signature {
	if com.IsInvoke() {
		s, _ := com.Method.Type().(*types.Signature)
		return s
	}
	s, _ := com.Value.Type().Underlying().(*types.Signature)
	return s
}

// descValue renders a value for messages, showing the arguments of calls.
func descValue(v ssa.Value) string {
	v = ir.Strip(ir.ResolveCell(v))
	if call, ok := v.(*ssa.Call); ok {
		var as []string
		args := call.Call.Args
		if len(args) == 1 {
			if el := variadicElems(args[0]); el != nil {
				args = el
			}
		}
		for _, a := range args {
			as = append(as, descValue(a))
		}
		return callName(call) + "(" + strings.Join(as, ", ") + ")"
	}
	if phi, ok := v.(*ssa.Phi); ok {
		var es []string
		for _, e := range phi.Edges {
			if e == ssa.Value(phi) {
				continue
			}
			es = append(es, ir.Sym(ir.Strip(ir.ResolveCell(e))))
		}
		return "φ(" + strings.Join(es, " | ") + ")"
	}
	return ir.Sym(v)
}

// ---------------------------------------------------------------------------
// frames: following values into and out of helper functions
//
// A frame is one activation of a repository function in the (bounded) call
// tree below a Load/Store method. Values are resolved upwards (a parameter of
// a helper denotes the argument at the call that created the frame) and
// downwards (a call of a helper with a single return denotes the returned
// expression in the helper's frame). Frames are memoised per call site so
// that (value, frame) pairs can be compared for identity.

const maxHelperDepth = 2

type frame struct {
	P     *ir.Program
	fn    *ssa.Function
	up    *frame
	call  ssa.CallInstruction // the call in up.fn that created this frame
	depth int
	kids  map[ssa.CallInstruction]*frame
	recv  *recvInfo
}

func rootFrame(P *ir.Program, fn *ssa.Function) *frame {
	return &frame{P: P, fn: fn, kids: map[ssa.CallInstruction]*frame{}, recv: newRecvInfo(fn)}
}

func (f *frame) root() *frame {
	for f.up != nil {
		f = f.up
	}
	return f
}

// child returns the frame of the repository function statically called by
// ci, or nil (dynamic/external callee, depth bound reached, recursion).
func (f *frame) child(ci ssa.CallInstruction) *frame {
	if k, ok := f.kids[ci]; ok {
		return k
	}
	var k *frame
	h := ir.Callee(ci.Common())
	if h != nil && h.Blocks != nil && isOwn(f.P, h) && f.depth < maxHelperDepth && len(ci.Common().Args) == len(h.Params) {
		rec := false
		for a := f; a != nil; a = a.up {
			if a.fn == h {
				rec = true
			}
		}
		if !rec {
			k = &frame{P: f.P, fn: h, up: f, call: ci, depth: f.depth + 1, kids: map[ssa.CallInstruction]*frame{}, recv: newRecvInfo(h)}
		}
	}
	f.kids[ci] = k
	return k
}

func (f *frame) String() string {
	if f.up == nil {
		return ir.FuncName(f.fn)
	}
	return f.up.String() + "→" + ir.FuncName(f.fn)
}

// fval is a value in a frame.
type fval struct {
	v  ssa.Value
	fr *frame
}

// soleReturn returns the only return instruction of fn (ignoring the
// synthetic recover block), or nil.
func soleReturn(fn *ssa.Function) *ssa.Return {
	var out *ssa.Return
	for _, b := range fn.Blocks {
		if b == fn.Recover || len(b.Instrs) == 0 {
			continue
		}
		if r, ok := b.Instrs[len(b.Instrs)-1].(*ssa.Return); ok {
			if out != nil {
				return nil
			}
			out = r
		}
	}
	return out
}

// soleNonZeroResult returns the only non-zero-constant value returned in
// position idx by fn, or nil.
func soleNonZeroResult(fn *ssa.Function, idx int) ssa.Value {
	var out ssa.Value
	for _, b := range fn.Blocks {
		if b == fn.Recover || len(b.Instrs) == 0 {
			continue
		}
		r, ok := b.Instrs[len(b.Instrs)-1].(*ssa.Return)
		if !ok {
			continue
		}
		if idx >= len(r.Results) {
			return nil
		}
		v := r.Results[idx]
		if c, isC := v.(*ssa.Const); isC && (c.Value == nil || c.IsNil() || isZeroConst(c)) {
			continue
		}
		if out != nil && out != v {
			return nil
		}
		out = v
	}
	return out
}

func isZeroConst(c *ssa.Const) bool {
	if c.Value == nil {
		return true
	}
	switch c.Value.Kind() {
	case constant.String:
		return constant.StringVal(c.Value) == ""
	case constant.Int, constant.Float:
		return constant.Sign(c.Value) == 0
	case constant.Bool:
		return !constant.BoolVal(c.Value)
	}
	return false
}

// unfollowedHelper reports whether v is a call of a repository function that
// expand did not follow (nesting deeper than maxHelperDepth, several returns,
// recursion): the rules then answer "undecided", not "violation".
func unfollowedHelper(x fval) bool {
	var call *ssa.Call
	switch y := x.v.(type) {
	case *ssa.Call:
		call = y
	case *ssa.Extract:
		call, _ = y.Tuple.(*ssa.Call)
	}
	if call == nil {
		return false
	}
	h := ir.Callee(call.Call)
	return h != nil && h.Blocks != nil && isOwn(x.fr.P, h)
}

// expand resolves v in frame fr as far as helper boundaries allow.
func expand(v ssa.Value, fr *frame) fval {
	for i := 0; i < 16 && v != nil; i++ {
		v = ir.Strip(ir.ResolveCell(v))
		switch x := v.(type) {
		case *ssa.UnOp:
			// the content of a variable captured by a closure: the (single) value the
			// enclosing function stored into the cell
			if fv, isFV := x.X.(*ssa.FreeVar); isFV && x.Op == token.MUL && fr.up != nil && fr.call != nil {
				if mc, isMC := fr.call.Common().Value.(*ssa.MakeClosure); isMC && mc.Fn == ssa.Value(fr.fn) {
					for j, q := range fr.fn.FreeVars {
						if q == fv && j < len(mc.Bindings) {
							if a, isAlloc := mc.Bindings[j].(*ssa.Alloc); isAlloc {
								if st := ir.SingleStore(a); st != nil {
									v, fr = st.Val, fr.up
									continue
								}
							}
						}
					}
				}
			}
		case *ssa.Parameter:
			if fr.up != nil {
				idx := -1
				for j, p := range fr.fn.Params {
					if p == x {
						idx = j
					}
				}
				if idx >= 0 {
					v, fr = fr.call.Common().Args[idx], fr.up
					continue
				}
			}
		case *ssa.Call:
			if k := fr.child(x); k != nil {
				if r := soleReturn(k.fn); r != nil && len(r.Results) == 1 {
					v, fr = r.Results[0], k
					continue
				}
			}
		case *ssa.Extract:
			if call, ok := x.Tuple.(*ssa.Call); ok {
				if k := fr.child(call); k != nil {
					if r := soleReturn(k.fn); r != nil && x.Index < len(r.Results) {
						v, fr = r.Results[x.Index], k
						continue
					}
					// several returns, all but one carrying the zero value in this
					// position (the `return "", err` idiom): the component denotes
					// the one non-zero expression whenever it is meaningful
					if rv := soleNonZeroResult(k.fn, x.Index); rv != nil {
						v, fr = rv, k
						continue
					}
				}
			}
		}
		break
	}
	return fval{v, fr}
}

// isRootRecv: the receiver of fr.fn denotes the receiver of the root method.
func isRootRecv(fr *frame) bool {
	for fr.up != nil {
		if fr.fn.Signature.Recv() == nil || fr.recv == nil {
			return false
		}
		arg := ir.Strip(ir.ResolveCell(fr.call.Common().Args[0]))
		up := fr.up
		if up.recv == nil {
			return false
		}
		ok := up.recv.isRecvValue(arg) || up.recv.isBase(arg)
		if u, isU := arg.(*ssa.UnOp); isU && u.Op == token.MUL && u.X == ssa.Value(up.recv.param) {
			ok = true // *p of a pointer receiver
		}
		if !ok {
			return false
		}
		fr = up
	}
	return true
}

// rootRecvField: v (in fr) is the content of field `name` of the root
// method's receiver (possibly read inside a helper method called on it).
func rootRecvField(v ssa.Value, fr *frame) (string, bool) {
	x := expand(v, fr)
	if x.fr.recv == nil {
		return "", false
	}
	name, ok := x.fr.recv.fieldOf(x.v)
	if !ok || !isRootRecv(x.fr) || x.fr.recv.fieldWritten(name) {
		return "", false
	}
	return name, true
}

// rootRecvFieldAddr: v is the address of a field of the root receiver.
func rootRecvFieldAddr(v ssa.Value, fr *frame) (string, bool) {
	x := expand(v, fr)
	if x.fr.recv == nil {
		return "", false
	}
	name, ok := x.fr.recv.fieldAddrOf(x.v)
	if !ok || !isRootRecv(x.fr) || x.fr.recv.fieldWritten(name) {
		return "", false
	}
	return name, true
}

// isRootParam: v denotes parameter #idx of the root method.
func isRootParam(v ssa.Value, fr *frame, idx int) bool {
	x := expand(v, fr)
	return x.fr.up == nil && idx < len(x.fr.fn.Params) && x.v == ssa.Value(x.fr.fn.Params[idx])
}

// stringLeaves flattens a string expression into the operands that are
// concatenated: a + b, and fmt.Sprintf with a format made of %s/%v verbs and
// literal text (the literal pieces become synthetic constants).
func stringLeaves(v ssa.Value, fr *frame) []fval {
	x := expand(v, fr)
	switch y := x.v.(type) {
	case *ssa.BinOp:
		if bt, ok := y.Type().Underlying().(*types.Basic); ok && y.Op == token.ADD && bt.Info()&types.IsString != 0 {
			return append(stringLeaves(y.X, x.fr), stringLeaves(y.Y, x.fr)...)
		}
	case *ssa.Call:
		if staticID(y) == "fmt.Sprintf" && len(y.Call.Args) == 2 {
			format, ok := constString(y.Call.Args[0])
			args := variadicElems(y.Call.Args[1])
			if ok && args != nil {
				if out, ok := sprintfLeaves(format, args, x.fr); ok {
					return out
				}
			}
		}
	}
	return []fval{x}
}

func sprintfLeaves(format string, args []ssa.Value, fr *frame) ([]fval, bool) {
	var out []fval
	lit := ""
	flush := func() {
		if lit != "" {
			out = append(out, fval{ssa.NewConst(constant.MakeString(lit), types.Typ[types.String]), fr})
			lit = ""
		}
	}
	ai := 0
	for i := 0; i < len(format); i++ {
		ch := format[i]
		if ch != '%' {
			lit += string(ch)
			continue
		}
		if i+1 >= len(format) {
			return nil, false
		}
		i++
		switch format[i] {
		case '%':
			lit += "%"
		case 's', 'v':
			if ai >= len(args) {
				return nil, false
			}
			a := ir.Strip(args[ai])
			bt, ok := a.Type().Underlying().(*types.Basic)
			if !ok || bt.Info()&types.IsString == 0 {
				return nil, false // only strings print verbatim
			}
			flush()
			out = append(out, stringLeaves(a, fr)...)
			ai++
		default:
			return nil, false
		}
	}
	flush()
	if ai != len(args) {
		return nil, false
	}
	return out, true
}

// frameCalls enumerates the calls of fr.fn and, recursively, of the helper
// frames below it.
func frameCalls(fr *frame, visit func(call *ssa.Call, fr *frame)) {
	for _, b := range fr.fn.Blocks {
		if b == fr.fn.Recover {
			continue
		}
		for _, ins := range b.Instrs {
			if df, isDefer := ins.(*ssa.Defer); isDefer {
				// a deferred closure runs before the function returns: its calls belong to the function
				if _, isClosure := df.Call.Value.(*ssa.MakeClosure); isClosure {
					if k := fr.child(df); k != nil {
						frameCalls(k, visit)
					}
				}
				continue
			}
			call, ok := ins.(*ssa.Call)
			if !ok {
				continue
			}
			visit(call, fr)
			if k := fr.child(call); k != nil {
				frameCalls(k, visit)
			}
		}
	}
}

func descFval(x fval) string {
	if x.fr != nil && x.fr.up != nil {
		return descValue(x.v) + " in " + ir.FuncName(x.fr.fn)
	}
	return descValue(x.v)
}

// copyOf: v is a fresh slice holding a complete copy of src:
// append([]T(nil), src...), append([]T{}, src...), bytes.Clone(src),
// slices.Clone(src), or make([]T, len(src)) filled by copy(v, src).
func copyOf(v ssa.Value) (src ssa.Value, ok bool) { return copyOfD(v, 0) }

func copyOfD(v ssa.Value, depth int) (src ssa.Value, ok bool) {
	v = ir.Strip(ir.ResolveCell(v))
	switch x := v.(type) {
	case *ssa.Call:
		// a helper of the same package every return of which is a fresh copy of
		// one and the same parameter: the call's result is a fresh copy of that argument
		if h := ir.Callee(x.Call); h != nil && h.Blocks != nil && depth < maxHelperDepth && x.Parent() != nil && h.Pkg == x.Parent().Pkg &&
			h.Signature.Results().Len() == 1 && len(h.Params) == len(x.Call.Args) {
			idx := -1
			n := 0
			for _, r := range ir.Returns(h) {
				if len(r.Results) != 1 {
					return nil, false
				}
				rs, isCopy := copyOfD(r.Results[0], depth+1)
				if !isCopy {
					return nil, false
				}
				p, isParam := ir.Strip(ir.ResolveCell(rs)).(*ssa.Parameter)
				if !isParam || p.Parent() != h {
					return nil, false
				}
				pi := -1
				for i, q := range h.Params {
					if q == p {
						pi = i
					}
				}
				if pi < 0 || (idx >= 0 && idx != pi) {
					return nil, false
				}
				idx = pi
				n++
			}
			if n > 0 && idx >= 0 {
				return x.Call.Args[idx], true
			}
			return nil, false
		}
		if b, isB := x.Call.Value.(*ssa.Builtin); isB && b.Name() == "append" && len(x.Call.Args) == 2 {
			if emptySlice(x.Call.Args[0]) {
				if _, isSlice := x.Call.Args[1].Type().Underlying().(*types.Slice); isSlice {
					return x.Call.Args[1], true
				}
			}
			return nil, false
		}
		id := staticID(x)
		if (id == "bytes.Clone" || strings.HasPrefix(id, "slices.Clone")) && len(x.Call.Args) == 1 {
			return x.Call.Args[0], true
		}
	case *ssa.MakeSlice:
		// make([]T, len(src)) + copy(v, src)
		ln, isCall := x.Len.(*ssa.Call)
		if !isCall {
			return nil, false
		}
		if b, isB := ln.Call.Value.(*ssa.Builtin); !isB || b.Name() != "len" || len(ln.Call.Args) != 1 {
			return nil, false
		}
		want := ln.Call.Args[0]
		if x.Referrers() == nil {
			return nil, false
		}
		for _, r := range *x.Referrers() {
			if call, isC := r.(*ssa.Call); isC {
				if b, isB := call.Call.Value.(*ssa.Builtin); isB && b.Name() == "copy" && len(call.Call.Args) == 2 && call.Call.Args[0] == ssa.Value(x) && call.Call.Args[1] == want {
					return want, true
				}
			}
		}
	}
	return nil, false
}

// emptySlice: nil, or a slice value of length zero ([]T{}, make([]T, 0)).
func emptySlice(v ssa.Value) bool {
	if ir.IsNilConst(v) {
		return true
	}
	switch x := v.(type) {
	case *ssa.MakeSlice:
		if c, ok := x.Len.(*ssa.Const); ok && c.Value != nil && constant.Sign(c.Value) == 0 {
			return true
		}
	case *ssa.Slice:
		if a, ok := x.X.(*ssa.Alloc); ok {
			if pt, ok := a.Type().Underlying().(*types.Pointer); ok {
				if arr, ok := pt.Elem().Underlying().(*types.Array); ok && arr.Len() == 0 {
					return true
				}
			}
		}
	}
	return false
}

// sliceRoot strips reslicing and type changes: the value whose backing array v shares.
func sliceRoot(v ssa.Value) ssa.Value {
	for i := 0; i < 8; i++ {
		v = ir.Strip(ir.ResolveCell(v))
		s, ok := v.(*ssa.Slice)
		if !ok {
			return v
		}
		if _, isSlice := s.X.Type().Underlying().(*types.Slice); !isSlice {
			return v
		}
		v = s.X
	}
	return v
}

// ---------------------------------------------------------------------------
// values wrapped in local structs (map[string]storedBlob{bytes []byte})

// wholeStoreOf: local struct cell a receives exactly one whole-value store
// (`*a = v`) and no stores through its fields; returns v.
func wholeStoreOf(a *ssa.Alloc) ssa.Value {
	if a == nil || a.Referrers() == nil {
		return nil
	}
	var val ssa.Value
	for _, r := range *a.Referrers() {
		switch x := r.(type) {
		case *ssa.Store:
			if x.Addr != ssa.Value(a) || val != nil {
				return nil
			}
			val = x.Val
		case *ssa.FieldAddr:
			if x.Referrers() != nil {
				for _, q := range *x.Referrers() {
					if s, ok := q.(*ssa.Store); ok && s.Addr == ssa.Value(x) {
						return nil
					}
				}
			}
		}
	}
	return val
}

// fieldOfLocalStruct: v is `*(&a.f)` for a local struct cell a that holds one
// whole value s: v is field f of s. It returns s.
func fieldOfLocalStruct(v ssa.Value) (ssa.Value, bool) {
	u, ok := v.(*ssa.UnOp)
	if !ok || u.Op != token.MUL {
		return nil, false
	}
	fa, ok := u.X.(*ssa.FieldAddr)
	if !ok {
		return nil, false
	}
	a, ok := fa.X.(*ssa.Alloc)
	if !ok {
		return nil, false
	}
	if s := wholeStoreOf(a); s != nil {
		return s, true
	}
	return nil, false
}

// containedSlices lists the slice values held by v: v itself if it is a
// slice; for a struct value assembled in a local cell (composite literal),
// the slices stored into its fields. ok is false when v is a struct whose
// construction the rule cannot see.
func containedSlices(v ssa.Value) (vals []ssa.Value, ok bool) {
	if _, isSlice := v.Type().Underlying().(*types.Slice); isSlice {
		return []ssa.Value{v}, true
	}
	if _, isStruct := v.Type().Underlying().(*types.Struct); !isStruct {
		return nil, true
	}
	u, isLoad := v.(*ssa.UnOp)
	if !isLoad || u.Op != token.MUL {
		return nil, false
	}
	a, isAlloc := u.X.(*ssa.Alloc)
	if !isAlloc || a.Referrers() == nil {
		return nil, false
	}
	for _, r := range *a.Referrers() {
		switch x := r.(type) {
		case *ssa.FieldAddr:
			if x.Referrers() == nil {
				continue
			}
			for _, q := range *x.Referrers() {
				if s, isStore := q.(*ssa.Store); isStore && s.Addr == ssa.Value(x) {
					sub, ok2 := containedSlices(s.Val)
					if !ok2 {
						return nil, false
					}
					vals = append(vals, sub...)
				}
			}
		case *ssa.Store:
			if x.Addr == ssa.Value(a) {
				sub, ok2 := containedSlices(x.Val)
				if !ok2 {
					return nil, false
				}
				vals = append(vals, sub...)
			}
		}
	}
	return vals, true
}

// closureOnlyReads: the closure made by mc uses cell a (captured by
// reference) only to read it.
func closureOnlyReads(mc *ssa.MakeClosure, a *ssa.Alloc) bool {
	fn, ok := mc.Fn.(*ssa.Function)
	if !ok {
		return false
	}
	for i, b := range mc.Bindings {
		if b != ssa.Value(a) {
			continue
		}
		if i >= len(fn.FreeVars) || fn.FreeVars[i].Referrers() == nil {
			return false
		}
		for _, r := range *fn.FreeVars[i].Referrers() {
			switch x := r.(type) {
			case *ssa.UnOp:
				if x.Op != token.MUL {
					return false
				}
			case *ssa.DebugRef:
			default:
				return false
			}
		}
	}
	return true
}

// onlyDeferred: closure fn is created only to be deferred by its parent.
func onlyDeferred(fn *ssa.Function) bool {
	p := fn.Parent()
	if p == nil {
		return false
	}
	found := false
	for _, b := range p.Blocks {
		for _, ins := range b.Instrs {
			mc, ok := ins.(*ssa.MakeClosure)
			if !ok || mc.Fn != ssa.Value(fn) {
				continue
			}
			found = true
			if mc.Referrers() == nil {
				return false
			}
			for _, r := range *mc.Referrers() {
				switch r.(type) {
				case *ssa.Defer, *ssa.DebugRef:
				default:
					return false
				}
			}
		}
	}
	return found
}
