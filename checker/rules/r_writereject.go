package rules

import (
	"fmt"
	"go/token"
	"go/types"
	"sort"
	"strings"

	"golang.org/x/tools/go/ssa"

	"mastcheck/ir"
)

// WRITEREJECT: Insert and Delete fail only when something they depend on fails (the store, a callback), or when the
// caller's arguments do not fit the tree (Delete of an absent key, of a different value). A write that refuses a tree
// because of its *shape* — a node that already holds "too many" entries, a tree that is "too large" — rejects trees the
// writer itself produces: over-full nodes are legal (all keys of one layer between two higher keys live in one node).
// The analogue of READREJECT / LOADLIMIT on the write path.

func init() {
	Register(&Rule{ID: "WRITEREJECT", Props: []string{"C01", "C09"}, Min: 10,
		Doc: "in Insert, Delete and the helpers reached from them only (outside the load path and what the read-only operations share, which READREJECT judges), " +
			"every non-nil error returned is, or wraps, the error of a call (store, callback, repository function), is a package-level sentinel or the caller's own value, " +
			"or is constructed on the spot under a guard of a kind that exists today: a nil test, the default arm of a switch over dynamic link types, the result of a call that compares the located entry with the caller's key/value (key order, reflect.DeepEqual), " +
			"a search position against the node's own list length, or ==/!= among the layer bookkeeping (find options, tree height) and constants. " +
			"No error return and no panic is guarded by a comparison of a node's list length or of the tree's size with anything but a small constant, another of the node's own lengths (± constant) or a position.",
		Run: runWRITEREJECT})
}

var writeEntries = []string{"(*Mast).Insert", "(*Mast).Delete"}

type edgeGuard struct {
	cond  ssa.Value
	truth bool
}

// entryGuards: the conditions under which control enters b — one per incoming `if` edge (`a || b` gives two). A block
// that is (also) entered by plain jumps is a merge point inside the guarded region: its immediate dominator opened it.
func entryGuards(b *ssa.BasicBlock) (gs []edgeGuard, open bool) {
	for d := 0; d < 8 && b != nil; d++ {
		if len(b.Preds) == 0 {
			return nil, true
		}
		all := true
		gs = gs[:0]
		for _, p := range b.Preds {
			if len(p.Instrs) == 0 {
				all = false
				break
			}
			iff, ok := p.Instrs[len(p.Instrs)-1].(*ssa.If)
			if !ok || p.Succs[0] == p.Succs[1] {
				all = false
				break
			}
			gs = append(gs, edgeGuard{iff.Cond, p.Succs[0] == b})
		}
		if all {
			return gs, false
		}
		b = b.Idom()
	}
	return nil, true
}

type writeReject struct {
	c          *Ctx
	userParams map[*ssa.Parameter]bool
}

func wrStrip(v ssa.Value) ssa.Value {
	for i := 0; i < 6; i++ {
		switch x := v.(type) {
		case *ssa.Convert:
			v = x.X
		case *ssa.ChangeType:
			v = x.X
		default:
			return ir.ResolveCell(v)
		}
	}
	return v
}

func isArith(op token.Token) bool {
	switch op {
	case token.ADD, token.SUB, token.MUL, token.QUO, token.SHL, token.SHR, token.REM:
		return true
	}
	return false
}

func isCompare(op token.Token) bool {
	switch op {
	case token.EQL, token.NEQ, token.LSS, token.LEQ, token.GTR, token.GEQ:
		return true
	}
	return false
}

func wrMastField(v ssa.Value) (string, bool) {
	ld, ok := v.(*ssa.UnOp)
	if !ok || ld.Op != token.MUL {
		return "", false
	}
	fa, ok := ld.X.(*ssa.FieldAddr)
	if !ok || !ir.IsPtrToNamed(fa.X.Type(), "Mast") {
		return "", false
	}
	return ir.FieldName(fa.X.Type(), fa.Field), true
}

// lenOrSize: v is computed from the number of entries of a node ("len") or from the tree's size ("size"), through
// conversions, arithmetic, or a repository accessor that returns one.
func lenOrSize(v ssa.Value, d int) string {
	if d > 5 {
		return ""
	}
	v = wrStrip(v)
	switch x := v.(type) {
	case *ssa.BinOp:
		if !isArith(x.Op) {
			return ""
		}
		if k := lenOrSize(x.X, d+1); k != "" {
			return k
		}
		return lenOrSize(x.Y, d+1)
	case *ssa.Call:
		if bi, ok := x.Call.Value.(*ssa.Builtin); ok {
			if (bi.Name() == "len" || bi.Name() == "cap") && len(x.Call.Args) == 1 {
				if _, _, ok := nodeSliceRoot(x.Call.Args[0]); ok {
					return "len"
				}
			}
			return ""
		}
		if sc := ir.Callee(x.Call); sc != nil && sc.Blocks != nil && sc.Pkg != nil && sc.Pkg.Pkg.Path() == ir.MastPath && sc.Signature.Results().Len() == 1 {
			kind := ""
			for _, r := range ir.Returns(sc) {
				k := lenOrSize(r.Results[0], d+2)
				if k == "" {
					return ""
				}
				kind = k
			}
			return kind
		}
	case *ssa.UnOp:
		if f, ok := wrMastField(x); ok && f == "size" {
			return "size"
		}
	case *ssa.Phi:
		for _, e := range x.Edges {
			if k := lenOrSize(e, d+1); k != "" {
				return k
			}
		}
	}
	return ""
}

// admissibleOther: what a length / the size may be compared with.
func admissibleOther(other ssa.Value, kind string, innermost bool) bool {
	o := wrStrip(other)
	if k, isK := ir.ConstInt(o); isK {
		if kind == "size" {
			return k <= 1
		}
		return k <= 2
	}
	if kind == "len" {
		if _, _, ok := lenOfNodeSlice(o); ok {
			return true
		}
		if bo, ok := o.(*ssa.BinOp); ok && (bo.Op == token.ADD || bo.Op == token.SUB) {
			if _, isK := ir.ConstInt(bo.Y); isK {
				if _, _, ok := lenOfNodeSlice(wrStrip(bo.X)); ok {
					return true
				}
				o = wrStrip(bo.X) // i+1
			}
		}
		if _, _, isLi := liPlusK(o); isLi {
			return true
		}
		switch x := o.(type) {
		case *ssa.Phi, *ssa.Extract:
			// a loop counter, a position returned by a search
			return lenOrSize(o, 0) == ""
		case *ssa.Parameter:
			// an index handed in: every static call site passes a position, a small constant or a length — not a limit
			// computed from the configuration
			return paramIsPosition(x)
		}
		return false
	}
	// the tree's own grow/shrink thresholds steer the height loops; an error made up right under such a test is a limit
	if !innermost {
		if f, ok := wrMastField(o); ok && (f == "growAfterSize" || f == "shrinkBelowSize") {
			return true
		}
	}
	return false
}

var wrCallers map[*ssa.Function][]ssa.CallInstruction

func paramIsPosition(p *ssa.Parameter) bool {
	fn := p.Parent()
	idx := -1
	for i, q := range fn.Params {
		if q == p {
			idx = i
		}
	}
	if idx < 0 {
		return false
	}
	for _, cs := range wrCallers[fn] {
		args := cs.Common().Args
		if idx >= len(args) {
			return false
		}
		a := wrStrip(args[idx])
		if bo, ok := a.(*ssa.BinOp); ok && (bo.Op == token.ADD || bo.Op == token.SUB) {
			if _, isK := ir.ConstInt(bo.Y); isK {
				a = wrStrip(bo.X)
			}
		}
		switch y := a.(type) {
		case *ssa.Const:
			if k, isK := ir.ConstInt(y); !isK || k > 2 {
				return false
			}
		case *ssa.Phi, *ssa.Extract, *ssa.Parameter:
		case *ssa.Call:
			if _, _, ok := lenOfNodeSlice(y); !ok {
				return false
			}
		default:
			if _, _, isLi := liPlusK(a); !isLi {
				return false
			}
		}
	}
	return true
}

// limitCompare: cond compares a node's list length / the tree's size with something inadmissible.
func limitCompare(cond ssa.Value, innermost bool) (desc string, isLenCmp bool, bad bool) {
	for i := 0; i < 3; i++ {
		if u, ok := cond.(*ssa.UnOp); ok && u.Op == token.NOT {
			cond = u.X
		}
	}
	// a private predicate (`node.full(bf)`) that is such a comparison
	if call, isCall := cond.(*ssa.Call); isCall {
		if sc := ir.Callee(call.Call); sc != nil && sc.Blocks != nil && sc.Pkg != nil && sc.Pkg.Pkg.Path() == ir.MastPath && sc.Signature.Results().Len() == 1 {
			for _, r := range ir.Returns(sc) {
				if _, isK := r.Results[0].(*ssa.Const); isK {
					continue
				}
				if d, l, b := limitCompare(r.Results[0], innermost); b {
					return d + " (in " + ir.FuncName(sc) + ")", l, b
				}
			}
		}
		return "", false, false
	}
	if phi, isPhi := cond.(*ssa.Phi); isPhi {
		for _, e := range phi.Edges {
			if _, isK := e.(*ssa.Const); isK {
				continue
			}
			if _, isP := e.(*ssa.Phi); isP {
				continue
			}
			if d, l, b := limitCompare(e, innermost); b {
				return d, l, b
			}
		}
		return "", false, false
	}
	bin, ok := cond.(*ssa.BinOp)
	if !ok || !isCompare(bin.Op) {
		return "", false, false
	}
	kx, ky := lenOrSize(bin.X, 0), lenOrSize(bin.Y, 0)
	if kx == "" && ky == "" {
		return "", false, false
	}
	what := map[string]string{"len": "a node's number of entries", "size": "the tree's size"}
	if kx != "" && !admissibleOther(bin.Y, kx, innermost) {
		return fmt.Sprintf("%s is compared (%s) with %s", what[kx], bin.Op, pathDesc(ir.Sym(bin.Y))), true, true
	}
	if ky != "" && kx == "" && !admissibleOther(bin.X, ky, innermost) {
		return fmt.Sprintf("%s is compared (%s) with %s", what[ky], bin.Op, pathDesc(ir.Sym(bin.X))), true, true
	}
	return "", true, false
}

func (w *writeReject) hasUserArg(v ssa.Value) bool {
	v = wrStrip(v)
	if ex, ok := v.(*ssa.Extract); ok {
		v = ex.Tuple
	}
	call, ok := v.(*ssa.Call)
	if !ok {
		return false
	}
	if _, isB := call.Call.Value.(*ssa.Builtin); isB {
		return false
	}
	for _, a := range call.Call.Args {
		if !isIface(a.Type()) {
			continue
		}
		if k, _ := provenance(a, w.userParams, 0); k == provUser {
			return true
		}
	}
	return false
}

// bookkeeping: a constant, a field of the find options, the tree's height.
func bookkeeping(v ssa.Value) bool {
	v = wrStrip(v)
	if _, ok := v.(*ssa.Const); ok {
		return true
	}
	if f, ok := wrMastField(v); ok {
		return f == "height"
	}
	switch x := v.(type) {
	case *ssa.UnOp:
		if fa, ok := x.X.(*ssa.FieldAddr); ok && x.Op == token.MUL {
			return ir.IsPtrToNamed(fa.X.Type(), "findOptions")
		}
	case *ssa.Field:
		return ir.IsNamed(x.X.Type(), "findOptions")
	}
	return false
}

// classify one guard of a constructed error: "" = not of a kind that exists today.
func (w *writeReject) classify(cond ssa.Value, truth bool, d int) string {
	if d > 4 {
		return ""
	}
	for i := 0; i < 3; i++ {
		if u, ok := cond.(*ssa.UnOp); ok && u.Op == token.NOT {
			cond, truth = u.X, !truth
		}
	}
	if _, _, isNil := ir.NilTest(cond); isNil {
		return "a nil test"
	}
	switch x := cond.(type) {
	case *ssa.Call:
		if w.hasUserArg(x) {
			return "a comparison of the located entry with the caller's key/value"
		}
		// a bool predicate of the package over a node or the tree (`node.isEmpty()` for the hand-written
		// `len(node.Link) == 1 && node.Link[0] == nil`): accepted when every comparison in its body would be
		// accepted here — nil tests and own-length checks, no limit
		if callee := ir.Callee(x.Common()); callee != nil && callee.Pkg != nil && callee.Pkg.Pkg.Path() == ir.MastPath && callee.Parent() == nil && d < 3 {
			if bt, isB := callee.Signature.Results().At(0).Type().Underlying().(*types.Basic); callee.Signature.Results().Len() == 1 && isB && bt.Kind() == types.Bool {
				okAll, n := true, 0
				for _, b := range callee.Blocks {
					for _, ins := range b.Instrs {
						if _, isCall := ins.(ssa.CallInstruction); isCall {
							if _, isBuiltin := ins.(*ssa.Call).Call.Value.(*ssa.Builtin); !isBuiltin {
								okAll = false
							}
						}
						bin, isBin := ins.(*ssa.BinOp)
						if !isBin || !isCompare(bin.Op) {
							continue
						}
						n++
						if _, _, isNil := ir.NilTest(bin); isNil {
							continue
						}
						if _, isLen, bad := limitCompare(bin, true); isLen && !bad {
							continue
						}
						okAll = false
					}
				}
				if okAll && n > 0 {
					return "a shape predicate of the package (nil tests and own-length checks only)"
				}
			}
		}
	case *ssa.Extract:
		// `same, err := m.keyEqualsAt(node, i, key); if !same`
		if _, isCall := x.Tuple.(*ssa.Call); isCall && w.hasUserArg(x) {
			return "a comparison of the located entry with the caller's key/value"
		}
	case *ssa.Phi:
		// short-circuit value: every live operand must classify
		why := ""
		for _, e := range x.Edges {
			if _, isC := ir.ConstBool(e); isC {
				continue
			}
			k := w.classify(e, truth, d+1)
			if k == "" {
				return ""
			}
			why = k
		}
		return why
	case *ssa.BinOp:
		if !isCompare(x.Op) {
			return ""
		}
		if _, isLen, bad := limitCompare(x, true); isLen {
			if bad {
				return ""
			}
			return "a position / own-length check"
		}
		_, xc := wrStrip(x.X).(*ssa.Const)
		_, yc := wrStrip(x.Y).(*ssa.Const)
		if (yc && w.hasUserArg(x.X)) || (xc && w.hasUserArg(x.Y)) {
			return "the result of comparing the located entry with the caller's key/value"
		}
		if (x.Op == token.EQL || x.Op == token.NEQ) && bookkeeping(x.X) && bookkeeping(x.Y) && !(xc && yc) {
			return "a consistency check of the layer bookkeeping"
		}
		// `height < 1` for `height == 0`
		if bookkeeping(x.X) && bookkeeping(x.Y) && xc != yc {
			kv := x.Y
			if xc {
				kv = x.X
			}
			if k, isK := ir.ConstInt(wrStrip(kv)); isK && k >= 0 && k <= 1 {
				return "a consistency check of the layer bookkeeping"
			}
		}
	}
	return ""
}

func runWRITEREJECT(c *Ctx) {
	P := c.P
	entries := c.Entries(writeEntries...)
	if len(entries) == 0 {
		return
	}
	w := &writeReject{c: c, userParams: userValueParams(c)}
	wrCallers = P.Callers
	reach := c.Facts.Reach(entries...)
	readReach := c.Facts.Reach(c.Entries(readOnlyEntries...)...)
	lp := loadPathFuncs(c)
	isEntry := map[*ssa.Function]bool{}
	for _, e := range entries {
		isEntry[e] = true
	}
	var fns []*ssa.Function
	for fn := range reach {
		if fn.Pkg == nil || fn.Pkg.Pkg.Path() != ir.MastPath || c.Facts.debugOnlyFunc(fn) != "" {
			continue
		}
		if !isEntry[fn] && (lp[fn] || readReach[fn]) {
			continue
		}
		fns = append(fns, fn)
	}
	sort.Slice(fns, func(i, j int) bool { return ir.PosLess(fns[i].Pos(), fns[j].Pos()) })

	// limitAt: a dominating condition (or an entry guard) of b that limits a node's length / the tree's size
	limitAt := func(b *ssa.BasicBlock) string {
		if gs, open := entryGuards(b); !open {
			for _, g := range gs {
				if desc, _, bad := limitCompare(g.cond, true); bad {
					return desc
				}
			}
		}
		for i, f := range ir.FactsAt(b) {
			if desc, _, bad := limitCompare(f.Cond, i == 0); bad {
				return desc
			}
		}
		return ""
	}
	const limitWhy = "nodes are not bounded by the branch factor (or anything else) when they are written — all keys of one layer between two higher keys live in one node — and the tree's size is not bounded either, so the write path refuses trees it produced itself"

	for _, fn := range fns {
		ei := ir.ErrorResultIndex(fn.Signature)
		if ei >= 0 {
			for _, r := range ir.Returns(fn) {
				if ei >= len(r.Results) || ir.IsNilConst(r.Results[ei]) {
					continue
				}
				pos := P.InstrPos(r)
				what := "error return of " + ir.FuncName(fn)
				k := errOrigin(c, r.Results[ei], map[ssa.Value]bool{}, 0)
				if desc := limitAt(r.Block()); desc != "" {
					c.Violation(fn, pos, "write path limits the size of a node or of the tree",
						fmt.Sprintf("%s fails where %s: %s", ir.FuncName(fn), desc, limitWhy))
					continue
				}
				if k == nil {
					c.OK(pos, what, "is or wraps the error of a call, a sentinel, or the caller's own value", false)
					continue
				}
				b := k.Block()
				if b != r.Block() {
					if desc := limitAt(b); desc != "" {
						c.Violation(fn, P.InstrPos(k), "write path limits the size of a node or of the tree",
							fmt.Sprintf("%s makes up an error where %s: %s", ir.FuncName(fn), desc, limitWhy))
						continue
					}
				}
				gs, open := entryGuards(b)
				why, bad := "", open || len(gs) == 0
				for _, g := range gs {
					k := w.classify(g.cond, g.truth, 0)
					if k == "" {
						// the default arm of a switch over dynamic link types / a private classification of a link
						if acc := inventedErrorAccepted(b); strings.HasPrefix(acc, "in the default arm") {
							k = acc
						}
					}
					if k == "" {
						bad = true
						break
					}
					why = k
				}
				if !bad {
					c.OK(pos, what, "constructed under "+why, false)
					continue
				}
				msg := ""
				if len(k.Call.Args) > 0 {
					if s, ok := k.Call.Args[0].(*ssa.Const); ok && s.Value != nil {
						msg = s.Value.ExactString()
					}
				}
				c.Violation(fn, P.InstrPos(k), "write operation rejects on a condition of its own",
					fmt.Sprintf("%s makes up an error %s under a condition that is neither a failure of the store or of a callback nor one of the argument/consistency checks of the write path (nil test, default arm over link types, located entry vs. the caller's key/value, position vs. own length, layer bookkeeping): a write on a tree the writer produced must not fail on its own (%s)", ir.FuncName(fn), msg, guardDesc(b)))
			}
		}
		// panics under a limit
		for _, b := range fn.Blocks {
			if ir.IsDead(b) || !ir.PanicOnly(b) {
				continue
			}
			if desc := limitAt(b); desc != "" {
				c.Violation(fn, P.InstrPos(b.Instrs[len(b.Instrs)-1]), "write path limits the size of a node or of the tree",
					fmt.Sprintf("%s panics where %s: %s", ir.FuncName(fn), desc, limitWhy))
				continue
			}
			c.OK(P.InstrPos(b.Instrs[len(b.Instrs)-1]), "panic in "+ir.FuncName(fn), "not guarded by a limit on a node's length or the tree's size", false)
		}
	}
}

var _ = types.Typ
