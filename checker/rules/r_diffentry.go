package rules

import (
	"go/token"
	"go/types"

	"golang.org/x/tools/go/ssa"

	"mastcheck/ir"
)

// DIFFENTRY: the public diff entry points are thin: whatever the trees look like (one of them empty, equal sizes,
// the same handle twice) the answer comes from the diff engine run on a state made for this one diff. A shortcut in
// the wrapper ("an empty tree has nothing to report") silently drops one side of the result (the removed nodes and
// entries), and a recycled state carries the previous diff's notification memo into the next one.

func init() {
	Register(&Rule{ID: "DIFFENTRY", Props: []string{"C06", "C07"}, Min: 4,
		Doc: "(1) in DiffIter, DiffLinks, StartDiff and every function between them and the creation of the diff state no success return (nil error constant) is reachable without a preceding call that creates the diff state — and, in the function that drives the steps, without a preceding step (diffOne): the entry points do not answer 'no differences' on their own; " +
			"(2) every function returning a *diffState returns an object allocated by that very call, and the memo maps stored into it there are made by that call: no pooling, no package-level state; " +
			"(3) where such a function hands a tree's root (Mast.root) to a stack, the callee tests the root for being an entry-less in-memory node (isEmpty) first: the placeholder root of a tree loaded from an empty Root belongs to no version and has no name.",
		Run: runDIFFENTRY})
}

func runDIFFENTRY(c *Ctx) {
	P := c.P
	// constructors of the diff state
	var ctors []*ssa.Function
	for _, fn := range P.Funcs {
		if fn.Pkg == nil || fn.Pkg.Pkg.Path() != ir.MastPath || fn.Parent() != nil {
			continue
		}
		res := fn.Signature.Results()
		for i := 0; i < res.Len(); i++ {
			if ir.IsPtrToNamed(res.At(i).Type(), "diffState") {
				ctors = append(ctors, fn)
			}
		}
	}
	if len(ctors) == 0 {
		c.AnchorMissing("a function returning *diffState")
		return
	}
	isCtor := map[*ssa.Function]bool{}
	for _, f := range ctors {
		isCtor[f] = true
	}
	reachesCtor := func(ci ssa.CallInstruction) bool {
		for _, callee := range c.Facts.Callees(ci) {
			if isCtor[callee] {
				return true
			}
			for f := range c.Facts.Reach(callee) {
				if isCtor[f] {
					return true
				}
			}
		}
		return false
	}
	step := c.P.MastFunc("(*Mast).diffOne")
	if step == nil {
		step = roleFunc(c.P, "(*Mast).diffOne")
	}
	// (1)
	// the entry points, and every function between them and the creation of the state (the engine `diff`)
	var chainFns []*ssa.Function
	inChain := map[*ssa.Function]bool{}
	for _, name := range []string{"(*Mast).DiffIter", "(*Mast).DiffLinks", "(*Mast).StartDiff"} {
		if fn := c.MustFunc(name); fn != nil && !inChain[fn] {
			inChain[fn] = true
			chainFns = append(chainFns, fn)
		}
	}
	for qi := 0; qi < len(chainFns); qi++ {
		for _, ci := range CallsOf(chainFns[qi]) {
			if !reachesCtor(ci) {
				continue
			}
			for _, callee := range c.Facts.Callees(ci) {
				if !inChain[callee] && !isCtor[callee] && callee.Pkg != nil && callee.Pkg.Pkg.Path() == ir.MastPath && ir.ErrorResultIndex(callee.Signature) >= 0 {
					reaches := false
					for f := range c.Facts.Reach(callee) {
						if isCtor[f] {
							reaches = true
						}
					}
					if reaches {
						inChain[callee] = true
						chainFns = append(chainFns, callee)
					}
				}
			}
		}
	}
	for _, fn := range chainFns {
		name := ir.FuncName(fn)
		ei := ir.ErrorResultIndex(fn.Signature)
		var engine []ssa.CallInstruction
		for _, ci := range CallsOf(fn) {
			if reachesCtor(ci) {
				engine = append(engine, ci)
			}
		}
		// a function that drives the steps itself (the loop around diffOne) may report success only after a step
		// has run: "nothing to do" is the step function's answer (its stop sentinel), not a test of the stacks
		if step != nil {
			var steps []ssa.CallInstruction
			for _, ci := range CallsOf(fn) {
				for _, callee := range c.Facts.Callees(ci) {
					if callee == step {
						steps = append(steps, ci)
					}
				}
			}
			if len(steps) > 0 {
				engine = steps
			}
		}
		if len(engine) == 0 {
			c.Violation(fn, P.Pos(fn.Pos()), "diff entry point never starts a diff", name+" reaches no function that creates the diff state")
			continue
		}
		for _, r := range ir.Returns(fn) {
			if ei < 0 {
				continue
			}
			pos := P.InstrPos(r)
			if !ir.IsNilConst(r.Results[ei]) {
				c.OK(pos, "return of "+name, "hands back the engine's (or a constructed) error", true)
				continue
			}
			dominated := false
			for _, e := range engine {
				if ir.Before(e, r) {
					dominated = true
				}
			}
			// (1b) the loop that drives the steps ends with success for two reasons only: the step function said
			// "no more" (its stop sentinel), or a callback asked to stop. Ending it on anything else — an expired
			// context, a counter — reports a complete diff that was cut short.
			if dominated && step != nil && len(engine) > 0 && ir.Callee(engine[0].Common()) == step {
				why := ""
				for _, f := range ir.FactsAt(r.Block()) {
					if f.From == nil || !ir.InstrReaches(engine[0], f.From.Instrs[len(f.From.Instrs)-1]) {
						continue
					}
					cond := f.Cond
					// err == Sentinel / errors.Is(err, Sentinel)
					if bin, ok := cond.(*ssa.BinOp); ok && (bin.Op == token.EQL && f.Truth || bin.Op == token.NEQ && !f.Truth) {
						if isSentinel(ir.ResolveCell(bin.X)) || isSentinel(ir.ResolveCell(bin.Y)) {
							why = "the step function's stop sentinel"
						}
					}
					if call, ok := cond.(*ssa.Call); ok && f.Truth {
						if sc := ir.Callee(call.Call); sc != nil && sc.String() == "errors.Is" {
							why = "the step function's stop sentinel"
						}
					}
					// !keepGoing: result #0 of a call through a callback parameter — or of a reporting helper of the
					// repository that makes such a call (dc.report(...) (keepGoing, error))
					if ex, ok := cond.(*ssa.Extract); ok && ex.Index == 0 && !f.Truth {
						if call, ok := ex.Tuple.(*ssa.Call); ok {
							if ir.Callee(call.Call) == nil && !call.Call.IsInvoke() {
								why = "a callback's answer 'stop'"
							} else if h := ir.Callee(call.Call); h != nil && h.Blocks != nil && isOwn(P, h) && callsACallback(c, h, 0) {
								why = "a callback's answer 'stop' (handed on by " + h.Name() + ")"
							}
						}
					}
					if call, ok := cond.(*ssa.Call); ok && !f.Truth && ir.Callee(call.Call) == nil && !call.Call.IsInvoke() {
						why = "a callback's answer 'stop'"
					}
					// stop: the boolean result of a reporting helper that answers the negation of the callback's
					// keepGoing (`return !keepGoing, nil`, and true when the callback failed)
					if ex, ok := cond.(*ssa.Extract); ok && f.Truth {
						if call, ok := ex.Tuple.(*ssa.Call); ok {
							if h := ir.Callee(call.Call); h != nil && h.Blocks != nil && isOwn(P, h) && helperAnswersStop(c, h, ex.Index) {
								why = "a callback's answer 'stop' (handed on, negated, by " + h.Name() + ")"
							}
						}
					}
				}
				if why == "" {
					c.Violation(fn, pos, "diff loop ends with success for a reason of its own",
						name+" leaves the loop that drives the diff steps and reports success although neither the step function signalled the end nor a callback asked to stop (an expired context, a limit): the caller takes the truncated report for the complete difference")
					continue
				}
				c.OK(pos, "success return of "+name, "the loop ends on "+why, false)
				continue
			}
			if dominated {
				c.OK(pos, "success return of "+name, "after the diff state was created", false)
			} else {
				c.Violation(fn, pos, "diff entry point reports success without diffing",
					name+" can return nil before any diff state exists: for the inputs that take this shortcut nothing is reported at all — neither the entries/nodes only the old version has (removed) nor those only the new one has (added)")
			}
		}
	}
	// (3)
	isEmptyFn := c.MustFunc("(*mastNode).isEmpty")
	for _, fn := range ctors {
		for _, ci := range CallsOf(fn) {
			hasRoot := false
			for _, a := range ci.Common().Args {
				if _, isRoot := rootLoad(a); isRoot {
					hasRoot = true
				}
			}
			if !hasRoot || isEmptyFn == nil {
				continue
			}
			guarded := false
			for _, callee := range c.Facts.Callees(ci) {
				if callee == isEmptyFn || c.Facts.Reach(callee)[isEmptyFn] {
					guarded = true
				}
			}
			// or the call itself sits under a test of the root in the constructor
			for _, f := range ir.FactsAt(ci.Block()) {
				if call, ok := f.Cond.(*ssa.Call); ok && ir.Callee(call.Call) == isEmptyFn && !f.Truth {
					guarded = true
				}
			}
			if guarded {
				c.OK(P.InstrPos(ci), "root handed to the diff in "+ir.FuncName(fn), "through a test for the entry-less placeholder root", false)
			} else {
				c.Violation(fn, P.InstrPos(ci), "a tree's root is pushed without excluding the entry-less placeholder",
					"a tree loaded from an empty Root has an in-memory entry-less node as its root; pushed like a link it is reported to the link callback as added or removed — an object, not a name, and twice for empty against empty")
			}
		}
	}
	// (2)
	for _, fn := range ctors {
		for _, r := range ir.Returns(fn) {
			for i, v := range r.Results {
				if !ir.IsPtrToNamed(v.Type(), "diffState") {
					continue
				}
				_ = i
				a, isAlloc := ir.Strip(v).(*ssa.Alloc)
				pos := P.InstrPos(r)
				if !isAlloc {
					c.Violation(fn, pos, "diff state is not allocated by the call that returns it",
						"the state handed to a diff comes from elsewhere (a pool, a package variable, a cached object): what an earlier diff recorded — its stacks, its notification memo of links already reported — leaks into this one, which then omits nodes it believes were reported")
					continue
				}
				okMaps := true
				if a.Referrers() != nil {
					for _, ref := range *a.Referrers() {
						fa, isFA := ref.(*ssa.FieldAddr)
						if !isFA || fa.Referrers() == nil {
							continue
						}
						if _, isMap := fa.Type().(*types.Pointer).Elem().Underlying().(*types.Map); !isMap {
							continue
						}
						for _, r2 := range *fa.Referrers() {
							if st, isSt := r2.(*ssa.Store); isSt && st.Addr == ssa.Value(fa) {
								if _, fresh := ir.Strip(st.Val).(*ssa.MakeMap); !fresh {
									okMaps = false
								}
							}
						}
					}
				}
				if okMaps {
					c.OK(pos, "diff state returned by "+ir.FuncName(fn), "allocated here, memo maps made here", false)
				} else {
					c.Violation(fn, pos, "diff state memo is not made by the call that returns it", "a notification memo shared between diffs makes a later diff omit nodes an earlier one reported")
				}
			}
		}
	}
}

// callsACallback: h (or a repository function it calls, two levels down) calls through a function value.
// helperAnswersStop: result idx of helper h is true exactly when a callback it calls answered keepGoing==false, or
// (a constant) where h stops on its own account after that call: the callback's boolean result reaches the returns
// of h only negated (cbpHandsOn).
func helperAnswersStop(c *Ctx, h *ssa.Function, idx int) bool {
	if idx >= h.Signature.Results().Len() || !sdIsBool(h.Signature.Results().At(idx).Type()) || !onlyCalledStatically(c, h) {
		return false
	}
	for _, ci := range CallsOf(h) {
		call, isCall := ci.(*ssa.Call)
		if !isCall || call.Call.IsInvoke() || ir.Callee(call.Call) != nil {
			continue
		}
		if _, isB := call.Call.Value.(*ssa.Builtin); isB {
			continue
		}
		if keep, _ := cbResults(call); keep != nil {
			if upStop, _, ok := cbpHandsOn(h, call, keep, false); ok && upStop {
				return true
			}
		}
	}
	return false
}

func callsACallback(c *Ctx, h *ssa.Function, d int) bool {
	if h == nil || h.Blocks == nil || d > 2 {
		return false
	}
	for _, ci := range CallsOf(h) {
		com := ci.Common()
		if com.IsInvoke() {
			continue
		}
		if _, isB := com.Value.(*ssa.Builtin); isB {
			continue
		}
		g := ir.Callee(com)
		if g == nil {
			return true
		}
		if isOwn(c.P, g) && callsACallback(c, g, d+1) {
			return true
		}
	}
	return false
}
