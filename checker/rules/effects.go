package rules

import (
	"fmt"
	"sort"

	"golang.org/x/tools/go/ssa"

	"mastcheck/ir"
)

// Effect is an instruction with a tree-visible effect: a store to a field of
// a Mast that is not a local of the function, a write to a node that is not
// Fresh (ToMut returns the live node when it is already unshared), or a call
// that does one of these.
type Effect struct {
	Instr ssa.Instruction
	Desc  string
	Kinds []string // what is changed: "node", "Mast.root", "Mast.size", … (for calls: everything the callee may change)
}

type effectInfo struct {
	direct map[*ssa.Function][]Effect
	trans  map[*ssa.Function]string // why the function is effectful ("" = pure)
	kinds  map[*ssa.Function]map[string]bool
}

func (F *Facts) effectsInfo() *effectInfo {
	if F.eff != nil {
		return F.eff
	}
	A := F.Own()
	E := &effectInfo{direct: map[*ssa.Function][]Effect{}, trans: map[*ssa.Function]string{}, kinds: map[*ssa.Function]map[string]bool{}}
	F.eff = E
	P := F.P
	// Mast field stores
	for _, fn := range P.Funcs {
		for _, b := range fn.Blocks {
			for _, ins := range b.Instrs {
				st, ok := ins.(*ssa.Store)
				if !ok {
					continue
				}
				fa, ok := st.Addr.(*ssa.FieldAddr)
				if !ok || !ir.IsPtrToNamed(fa.X.Type(), "Mast") {
					continue
				}
				if _, local := ir.ResolveCell(fa.X).(*ssa.Alloc); local {
					continue
				}
				E.direct[fn] = append(E.direct[fn], Effect{ins, "store to Mast." + ir.FieldName(fa.X.Type(), fa.Field), []string{"Mast." + ir.FieldName(fa.X.Type(), fa.Field)}})
			}
		}
	}
	// node writes through non-fresh nodes
	for _, w := range A.Writes {
		if ir.DeadByConst(w.Instr.Block()) {
			continue
		}
		switch w.Class.Own {
		case Unshared, Unknown:
			E.direct[w.Fn] = append(E.direct[w.Fn], Effect{w.Instr, fmt.Sprintf("%s write to .%s of a live node (%s)", w.Kind, w.Field, w.Class.Why), []string{"node"}})
		}
	}
	// calls handing a non-fresh node to a callee that writes its parameter
	for fn, m := range A.Reqs {
		for idx := range m {
			for _, cs := range A.rcallers[fn] {
				args := cs.Common().Args
				if idx >= len(args) {
					continue
				}
				cl := A.Classify(args[idx], cs)
				if cl.Own == Unshared || cl.Own == Unknown {
					caller := cs.Parent()
					E.direct[caller] = append(E.direct[caller], Effect{cs, fmt.Sprintf("call %s, which writes the live node it is given (%s)", fn.Name(), cl.Why), []string{"node"}})
				}
			}
		}
	}
	for fn := range E.direct {
		sort.Slice(E.direct[fn], func(i, j int) bool { return ir.PosLess(E.direct[fn][i].Instr.Pos(), E.direct[fn][j].Instr.Pos()) })
		E.trans[fn] = E.direct[fn][0].Desc
		E.kinds[fn] = map[string]bool{}
		for _, e := range E.direct[fn] {
			for _, k := range e.Kinds {
				E.kinds[fn][k] = true
			}
		}
	}
	for changed := true; changed; {
		changed = false
		for _, fn := range P.Funcs {
			if E.trans[fn] != "" {
				continue
			}
			for _, ci := range CallsOf(fn) {
				for _, c := range F.Callees(ci) {
					if E.trans[c] != "" && E.trans[fn] == "" {
						E.trans[fn] = "via " + c.Name() + ": " + E.trans[c]
						changed = true
					}
				}
			}
		}
	}
	for changed := true; changed; {
		changed = false
		for _, fn := range P.Funcs {
			for _, ci := range CallsOf(fn) {
				for _, c := range F.Callees(ci) {
					for k := range E.kinds[c] {
						if E.kinds[fn] == nil {
							E.kinds[fn] = map[string]bool{}
						}
						if !E.kinds[fn][k] {
							E.kinds[fn][k] = true
							changed = true
						}
					}
				}
			}
		}
	}
	return E
}

// EffectsIn lists the effect instructions of fn: direct ones and calls of
// effectful callees, in source order.
func (F *Facts) EffectsIn(fn *ssa.Function) []Effect {
	E := F.effectsInfo()
	out := append([]Effect(nil), E.direct[fn]...)
	for _, ci := range CallsOf(fn) {
		for _, c := range F.Callees(ci) {
			if why := E.trans[c]; why != "" {
				var ks []string
				for k := range E.kinds[c] {
					ks = append(ks, k)
				}
				sort.Strings(ks)
				out = append(out, Effect{ci, "call " + c.Name() + " [" + why + "]", ks})
				break
			}
		}
	}
	sort.SliceStable(out, func(i, j int) bool { return ir.PosLess(out[i].Instr.Pos(), out[j].Instr.Pos()) })
	return out
}

// Effectful reports whether fn (transitively) has a tree-visible effect.
func (F *Facts) Effectful(fn *ssa.Function) (bool, string) {
	w := F.effectsInfo().trans[fn]
	return w != "", w
}
