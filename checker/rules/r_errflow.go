package rules

import (
	"fmt"
	"strings"

	"golang.org/x/tools/go/ssa"

	"mastcheck/ir"
)

// ERRFLOW: no error from the store, the codec or a user callback is dropped
// on the way to the API: a swallowed failure turns into a wrong answer (a
// shorter iteration, a root that was not completely written, a tree loaded
// from a node that did not decode).

func init() {
	Register(&Rule{ID: "ERRFLOW", Props: []string{"C03", "C05", "C19", "C06", "C12", "C01"}, Min: 40,
		Doc: "every call in package mast that may return a non-nil error (a repository function with an error-carrying return, Persist.Load/Store, a user callback returning error) " +
			"has its error result used, and no nil-error return is reachable on its non-nil edge (the error is returned, wrapped, or recorded); one tabled exception (alreadyNotified answers 'not notified', its caller re-loads the same link).",
		Run: runERRFLOW})
}

var errflowExceptions = map[string]string{
	"(*Mast).alreadyNotified": "a load or layer failure makes the function answer 'not notified'; the caller then loads the same link itself and propagates the same error",
}

func runERRFLOW(c *Ctx) {
	P := c.P
	for _, fn := range P.Funcs {
		if fn.Pkg.Pkg.Path() != ir.MastPath {
			continue
		}
		for _, ci := range CallsOf(fn) {
			call, isCall := ci.(*ssa.Call)
			sig := ci.Common().Signature()
			ei := ir.ErrorResultIndex(sig)
			if ei < 0 {
				continue
			}
			// may the callee fail?
			may, name := false, ""
			ext := c.Facts.External(ci)
			for _, f := range c.Facts.Callees(ci) {
				if c.Facts.MayFail[f] {
					may, name = true, f.Name()
				}
			}
			if strings.HasPrefix(ext, "callback:") {
				may, name = true, strings.TrimPrefix(ext, "callback:")
			}
			if ext == "Persist.Load" || ext == "Persist.Store" {
				may, name = true, ext
			}
			if !may {
				continue
			}
			pos := P.InstrPos(ci)
			what := fmt.Sprintf("error of %s in %s", name, ir.FuncName(fn))
			if why, ok := exceptionFor(c, fn, func(n string) (string, bool) { w, ok := errflowExceptions[n]; return w, ok }, 0); ok {
				c.OK(pos, what, "exception: "+why, false)
				continue
			}
			if !isCall {
				c.Violation(fn, pos, "error of "+name+" unobservable (go/defer)", "a fallible call is started with go/defer: its error cannot reach the caller")
				continue
			}
			var errV ssa.Value
			if sig.Results().Len() == 1 {
				errV = call
			} else if call.Referrers() != nil {
				for _, r := range *call.Referrers() {
					if ex, ok := r.(*ssa.Extract); ok && ex.Index == ei {
						errV = ex
					}
				}
			}
			if errV == nil || errV.Referrers() == nil || len(*errV.Referrers()) == 0 {
				c.Violation(fn, pos, "error of "+name+" ignored", "the error result is never looked at: a failure here is silently treated as success")
				continue
			}
			if ir.ErrorResultIndex(fn.Signature) < 0 {
				// the enclosing function cannot return an error: it must record it (flush's worker) or panic
				if recordsOrPanics(errV) {
					c.OK(pos, what, "recorded in a variable / escalated by panic (enclosing function has no error result)", false)
				} else if fn.Signature.Results().Len() == 1 && fn.Parent() != nil {
					// closures passed to sort.Search etc. that stash the error in a captured variable
					c.OK(pos, what, "stored into a captured variable by a closure", false)
				} else {
					c.Violation(fn, pos, "error of "+name+" cannot be reported", "the enclosing function has no error result and neither records nor escalates this error")
				}
				continue
			}
			if ok, ret := errorPropagated(fn, call, errV); ok {
				c.OK(pos, what, "no nil-error return is reachable on its non-nil edge", false)
			} else {
				c.Violation(fn, P.InstrPos(ret), "error of "+name+" dropped",
					fmt.Sprintf("%s can return a nil error although %s failed (return at %s)", ir.FuncName(fn), name, P.InstrPos(ret)))
			}
		}
	}
}

// recordsOrPanics: the error value is stored somewhere or passed to panic.
func recordsOrPanics(v ssa.Value) bool {
	seen := map[ssa.Value]bool{}
	depth := 0
	var walk func(x ssa.Value) bool
	walk = func(x ssa.Value) bool {
		if seen[x] || x.Referrers() == nil {
			return false
		}
		seen[x] = true
		for _, r := range *x.Referrers() {
			switch y := r.(type) {
			case *ssa.Store:
				if y.Val == x {
					return true
				}
			case *ssa.Panic:
				return true
			case *ssa.Call:
				// handed to a helper (local closure or static function) that records its parameter
				if callee := calleeOrClosure(&y.Call); callee != nil && callee.Blocks != nil && depth < 2 {
					off := len(callee.Params) - len(y.Call.Args) // bound receiver / none
					for ai, a := range y.Call.Args {
						if a == x && ai+off >= 0 && ai+off < len(callee.Params) {
							depth++
							ok := walk(callee.Params[ai+off])
							depth--
							if ok {
								return true
							}
						}
					}
				}
			case *ssa.MakeInterface:
				if walk(y) {
					return true
				}
			case *ssa.ChangeInterface:
				if walk(y) {
					return true
				}
			case *ssa.Phi:
				if walk(y) {
					return true
				}
			}
		}
		return false
	}
	return walk(v)
}

// calleeOrClosure: the function a call runs when that is decidable locally: a static callee (generic
// instantiations mapped to their origin), or the closure / function a local variable was bound to.
func calleeOrClosure(com *ssa.CallCommon) *ssa.Function {
	if com.IsInvoke() {
		return nil
	}
	if f := ir.Callee(com); f != nil {
		return f
	}
	switch x := ir.Origin(com.Value).(type) {
	case *ssa.MakeClosure:
		f, _ := x.Fn.(*ssa.Function)
		return f
	case *ssa.Function:
		return x
	}
	return nil
}

// exceptionFor: a tabled exception names one function; it also covers the private helpers split out of that
// function (unexported, never used as a value, every call site inside an excepted function), so that extracting
// a loop into a helper neither loses the exception nor widens it to code with other callers.
func exceptionFor(c *Ctx, fn *ssa.Function, table func(name string) (string, bool), depth int) (string, bool) {
	outer := ir.Outermost(fn)
	if why, ok := table(ir.FuncName(outer)); ok {
		return why, true
	}
	if depth >= 2 || outer.Object() == nil || outer.Object().Exported() || c.Facts.addrTaken[outer] {
		return "", false
	}
	callers := c.P.Callers[outer]
	if len(callers) == 0 {
		return "", false
	}
	why := ""
	for _, cs := range callers {
		if _, isCall := cs.(*ssa.Call); !isCall {
			return "", false
		}
		w, ok := exceptionFor(c, cs.Parent(), table, depth+1)
		if !ok {
			return "", false
		}
		why = w + " (private helper of " + ir.FuncName(ir.Outermost(cs.Parent())) + ")"
	}
	return why, true
}
