package rules

import (
	"fmt"
	"go/token"
	"strings"

	"golang.org/x/tools/go/ssa"

	"mastcheck/ir"
)

// ERRFLOW: no error from the store, the codec or a user callback is dropped
// on the way to the API: a swallowed failure turns into a wrong answer (a
// shorter iteration, a root that was not completely written, a tree loaded
// from a node that did not decode).

func init() {
	Register(&Rule{ID: "ERRFLOW", Props: []string{"C03", "C05", "C19", "C06", "C12", "C01", "C07", "C10", "C09"}, Min: 40,
		Doc: "every call in package mast that may return a non-nil error (a repository function with an error-carrying return, Persist.Load/Store, a user callback returning error) " +
			"has its error result used, and no nil-error return is reachable on its non-nil edge (the error is returned, wrapped, or recorded); an error stashed by a closure in a captured variable (the predicate of sort.Search) must be looked at after the call that ran the closure; one tabled exception (the assertion validateNode, which has no error result).",
		Run: runERRFLOW})
}

var errflowExceptions = map[string]string{
	"validateNode": "an internal assertion with no error result: when the comparison callback fails it asserts nothing about the order and returns; the operation's own comparisons report a failing callback (before repair f69a777 it panicked with the callback's error)",
}

func runERRFLOW(c *Ctx) {
	P := c.P
	for _, fn := range P.Funcs {
		if fn.Pkg.Pkg.Path() != ir.MastPath {
			continue
		}
		for _, ci := range CallsOf(fn) {
			call, isCall := ci.(*ssa.Call)
			sig := ci.Common().Signature()
			ei := ir.ErrorResultIndex(sig)
			if ei < 0 {
				continue
			}
			// may the callee fail?
			may, name := false, ""
			ext := c.Facts.External(ci)
			for _, f := range c.Facts.Callees(ci) {
				if c.Facts.MayFail[f] && !isErrorAccessor(c, f) {
					may, name = true, f.Name()
				}
			}
			if strings.HasPrefix(ext, "callback:") {
				may, name = true, strings.TrimPrefix(ext, "callback:")
			}
			if ext == "Persist.Load" || ext == "Persist.Store" {
				may, name = true, ext
			}
			if !may {
				continue
			}
			pos := P.InstrPos(ci)
			what := fmt.Sprintf("error of %s in %s", name, ir.FuncName(fn))
			if why, ok := exceptionFor(c, fn, func(n string) (string, bool) { w, ok := errflowExceptions[n]; return w, ok }, 0); ok {
				// the exception lets the function drop the error, not act on what came back with it
				if isCall && !valuesUsedOnlyUnderNilErr(call, ei) {
					c.Violation(fn, pos, "result of "+name+" used although its error was not checked",
						"the value returned together with the error is used (compared, branched on) where the error may be non-nil: a failing "+name+" hands back a zero value, and acting on it — here: panicking because the keys look out of order — turns the callback's failure into a crash")
					continue
				}
				c.OK(pos, what, "exception: "+why, false)
				continue
			}
			if !isCall {
				c.Violation(fn, pos, "error of "+name+" unobservable (go/defer)", "a fallible call is started with go/defer: its error cannot reach the caller")
				continue
			}
			var errV ssa.Value
			if sig.Results().Len() == 1 {
				errV = call
			} else if call.Referrers() != nil {
				for _, r := range *call.Referrers() {
					if ex, ok := r.(*ssa.Extract); ok && ex.Index == ei {
						errV = ex
					}
				}
			}
			if errV == nil || errV.Referrers() == nil || len(*errV.Referrers()) == 0 {
				c.Violation(fn, pos, "error of "+name+" ignored", "the error result is never looked at: a failure here is silently treated as success")
				continue
			}
			if ir.ErrorResultIndex(fn.Signature) < 0 {
				// the enclosing function cannot return an error: it must record it (flush's worker) or panic
				if fn.Parent() != nil && closureIsArgument(fn) {
					// closures passed to sort.Search etc. that stash the error in a captured variable: the enclosing
					// function must look at that variable after the call that ran the closure
					if at, ok := stashChecked(fn, errV); ok {
						c.OK(pos, what, "stored into a captured variable by a closure; the enclosing function tests it afterwards ("+P.InstrPos(at)+")", false)
					} else {
						c.Violation(fn, pos, "error of "+name+" stashed by a closure and never looked at",
							"the closure records the callback's error in a variable of the enclosing function, which goes on without testing it after the call that ran the closure: the search ends at a wrong position and the operation continues there (an Insert puts the key out of order) instead of reporting the failure")
					}
				} else if recordsOrPanics(errV) {
					c.OK(pos, what, "recorded in a variable / escalated by panic (enclosing function has no error result)", false)
				} else {
					c.Violation(fn, pos, "error of "+name+" cannot be reported", "the enclosing function has no error result and neither records nor escalates this error")
				}
				continue
			}
			if ok, ret := errorPropagated(fn, call, errV); ok {
				c.OK(pos, what, "no nil-error return is reachable on its non-nil edge", false)
			} else if overwrittenAt != nil {
				c.Violation(fn, pos, "error of "+name+" dropped",
					fmt.Sprintf("%s can go round its loop and call %s again while the error of the previous call is still pending: that error is overwritten and never reported", ir.FuncName(fn), name))
			} else {
				c.Violation(fn, P.InstrPos(ret), "error of "+name+" dropped",
					fmt.Sprintf("%s can return a nil error although %s failed (return at %s)", ir.FuncName(fn), name, P.InstrPos(ret)))
			}
		}
	}
}

// recordsOrPanics: the error value is stored somewhere or passed to panic.
func recordsOrPanics(v ssa.Value) bool {
	seen := map[ssa.Value]bool{}
	depth := 0
	var walk func(x ssa.Value) bool
	walk = func(x ssa.Value) bool {
		if seen[x] || x.Referrers() == nil {
			return false
		}
		seen[x] = true
		for _, r := range *x.Referrers() {
			switch y := r.(type) {
			case *ssa.Store:
				if y.Val == x {
					return true
				}
			case *ssa.Panic:
				return true
			case *ssa.Call:
				// handed to a helper (local closure or static function) that records its parameter
				if callee := calleeOrClosure(&y.Call); callee != nil && callee.Blocks != nil && depth < 2 {
					off := len(callee.Params) - len(y.Call.Args) // bound receiver / none
					for ai, a := range y.Call.Args {
						if a == x && ai+off >= 0 && ai+off < len(callee.Params) {
							depth++
							ok := walk(callee.Params[ai+off])
							depth--
							if ok {
								return true
							}
						}
					}
				}
			case *ssa.MakeInterface:
				if walk(y) {
					return true
				}
			case *ssa.ChangeInterface:
				if walk(y) {
					return true
				}
			case *ssa.Phi:
				if walk(y) {
					return true
				}
			}
		}
		return false
	}
	return walk(v)
}

// calleeOrClosure: the function a call runs when that is decidable locally: a static callee (generic
// instantiations mapped to their origin), or the closure / function a local variable was bound to.
func calleeOrClosure(com *ssa.CallCommon) *ssa.Function {
	if com.IsInvoke() {
		return nil
	}
	if f := ir.Callee(com); f != nil {
		return f
	}
	switch x := ir.Origin(com.Value).(type) {
	case *ssa.MakeClosure:
		f, _ := x.Fn.(*ssa.Function)
		return f
	case *ssa.Function:
		return x
	}
	return nil
}

// exceptionFor: a tabled exception names one function; it also covers the private helpers split out of that
// function (unexported, never used as a value, every call site inside an excepted function), so that extracting
// a loop into a helper neither loses the exception nor widens it to code with other callers.
func exceptionFor(c *Ctx, fn *ssa.Function, table func(name string) (string, bool), depth int) (string, bool) {
	outer := ir.Outermost(fn)
	if why, ok := table(ir.FuncName(outer)); ok {
		return why, true
	}
	if depth >= 2 || outer.Object() == nil || outer.Object().Exported() || c.Facts.addrTaken[outer] {
		return "", false
	}
	callers := c.P.Callers[outer]
	if len(callers) == 0 {
		return "", false
	}
	why := ""
	for _, cs := range callers {
		if _, isCall := cs.(*ssa.Call); !isCall {
			return "", false
		}
		w, ok := exceptionFor(c, cs.Parent(), table, depth+1)
		if !ok {
			return "", false
		}
		why = w + " (private helper of " + ir.FuncName(ir.Outermost(cs.Parent())) + ")"
	}
	return why, true
}

// stashChecked: errV, an error produced inside closure fn, is stored into a variable captured from the enclosing
// function; that function passes the closure to a call and, after that call, tests the variable for nil on every
// path before it returns success (a nil-error return is not reachable from the call without crossing the nil edge
// of such a test).
func stashChecked(fn *ssa.Function, errV ssa.Value) (ssa.Instruction, bool) {
	parent := fn.Parent()
	if parent == nil {
		return nil, false
	}
	// the captured cell(s) the error may be stored into (directly or after wrapping)
	cells := map[ssa.Value]bool{}
	var mark func(v ssa.Value, d int)
	seen := map[ssa.Value]bool{}
	mark = func(v ssa.Value, d int) {
		if d > 4 || seen[v] || v.Referrers() == nil {
			return
		}
		seen[v] = true
		for _, r := range *v.Referrers() {
			switch x := r.(type) {
			case *ssa.Store:
				if x.Val == v {
					if fv, ok := x.Addr.(*ssa.FreeVar); ok {
						cells[bindingOf(fv)] = true
					}
				}
			case *ssa.Phi:
				mark(x, d+1)
			case *ssa.MakeInterface:
				mark(x, d+1)
			case *ssa.ChangeInterface:
				mark(x, d+1)
			case ssa.CallInstruction:
				// fmt.Errorf("...%w", err): the wrapped error carries it on
				if cv := x.Value(); cv != nil {
					mark(cv, d+1)
				}
			case *ssa.Slice, *ssa.IndexAddr:
			}
		}
	}
	mark(errV, 0)
	// the error also reaches the variable through the varargs slice of fmt.Errorf: follow stores into local arrays
	for _, b := range fn.Blocks {
		for _, ins := range b.Instrs {
			if st, ok := ins.(*ssa.Store); ok {
				if fv, ok := st.Addr.(*ssa.FreeVar); ok && ir.IsErrorType(st.Val.Type()) {
					// any error stored into a captured error variable by this closure counts: the closure's failure paths
					// all funnel into that variable
					cells[bindingOf(fv)] = true
				}
			}
		}
	}
	if len(cells) == 0 {
		return nil, false
	}
	// the stash is sticky: the closure may run many times (once per probe of the search), so a later successful call
	// must not overwrite a recorded failure — every store into the variable is either a constructed (non-nil) error or
	// happens where the variable is known to be nil still
	for _, b := range fn.Blocks {
		for _, ins := range b.Instrs {
			st, ok := ins.(*ssa.Store)
			if !ok {
				continue
			}
			fv, ok := st.Addr.(*ssa.FreeVar)
			if !ok || !cells[bindingOf(fv)] {
				continue
			}
			if call, isCall := st.Val.(*ssa.Call); isCall {
				if sc := ir.Callee(call.Call); sc != nil && (sc.String() == "fmt.Errorf" || sc.String() == "errors.New") {
					continue
				}
			}
			stillNil := ir.FlowFact(st, func(fc ir.Fact) bool {
				tv, tnn, isNil := ir.NilTest(fc.Cond)
				if !isNil || fc.Truth == tnn {
					return false
				}
				ld, isLd := tv.(*ssa.UnOp)
				return isLd && ld.Op == token.MUL && ld.X == ssa.Value(fv)
			}, func(i ssa.Instruction) bool {
				o, isSt := i.(*ssa.Store)
				return isSt && o != st && o.Addr == ssa.Value(fv)
			})
			if !stillNil {
				return nil, false
			}
		}
	}
	// the call in the parent that is handed the closure
	var runs []ssa.CallInstruction
	for _, b := range parent.Blocks {
		for _, ins := range b.Instrs {
			ci, ok := ins.(ssa.CallInstruction)
			if !ok {
				continue
			}
			for _, a := range ci.Common().Args {
				if mc, ok := a.(*ssa.MakeClosure); ok && mc.Fn == ssa.Value(fn) {
					runs = append(runs, ci)
				}
			}
		}
	}
	if len(runs) == 0 {
		return nil, false
	}
	pei := ir.ErrorResultIndex(parent.Signature)
	if pei < 0 {
		return nil, false
	}
	var testAt ssa.Instruction
	for _, run := range runs {
		// search from the call: do not cross the nil edge of a test of a load of the cell; a success return reached
		// otherwise means the variable was not looked at
		seenB := map[*ssa.BasicBlock]bool{}
		bad := false
		var visit func(b *ssa.BasicBlock, from int)
		visit = func(b *ssa.BasicBlock, from int) {
			if bad {
				return
			}
			if from == 0 {
				if seenB[b] {
					return
				}
				seenB[b] = true
			}
			for i := from; i < len(b.Instrs); i++ {
				switch x := b.Instrs[i].(type) {
				case *ssa.Return:
					if ir.IsNilConst(ir.ForwardLoad(x.Results[pei])) {
						bad = true
					}
					return
				case *ssa.Panic:
					return
				case *ssa.If:
					if tv, tnn, ok := ir.NilTest(x.Cond); ok {
						if ld, isLd := tv.(*ssa.UnOp); isLd && ld.Op == token.MUL && cells[ld.X] {
							testAt = x
							// only the non-nil edge continues the "error is pending" search
							if tnn {
								visit(b.Succs[0], 0)
							} else {
								visit(b.Succs[1], 0)
							}
							return
						}
					}
				}
			}
			for _, s := range b.Succs {
				visit(s, 0)
			}
		}
		blk := run.Block()
		idx := 0
		for i, ins := range blk.Instrs {
			if ins == ssa.Instruction(run) {
				idx = i + 1
			}
		}
		visit(blk, idx)
		if bad {
			return nil, false
		}
	}
	return testAt, testAt != nil
}

// closureIsArgument: the anonymous function is handed to a call of its enclosing function (a predicate run
// synchronously by that call), as opposed to being started with go/defer or called in place.
func closureIsArgument(fn *ssa.Function) bool {
	parent := fn.Parent()
	if parent == nil {
		return false
	}
	for _, b := range parent.Blocks {
		for _, ins := range b.Instrs {
			if ci, ok := ins.(*ssa.Call); ok {
				for _, a := range ci.Call.Args {
					if mc, ok := a.(*ssa.MakeClosure); ok && mc.Fn == ssa.Value(fn) {
						return true
					}
				}
			}
		}
	}
	return false
}

// valuesUsedOnlyUnderNilErr: every use of a non-error result of the call sits where the call's error result is known
// to be nil (a dominating test, or a must-dataflow of such tests).
func valuesUsedOnlyUnderNilErr(call *ssa.Call, ei int) bool {
	if call.Referrers() == nil {
		return true
	}
	var errV ssa.Value
	var vals []*ssa.Extract
	for _, r := range *call.Referrers() {
		if ex, ok := r.(*ssa.Extract); ok {
			if ex.Index == ei {
				errV = ex
			} else {
				vals = append(vals, ex)
			}
		}
	}
	for _, v := range vals {
		if v.Referrers() == nil {
			continue
		}
		for _, u := range *v.Referrers() {
			if _, isDbg := u.(*ssa.DebugRef); isDbg {
				continue
			}
			if errV == nil {
				return false
			}
			if nilFactOn(u.Block(), errV, true) || errNilByFlow(u, errV) {
				continue
			}
			// a φ merging the value is a use at the end of the predecessor: accept if every later real use is checked
			if phi, isPhi := u.(*ssa.Phi); isPhi && phi.Referrers() != nil {
				okPhi := true
				for _, u2 := range *phi.Referrers() {
					if _, isDbg := u2.(*ssa.DebugRef); isDbg {
						continue
					}
					if !(nilFactOn(u2.Block(), errV, true) || errNilByFlow(u2, errV)) {
						okPhi = false
					}
				}
				if okPhi {
					continue
				}
			}
			return false
		}
	}
	return true
}

// isErrorAccessor: f only reads an error somebody recorded earlier — every error it returns is a load of an
// error-typed field, captured variable or package variable, and it calls nothing that can fail itself. Calling
// it does not produce a failure, so its call sites carry no reporting obligation of their own: the obligation
// sits on the store that recorded the error (flush's first-error cell: BARRIER, ROOTSWAP).
func isErrorAccessor(c *Ctx, f *ssa.Function) bool {
	ei := ir.ErrorResultIndex(f.Signature)
	if ei < 0 || f.Blocks == nil {
		return false
	}
	for _, ci := range CallsOf(f) {
		if ext := c.Facts.External(ci); strings.HasPrefix(ext, "callback:") || strings.HasPrefix(ext, "Persist.") {
			return false
		}
		for _, g := range c.Facts.Callees(ci) {
			if c.Facts.MayFail[g] {
				return false
			}
		}
	}
	n := 0
	for _, r := range ir.Returns(f) {
		if ei >= len(r.Results) {
			return false
		}
		v := ir.ResolveCell(r.Results[ei]) // (a deferred Unlock spills the result)
		if ir.IsNilConst(v) {
			continue
		}
		ld, ok := v.(*ssa.UnOp)
		if !ok || ld.Op != token.MUL {
			return false
		}
		switch a := ld.X.(type) {
		case *ssa.FieldAddr, *ssa.FreeVar, *ssa.Global:
			_ = a
		default:
			return false
		}
		n++
	}
	return n > 0
}
