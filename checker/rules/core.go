// Package rules holds the repository-specific rules of mastcheck. Each rule
// enumerates its obligations from the current SSA/AST of jrhy/mast, decides
// each one, and reports the construct that violates it.
package rules

import (
	"fmt"
	"os"
	"runtime/debug"
	"sort"
	"strings"

	"golang.org/x/tools/go/ssa"

	"mastcheck/ir"
)

// Finding is one violated (or undecidable) obligation.
type Finding struct {
	Rule      string   `json:"rule"`
	Key       string   `json:"key"` // rule|function|construct — never a line number
	Pos       string   `json:"pos"`
	Func      string   `json:"func"`
	Msg       string   `json:"msg"`
	Props     []string `json:"properties"`
	Undecided bool     `json:"undecided,omitempty"`
	Witness   []string `json:"witness,omitempty"`
	Config    string   `json:"config,omitempty"`
}

// Obligation is one thing a rule examined.
type Obligation struct {
	Rule    string `json:"rule"`
	What    string `json:"what"`
	Pos     string `json:"pos"`
	Verdict string `json:"verdict"` // ok | VIOLATION | undecided | note
	Trivial bool   `json:"-"`
	Why     string `json:"why,omitempty"`
}

// Rule is a registered rule.
type Rule struct {
	ID    string
	Props []string // properties that own the rule
	Doc   string
	// Min is the least number of obligations the rule must examine on the
	// real repository (vacuity guard); 0 for rules whose subject may be
	// legitimately absent.
	Min int
	Run func(c *Ctx)
}

// Ctx is handed to a rule.
type Ctx struct {
	P        *ir.Program
	Rule     *Rule
	Findings []Finding
	Obls     []Obligation
	Notes    []string
	Facts    *Facts
}

var registry []*Rule

// Register adds a rule.
func Register(r *Rule) {
	if drop := dropProps[r.ID]; len(drop) > 0 {
		var keep []string
		for _, p := range r.Props {
			if !hasProp(drop, p) {
				keep = append(keep, p)
			}
		}
		r.Props = keep
	}
	for _, p := range extraProps[r.ID] {
		if !hasProp(r.Props, p) {
			r.Props = append(r.Props, p)
		}
	}
	registry = append(registry, r)
}

// All returns all rules sorted by id.
func All() []*Rule {
	out := append([]*Rule(nil), registry...)
	sort.Slice(out, func(i, j int) bool { return out[i].ID < out[j].ID })
	return out
}

// ForProperty returns the rules owned by property p.
func ForProperty(p string) []*Rule {
	var out []*Rule
	for _, r := range All() {
		for _, q := range r.Props {
			if q == p {
				out = append(out, r)
			}
		}
	}
	return out
}

// ByID finds a rule.
func ByID(id string) *Rule {
	for _, r := range registry {
		if r.ID == id {
			return r
		}
	}
	return nil
}

// OK records a discharged obligation.
func (c *Ctx) OK(pos, what, why string, trivial bool) {
	c.Obls = append(c.Obls, Obligation{Rule: c.Rule.ID, What: what, Pos: pos, Verdict: "ok", Why: why, Trivial: trivial})
}

// Note records an observation that is neither an obligation nor a finding.
func (c *Ctx) Note(format string, a ...interface{}) {
	c.Notes = append(c.Notes, c.Rule.ID+": "+fmt.Sprintf(format, a...))
}

// Violation records a violated obligation. key must identify the construct
// without line numbers.
func (c *Ctx) Violation(fn *ssa.Function, pos, construct, msg string, witness ...string) *Finding {
	return c.report(fn, pos, construct, msg, false, witness)
}

// Undecided records an obligation the rule could not classify: it fails the
// check (a rule never guesses "ok").
func (c *Ctx) Undecided(fn *ssa.Function, pos, construct, msg string, witness ...string) *Finding {
	return c.report(fn, pos, construct, msg, true, witness)
}

func (c *Ctx) report(fn *ssa.Function, pos, construct, msg string, und bool, witness []string) *Finding {
	fname := "-"
	if fn != nil {
		fname = ir.FuncName(fn)
	}
	if fn != nil && c.Facts != nil {
		if why := c.Facts.debugOnlyFunc(fn); why != "" {
			// code that cannot run in a build of the library (only under Mast.debug, which nothing but the
			// package's own tests can set): no behaviour a user can observe depends on it
			c.Obls = append(c.Obls, Obligation{Rule: c.Rule.ID, What: construct + " in " + fname, Pos: pos, Verdict: "ok", Why: "not applicable: " + why, Trivial: true})
			return &Finding{}
		}
	}
	f := Finding{
		Rule: c.Rule.ID, Key: c.Rule.ID + "|" + fname + "|" + construct,
		Pos: pos, Func: fname, Msg: msg, Props: c.attribute(fn, append([]string(nil), c.Rule.Props...)),
		Undecided: und, Witness: witness, Config: c.P.Config,
	}
	v := "VIOLATION"
	if und {
		v = "undecided"
	}
	c.Obls = append(c.Obls, Obligation{Rule: c.Rule.ID, What: construct + " in " + fname, Pos: pos, Verdict: v, Why: msg})
	// de-duplicate by key (several paths to one construct are one finding)
	for i := range c.Findings {
		if c.Findings[i].Key == f.Key {
			return &c.Findings[i]
		}
	}
	c.Findings = append(c.Findings, f)
	return &c.Findings[len(c.Findings)-1]
}

// AnchorMissing fails the rule because something it needs to find in the
// repository is not there: an unresolvable rule must not pass vacuously.
func (c *Ctx) AnchorMissing(what string) {
	c.Undecided(nil, "-", "anchor:"+what, "undecided: anchor "+what+" does not resolve in the current tree")
}

// Result of running a set of rules.
type Result struct {
	Findings []Finding
	Obls     []Obligation
	Notes    []string
	PerRule  map[string]int
}

// Run executes rules on P. A panic inside a rule becomes an undecided finding
// (fail closed).
func Run(P *ir.Program, rs []*Rule, facts *Facts) *Result {
	res := &Result{PerRule: map[string]int{}}
	for _, r := range rs {
		c := &Ctx{P: P, Rule: r, Facts: facts}
		func() {
			defer func() {
				if e := recover(); e != nil {
					if os.Getenv("MASTCHECK_TRACE") != "" {
						debug.PrintStack()
					}
					c.Undecided(nil, "-", "panic", fmt.Sprintf("rule panicked: %v", e))
				}
			}()
			r.Run(c)
		}()
		n := 0
		for _, o := range c.Obls {
			if o.Verdict != "note" {
				n++
			}
		}
		if n < r.Min {
			c.Undecided(nil, "-", "vacuous", fmt.Sprintf("rule examined %d obligations, fewer than the %d it must find in jrhy/mast (vacuity guard)", n, r.Min))
		}
		res.PerRule[r.ID] = n
		res.Findings = append(res.Findings, c.Findings...)
		res.Obls = append(res.Obls, c.Obls...)
		res.Notes = append(res.Notes, c.Notes...)
	}
	sort.SliceStable(res.Findings, func(i, j int) bool { return res.Findings[i].Key < res.Findings[j].Key })
	return res
}

func hasProp(props []string, p string) bool {
	for _, q := range props {
		if q == p {
			return true
		}
	}
	return false
}

// HasProp reports whether finding f is charged to property p.
func (f *Finding) HasProp(p string) bool { return hasProp(f.Props, p) }

func short(s string, n int) string {
	s = strings.ReplaceAll(s, "\n", " ")
	if len(s) > n {
		return s[:n] + "…"
	}
	return s
}
