package rules

import (
	"fmt"
	"go/token"
	"go/types"
	"sort"
	"strings"

	"golang.org/x/tools/go/ssa"

	"mastcheck/ir"
)

func init() {
	Register(&Rule{ID: "COMMIT", Props: []string{"C12"}, Min: 2,
		Doc: "commit-point discipline in Insert, Delete and everything they call: along every path, after the first tree-visible effect (store to a Mast field through the receiver; " +
			"write to a node that is not fresh — ToMut returns the live node when it is already unshared; call of an effectful callee) there is no call that may return a non-nil error " +
			"(a user callback or store operation returning error; in-repo callees are looked into with what precedes the call as their context) whose result is used; a finding is keyed by (entry point, failing step, kinds of state already changed) and so does not depend on how the code is cut into helpers.",
		Run: runCOMMIT})
	Register(&Rule{ID: "PURITY", Props: []string{"C01", "C12", "C15"}, Min: 10,
		Doc: "from each read-only entry point (Get, Iter, SeekIter, Size, Height, IsDirty, BranchFactor, DiffIter, DiffLinks, StartDiff, NextEntry, Cursor and the Cursor methods) " +
			"no reachable function stores to a field of a non-local Mast or writes a node that is not fresh.",
		Run: runPURITY})
	Register(&Rule{ID: "SIZE", Props: []string{"C01"}, Min: 4,
		Doc: "Mast.size is written only by Insert, Delete and constructors; Insert's single size+1 store is reached only after the key was stored into a node and dominates every " +
			"successful return that follows a key store, outside any loop; Delete's single size-1 store dominates every successful return, outside any loop, after the entry removal.",
		Run: runSIZE})
}

var readOnlyEntries = []string{
	"(*Mast).Get", "(*Mast).Iter", "(*Mast).SeekIter", "(*Mast).Size", "(*Mast).Height", "(*Mast).IsDirty", "(*Mast).BranchFactor",
	"(*Mast).DiffIter", "(*Mast).DiffLinks", "(*Mast).StartDiff", "(*DiffCursor).NextEntry", "(*Mast).Cursor",
	"(*Cursor).Min", "(*Cursor).Max", "(*Cursor).Get", "(*Cursor).Forward", "(*Cursor).Backward", "(*Cursor).Ceil", "(*Cursor).String",
}

// fallible: may this call return a non-nil error that the caller looks at?
func fallible(c *Ctx, ci ssa.CallInstruction) (bool, string) {
	call, ok := ci.(*ssa.Call)
	if !ok {
		return false, ""
	}
	sig := call.Call.Signature()
	ei := ir.ErrorResultIndex(sig)
	if ei < 0 {
		return false, ""
	}
	// is the error result used?
	used := false
	if call.Referrers() != nil {
		for _, r := range *call.Referrers() {
			switch x := r.(type) {
			case *ssa.Extract:
				if x.Index == ei && x.Referrers() != nil && len(*x.Referrers()) > 0 {
					used = true
				}
			case *ssa.DebugRef:
			default:
				if sig.Results().Len() == 1 {
					used = true
				}
			}
		}
	}
	if !used {
		return false, ""
	}
	callees := c.Facts.Callees(ci)
	ext := c.Facts.External(ci)
	if strings.HasPrefix(ext, "callback:") {
		// a user callback (keyOrder, keyLayer, marshal …) may fail
		name := strings.TrimPrefix(ext, "callback:")
		return true, "callback " + name
	}
	for _, f := range callees {
		if c.Facts.MayFail[f] {
			return true, f.Name()
		}
	}
	if len(callees) == 0 && ext != "" && !strings.HasPrefix(ext, "ext:fmt.") && !strings.HasPrefix(ext, "ext:errors.") {
		if call.Call.IsInvoke() {
			return true, ext
		}
	}
	return false, ""
}

func runCOMMIT(c *Ctx) {
	P := c.P
	entries := c.Entries("(*Mast).Insert", "(*Mast).Delete")
	if len(entries) == 0 {
		return
	}
	// reachability inside one function without taking a loop's back edge
	acyclic := func(a, b ssa.Instruction) bool {
		if a.Block() == b.Block() {
			return ir.InstrIndex(a) < ir.InstrIndex(b)
		}
		seen := map[*ssa.BasicBlock]bool{}
		var walk func(x *ssa.BasicBlock) bool
		walk = func(x *ssa.BasicBlock) bool {
			if x == b.Block() {
				return true
			}
			if seen[x] {
				return false
			}
			seen[x] = true
			for _, s := range x.Succs {
				if s.Dominates(x) {
					continue // back edge
				}
				if walk(s) {
					return true
				}
			}
			return false
		}
		return walk(a.Block())
	}
	type ctxKinds struct{ first, loop map[string]bool }
	keyOf := func(k ctxKinds) string {
		s := kindKey(k.first)
		extra := map[string]bool{}
		for x := range k.loop {
			if !k.first[x] {
				extra[x] = true
			}
		}
		if len(extra) > 0 {
			s += " | on a later pass of a loop also: " + kindKey(extra)
		}
		return s
	}
	for _, entry := range entries {
		type hit struct {
			fn   *ssa.Function
			call ssa.CallInstruction
			eff  Effect
			tops map[string]bool // where the way to the step leaves the entry point's own code
		}
		found := map[string]hit{}
		visited := map[string]bool{}
		nLeaves := 0
		// bind: what the function-typed parameters of fn were given by the call that led here
		// exit: where the way to the failing call leaves the entry point's own code (the entry function and the
		// private helpers split out of it — called from nowhere else): the shared function called there, or
		// "directly" when the failing call itself sits in that code. A finding is a set of windows "this step can
		// fail after those effects"; its key names the exits, so that a new step through other shared machinery
		// (a validation of the edited node added after the in-place edit) is a new finding even when what fails
		// underneath and what was changed before are the same as in a known one — while extracting helpers from the
		// entry point or from the functions below the exit is not. (A further *direct* call of the same callback in
		// the same window is not told apart.)
		inRegion := map[*ssa.Function]bool{}
		for _, f := range regionOf(c, entry) {
			inRegion[f] = true
		}
		var exit string
		var walk func(fn *ssa.Function, inh ctxKinds, depth int, bind map[*ssa.Parameter]ssa.Value)
		walk = func(fn *ssa.Function, inh ctxKinds, depth int, bind map[*ssa.Parameter]ssa.Value) {
			key := ir.FuncName(fn) + "|" + keyOf(inh) + "|" + exit
			if visited[key] || depth > 8 {
				return
			}
			visited[key] = true
			effs := c.Facts.EffectsIn(fn)
			for _, ci := range CallsOf(fn) {
				ok, name := fallible(c, ci)
				if !ok {
					continue
				}
				// what may already have been changed when this call fails: on a first pass, and on later passes of a loop
				before := ctxKinds{map[string]bool{}, map[string]bool{}}
				for k := range inh.first {
					before.first[k] = true
				}
				for k := range inh.loop {
					before.loop[k] = true
				}
				var first *Effect
				for i := range effs {
					e := effs[i]
					if e.Instr == ssa.Instruction(ci) {
						if ir.InstrReaches(ci, ci) && inCycle(ci.Block()) {
							for _, k := range e.Kinds {
								before.loop[k] = true
							}
							if first == nil {
								first = &effs[i]
							}
						}
						continue
					}
					if !ir.InstrReaches(e.Instr, ci) {
						continue
					}
					if first == nil {
						first = &effs[i]
					}
					for _, k := range e.Kinds {
						if acyclic(e.Instr, ci) {
							before.first[k] = true
						} else {
							before.loop[k] = true
						}
					}
				}
				if inRegion[ir.Outermost(fn)] {
					exit = "directly"
					if g := calleeOrClosure(ci.Common()); g != nil && g.Blocks != nil && isOwn(P, g) && !inRegion[ir.Outermost(g)] {
						// a one-call wrapper (`loadRoot(ctx)` = `m.load(ctx, m.root)`) is named by what it wraps
						for d := 0; d < 3; d++ {
							w := wrappedCallee(P, g)
							if w == nil {
								break
							}
							g = w
						}
						exit = ir.FuncName(g)
						if thinWrapper(c, g) {
							exit = "directly" // named when the walk reaches the wrapper's own single fallible call
						}
					}
				}
				descended := false
				bindFor := func(g *ssa.Function) map[*ssa.Parameter]ssa.Value {
					nb := map[*ssa.Parameter]ssa.Value{}
					for k, v := range bind {
						nb[k] = v // closures met further down refer to parameters of the functions above
					}
					args := ci.Common().Args
					if len(args) == len(g.Params) {
						for i, p := range g.Params {
							if _, isFn := p.Type().Underlying().(*types.Signature); isFn {
								a := args[i]
								if pp, isP := ir.ResolveCell(a).(*ssa.Parameter); isP && bind[pp] != nil {
									a = bind[pp]
								}
								nb[p] = a
							}
						}
					}
					return nb
				}
				ext := c.Facts.External(ci)
				if !strings.HasPrefix(ext, "callback:") {
					for _, g := range c.Facts.Callees(ci) {
						if g.Blocks != nil && isOwn(P, g) && c.Facts.MayFail[g] {
							walk(g, before, depth+1, bindFor(g))
							descended = true
						}
					}
				} else if prm, isP := ir.Origin(ci.Common().Value).(*ssa.Parameter); isP && bind[prm] != nil {
					// a call through a function-typed parameter: what was passed in decides what it is
					switch x := ir.Origin(bind[prm]).(type) {
					case *ssa.MakeClosure:
						if g, ok := x.Fn.(*ssa.Function); ok && g.Blocks != nil {
							if c.Facts.MayFail[g] {
								walk(g, before, depth+1, bind) // its free variables are parameters of the functions already bound
							}
							descended = true // a repository closure: looked into (or cannot fail)
						}
					case *ssa.Function:
						if x.Blocks != nil && isOwn(P, x) {
							if c.Facts.MayFail[x] {
								walk(x, before, depth+1, map[*ssa.Parameter]ssa.Value{})
							}
							descended = true
						}
					default:
						// a configured callback handed on as an argument: named by the Mast field it came from
						if ld, ok := ir.ResolveCell(bind[prm]).(*ssa.UnOp); ok && ld.Op == token.MUL {
							if fa, ok := ld.X.(*ssa.FieldAddr); ok && ir.IsPtrToNamed(fa.X.Type(), "Mast") {
								name = "callback " + ir.FieldName(fa.X.Type(), fa.Field)
							}
						}
					}
				}
				if descended {
					continue
				}
				nLeaves++
				name = strings.Replace(strings.Replace(name, "callback param:", "callback ", 1), "callback param ", "callback ", 1)
				if len(before.first) == 0 && len(before.loop) == 0 {
					c.OK(P.InstrPos(ci), fmt.Sprintf("fallible step %s in %s (from %s)", name, ir.FuncName(fn), entry.Name()), "no tree-visible effect can precede it", false)
					continue
				}
				k := name + " {" + keyOf(before) + "}"
				if h, dup := found[k]; dup {
					h.tops[exit] = true
				} else {
					h := hit{fn: fn, call: ci, tops: map[string]bool{exit: true}}
					if first != nil {
						h.eff = *first
					} else {
						h.eff = Effect{Instr: ci, Desc: "effects of the callers (" + keyOf(inh) + ")"}
					}
					found[k] = h
				}
			}
		}
		walk(entry, ctxKinds{map[string]bool{}, map[string]bool{}}, 0, map[*ssa.Parameter]ssa.Value{})
		var keys []string
		for k := range found {
			keys = append(keys, k)
		}
		sort.Strings(keys)
		for _, k := range keys {
			h := found[k]
			var exits []string
			for e := range h.tops {
				exits = append(exits, e)
			}
			sort.Strings(exits)
			k = strings.Replace(k, " {", " reached "+strings.Join(exits, ", ")+" {", 1)
			c.Violation(entry, P.InstrPos(h.call), "effect before fallible "+k,
				fmt.Sprintf("in %s, %s can fail after the tree was already changed (%s at %s): on that error the caller of %s sees a failed operation but a modified tree (contents/size/height no longer those before the call)",
					ir.FuncName(h.fn), strings.SplitN(k, " {", 2)[0], h.eff.Desc, P.InstrPos(h.eff.Instr), entry.Name()),
				"earliest effect: "+h.eff.Desc+" at "+P.InstrPos(h.eff.Instr))
		}
		if nLeaves == 0 {
			c.Undecided(entry, P.Pos(entry.Pos()), "no fallible step found", "nothing reachable from "+entry.Name()+" can fail: the rule's notion of a fallible step does not match the code")
		}
	}
}

func kindKey(m map[string]bool) string {
	var ks []string
	for k := range m {
		ks = append(ks, strings.TrimPrefix(k, "Mast."))
	}
	sort.Strings(ks)
	return strings.Join(ks, ",")
}

func inCycle(b *ssa.BasicBlock) bool {
	for _, s := range b.Succs {
		if ir.CanReach(s, b) {
			return true
		}
	}
	return false
}

func runPURITY(c *Ctx) {
	P := c.P
	entries := c.Entries(readOnlyEntries...)
	E := c.Facts.effectsInfo()
	for _, e := range entries {
		reach := c.Facts.Reach(e)
		var bad []string
		for fn := range reach {
			for _, ef := range E.direct[fn] {
				bad = append(bad, fmt.Sprintf("%s in %s at %s", ef.Desc, ir.FuncName(fn), P.InstrPos(ef.Instr)))
				chain := c.Facts.CallChain([]*ssa.Function{e}, fn)
				c.Violation(fn, P.InstrPos(ef.Instr), "effect reachable from read-only "+e.Name()+": "+effKey(ef),
					fmt.Sprintf("read-only operation %s can reach a tree-visible write: %s", ir.FuncName(e), ef.Desc), fmtChain(chain))
			}
		}
		if len(bad) == 0 {
			c.OK(P.Pos(e.Pos()), "read-only entry "+ir.FuncName(e), fmt.Sprintf("%d reachable functions, none with a tree-visible effect", len(reach)), false)
		}
	}
}

func effKey(e Effect) string {
	d := e.Desc
	if i := strings.Index(d, " ("); i > 0 {
		d = d[:i]
	}
	if i := strings.Index(d, " ["); i > 0 {
		d = d[:i]
	}
	return d
}

func runSIZE(c *Ctx) {
	P := c.P
	ins := c.MustFunc("(*Mast).Insert")
	del := c.MustFunc("(*Mast).Delete")
	if ins == nil || del == nil {
		return
	}
	type sstore struct {
		st    *ssa.Store
		delta int64 // +1, -1, 0 unknown
	}
	byFn := map[*ssa.Function][]sstore{}
	for _, fn := range P.Funcs {
		for _, b := range fn.Blocks {
			for _, in := range b.Instrs {
				st, ok := in.(*ssa.Store)
				if !ok {
					continue
				}
				// *m = saved: the whole Mast overwritten through a pointer — size (with root, height and the
				// thresholds) set without the entry change it counts
				if ir.IsPtrToNamed(st.Addr.Type(), "Mast") && fn.Pkg != nil && fn.Pkg.Pkg.Path() == ir.MastPath {
					if _, local := ir.ResolveCell(st.Addr).(*ssa.Alloc); !local {
						c.Violation(fn, P.InstrPos(st), "Mast overwritten as a whole",
							"the tree's bookkeeping (size, root, height, thresholds) is replaced wholesale by a saved copy: a shallow snapshot does not undo what was changed inside nodes that are edited in place (an already-modified leaf), so size and root go back while the entry stays removed or inserted — the persisted Size no longer counts the reachable entries")
						continue
					}
				}
				fa, ok := st.Addr.(*ssa.FieldAddr)
				if !ok || !ir.IsPtrToNamed(fa.X.Type(), "Mast") || ir.FieldName(fa.X.Type(), fa.Field) != "size" {
					continue
				}
				if _, local := ir.ResolveCell(fa.X).(*ssa.Alloc); local {
					c.OK(P.InstrPos(st), "size initialised in constructor "+ir.FuncName(fn), "store into a local Mast", true)
					continue
				}
				var d int64
				if bin, ok := st.Val.(*ssa.BinOp); ok && ir.Sym(bin.X) == "*"+ir.Sym(st.Addr) {
					if k, isK := ir.ConstInt(bin.Y); isK && k == 1 {
						if bin.Op == token.ADD {
							d = 1
						} else if bin.Op == token.SUB {
							d = -1
						}
					}
				}
				byFn[fn] = append(byFn[fn], sstore{st, d})
			}
		}
	}
	for fn, ss := range byFn {
		if fn != ins && fn != del {
			for _, s := range ss {
				c.Violation(fn, P.InstrPos(s.st), "size written outside Insert/Delete", ir.FuncName(fn)+" changes Mast.size; only inserting or removing an entry may")
			}
		}
	}
	// Insert
	check := func(fn *ssa.Function, want int64, label string) {
		ss := byFn[fn]
		if len(ss) != 1 {
			c.Violation(fn, P.Pos(fn.Pos()), fmt.Sprintf("%d size stores", len(ss)), fmt.Sprintf("%s must adjust size exactly once per %s; it has %d stores to Mast.size", ir.FuncName(fn), label, len(ss)))
			return
		}
		s := ss[0]
		if s.delta != want {
			c.Violation(fn, P.InstrPos(s.st), "size adjusted by the wrong amount", fmt.Sprintf("the size store in %s is not size%+d", ir.FuncName(fn), want))
			return
		}
		if inCycle(s.st.Block()) {
			c.Violation(fn, P.InstrPos(s.st), "size store in a loop", "the size adjustment can execute more than once per operation")
			return
		}
		c.OK(P.InstrPos(s.st), fmt.Sprintf("size%+d in %s", want, ir.FuncName(fn)), "single store, not in a loop", false)
		ei := ir.ErrorResultIndex(fn.Signature)
		if fn == ins {
			// increment ⇒ the key parameter was stored into a node
			keyStore := func(i ssa.Instruction) bool { return storesUserKey(i, fn) }
			if ir.MustPass(s.st, keyStore) {
				c.OK(P.InstrPos(s.st), "size+1 only after the new key was stored", "every path to the increment stores the key parameter into a node's Key slice", false)
			} else {
				c.Violation(fn, P.InstrPos(s.st), "size+1 reachable without inserting a key", "a path increments size without adding an entry (e.g. on a value update): Size() no longer equals the number of entries")
			}
			// inserted ∧ success ⇒ incremented
			for _, r := range ir.Returns(fn) {
				if !ir.IsNilConst(r.Results[ei]) {
					continue
				}
				after := false
				for _, b := range fn.Blocks {
					for _, i := range b.Instrs {
						if keyStore(i) && ir.InstrReaches(i, r) {
							after = true
						}
					}
				}
				if !after {
					continue
				}
				if ir.Before(s.st, r) {
					c.OK(P.InstrPos(r), "successful return after a key store", "dominated by size+1", false)
				} else {
					c.Violation(fn, P.InstrPos(r), "successful return after inserting a key without size+1", "an entry is added but size is not incremented on this path")
				}
			}
		} else {
			for _, r := range ir.Returns(fn) {
				if !ir.IsNilConst(r.Results[ei]) {
					continue
				}
				if ir.Before(s.st, r) {
					c.OK(P.InstrPos(r), "successful return of Delete", "dominated by size-1", false)
				} else {
					c.Violation(fn, P.InstrPos(r), "successful Delete without size-1", "Delete can succeed without decrementing size")
				}
			}
			removal := func(i ssa.Instruction) bool {
				ci, ok := i.(ssa.CallInstruction)
				if !ok {
					return false
				}
				for _, f := range c.Facts.Callees(ci) {
					if ok, _ := c.Facts.Effectful(f); ok {
						return true
					}
				}
				return false
			}
			if ir.MustPass(s.st, removal) {
				c.OK(P.InstrPos(s.st), "size-1 only after the entry removal", "every path to the decrement passes an effectful call (deleteEntry/savePathForRoot)", false)
			} else {
				c.Violation(fn, P.InstrPos(s.st), "size-1 reachable without removing an entry", "a path decrements size without removing an entry")
			}
		}
	}
	check(ins, 1, "new key")
	check(del, -1, "removed entry")
}

// storesUserKey: instruction stores/appends the first interface{} parameter
// after the context (the key) of fn into a node's Key slice.
func storesUserKey(i ssa.Instruction, fn *ssa.Function) bool {
	var key *ssa.Parameter
	for idx, p := range fn.Params {
		if idx == 0 {
			continue
		}
		if it, ok := p.Type().Underlying().(*types.Interface); ok && it.NumMethods() == 0 {
			key = p
			break
		}
	}
	if key == nil {
		return false
	}
	return storesParamIntoKey(i, key, 0)
}

// storesParamIntoKey: instruction i stores parameter key into a node's Key
// slice, directly or by handing it to a (static) callee that does. keySlices
// are parameters of the function i sits in that are bound to a node's Key
// slice by the caller (insertAt(node.Key, i, key)).
func storesParamIntoKey(i ssa.Instruction, key *ssa.Parameter, depth int, keySlices ...*ssa.Parameter) bool {
	isKeySlice := func(v ssa.Value) bool {
		if _, f, ok := nodeSliceRoot(v); ok && f == "Key" {
			return true
		}
		if p := sliceRootParam(v, 0); p != nil {
			for _, q := range keySlices {
				if p == q {
					return true
				}
			}
		}
		return false
	}
	if call, ok := i.(*ssa.Call); ok && depth < 3 {
		if callee := ir.Callee(call.Call); callee != nil && callee.Blocks != nil {
			var ks []*ssa.Parameter
			for ai, a := range call.Call.Args {
				if ai < len(callee.Params) && isKeySlice(a) {
					ks = append(ks, callee.Params[ai])
				}
			}
			for ai, a := range call.Call.Args {
				if ir.ResolveCell(ir.Strip(a)) != ssa.Value(key) || ai >= len(callee.Params) {
					continue
				}
				for _, b := range callee.Blocks {
					for _, ci := range b.Instrs {
						if storesParamIntoKey(ci, callee.Params[ai], depth+1, ks...) {
							return true
						}
					}
				}
			}
		}
	}
	switch x := i.(type) {
	case *ssa.Store:
		if ir.ResolveCell(ir.Strip(x.Val)) != ssa.Value(key) {
			return false
		}
		if ia, ok := x.Addr.(*ssa.IndexAddr); ok {
			if isKeySlice(ia.X) {
				return true
			}
			// varargs slice for append(node.Key, key): see the append below
		}
	case *ssa.Call:
		// slices.Insert(node.Key, i, key): the values follow the index
		if n, ok := stdSliceOp(x); ok && n == "slices.Insert" && len(x.Call.Args) == 3 && isKeySlice(x.Call.Args[0]) {
			for _, v := range varargValues(x.Call.Args[2]) {
				if ir.ResolveCell(ir.Strip(v)) == ssa.Value(key) {
					return true
				}
			}
		}
		if b, ok := x.Call.Value.(*ssa.Builtin); ok && b.Name() == "append" && len(x.Call.Args) == 2 {
			if isKeySlice(x.Call.Args[0]) {
				for _, v := range varargValues(x.Call.Args[1]) {
					if ir.ResolveCell(ir.Strip(v)) == ssa.Value(key) {
						return true
					}
				}
			}
		}
	}
	return false
}

// wrappedCallee: g does nothing but call one function of the repository and return its results.
func wrappedCallee(P *ir.Program, g *ssa.Function) *ssa.Function {
	if g == nil || len(g.Blocks) != 1 {
		return nil
	}
	var only *ssa.Call
	for _, ins := range g.Blocks[0].Instrs {
		switch x := ins.(type) {
		case *ssa.Call:
			if _, isB := x.Call.Value.(*ssa.Builtin); isB {
				continue
			}
			if only != nil {
				return nil
			}
			only = x
		case *ssa.Store, *ssa.Go, *ssa.Defer, *ssa.Send, *ssa.MapUpdate, *ssa.Panic:
			return nil
		}
	}
	if only == nil {
		return nil
	}
	w := ir.Callee(only.Call)
	if w == nil || w.Blocks == nil || !isOwn(P, w) || w == g {
		return nil
	}
	ret, ok := g.Blocks[0].Instrs[len(g.Blocks[0].Instrs)-1].(*ssa.Return)
	if !ok {
		return nil
	}
	for _, r := range ret.Results {
		switch y := r.(type) {
		case *ssa.Call:
			if y != only {
				return nil
			}
		case *ssa.Extract:
			if y.Tuple != ssa.Value(only) {
				return nil
			}
		default:
			return nil
		}
	}
	return w
}

// thinWrapper: g changes nothing and makes exactly one call that can fail (`layerOf(key)` = the layer callback plus
// error wrapping): on the way to a failing step it is not a place of its own.
func thinWrapper(c *Ctx, g *ssa.Function) bool {
	if g == nil || g.Blocks == nil || g.Parent() != nil || !isOwn(c.P, g) || len(c.Facts.EffectsIn(g)) > 0 {
		return false
	}
	if o := g.Object(); o != nil && o.Exported() {
		return false
	}
	n := 0
	for _, ci := range CallsOf(g) {
		if ok, _ := fallible(c, ci); ok {
			n++
		}
	}
	return n == 1 && len(g.Blocks) <= 4
}
