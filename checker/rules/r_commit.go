package rules

import (
	"fmt"
	"go/token"
	"go/types"
	"sort"
	"strings"

	"golang.org/x/tools/go/ssa"

	"mastcheck/ir"
)

func init() {
	Register(&Rule{ID: "COMMIT", Props: []string{"C12"}, Min: 2,
		Doc: "commit-point discipline in Insert, Delete and everything they call: along every path, after the first tree-visible effect (store to a Mast field through the receiver; " +
			"write to a node that is not fresh — ToMut returns the live node when it is already unshared; call of an effectful callee) there is no call that may return a non-nil error " +
			"(in-repo function with an error-carrying return, or a user callback returning error) whose result is used; a finding is keyed by (function, fallible callee).",
		Run: runCOMMIT})
	Register(&Rule{ID: "PURITY", Props: []string{"C01", "C12"}, Min: 10,
		Doc: "from each read-only entry point (Get, Iter, SeekIter, Size, Height, IsDirty, BranchFactor, DiffIter, DiffLinks, StartDiff, NextEntry, Cursor and the Cursor methods) " +
			"no reachable function stores to a field of a non-local Mast or writes a node that is not fresh.",
		Run: runPURITY})
	Register(&Rule{ID: "SIZE", Props: []string{"C01"}, Min: 4,
		Doc: "Mast.size is written only by Insert, Delete and constructors; Insert's single size+1 store is reached only after the key was stored into a node and dominates every " +
			"successful return that follows a key store, outside any loop; Delete's single size-1 store dominates every successful return, outside any loop, after the entry removal.",
		Run: runSIZE})
}

var readOnlyEntries = []string{
	"(*Mast).Get", "(*Mast).Iter", "(*Mast).SeekIter", "(*Mast).Size", "(*Mast).Height", "(*Mast).IsDirty", "(*Mast).BranchFactor",
	"(*Mast).DiffIter", "(*Mast).DiffLinks", "(*Mast).StartDiff", "(*DiffCursor).NextEntry", "(*Mast).Cursor",
	"(*Cursor).Min", "(*Cursor).Max", "(*Cursor).Get", "(*Cursor).Forward", "(*Cursor).Backward", "(*Cursor).Ceil", "(*Cursor).String",
}

// fallible: may this call return a non-nil error that the caller looks at?
func fallible(c *Ctx, ci ssa.CallInstruction) (bool, string) {
	call, ok := ci.(*ssa.Call)
	if !ok {
		return false, ""
	}
	sig := call.Call.Signature()
	ei := ir.ErrorResultIndex(sig)
	if ei < 0 {
		return false, ""
	}
	// is the error result used?
	used := false
	if call.Referrers() != nil {
		for _, r := range *call.Referrers() {
			switch x := r.(type) {
			case *ssa.Extract:
				if x.Index == ei && x.Referrers() != nil && len(*x.Referrers()) > 0 {
					used = true
				}
			case *ssa.DebugRef:
			default:
				if sig.Results().Len() == 1 {
					used = true
				}
			}
		}
	}
	if !used {
		return false, ""
	}
	callees := c.Facts.Callees(ci)
	ext := c.Facts.External(ci)
	if strings.HasPrefix(ext, "callback:") {
		// a user callback (keyOrder, keyLayer, marshal …) may fail
		name := strings.TrimPrefix(ext, "callback:")
		return true, "callback " + name
	}
	for _, f := range callees {
		if c.Facts.MayFail[f] {
			return true, f.Name()
		}
	}
	if len(callees) == 0 && ext != "" && !strings.HasPrefix(ext, "ext:fmt.") && !strings.HasPrefix(ext, "ext:errors.") {
		if call.Call.IsInvoke() {
			return true, ext
		}
	}
	return false, ""
}

func runCOMMIT(c *Ctx) {
	P := c.P
	mutators := c.Entries("(*Mast).Insert", "(*Mast).Delete")
	if len(mutators) == 0 {
		return
	}
	reach := c.Facts.Reach(mutators...)
	var fns []*ssa.Function
	for fn := range reach {
		fns = append(fns, fn)
	}
	sort.Slice(fns, func(i, j int) bool { return fns[i].Pos() < fns[j].Pos() })
	for _, fn := range fns {
		if ir.ErrorResultIndex(fn.Signature) < 0 {
			continue // cannot report a failure, nothing to roll back to
		}
		effs := c.Facts.EffectsIn(fn)
		if len(effs) == 0 {
			c.OK(P.Pos(fn.Pos()), "no tree-visible effect in "+ir.FuncName(fn), "pure with respect to the tree", true)
			continue
		}
		nF := 0
		type hit struct {
			eff  Effect
			call ssa.CallInstruction
		}
		found := map[string]hit{}
		kindsOf := map[string]map[string]bool{}
		for _, ci := range CallsOf(fn) {
			ok, name := fallible(c, ci)
			if !ok {
				continue
			}
			nF++
			var first *Effect
			for i := range effs {
				e := effs[i]
				if e.Instr == ssa.Instruction(ci) {
					// the call itself is effectful: a second execution of it (loop)
					// follows its own effect
					if ir.InstrReaches(ci, ci) && inCycle(ci.Block()) {
						first = &effs[i]
						break
					}
					continue
				}
				if ir.InstrReaches(e.Instr, ci) {
					first = &effs[i]
					break
				}
			}
			if first == nil {
				c.OK(P.InstrPos(ci), fmt.Sprintf("fallible call %s in %s", name, ir.FuncName(fn)), "no tree-visible effect can precede it", false)
				continue
			}
			if _, dup := found[name]; !dup {
				found[name] = hit{*first, ci}
			}
			// what may already have been changed when this call fails (part of the finding's identity: a
			// reordering that lets a *further* kind of change precede the call is a different finding)
			if kindsOf[name] == nil {
				kindsOf[name] = map[string]bool{}
			}
			for i := range effs {
				e := effs[i]
				if e.Instr == ssa.Instruction(ci) {
					if !(ir.InstrReaches(ci, ci) && inCycle(ci.Block())) {
						continue
					}
				} else if !ir.InstrReaches(e.Instr, ci) {
					continue
				}
				for _, k := range e.Kinds {
					kindsOf[name][k] = true
				}
			}
		}
		var names []string
		for n := range found {
			names = append(names, n)
		}
		sort.Strings(names)
		for _, n := range names {
			h := found[n]
			var ks []string
			for k := range kindsOf[n] {
				ks = append(ks, strings.TrimPrefix(k, "Mast."))
			}
			sort.Strings(ks)
			c.Violation(fn, P.InstrPos(h.call), "effect before fallible "+n+" {"+strings.Join(ks, ",")+"}",
				fmt.Sprintf("%s can fail after the tree was already changed (%s at %s): on that error the caller sees a failed operation but a modified tree (contents/size/height no longer those before the call)",
					n, h.eff.Desc, P.InstrPos(h.eff.Instr)),
				"earliest effect: "+h.eff.Desc+" at "+P.InstrPos(h.eff.Instr))
		}
		if nF == 0 {
			c.OK(P.Pos(fn.Pos()), "effects in "+ir.FuncName(fn), "no fallible call in this function", false)
		}
	}
}

func inCycle(b *ssa.BasicBlock) bool {
	for _, s := range b.Succs {
		if ir.CanReach(s, b) {
			return true
		}
	}
	return false
}

func runPURITY(c *Ctx) {
	P := c.P
	entries := c.Entries(readOnlyEntries...)
	E := c.Facts.effectsInfo()
	for _, e := range entries {
		reach := c.Facts.Reach(e)
		var bad []string
		for fn := range reach {
			for _, ef := range E.direct[fn] {
				bad = append(bad, fmt.Sprintf("%s in %s at %s", ef.Desc, ir.FuncName(fn), P.InstrPos(ef.Instr)))
				chain := c.Facts.CallChain([]*ssa.Function{e}, fn)
				c.Violation(fn, P.InstrPos(ef.Instr), "effect reachable from read-only "+e.Name()+": "+effKey(ef),
					fmt.Sprintf("read-only operation %s can reach a tree-visible write: %s", ir.FuncName(e), ef.Desc), fmtChain(chain))
			}
		}
		if len(bad) == 0 {
			c.OK(P.Pos(e.Pos()), "read-only entry "+ir.FuncName(e), fmt.Sprintf("%d reachable functions, none with a tree-visible effect", len(reach)), false)
		}
	}
}

func effKey(e Effect) string {
	d := e.Desc
	if i := strings.Index(d, " ("); i > 0 {
		d = d[:i]
	}
	if i := strings.Index(d, " ["); i > 0 {
		d = d[:i]
	}
	return d
}

func runSIZE(c *Ctx) {
	P := c.P
	ins := c.MustFunc("(*Mast).Insert")
	del := c.MustFunc("(*Mast).Delete")
	if ins == nil || del == nil {
		return
	}
	type sstore struct {
		st    *ssa.Store
		delta int64 // +1, -1, 0 unknown
	}
	byFn := map[*ssa.Function][]sstore{}
	for _, fn := range P.Funcs {
		for _, b := range fn.Blocks {
			for _, in := range b.Instrs {
				st, ok := in.(*ssa.Store)
				if !ok {
					continue
				}
				fa, ok := st.Addr.(*ssa.FieldAddr)
				if !ok || !ir.IsPtrToNamed(fa.X.Type(), "Mast") || ir.FieldName(fa.X.Type(), fa.Field) != "size" {
					continue
				}
				if _, local := ir.ResolveCell(fa.X).(*ssa.Alloc); local {
					c.OK(P.InstrPos(st), "size initialised in constructor "+ir.FuncName(fn), "store into a local Mast", true)
					continue
				}
				var d int64
				if bin, ok := st.Val.(*ssa.BinOp); ok && ir.Sym(bin.X) == "*"+ir.Sym(st.Addr) {
					if k, isK := ir.ConstInt(bin.Y); isK && k == 1 {
						if bin.Op == token.ADD {
							d = 1
						} else if bin.Op == token.SUB {
							d = -1
						}
					}
				}
				byFn[fn] = append(byFn[fn], sstore{st, d})
			}
		}
	}
	for fn, ss := range byFn {
		if fn != ins && fn != del {
			for _, s := range ss {
				c.Violation(fn, P.InstrPos(s.st), "size written outside Insert/Delete", ir.FuncName(fn)+" changes Mast.size; only inserting or removing an entry may")
			}
		}
	}
	// Insert
	check := func(fn *ssa.Function, want int64, label string) {
		ss := byFn[fn]
		if len(ss) != 1 {
			c.Violation(fn, P.Pos(fn.Pos()), fmt.Sprintf("%d size stores", len(ss)), fmt.Sprintf("%s must adjust size exactly once per %s; it has %d stores to Mast.size", ir.FuncName(fn), label, len(ss)))
			return
		}
		s := ss[0]
		if s.delta != want {
			c.Violation(fn, P.InstrPos(s.st), "size adjusted by the wrong amount", fmt.Sprintf("the size store in %s is not size%+d", ir.FuncName(fn), want))
			return
		}
		if inCycle(s.st.Block()) {
			c.Violation(fn, P.InstrPos(s.st), "size store in a loop", "the size adjustment can execute more than once per operation")
			return
		}
		c.OK(P.InstrPos(s.st), fmt.Sprintf("size%+d in %s", want, ir.FuncName(fn)), "single store, not in a loop", false)
		ei := ir.ErrorResultIndex(fn.Signature)
		if fn == ins {
			// increment ⇒ the key parameter was stored into a node
			keyStore := func(i ssa.Instruction) bool { return storesUserKey(i, fn) }
			if ir.MustPass(s.st, keyStore) {
				c.OK(P.InstrPos(s.st), "size+1 only after the new key was stored", "every path to the increment stores the key parameter into a node's Key slice", false)
			} else {
				c.Violation(fn, P.InstrPos(s.st), "size+1 reachable without inserting a key", "a path increments size without adding an entry (e.g. on a value update): Size() no longer equals the number of entries")
			}
			// inserted ∧ success ⇒ incremented
			for _, r := range ir.Returns(fn) {
				if !ir.IsNilConst(r.Results[ei]) {
					continue
				}
				after := false
				for _, b := range fn.Blocks {
					for _, i := range b.Instrs {
						if keyStore(i) && ir.InstrReaches(i, r) {
							after = true
						}
					}
				}
				if !after {
					continue
				}
				if ir.Before(s.st, r) {
					c.OK(P.InstrPos(r), "successful return after a key store", "dominated by size+1", false)
				} else {
					c.Violation(fn, P.InstrPos(r), "successful return after inserting a key without size+1", "an entry is added but size is not incremented on this path")
				}
			}
		} else {
			for _, r := range ir.Returns(fn) {
				if !ir.IsNilConst(r.Results[ei]) {
					continue
				}
				if ir.Before(s.st, r) {
					c.OK(P.InstrPos(r), "successful return of Delete", "dominated by size-1", false)
				} else {
					c.Violation(fn, P.InstrPos(r), "successful Delete without size-1", "Delete can succeed without decrementing size")
				}
			}
			removal := func(i ssa.Instruction) bool {
				ci, ok := i.(ssa.CallInstruction)
				if !ok {
					return false
				}
				for _, f := range c.Facts.Callees(ci) {
					if ok, _ := c.Facts.Effectful(f); ok {
						return true
					}
				}
				return false
			}
			if ir.MustPass(s.st, removal) {
				c.OK(P.InstrPos(s.st), "size-1 only after the entry removal", "every path to the decrement passes an effectful call (deleteEntry/savePathForRoot)", false)
			} else {
				c.Violation(fn, P.InstrPos(s.st), "size-1 reachable without removing an entry", "a path decrements size without removing an entry")
			}
		}
	}
	check(ins, 1, "new key")
	check(del, -1, "removed entry")
}

// storesUserKey: instruction stores/appends the first interface{} parameter
// after the context (the key) of fn into a node's Key slice.
func storesUserKey(i ssa.Instruction, fn *ssa.Function) bool {
	var key *ssa.Parameter
	for idx, p := range fn.Params {
		if idx == 0 {
			continue
		}
		if it, ok := p.Type().Underlying().(*types.Interface); ok && it.NumMethods() == 0 {
			key = p
			break
		}
	}
	if key == nil {
		return false
	}
	return storesParamIntoKey(i, key, 0)
}

// storesParamIntoKey: instruction i stores parameter key into a node's Key
// slice, directly or by handing it to a (static) callee that does. keySlices
// are parameters of the function i sits in that are bound to a node's Key
// slice by the caller (insertAt(node.Key, i, key)).
func storesParamIntoKey(i ssa.Instruction, key *ssa.Parameter, depth int, keySlices ...*ssa.Parameter) bool {
	isKeySlice := func(v ssa.Value) bool {
		if _, f, ok := nodeSliceRoot(v); ok && f == "Key" {
			return true
		}
		if p := sliceRootParam(v, 0); p != nil {
			for _, q := range keySlices {
				if p == q {
					return true
				}
			}
		}
		return false
	}
	if call, ok := i.(*ssa.Call); ok && depth < 3 {
		if callee := ir.Callee(call.Call); callee != nil && callee.Blocks != nil {
			var ks []*ssa.Parameter
			for ai, a := range call.Call.Args {
				if ai < len(callee.Params) && isKeySlice(a) {
					ks = append(ks, callee.Params[ai])
				}
			}
			for ai, a := range call.Call.Args {
				if ir.ResolveCell(ir.Strip(a)) != ssa.Value(key) || ai >= len(callee.Params) {
					continue
				}
				for _, b := range callee.Blocks {
					for _, ci := range b.Instrs {
						if storesParamIntoKey(ci, callee.Params[ai], depth+1, ks...) {
							return true
						}
					}
				}
			}
		}
	}
	switch x := i.(type) {
	case *ssa.Store:
		if ir.ResolveCell(ir.Strip(x.Val)) != ssa.Value(key) {
			return false
		}
		if ia, ok := x.Addr.(*ssa.IndexAddr); ok {
			if isKeySlice(ia.X) {
				return true
			}
			// varargs slice for append(node.Key, key): see the append below
		}
	case *ssa.Call:
		if b, ok := x.Call.Value.(*ssa.Builtin); ok && b.Name() == "append" && len(x.Call.Args) == 2 {
			if isKeySlice(x.Call.Args[0]) {
				for _, v := range varargValues(x.Call.Args[1]) {
					if ir.ResolveCell(ir.Strip(v)) == ssa.Value(key) {
						return true
					}
				}
			}
		}
	}
	return false
}
