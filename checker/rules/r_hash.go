package rules

import (
	"fmt"
	"go/token"
	"go/types"
	"strings"

	"golang.org/x/tools/go/ssa"

	"mastcheck/ir"
)

// C08: content addressing. name = b64url(BLAKE2b-256(bytes)) at the only
// Persist.Store call site, by SSA value identity; deterministic encoding.

func init() {
	Register(&Rule{ID: "STOREONCE", Props: []string{"C08", "C13", "C02"}, Min: 2,
		Doc: "package mast has exactly one writer site — a place that brings a name and the bytes together and hands them to a store — inside the closure queued by the node store, " +
			"and the node store is called only by itself and by flush: persisted nodes are written nowhere else, under no other naming scheme. " +
			"Store sites are the interface calls of a Store method of Persist's signature and the static calls of pass-throughs. A pass-through (a decorator around a Persist) is a function " +
			"every store site of which passes on two of the function's own parameters as name and bytes by SSA identity, which does nothing else with the bytes parameter than take its length, " +
			"and whose value is never taken and which no other interface call can reach: it adds no (name, bytes) pair of its own, so the forwarding call inside it is not a writer site, " +
			"while every one of its callers is a store site and is judged as such. Anything else — a renamed, re-encoded or edited pair, a constant name, a second pair, a go/defer, " +
			"a method value of a store — is a writer site or a violation.",
		Run: runSTOREONCE})
	Register(&Rule{ID: "HASHNAME", Props: []string{"C08", "C03"}, Min: 4,
		Doc: "at the writer site the name argument is base64.RawURLEncoding.EncodeToString(h[:]) with h = blake2b.Sum256(b), and the bytes argument is the same value b " +
			"(the encoder's result); the node store's results with a possibly nil error are that name or the node's own recorded source name, the latter only for a node that is not dirty " +
			"(the return is unreachable under the dirty valuation of the node); nothing can overwrite the name variable. " +
			"Name and bytes may be results of one invocation of a same-package helper: they are then the operands of the helper's only nil-error return (all its other returns carry a " +
			"certainly non-nil error, and the caller has found the error of that very call nil before the site), compared by SSA identity inside the helper; " +
			"a (name, error) pair passed on from a helper that is handed the node is judged on the helper's returns that are consistent with what the caller tested.",
		Run: runHASHNAME})
	Register(&Rule{ID: "DET", Props: []string{"C08", "C04"}, Min: 3,
		Doc: "the functions that produce a node's bytes (everything reachable from the marshal closure flush hands to the node store) contain no source of nondeterminism: " +
			"no map iteration, no time/rand/os/runtime call, no %p formatting, no cap(), no goroutine or select.",
		Run: runDET})
	Register(&Rule{ID: "ENCINPUTS", Props: []string{"C08"}, Min: 3,
		Doc: "the encode path reads only Key, Value and Link of a node (never dirty/shared/expected/source), and the value handed to the user marshaler has type Node, not mastNode.",
		Run: runENCINPUTS})
}

func runSTOREONCE(c *Ctx) {
	P := c.P
	R := storeSiteFactsOf(c)
	if len(R.sites) == 0 {
		c.Violation(nil, "-", "no Persist.Store call", "package mast never calls Persist.Store: nothing is persisted")
		return
	}
	// pass-throughs: they add no (name, bytes) pair of their own (see own_util.go)
	for _, s := range R.sites {
		f := s.Call.Parent()
		if idx, ok := R.pass[f]; ok {
			c.OK(P.InstrPos(s.Call), "store site in pass-through "+ir.FuncName(f),
				fmt.Sprintf("forwards its own parameters %s and %s unchanged, never writes the bytes, and its value is never taken: its callers are the store sites",
					f.Params[idx[0]].Name(), f.Params[idx[1]].Name()), false)
		}
	}
	// a store method taken as a value could be called where the rule does not see a store site
	for _, fn := range P.Funcs {
		if fn.Pkg.Pkg.Path() != ir.MastPath {
			continue
		}
		for _, b := range fn.Blocks {
			for _, ins := range b.Instrs {
				mc, ok := ins.(*ssa.MakeClosure)
				if !ok {
					continue
				}
				g, ok := mc.Fn.(*ssa.Function)
				if !ok || g.Synthetic == "" {
					continue
				}
				for _, gb := range g.Blocks {
					for _, gi := range gb.Instrs {
						ci, ok := gi.(ssa.CallInstruction)
						if !ok || !ci.Common().IsInvoke() || ci.Common().Method.Name() != "Store" {
							continue
						}
						if ms, ok := ci.Common().Method.Type().(*types.Signature); ok && sameParamsResults(ms, persistStoreSig(P)) {
							c.Violation(fn, P.InstrPos(ins), "Persist.Store taken as a method value", "the store method of a Persist is bound to a function value: calls through it are store sites the rule cannot see")
						}
					}
				}
			}
		}
	}
	sites := writerStoreSites(c)
	if len(sites) == 0 {
		c.Undecided(nil, "-", "no writer among the store sites", "every store site of package mast forwards the parameters of its function: no place brings a name and the bytes together")
		return
	}
	for i, s := range sites {
		if i == 0 {
			c.OK(P.InstrPos(s), "Persist.Store call site in "+ir.FuncName(s.Parent()), "the single writer site", false)
		} else {
			c.Violation(s.Parent(), P.InstrPos(s), "second Persist.Store call site", "a second place writes to the store; the name=hash(bytes) discipline is established only at the first")
		}
	}
	outer := ir.Outermost(sites[0].Parent())
	flush := nodeStoreDriver(c)
	// helpers of the node store: functions all of whose callers are the node store or its helpers
	family := map[*ssa.Function]bool{outer: true}
	for changed := true; changed; {
		changed = false
		for _, fn := range c.P.Funcs {
			if family[fn] || fn.Parent() != nil || len(c.P.Callers[fn]) == 0 {
				continue
			}
			all := true
			for _, cs := range c.P.Callers[fn] {
				if !family[ir.Outermost(cs.Parent())] {
					all = false
				}
			}
			if all {
				family[fn] = true
				changed = true
			}
		}
	}
	for _, cs := range c.P.Callers[outer] {
		caller := ir.Outermost(cs.Parent())
		if family[caller] || (flush != nil && caller == flush) {
			c.OK(P.InstrPos(cs), "caller of "+ir.FuncName(outer)+": "+ir.FuncName(caller), "recursion (possibly through a helper of the node store) or flush", false)
		} else {
			c.Violation(caller, P.InstrPos(cs), "node store called outside flush", ir.FuncName(caller)+" stores nodes without flush's completion barrier and error handling")
		}
	}
}

func staticCalleeName(v ssa.Value) (string, *ssa.Call) {
	call, ok := v.(*ssa.Call)
	if !ok {
		return "", nil
	}
	sc := ir.Callee(call.Call)
	if sc == nil {
		return "", call
	}
	return sc.String(), call
}

// helperResolver follows values out of the same-package helpers that compute them. A value that is result #i of a
// call of helper h is replaced by operand #i of h's *success return*: the only return of h whose error operand is the
// nil constant (or h's only return, when h has no error result). That is what the value is wherever the caller has
// established that the error result of that very call is nil — which is checked (nilCheckedAt) at the place the value is
// used, unless every other return of h is unreachable anyway. Every helper is entered through one call instruction only
// (calls): two values resolved into the same helper are then operands of the same invocation, so SSA identity inside the
// helper means identity of the run-time values.
type helperResolver struct {
	outer *ssa.Function
	calls map[*ssa.Function]*ssa.Call
	succ  map[*ssa.Function]*ssa.Return
	env   map[*ssa.Parameter]ssa.Value
	why   string // why a resolution was refused (for the report)
}

func newHelperResolver(outer *ssa.Function) *helperResolver {
	return &helperResolver{outer: outer, calls: map[*ssa.Function]*ssa.Call{}, succ: map[*ssa.Function]*ssa.Return{}, env: map[*ssa.Parameter]ssa.Value{}}
}

// successReturn: the single return of h with a nil-constant error; failing reports whether h has other returns, all of
// which must carry an error that is certainly non-nil (so that "the error is nil" identifies the success return).
func successReturn(h *ssa.Function) (succ *ssa.Return, failing bool, ok bool) {
	ei := ir.ErrorResultIndex(h.Signature)
	rets := ir.Returns(h)
	if ei < 0 {
		if len(rets) == 1 {
			return rets[0], false, true
		}
		return nil, false, false
	}
	for _, r := range rets {
		switch {
		case ei < len(r.Results) && ir.IsNilConst(r.Results[ei]):
			if succ != nil {
				return nil, false, false
			}
			succ = r
		case ei < len(r.Results) && knownNonNilError(r.Results[ei], r):
			failing = true
		default:
			// a return whose error may or may not be nil: with a nil error the results could be its operands
			return nil, false, false
		}
	}
	return succ, failing, succ != nil
}

// resolve follows v (seen from instruction use, which sits in the function of the call or in a closure nested in it).
func (H *helperResolver) resolve(v ssa.Value, use ssa.Instruction) ssa.Value {
	for depth := 0; depth < 4; depth++ {
		v = ir.Origin(v)
		call, idx, ok := tupleResult(v)
		if !ok {
			return v
		}
		h := ownHelper(call)
		if h == nil {
			return v
		}
		if prev, seen := H.calls[h]; seen && prev != call {
			H.why = "two different calls of " + ir.FuncName(h)
			return v
		}
		succ, failing, ok := successReturn(h)
		if !ok || idx >= len(succ.Results) {
			// legacy shape: a helper with one return statement
			if rets := ir.Returns(h); len(rets) == 1 && idx < len(rets[0].Results) {
				succ, failing = rets[0], false
			} else {
				H.why = ir.FuncName(h) + " has no single success return"
				return v
			}
		}
		if failing {
			ub := useBlockIn(call.Parent(), use)
			if ub == nil || !nilCheckedAt(call, ir.ErrorResultIndex(h.Signature), ub) {
				H.why = "the error of " + ir.FuncName(h) + " is not known to be nil where its result is used"
				return v
			}
		}
		H.calls[h], H.succ[h] = call, succ
		for i, p := range h.Params {
			if i < len(call.Call.Args) {
				H.env[p] = call.Call.Args[i]
			}
		}
		v, use = succ.Results[idx], succ
	}
	return v
}

// back maps a parameter of an entered helper to the argument it was called with.
func (H *helperResolver) back(v ssa.Value) ssa.Value {
	for i := 0; i < 4; i++ {
		p, isP := ir.Strip(ir.ResolveCell(v)).(*ssa.Parameter)
		if !isP || H.env[p] == nil {
			return v
		}
		v = H.env[p]
	}
	return v
}

func runHASHNAME(c *Ctx) {
	P := c.P
	sites := writerStoreSiteInfos(c)
	if len(sites) == 0 {
		c.AnchorMissing("Persist.Store call site")
		return
	}
	site := sites[0]
	fn := site.Call.Parent()
	outer := ir.Outermost(fn)
	name, bytes := site.Name, site.Bytes
	if name == nil || bytes == nil {
		c.AnchorMissing("Persist.Store(ctx, name, bytes)")
		return
	}
	pos := P.InstrPos(site.Call)
	H := newHelperResolver(outer)
	// --- name
	nameCell := ir.CellOf(name)
	var nameDef ssa.Value
	if nameCell != nil {
		sts, _ := ir.AllCellStores(nameCell)
		if len(sts) != 1 {
			c.Violation(outer, pos, "name variable assigned more than once", fmt.Sprintf("the name passed to Persist.Store is a variable with %d assignments; it must be the hash and nothing else", len(sts)))
			return
		}
		nameDef = sts[0].Val
		// escapes: only as the node's recorded source; nobody stores through a source pointer
		if w := storesThroughSource(c); w != nil {
			c.Violation(w.Parent(), P.InstrPos(w), "store through node.source", "a name string reachable from node.source is overwritten in place; recorded names must be immutable")
		}
	} else {
		nameDef = ir.Origin(name)
	}
	nameDef0 := nameDef
	// the name may be computed by a helper (hashOf(bytes), node.encode(…)): look inside, mapping its parameters back
	if inner := H.resolve(nameDef, site.Call); inner != nameDef {
		if _, isEnc := staticCalleeName(ir.Origin(inner)); isEnc != nil {
			nameDef = ir.Origin(inner)
		}
	}
	back := H.back
	cn, call := staticCalleeName(nameDef)
	if call == nil || cn != "(*encoding/base64.Encoding).EncodeToString" {
		why := ""
		if H.why != "" {
			why = "; " + H.why
		}
		c.Violation(outer, pos, "name is not base64 EncodeToString(hash)", "the name given to Persist.Store is not produced by base64 EncodeToString ("+cn+")"+why)
		return
	}
	enc := call.Call.Args[0]
	g, _ := ir.Origin(enc).(*ssa.UnOp)
	okEnc := false
	if g != nil {
		if gl, ok := g.X.(*ssa.Global); ok && gl.Pkg.Pkg.Path() == "encoding/base64" && gl.Name() == "RawURLEncoding" {
			okEnc = true
		}
	}
	if okEnc {
		c.OK(pos, "name encoding", "base64.RawURLEncoding.EncodeToString", false)
	} else {
		c.Violation(outer, P.InstrPos(call), "name not encoded with base64.RawURLEncoding", "node names must be the unpadded URL-safe base64 of the digest; a different alphabet or padding orphans every persisted tree and breaks name = hash(bytes)")
	}
	// digest
	sl, _ := call.Call.Args[1].(*ssa.Slice)
	var digest ssa.Value
	if sl != nil && sl.Low == nil && sl.High == nil {
		if a, ok := sl.X.(*ssa.Alloc); ok {
			if st := ir.SingleStore(a); st != nil {
				digest = st.Val
			} else if sts, _ := ir.AllCellStores(a); len(sts) == 1 {
				digest = sts[0].Val
			}
		}
	}
	dn, dcall := staticCalleeName(digest)
	okDigest := dcall != nil && strings.HasSuffix(dn, ".Sum256") && strings.Contains(dn, "blake2b")
	if !okDigest {
		c.Violation(outer, P.InstrPos(call), "digest is not blake2b.Sum256 of the whole array", "the name must be the BLAKE2b-256 digest (all 32 bytes) of the bytes written (got "+dn+")")
		return
	}
	c.OK(P.InstrPos(dcall), "digest", dn+"(bytes), whole 32-byte array", false)
	// bytes identity: by SSA value in the function that stores, or — when name and bytes are results of one invocation of
	// a helper — by SSA value inside that helper
	hashed := dcall.Call.Args[0]
	bytesIn := H.resolve(bytes, site.Call)
	switch {
	case ir.SameOrigin(back(hashed), bytes):
		c.OK(pos, "bytes hashed are the bytes stored", "same SSA value ("+ir.Sym(ir.Origin(bytes))+")", false)
	case bytesIn != ir.Origin(bytes) && bytesIn.Parent() == hashed.Parent() && ir.SameOrigin(hashed, bytesIn):
		c.OK(pos, "bytes hashed are the bytes stored", "same SSA value ("+ir.Sym(ir.Origin(bytesIn))+") in "+ir.FuncName(bytesIn.Parent())+", which returns the bytes and their name together", false)
	default:
		c.Violation(outer, pos, "bytes stored differ from bytes hashed", "Persist.Store is given a different byte slice than the one the name was computed from")
	}
	// the bytes are the first result of the marshal parameter call
	bo := ir.Origin(bytesIn)
	if ex, ok := bo.(*ssa.Extract); ok {
		if mc, ok := ex.Tuple.(*ssa.Call); ok && ex.Index == 0 {
			c.OK(P.InstrPos(mc), "bytes origin", "result #0 of "+c.Facts.External(mc)+callNames(c, mc), false)
		}
	}
	// non-error results of the node store
	var recv *ssa.Parameter
	if len(outer.Params) > 0 && isNodePtr(outer.Params[0].Type()) {
		recv = outer.Params[0]
	}
	ei := ir.ErrorResultIndex(outer.Signature)
	isName := func(v ssa.Value) bool {
		return (nameCell != nil && ir.CellOf(v) == nameCell) || ir.Origin(v) == nameDef || ir.Origin(v) == nameDef0
	}
	for _, r := range ir.Returns(outer) {
		if ei < 0 || len(r.Results) == 0 {
			continue
		}
		checkStoreReturn(c, outer, r, 0, ei, recv, isName, false, nil, 0)
	}
}

// retFilter restricts the returns of a helper to those consistent with what the caller knows about the results of the
// call when it passes them on.
type retFilter struct {
	call  *ssa.Call
	block *ssa.BasicBlock // where the caller returns the helper's results
}

// excludes: return r of the called helper cannot be the one taken, given the branch facts that hold at F.block about
// the other results of the call (a boolean result tested, the error result compared with nil).
func (F *retFilter) excludes(r *ssa.Return) bool {
	for _, f := range ir.FactsAt(F.block) {
		cond, truth := f.Cond, f.Truth
		for {
			u, ok := cond.(*ssa.UnOp)
			if !ok || u.Op != token.NOT {
				break
			}
			truth = !truth
			cond = u.X
		}
		if cl, idx, ok := tupleResult(cond); ok && cl == F.call && idx < len(r.Results) {
			if v, isC := ir.ConstBool(r.Results[idx]); isC && v != truth {
				return true
			}
		}
		if tv, tnn, isNil := ir.NilTest(f.Cond); isNil {
			if cl, idx, ok := tupleResult(tv); ok && cl == F.call && idx < len(r.Results) {
				nonNil := f.Truth == tnn
				if ir.IsNilConst(r.Results[idx]) && nonNil {
					return true
				}
				if knownNonNilError(r.Results[idx], r) && !nonNil {
					return true
				}
			}
		}
	}
	return false
}

// checkStoreReturn examines one return of the node store, or of a helper whose results the node store returns as they
// are: when the error operand can be nil, the name operand (#vi) must be the computed hash name, or the recorded source
// name *node.source of the very node being stored, returned only for a node that is not dirty (the return is unreachable
// under the dirty valuation of the node), or the result of a same-package helper that is handed the node and whose
// returns — those consistent with what the caller tested — satisfy the same. A return whose error is certainly non-nil,
// or whose name is the empty constant, names nothing.
func checkStoreReturn(c *Ctx, fn *ssa.Function, r *ssa.Return, vi, ei int, node *ssa.Parameter, isName func(ssa.Value) bool, cleanOnly bool, via []string, depth int) {
	P := c.P
	if vi >= len(r.Results) || ei >= len(r.Results) {
		return
	}
	v, e := r.Results[vi], r.Results[ei]
	where := ir.FuncName(fn)
	if len(via) > 0 {
		where += " (results returned by " + strings.Join(via, " ← ") + ")"
	}
	if k, isC := ir.Strip(v).(*ssa.Const); isC && k.Value != nil && k.Value.ExactString() == `""` && !ir.IsNilConst(e) {
		return // ("", err): no name
	}
	if !ir.IsNilConst(e) && knownNonNilError(e, r) {
		return // an error return: the name is not used
	}
	if isName != nil && isName(v) {
		c.OK(P.InstrPos(r), "node store returns the computed name", "hash", false)
		return
	}
	if p := sourceDerefOf(v); p != nil {
		switch {
		case node == nil || p != node:
			c.Violation(fn, P.InstrPos(r), "node store returns the recorded source of another node", "the name returned for a node is the recorded name of a different node")
		case !cleanOnly && reachUnderVal(fn, node, valDirty, 0)[r.Block()]:
			c.Violation(fn, P.InstrPos(r), "recorded source name returned for a dirty node",
				"the recorded name of a node is returned although the node may be dirty: the link stored in the parent would name the old contents, and the modification is never written")
		default:
			c.OK(P.InstrPos(r), "node store returns the recorded source name", "*node.source of a clean node (unreachable when the node is dirty) in "+where, false)
		}
		return
	}
	// (name, err) both results of one call of a helper that is handed the node
	if cl, idx, ok := tupleResult(v); ok && depth < 3 && node != nil {
		if ecl, eidx, ok2 := tupleResult(e); ir.IsNilConst(e) || (ok2 && ecl == cl) {
			if h, q := helperParamFor(cl, node); h != nil && cl.Parent() == fn {
				if ir.IsNilConst(e) {
					eidx = -1
				}
				F := &retFilter{call: cl, block: r.Block()}
				// the helper is entered for a clean node only when the call is unreachable under the dirty valuation
				hClean := cleanOnly || !reachUnderVal(fn, node, valDirty, 0)[cl.Block()]
				n := 0
				for _, hr := range ir.Returns(h) {
					if F.excludes(hr) {
						continue
					}
					n++
					if eidx < 0 {
						// the caller substitutes a nil error: every remaining return of the helper must name the node
						checkHelperReturnNilErr(c, h, hr, idx, q, hClean, append([]string{ir.FuncName(fn)}, via...), depth+1)
						continue
					}
					checkStoreReturn(c, h, hr, idx, eidx, q, nil, hClean, append([]string{ir.FuncName(fn)}, via...), depth+1)
				}
				if n > 0 {
					return
				}
			}
		}
	}
	c.Violation(fn, P.InstrPos(r), "node store returns a name that is neither the hash nor the recorded source", "the link stored in the parent would not be the content hash of the child")
}

// checkHelperReturnNilErr: the caller returns result #vi of helper h with a nil error.
func checkHelperReturnNilErr(c *Ctx, h *ssa.Function, r *ssa.Return, vi int, node *ssa.Parameter, cleanOnly bool, via []string, depth int) {
	if vi >= len(r.Results) {
		return
	}
	if p := sourceDerefOf(r.Results[vi]); p != nil && p == node && (cleanOnly || !reachUnderVal(h, node, valDirty, 0)[r.Block()]) {
		c.OK(c.P.InstrPos(r), "node store returns the recorded source name", "*node.source of a clean node in "+ir.FuncName(h), false)
		return
	}
	c.Violation(h, c.P.InstrPos(r), "node store returns a name that is neither the hash nor the recorded source", "the link stored in the parent would not be the content hash of the child")
}

func callNames(c *Ctx, ci ssa.CallInstruction) string {
	var ns []string
	for _, f := range c.Facts.Callees(ci) {
		ns = append(ns, ir.FuncName(f))
	}
	if len(ns) == 0 {
		return ""
	}
	return " → " + strings.Join(ns, "/")
}

// sourceDerefOf: v is **(&p.source) for a node parameter p (seen through the cell of a captured parameter): p.
func sourceDerefOf(v ssa.Value) *ssa.Parameter {
	u, ok := v.(*ssa.UnOp)
	if !ok || u.Op != token.MUL {
		return nil
	}
	u2, ok := u.X.(*ssa.UnOp)
	if !ok || u2.Op != token.MUL {
		return nil
	}
	fa, ok := u2.X.(*ssa.FieldAddr)
	if !ok || !isNodePtr(fa.X.Type()) || ir.FieldName(fa.X.Type(), fa.Field) != "source" {
		return nil
	}
	p, _ := ir.ResolveCell(fa.X).(*ssa.Parameter)
	return p
}

// storesThroughSource finds `*node.source = …`.
func storesThroughSource(c *Ctx) *ssa.Store {
	for _, fn := range c.P.Funcs {
		for _, b := range fn.Blocks {
			for _, ins := range b.Instrs {
				st, ok := ins.(*ssa.Store)
				if !ok {
					continue
				}
				if u, ok := st.Addr.(*ssa.UnOp); ok && u.Op == token.MUL {
					if fa, ok := u.X.(*ssa.FieldAddr); ok && isNodePtr(fa.X.Type()) && ir.FieldName(fa.X.Type(), fa.Field) == "source" {
						return st
					}
				}
			}
		}
	}
	return nil
}

// encodeSet: functions that produce node bytes.
func encodeSet(c *Ctx) map[*ssa.Function]bool {
	sites := writerStoreSites(c)
	if len(sites) == 0 {
		return nil
	}
	outer := ir.Outermost(sites[0].Parent())
	flush := nodeStoreDriver(c)
	if flush == nil {
		return nil
	}
	// the marshal argument: a func(interface{}) ([]byte, error) closure passed by flush to the node store
	var roots []*ssa.Function
	for _, cs := range c.P.Callers[outer] {
		if cs.Parent() != flush {
			continue
		}
		for _, a := range cs.Common().Args {
			var f *ssa.Function
			if mc, ok := a.(*ssa.MakeClosure); ok {
				f = mc.Fn.(*ssa.Function)
			} else if ff, ok := a.(*ssa.Function); ok {
				f = ff
			}
			// a method value (m.encode) is a closure of a synthetic wrapper: use the method itself
			for i := 0; f != nil && f.Synthetic != "" && i < 3; i++ {
				var target *ssa.Function
				for _, b := range f.Blocks {
					for _, ins := range b.Instrs {
						if ci, ok := ins.(ssa.CallInstruction); ok {
							if sc := ir.Callee(ci.Common()); sc != nil {
								target = sc
							}
						}
					}
				}
				f = target
			}
			if f != nil {
				roots = append(roots, f)
			}
		}
	}
	if len(roots) == 0 {
		// the callback may travel in a field of an options struct (store(ctx, &storeEnv{marshal: …}))
		if cl, _ := flushMarshalClosure(c); cl != nil {
			roots = append(roots, cl)
		}
	}
	if len(roots) == 0 {
		return nil
	}
	return c.Facts.Reach(roots...)
}

func runDET(c *Ctx) {
	P := c.P
	set := encodeSet(c)
	if len(set) == 0 {
		c.AnchorMissing("marshal closure passed by flush to the node store")
		return
	}
	badPkgs := []string{"time", "math/rand", "math/rand/v2", "crypto/rand", "os", "runtime", "unsafe", "sync/atomic"}
	for _, fn := range P.Funcs {
		if !set[fn] {
			continue
		}
		bad := false
		for _, b := range fn.Blocks {
			for _, ins := range b.Instrs {
				pos := P.InstrPos(ins)
				switch x := ins.(type) {
				case *ssa.Range:
					if _, isMap := x.X.Type().Underlying().(*types.Map); isMap {
						bad = true
						c.Violation(fn, pos, "map iteration on the encode path", "map iteration order is random: the same node would encode to different bytes, hence different names")
					}
				case *ssa.Go, *ssa.Select:
					bad = true
					c.Violation(fn, pos, "concurrency on the encode path", "goroutines/select on the encode path make the byte order schedule-dependent")
				case ssa.CallInstruction:
					com := x.Common()
					if bi, ok := com.Value.(*ssa.Builtin); ok && bi.Name() == "cap" {
						bad = true
						c.Violation(fn, pos, "cap() on the encode path", "slice capacity is not a function of the node's contents")
					}
					if sc := ir.Callee(com); sc != nil && sc.Pkg != nil {
						for _, bp := range badPkgs {
							if sc.Pkg.Pkg.Path() == bp {
								bad = true
								c.Violation(fn, pos, "call of "+sc.Pkg.Pkg.Path()+"."+sc.Name()+" on the encode path", "the bytes of a node must depend on its entries and child names alone")
							}
						}
						if sc.Pkg.Pkg.Path() == "fmt" && len(com.Args) > 0 {
							for _, a := range com.Args {
								if k, ok := a.(*ssa.Const); ok && k.Value != nil && strings.Contains(k.Value.ExactString(), "%p") {
									bad = true
									c.Violation(fn, pos, "%p on the encode path", "pointer values differ between runs")
								}
							}
						}
					}
				}
			}
		}
		// a failed element marshal must fail the encoding: otherwise different values share bytes
		for _, ci := range CallsOf(fn) {
			call, ok := ci.(*ssa.Call)
			if !ok || ir.ErrorResultIndex(call.Call.Signature()) < 0 {
				continue
			}
			ext := c.Facts.External(ci)
			fall := strings.HasPrefix(ext, "callback:")
			for _, callee := range c.Facts.Callees(ci) {
				if c.Facts.MayFail[callee] {
					fall = true
				}
			}
			if !fall {
				continue
			}
			var errV ssa.Value = call
			if call.Call.Signature().Results().Len() > 1 {
				errV = nil
				if call.Referrers() != nil {
					for _, r := range *call.Referrers() {
						if ex, ok := r.(*ssa.Extract); ok && ex.Index == ir.ErrorResultIndex(call.Call.Signature()) {
							errV = ex
						}
					}
				}
			}
			if errV == nil {
				bad = true
				c.Violation(fn, P.InstrPos(call), "marshal error ignored on the encode path", "an element that cannot be encoded is silently written as something else")
				continue
			}
			if ok2, ret := errorPropagated(fn, call, errV); !ok2 {
				bad = true
				c.Violation(fn, P.InstrPos(ret), "marshal error dropped on the encode path",
					"when encoding an element fails the node is still encoded (with an empty body for it): values that cannot be marshalled (NaN, ±Inf, channels) all produce the same bytes, so different contents get the same name")
			}
		}
		if !bad {
			c.OK(P.Pos(fn.Pos()), "encode-path function "+ir.FuncName(fn), "no nondeterminism source; element marshal errors fail the encoding", false)
		}
	}
}

func runENCINPUTS(c *Ctx) {
	P := c.P
	set := encodeSet(c)
	if len(set) == 0 {
		c.AnchorMissing("marshal closure passed by flush to the node store")
		return
	}
	for _, fn := range P.Funcs {
		if !set[fn] {
			continue
		}
		bad := false
		for _, b := range fn.Blocks {
			for _, ins := range b.Instrs {
				pos := P.InstrPos(ins)
				var t types.Type
				var idx int
				switch x := ins.(type) {
				case *ssa.FieldAddr:
					t, idx = x.X.Type(), x.Field
				case *ssa.Field:
					t, idx = x.X.Type(), x.Field
				case ssa.CallInstruction:
					if strings.HasPrefix(c.Facts.External(x), "callback:") {
						for _, a := range x.Common().Args {
							if mi, ok := a.(*ssa.MakeInterface); ok {
								if ir.IsNamed(mi.X.Type(), "mastNode") || isNodePtr(mi.X.Type()) {
									bad = true
									c.Violation(fn, pos, "mastNode handed to the user marshaler", "the user marshaler must see the bare Node{Key,Value,Link}; a mastNode exposes (and may encode) bookkeeping")
								}
							}
						}
					}
					continue
				default:
					continue
				}
				if isNodePtr(t) || ir.IsNamed(t, "mastNode") {
					name := ir.FieldName(t, idx)
					if name != "Node" {
						bad = true
						c.Violation(fn, pos, "encode path reads ."+name, "node bookkeeping (dirty/shared/expected/source) must never influence the bytes of a node")
					}
				}
			}
		}
		// the encoder is handed the node's entries as they are: nothing on the encode path replaces or edits the
		// Key or Value list of the node being encoded (dropping the Link list of a leaf is the one tabled edit, TRIM)
		for _, b := range fn.Blocks {
			if ir.IsDead(b) {
				continue
			}
			for _, ins := range b.Instrs {
				st, ok := ins.(*ssa.Store)
				if !ok {
					continue
				}
				var fa *ssa.FieldAddr
				switch a := st.Addr.(type) {
				case *ssa.FieldAddr:
					fa = a
				case *ssa.IndexAddr:
					if ld, ok := a.X.(*ssa.UnOp); ok && ld.Op == token.MUL {
						fa, _ = ld.X.(*ssa.FieldAddr)
					}
				}
				if fa == nil {
					continue
				}
				name := ir.FieldName(fa.X.Type(), fa.Field)
				if name != "Key" && name != "Value" {
					continue
				}
				if bt := fa.X.Type(); !(isNodePtr(bt) || ir.IsPtrToNamed(bt, "Node")) {
					continue
				}
				bad = true
				c.Violation(fn, P.InstrPos(st), "encode path rewrites the node's ."+name,
					"the bytes of a node, and so its name, must be a function of all its entries: replacing or editing the "+name+" list on the way to the encoder makes two versions that differ there persist under one name (and the stored node loses them)")
			}
		}
		if !bad {
			c.OK(P.Pos(fn.Pos()), "encode-path function "+ir.FuncName(fn), "reads only Key/Value/Link, and leaves Key and Value as they are", false)
		}
	}
}
