package rules

import (
	"fmt"
	"go/token"
	"go/types"
	"strings"

	"golang.org/x/tools/go/ssa"

	"mastcheck/ir"
)

// C08: content addressing. name = b64url(BLAKE2b-256(bytes)) at the only
// Persist.Store call site, by SSA value identity; deterministic encoding.

func init() {
	Register(&Rule{ID: "STOREONCE", Props: []string{"C08", "C13", "C02"}, Min: 2,
		Doc: "package mast has exactly one Persist.Store call site, inside the closure queued by the node store, and the node store is called only by itself and by flush: " +
			"persisted nodes are written nowhere else, under no other naming scheme.",
		Run: runSTOREONCE})
	Register(&Rule{ID: "HASHNAME", Props: []string{"C08", "C03"}, Min: 4,
		Doc: "at the Persist.Store site the name argument is base64.RawURLEncoding.EncodeToString(h[:]) with h = blake2b.Sum256(b), and the bytes argument is the same value b " +
			"(the encoder's result); the node store's non-error results are that name or the node's recorded source name; nothing can overwrite the name variable.",
		Run: runHASHNAME})
	Register(&Rule{ID: "DET", Props: []string{"C08", "C04"}, Min: 3,
		Doc: "the functions that produce a node's bytes (everything reachable from the marshal closure flush hands to the node store) contain no source of nondeterminism: " +
			"no map iteration, no time/rand/os/runtime call, no %p formatting, no cap(), no goroutine or select.",
		Run: runDET})
	Register(&Rule{ID: "ENCINPUTS", Props: []string{"C08"}, Min: 3,
		Doc: "the encode path reads only Key, Value and Link of a node (never dirty/shared/expected/source), and the value handed to the user marshaler has type Node, not mastNode.",
		Run: runENCINPUTS})
}

func runSTOREONCE(c *Ctx) {
	P := c.P
	sites := storeSites(c)
	if len(sites) == 0 {
		c.Violation(nil, "-", "no Persist.Store call", "package mast never calls Persist.Store: nothing is persisted")
		return
	}
	for i, s := range sites {
		if i == 0 {
			c.OK(P.InstrPos(s), "Persist.Store call site in "+ir.FuncName(s.Parent()), "the single store site", false)
		} else {
			c.Violation(s.Parent(), P.InstrPos(s), "second Persist.Store call site", "a second place writes to the store; the name=hash(bytes) discipline is established only at the first")
		}
	}
	outer := ir.Outermost(sites[0].Parent())
	sh := findFlush(c)
	// helpers of the node store: functions all of whose callers are the node store or its helpers
	family := map[*ssa.Function]bool{outer: true}
	for changed := true; changed; {
		changed = false
		for _, fn := range c.P.Funcs {
			if family[fn] || fn.Parent() != nil || len(c.P.Callers[fn]) == 0 {
				continue
			}
			all := true
			for _, cs := range c.P.Callers[fn] {
				if !family[ir.Outermost(cs.Parent())] {
					all = false
				}
			}
			if all {
				family[fn] = true
				changed = true
			}
		}
	}
	for _, cs := range c.P.Callers[outer] {
		caller := ir.Outermost(cs.Parent())
		if family[caller] || (sh != nil && caller == sh.F) {
			c.OK(P.InstrPos(cs), "caller of "+ir.FuncName(outer)+": "+ir.FuncName(caller), "recursion (possibly through a helper of the node store) or flush", false)
		} else {
			c.Violation(caller, P.InstrPos(cs), "node store called outside flush", ir.FuncName(caller)+" stores nodes without flush's completion barrier and error handling")
		}
	}
}

func staticCalleeName(v ssa.Value) (string, *ssa.Call) {
	call, ok := v.(*ssa.Call)
	if !ok {
		return "", nil
	}
	sc := ir.Callee(call.Call)
	if sc == nil {
		return "", call
	}
	return sc.String(), call
}

func runHASHNAME(c *Ctx) {
	P := c.P
	sites := storeSites(c)
	if len(sites) == 0 {
		c.AnchorMissing("Persist.Store call site")
		return
	}
	site := sites[0]
	fn := site.Parent()
	outer := ir.Outermost(fn)
	args := site.Common().Args // ctx, name, bytes
	if len(args) != 3 {
		c.AnchorMissing("Persist.Store(ctx, name, bytes)")
		return
	}
	pos := P.InstrPos(site)
	// --- name
	nameCell := ir.CellOf(args[1])
	var nameDef ssa.Value
	if nameCell != nil {
		sts, _ := ir.AllCellStores(nameCell)
		if len(sts) != 1 {
			c.Violation(outer, pos, "name variable assigned more than once", fmt.Sprintf("the name passed to Persist.Store is a variable with %d assignments; it must be the hash and nothing else", len(sts)))
			return
		}
		nameDef = sts[0].Val
		// escapes: only as the node's recorded source; nobody stores through a source pointer
		if w := storesThroughSource(c); w != nil {
			c.Violation(w.Parent(), P.InstrPos(w), "store through node.source", "a name string reachable from node.source is overwritten in place; recorded names must be immutable")
		}
	} else {
		nameDef = ir.Origin(args[1])
	}
	// the name may be computed by a helper (hashOf(bytes)): look inside, mapping its parameters back
	var henv map[*ssa.Parameter]ssa.Value
	if inner, env, ok := helperResult(nameDef); ok {
		if _, isEnc := staticCalleeName(ir.Origin(inner)); isEnc != nil {
			nameDef, henv = ir.Origin(inner), env
		}
	}
	back := func(v ssa.Value) ssa.Value {
		if p, isP := ir.Strip(ir.ResolveCell(v)).(*ssa.Parameter); isP && henv != nil && henv[p] != nil {
			return henv[p]
		}
		return v
	}
	cn, call := staticCalleeName(nameDef)
	if call == nil || cn != "(*encoding/base64.Encoding).EncodeToString" {
		c.Violation(outer, pos, "name is not base64 EncodeToString(hash)", "the name given to Persist.Store is not produced by base64 EncodeToString ("+cn+")")
		return
	}
	enc := call.Call.Args[0]
	g, _ := ir.Origin(enc).(*ssa.UnOp)
	okEnc := false
	if g != nil {
		if gl, ok := g.X.(*ssa.Global); ok && gl.Pkg.Pkg.Path() == "encoding/base64" && gl.Name() == "RawURLEncoding" {
			okEnc = true
		}
	}
	if okEnc {
		c.OK(pos, "name encoding", "base64.RawURLEncoding.EncodeToString", false)
	} else {
		c.Violation(outer, P.InstrPos(call), "name not encoded with base64.RawURLEncoding", "node names must be the unpadded URL-safe base64 of the digest; a different alphabet or padding orphans every persisted tree and breaks name = hash(bytes)")
	}
	// digest
	sl, _ := call.Call.Args[1].(*ssa.Slice)
	var digest ssa.Value
	if sl != nil && sl.Low == nil && sl.High == nil {
		if a, ok := sl.X.(*ssa.Alloc); ok {
			if st := ir.SingleStore(a); st != nil {
				digest = st.Val
			} else if sts, _ := ir.AllCellStores(a); len(sts) == 1 {
				digest = sts[0].Val
			}
		}
	}
	dn, dcall := staticCalleeName(digest)
	okDigest := dcall != nil && strings.HasSuffix(dn, ".Sum256") && strings.Contains(dn, "blake2b")
	if !okDigest {
		c.Violation(outer, P.InstrPos(call), "digest is not blake2b.Sum256 of the whole array", "the name must be the BLAKE2b-256 digest (all 32 bytes) of the bytes written (got "+dn+")")
		return
	}
	c.OK(P.InstrPos(dcall), "digest", dn+"(bytes), whole 32-byte array", false)
	// bytes identity
	if ir.SameOrigin(back(dcall.Call.Args[0]), args[2]) {
		c.OK(pos, "bytes hashed are the bytes stored", "same SSA value ("+ir.Sym(ir.Origin(args[2]))+")", false)
	} else {
		c.Violation(outer, pos, "bytes stored differ from bytes hashed", "Persist.Store is given a different byte slice than the one the name was computed from")
	}
	// the bytes are the first result of the marshal parameter call
	bo := ir.Origin(args[2])
	if ex, ok := bo.(*ssa.Extract); ok {
		if mc, ok := ex.Tuple.(*ssa.Call); ok && ex.Index == 0 {
			c.OK(P.InstrPos(mc), "bytes origin", "result #0 of "+c.Facts.External(mc)+callNames(c, mc), false)
		}
	}
	// non-error results of the node store
	ei := ir.ErrorResultIndex(outer.Signature)
	for _, r := range ir.Returns(outer) {
		if ei < 0 || !ir.IsNilConst(r.Results[ei]) {
			continue
		}
		v := r.Results[0]
		switch {
		case nameCell != nil && ir.CellOf(v) == nameCell, ir.Origin(v) == nameDef:
			c.OK(P.InstrPos(r), "node store returns the computed name", "hash", false)
		case isSourceDeref(v, outer):
			c.OK(P.InstrPos(r), "node store returns the recorded source name", "*node.source of a clean node", false)
		default:
			c.Violation(outer, P.InstrPos(r), "node store returns a name that is neither the hash nor the recorded source", "the link stored in the parent would not be the content hash of the child")
		}
	}
}

func callNames(c *Ctx, ci ssa.CallInstruction) string {
	var ns []string
	for _, f := range c.Facts.Callees(ci) {
		ns = append(ns, ir.FuncName(f))
	}
	if len(ns) == 0 {
		return ""
	}
	return " → " + strings.Join(ns, "/")
}

// isSourceDeref: v is **(&recv.source).
func isSourceDeref(v ssa.Value, fn *ssa.Function) bool {
	u, ok := v.(*ssa.UnOp)
	if !ok || u.Op != token.MUL {
		return false
	}
	u2, ok := u.X.(*ssa.UnOp)
	if !ok || u2.Op != token.MUL {
		return false
	}
	fa, ok := u2.X.(*ssa.FieldAddr)
	if !ok || !isNodePtr(fa.X.Type()) || ir.FieldName(fa.X.Type(), fa.Field) != "source" {
		return false
	}
	_, isParam := ir.ResolveCell(fa.X).(*ssa.Parameter)
	return isParam
}

// storesThroughSource finds `*node.source = …`.
func storesThroughSource(c *Ctx) *ssa.Store {
	for _, fn := range c.P.Funcs {
		for _, b := range fn.Blocks {
			for _, ins := range b.Instrs {
				st, ok := ins.(*ssa.Store)
				if !ok {
					continue
				}
				if u, ok := st.Addr.(*ssa.UnOp); ok && u.Op == token.MUL {
					if fa, ok := u.X.(*ssa.FieldAddr); ok && isNodePtr(fa.X.Type()) && ir.FieldName(fa.X.Type(), fa.Field) == "source" {
						return st
					}
				}
			}
		}
	}
	return nil
}

// encodeSet: functions that produce node bytes.
func encodeSet(c *Ctx) map[*ssa.Function]bool {
	sites := storeSites(c)
	if len(sites) == 0 {
		return nil
	}
	outer := ir.Outermost(sites[0].Parent())
	sh := findFlush(c)
	if sh == nil {
		return nil
	}
	// the marshal argument: a func(interface{}) ([]byte, error) closure passed by flush to the node store
	var roots []*ssa.Function
	for _, cs := range c.P.Callers[outer] {
		if cs.Parent() != sh.F {
			continue
		}
		for _, a := range cs.Common().Args {
			var f *ssa.Function
			if mc, ok := a.(*ssa.MakeClosure); ok {
				f = mc.Fn.(*ssa.Function)
			} else if ff, ok := a.(*ssa.Function); ok {
				f = ff
			}
			// a method value (m.encode) is a closure of a synthetic wrapper: use the method itself
			for i := 0; f != nil && f.Synthetic != "" && i < 3; i++ {
				var target *ssa.Function
				for _, b := range f.Blocks {
					for _, ins := range b.Instrs {
						if ci, ok := ins.(ssa.CallInstruction); ok {
							if sc := ir.Callee(ci.Common()); sc != nil {
								target = sc
							}
						}
					}
				}
				f = target
			}
			if f != nil {
				roots = append(roots, f)
			}
		}
	}
	if len(roots) == 0 {
		return nil
	}
	return c.Facts.Reach(roots...)
}

func runDET(c *Ctx) {
	P := c.P
	set := encodeSet(c)
	if len(set) == 0 {
		c.AnchorMissing("marshal closure passed by flush to the node store")
		return
	}
	badPkgs := []string{"time", "math/rand", "math/rand/v2", "crypto/rand", "os", "runtime", "unsafe", "sync/atomic"}
	for _, fn := range P.Funcs {
		if !set[fn] {
			continue
		}
		bad := false
		for _, b := range fn.Blocks {
			for _, ins := range b.Instrs {
				pos := P.InstrPos(ins)
				switch x := ins.(type) {
				case *ssa.Range:
					if _, isMap := x.X.Type().Underlying().(*types.Map); isMap {
						bad = true
						c.Violation(fn, pos, "map iteration on the encode path", "map iteration order is random: the same node would encode to different bytes, hence different names")
					}
				case *ssa.Go, *ssa.Select:
					bad = true
					c.Violation(fn, pos, "concurrency on the encode path", "goroutines/select on the encode path make the byte order schedule-dependent")
				case ssa.CallInstruction:
					com := x.Common()
					if bi, ok := com.Value.(*ssa.Builtin); ok && bi.Name() == "cap" {
						bad = true
						c.Violation(fn, pos, "cap() on the encode path", "slice capacity is not a function of the node's contents")
					}
					if sc := ir.Callee(com); sc != nil && sc.Pkg != nil {
						for _, bp := range badPkgs {
							if sc.Pkg.Pkg.Path() == bp {
								bad = true
								c.Violation(fn, pos, "call of "+sc.Pkg.Pkg.Path()+"."+sc.Name()+" on the encode path", "the bytes of a node must depend on its entries and child names alone")
							}
						}
						if sc.Pkg.Pkg.Path() == "fmt" && len(com.Args) > 0 {
							for _, a := range com.Args {
								if k, ok := a.(*ssa.Const); ok && k.Value != nil && strings.Contains(k.Value.ExactString(), "%p") {
									bad = true
									c.Violation(fn, pos, "%p on the encode path", "pointer values differ between runs")
								}
							}
						}
					}
				}
			}
		}
		// a failed element marshal must fail the encoding: otherwise different values share bytes
		for _, ci := range CallsOf(fn) {
			call, ok := ci.(*ssa.Call)
			if !ok || ir.ErrorResultIndex(call.Call.Signature()) < 0 {
				continue
			}
			ext := c.Facts.External(ci)
			fall := strings.HasPrefix(ext, "callback:")
			for _, callee := range c.Facts.Callees(ci) {
				if c.Facts.MayFail[callee] {
					fall = true
				}
			}
			if !fall {
				continue
			}
			var errV ssa.Value = call
			if call.Call.Signature().Results().Len() > 1 {
				errV = nil
				if call.Referrers() != nil {
					for _, r := range *call.Referrers() {
						if ex, ok := r.(*ssa.Extract); ok && ex.Index == ir.ErrorResultIndex(call.Call.Signature()) {
							errV = ex
						}
					}
				}
			}
			if errV == nil {
				bad = true
				c.Violation(fn, P.InstrPos(call), "marshal error ignored on the encode path", "an element that cannot be encoded is silently written as something else")
				continue
			}
			if ok2, ret := errorPropagated(fn, call, errV); !ok2 {
				bad = true
				c.Violation(fn, P.InstrPos(ret), "marshal error dropped on the encode path",
					"when encoding an element fails the node is still encoded (with an empty body for it): values that cannot be marshalled (NaN, ±Inf, channels) all produce the same bytes, so different contents get the same name")
			}
		}
		if !bad {
			c.OK(P.Pos(fn.Pos()), "encode-path function "+ir.FuncName(fn), "no nondeterminism source; element marshal errors fail the encoding", false)
		}
	}
}

func runENCINPUTS(c *Ctx) {
	P := c.P
	set := encodeSet(c)
	if len(set) == 0 {
		c.AnchorMissing("marshal closure passed by flush to the node store")
		return
	}
	for _, fn := range P.Funcs {
		if !set[fn] {
			continue
		}
		bad := false
		for _, b := range fn.Blocks {
			for _, ins := range b.Instrs {
				pos := P.InstrPos(ins)
				var t types.Type
				var idx int
				switch x := ins.(type) {
				case *ssa.FieldAddr:
					t, idx = x.X.Type(), x.Field
				case *ssa.Field:
					t, idx = x.X.Type(), x.Field
				case ssa.CallInstruction:
					if strings.HasPrefix(c.Facts.External(x), "callback:") {
						for _, a := range x.Common().Args {
							if mi, ok := a.(*ssa.MakeInterface); ok {
								if ir.IsNamed(mi.X.Type(), "mastNode") || isNodePtr(mi.X.Type()) {
									bad = true
									c.Violation(fn, pos, "mastNode handed to the user marshaler", "the user marshaler must see the bare Node{Key,Value,Link}; a mastNode exposes (and may encode) bookkeeping")
								}
							}
						}
					}
					continue
				default:
					continue
				}
				if isNodePtr(t) || ir.IsNamed(t, "mastNode") {
					name := ir.FieldName(t, idx)
					if name != "Node" {
						bad = true
						c.Violation(fn, pos, "encode path reads ."+name, "node bookkeeping (dirty/shared/expected/source) must never influence the bytes of a node")
					}
				}
			}
		}
		// the encoder is handed the node's entries as they are: nothing on the encode path replaces or edits the
		// Key or Value list of the node being encoded (dropping the Link list of a leaf is the one tabled edit, TRIM)
		for _, b := range fn.Blocks {
			if ir.IsDead(b) {
				continue
			}
			for _, ins := range b.Instrs {
				st, ok := ins.(*ssa.Store)
				if !ok {
					continue
				}
				var fa *ssa.FieldAddr
				switch a := st.Addr.(type) {
				case *ssa.FieldAddr:
					fa = a
				case *ssa.IndexAddr:
					if ld, ok := a.X.(*ssa.UnOp); ok && ld.Op == token.MUL {
						fa, _ = ld.X.(*ssa.FieldAddr)
					}
				}
				if fa == nil {
					continue
				}
				name := ir.FieldName(fa.X.Type(), fa.Field)
				if name != "Key" && name != "Value" {
					continue
				}
				if bt := fa.X.Type(); !(isNodePtr(bt) || ir.IsPtrToNamed(bt, "Node")) {
					continue
				}
				bad = true
				c.Violation(fn, P.InstrPos(st), "encode path rewrites the node's ."+name,
					"the bytes of a node, and so its name, must be a function of all its entries: replacing or editing the "+name+" list on the way to the encoder makes two versions that differ there persist under one name (and the stored node loses them)")
			}
		}
		if !bad {
			c.OK(P.Pos(fn.Pos()), "encode-path function "+ir.FuncName(fn), "reads only Key/Value/Link, and leaves Key and Value as they are", false)
		}
	}
}
