package rules

import (
	"go/constant"
	"go/token"

	"golang.org/x/tools/go/ssa"

	"mastcheck/ir"
)

// Helpers of ITERDONE for stop tests written with errors.Is: errors.Is sees through a chain of Unwrap()s, so a
// level of the walk may wrap the callback's error — but only with something that keeps the chain (fmt.Errorf
// with %w at the error's operand, errors.Join). %v/%s, errors.New(err.Error()) and any other function that
// merely formats the error cut the chain, and the sentinel is not recognised any more.

// iterdoneViaIs is the mode of the anchor being judged (set by runITERDONE around wrapsCallbackError).
var iterdoneViaIs bool

// iterdoneUnknown collects wrapping calls that could not be classified in errors.Is mode (format not constant, …).
var iterdoneUnknown []*ssa.Call

// stopTest: ins tests an error against a package-level sentinel, with ==/!= (viaIs false) or with
// errors.Is(err, Sentinel) (viaIs true). Returns the tested error and the sentinel's global.
func stopTest(ins ssa.Instruction) (errV ssa.Value, g *ssa.Global, viaIs bool) {
	switch x := ins.(type) {
	case *ssa.BinOp:
		if x.Op != token.EQL && x.Op != token.NEQ {
			return nil, nil, false
		}
		switch {
		case isSentinel(x.Y):
			return x.X, x.Y.(*ssa.UnOp).X.(*ssa.Global), false
		case isSentinel(x.X):
			return x.Y, x.X.(*ssa.UnOp).X.(*ssa.Global), false
		}
	case *ssa.Call:
		if isExtFunc(x, "errors", "Is") && len(x.Call.Args) == 2 && isSentinel(x.Call.Args[1]) {
			return x.Call.Args[0], x.Call.Args[1].(*ssa.UnOp).X.(*ssa.Global), true
		}
	}
	return nil, nil, false
}

func isExtFunc(call *ssa.Call, pkg, name string) bool {
	f := ir.Callee(call.Call)
	return f != nil && f.Pkg != nil && f.Pkg.Pkg.Path() == pkg && f.Name() == name && f.Signature.Recv() == nil
}

// stopErrSources: the calls whose error result is the tested value errV of fn. A phi is followed into its edges;
// when the test sits in a small predicate helper (`func isDone(err error) bool`), the helper's call sites supply
// the value (one level). The function that contains each call is returned with it.
func stopErrSources(c *Ctx, fn *ssa.Function, errV ssa.Value) map[*ssa.Call]*ssa.Function {
	out := map[*ssa.Call]*ssa.Function{}
	seen := map[ssa.Value]bool{}
	var walk func(in *ssa.Function, v ssa.Value, depth int)
	walk = func(in *ssa.Function, v ssa.Value, depth int) {
		v = ir.Origin(v)
		if v == nil || seen[v] {
			return
		}
		seen[v] = true
		switch x := v.(type) {
		case *ssa.Call:
			out[x] = in
		case *ssa.Extract:
			if call, ok := x.Tuple.(*ssa.Call); ok {
				out[call] = in
			}
		case *ssa.Phi:
			for _, e := range x.Edges {
				walk(in, e, depth)
			}
		case *ssa.Parameter:
			if depth > 0 || x.Parent() != in {
				return
			}
			pi := -1
			for i, p := range in.Params {
				if p == x {
					pi = i
				}
			}
			if pi < 0 {
				return
			}
			for _, caller := range c.P.Funcs {
				for _, ci := range CallsOf(caller) {
					for _, callee := range c.Facts.Callees(ci) {
						if callee == in && ir.Callee(ci.Common()) == in && pi < len(ci.Common().Args) {
							walk(caller, ci.Common().Args[pi], depth+1)
						}
					}
				}
			}
		}
	}
	walk(fn, errV, 0)
	return out
}

// returnedCalls: the calls whose result may be the returned value v (through phis and variable cells).
func returnedCalls(v ssa.Value) []*ssa.Call {
	var out []*ssa.Call
	seen := map[ssa.Value]bool{}
	var walk func(ssa.Value)
	walk = func(x ssa.Value) {
		if x == nil || seen[x] {
			return
		}
		seen[x] = true
		switch y := x.(type) {
		case *ssa.Call:
			out = append(out, y)
		case *ssa.Phi:
			for _, e := range y.Edges {
				walk(e)
			}
		case *ssa.UnOp:
			if y.Op == token.MUL {
				if o := ir.Origin(y); o != ssa.Value(y) {
					walk(o)
				}
			}
		}
	}
	walk(v)
	return out
}

// carries: v is one of the carrier values, possibly converted to an interface, merged by a phi or kept in a cell.
func carries(v ssa.Value, carriers map[ssa.Value]bool, seen map[ssa.Value]bool) bool {
	if v == nil || seen[v] {
		return false
	}
	seen[v] = true
	if carriers[v] {
		return true
	}
	switch x := v.(type) {
	case *ssa.MakeInterface:
		return carries(x.X, carriers, seen)
	case *ssa.ChangeInterface:
		return carries(x.X, carriers, seen)
	case *ssa.ChangeType:
		return carries(x.X, carriers, seen)
	case *ssa.Phi:
		for _, e := range x.Edges {
			if carries(e, carriers, seen) {
				return true
			}
		}
	case *ssa.UnOp:
		if x.Op == token.MUL {
			if o := ir.Origin(x); o != ssa.Value(x) {
				return carries(o, carriers, seen)
			}
		}
	}
	return false
}

// errVariadicElems: the elements of a `f(a, b...)`-style argument list built by the compiler (slice of a fresh array
// with one constant-index store per element). ok=false when the slice is anything else.
func errVariadicElems(v ssa.Value) (elems map[int]ssa.Value, ok bool) {
	if cst, isC := v.(*ssa.Const); isC && cst.IsNil() {
		return map[int]ssa.Value{}, true
	}
	sl, isSl := v.(*ssa.Slice)
	if !isSl {
		return nil, false
	}
	arr, isA := sl.X.(*ssa.Alloc)
	if !isA || arr.Referrers() == nil {
		return nil, false
	}
	elems = map[int]ssa.Value{}
	for _, r := range *arr.Referrers() {
		switch y := r.(type) {
		case *ssa.IndexAddr:
			ic, isC := y.Index.(*ssa.Const)
			if !isC || ic.Value == nil || y.Referrers() == nil {
				return nil, false
			}
			idx, exact := constant.Int64Val(ic.Value)
			if !exact {
				return nil, false
			}
			for _, rr := range *y.Referrers() {
				st, isSt := rr.(*ssa.Store)
				if !isSt || st.Addr != ssa.Value(y) {
					return nil, false
				}
				if _, dup := elems[int(idx)]; dup {
					return nil, false
				}
				elems[int(idx)] = st.Val
			}
		case *ssa.Slice:
			if y != sl {
				return nil, false
			}
		default:
			return nil, false
		}
	}
	return elems, true
}

// wrapVerbArgs parses a fmt format string the way fmt does (flags, [n] argument indexes, * width/precision) and
// returns the operand indexes formatted with %w. ok=false on a malformed directive.
func wrapVerbArgs(format string) (w map[int]bool, ok bool) {
	w = map[int]bool{}
	arg := 0
	n := len(format)
	argIndex := func(i int) (int, bool) { // format[i] == '['
		j := i + 1
		v := 0
		for j < n && format[j] >= '0' && format[j] <= '9' {
			v = v*10 + int(format[j]-'0')
			j++
		}
		if j == i+1 || j >= n || format[j] != ']' || v < 1 {
			return i, false
		}
		arg = v - 1
		return j + 1, true
	}
	for i := 0; i < n; {
		if format[i] != '%' {
			i++
			continue
		}
		i++
		for i < n && (format[i] == '+' || format[i] == '-' || format[i] == '#' || format[i] == ' ' || format[i] == '0') {
			i++
		}
		good := true
		if i < n && format[i] == '[' {
			if i, good = argIndex(i); !good {
				return nil, false
			}
		}
		if i < n && format[i] == '*' {
			arg++
			i++
		} else {
			for i < n && format[i] >= '0' && format[i] <= '9' {
				i++
			}
		}
		if i < n && format[i] == '.' {
			i++
			if i < n && format[i] == '[' {
				if i, good = argIndex(i); !good {
					return nil, false
				}
			}
			if i < n && format[i] == '*' {
				arg++
				i++
			} else {
				for i < n && format[i] >= '0' && format[i] <= '9' {
					i++
				}
			}
		}
		if i < n && format[i] == '[' {
			if i, good = argIndex(i); !good {
				return nil, false
			}
		}
		if i >= n {
			return nil, false
		}
		verb := format[i]
		i++
		if verb == '%' {
			continue
		}
		if verb == 'w' {
			w[arg] = true
		}
		arg++
	}
	return w, true
}

// chainKept classifies an external wrapping call w whose operands contain a carrier of the callback's error:
// +1 the result still unwraps to the carrier (errors.Is finds the sentinel), -1 it does not, 0 cannot tell.
func chainKept(w *ssa.Call, carriers map[ssa.Value]bool) int {
	is := func(v ssa.Value) bool { return carries(v, carriers, map[ssa.Value]bool{}) }
	switch {
	case isExtFunc(w, "fmt", "Errorf") && len(w.Call.Args) == 2:
		elems, ok := errVariadicElems(w.Call.Args[1])
		if !ok {
			return 0
		}
		at := map[int]bool{}
		for i, e := range elems {
			if is(e) {
				at[i] = true
			}
		}
		if len(at) == 0 {
			return -1 // only something derived from the error (err.Error(), a formatted copy) is an operand
		}
		fc, isC := w.Call.Args[0].(*ssa.Const)
		if !isC || fc.Value == nil || fc.Value.Kind() != constant.String {
			return 0
		}
		verbs, ok := wrapVerbArgs(constant.StringVal(fc.Value))
		if !ok {
			return 0
		}
		for i := range at {
			if verbs[i] {
				return 1
			}
		}
		return -1
	case isExtFunc(w, "errors", "Join") && len(w.Call.Args) == 1:
		elems, ok := errVariadicElems(w.Call.Args[0])
		if !ok {
			return 0
		}
		for _, e := range elems {
			if is(e) {
				return 1
			}
		}
		return -1
	}
	return -1
}

// opaqueWrapReturned: does fn return the result of a wrapping call over one of the carriers that loses the
// callback's error for the stop test in force (== : any wrap; errors.Is : a wrap that cuts the Unwrap chain)?
// A wrap done by a helper of the repository that is handed the carrier is judged inside the helper.
func opaqueWrapReturned(c *Ctx, fn *ssa.Function, carriers map[ssa.Value]bool, depth int) *ssa.Call {
	ei := ir.ErrorResultIndex(fn.Signature)
	if ei < 0 {
		return nil
	}
	for _, r := range ir.Returns(fn) {
		for _, w := range returnedCalls(r.Results[ei]) {
			if carriers[w] {
				continue
			}
			if callees := c.Facts.Callees(w); len(callees) > 0 {
				if depth >= 2 {
					continue
				}
				for ai, a := range w.Call.Args {
					if !ir.IsErrorType(a.Type()) || !carries(a, carriers, map[ssa.Value]bool{}) {
						continue
					}
					for _, callee := range callees {
						if ai < len(callee.Params) && ir.Callee(w.Call) == callee {
							if bad := opaqueWrapReturned(c, callee, map[ssa.Value]bool{callee.Params[ai]: true}, depth+1); bad != nil {
								return bad
							}
						}
					}
				}
				continue
			}
			cl := operandClosure(w, func(v ssa.Value) bool { return carriers[v] })
			hit := false
			for v := range carriers {
				if cl[v] {
					hit = true
				}
			}
			if !hit {
				continue
			}
			if !iterdoneViaIs {
				return w
			}
			switch chainKept(w, carriers) {
			case 1:
			case 0:
				iterdoneUnknown = append(iterdoneUnknown, w)
			default:
				return w
			}
		}
	}
	return nil
}

// testedWithIs: fn also tests the same error value against the same sentinel with errors.Is.
func testedWithIs(fn *ssa.Function, errV ssa.Value, g *ssa.Global) bool {
	o := ir.Origin(errV)
	for _, b := range fn.Blocks {
		for _, ins := range b.Instrs {
			if e2, g2, viaIs := stopTest(ins); viaIs && g2 == g && (e2 == errV || ir.Origin(e2) == o) {
				return true
			}
		}
	}
	return false
}
