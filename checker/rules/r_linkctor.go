package rules

// LINKCTOR — what the link constructor hands back.
//
// (*Mast).store(node) turns a node the current operation holds in memory into the value that goes into a parent's Link
// slot or into Mast.root. It hands back the node itself (or nil for an entry-less node): the operation goes on using
// what it has already read. Handing back the node's *name* instead (C16-m42: "already persisted as it is: its link will
// do") forgets a node that was read a moment ago; the next level of the same Insert/Delete loads it again, and the reads
// of a point operation are no longer bounded by the search path.

import (
	"golang.org/x/tools/go/ssa"

	"mastcheck/ir"
)

func init() {
	Register(&Rule{ID: "LINKCTOR", Props: []string{"C16"}, Min: 1,
		Doc: "the link constructor (*Mast).store(node) hands back, on every return without an error, the in-memory node it was given (as the link value) or nil — never a name or any other value: replacing a node the operation has just read by its name makes the next step of the same operation read it again (split and merge re-load it at every level), so a point operation reads more than its search path.",
		Run: runLINKCTOR})
}

func runLINKCTOR(c *Ctx) {
	P := c.P
	fn := c.MustFunc("(*Mast).store")
	if fn == nil {
		return
	}
	var nodeParam *ssa.Parameter
	for _, p := range fn.Params {
		if ir.IsPtrToNamed(p.Type(), "mastNode") {
			nodeParam = p
		}
	}
	if nodeParam == nil || fn.Signature.Results().Len() != 2 {
		c.Undecided(fn, P.Pos(fn.Pos()), "signature", "the link constructor no longer takes a node and returns (link, error)")
		return
	}
	var isNode func(v ssa.Value, d int) bool
	isNode = func(v ssa.Value, d int) bool {
		if d > 6 {
			return false
		}
		v = ir.ResolveCell(v)
		if ir.IsNilConst(v) {
			return true
		}
		switch x := v.(type) {
		case *ssa.Parameter:
			return x == nodeParam
		case *ssa.MakeInterface:
			return isNode(x.X, d+1)
		case *ssa.ChangeInterface:
			return isNode(x.X, d+1)
		case *ssa.Phi:
			for _, e := range x.Edges {
				if !isNode(e, d+1) {
					return false
				}
			}
			return true
		}
		return false
	}
	for _, r := range ir.Returns(fn) {
		if len(r.Results) != 2 {
			continue
		}
		pos := P.InstrPos(r)
		if !ir.IsNilConst(r.Results[1]) {
			// an error return: the link is not used
			c.OK(pos, "error return of the link constructor", "no link handed back", true)
			continue
		}
		if isNode(r.Results[0], 0) {
			c.OK(pos, "link handed back by "+ir.FuncName(fn), "the node it was given, or nil", false)
			continue
		}
		c.Violation(fn, pos, "link constructor hands back something other than its node",
			"(*Mast).store returns "+pathDesc(ir.Sym(r.Results[0]))+" instead of the in-memory node it was given: the caller (split, mergeNodes, grow, shrink, savePathForRoot) puts that value into a Link slot or the root, and the next step of the same operation has to load the node again although it was read a moment ago — the reads of an insert or delete are no longer bounded by 2*(height+1)")
	}
}
