package rules

import (
	"fmt"
	"go/token"
	"go/types"
	"regexp"
	"sort"
	"strings"

	"golang.org/x/tools/go/ssa"

	"mastcheck/ir"
)

// NAVCOMMIT: the commit-point discipline of C12 for the stateful read-side
// objects, Cursor and DiffCursor: a navigation / diff step that returns an
// error must leave the cursor where a retry gives the normal result, so no
// cursor or diff-stack state may be changed before a call that can still fail.

func init() {
	Register(&Rule{ID: "NAVCOMMIT", Props: []string{"C12"}, Min: 6,
		Doc: "in the Cursor methods and in DiffCursor.NextEntry (and what they call): along every path, after the first store to cursor / diff-cursor state (the path slice and its entries; the diff stacks, memo tables and report fields) " +
			"there is no call that may return a non-nil error whose result is used. Keyed by (function, fallible callee). Four tabled exceptions where the partial move is idempotent under retry (Min, Max, Backward, Ceil), each demonstrated by exhaustive fault injection.",
		Run: runNAVCOMMIT})
}

var navStateTypes = []string{"Cursor", "DiffCursor", "diffState", "iterItemStack"}

// navExceptions: methods whose partial progress is harmless because a retry
// resumes from it and reaches the same position (demos/c12nav_test.go tries
// every start position and every failing load on three trees).
var navExceptions = map[string]string{
	"(*Cursor).Min":      "the path grows only after a successful follow; a retry resumes from the deepest node reached and ends on the same path",
	"(*Cursor).Max":      "the entry appended before follow is popped and re-appended identically by the retry",
	"(*Cursor).Backward": "after a failed Max the top entry still names the link Max was following; the retried Backward loads exactly that link",
	"(*Cursor).Ceil":     "search1 re-derives linkIndex from the key on every call and the path grows only after a successful load",
	"(*Cursor).search1":  "recomputes linkIndex from the key; idempotent",
}

func navStateRoot(addr ssa.Value) *ssa.Parameter {
	for i := 0; i < 16; i++ {
		switch x := addr.(type) {
		case *ssa.Parameter:
			for _, t := range navStateTypes {
				if ir.IsPtrToNamed(x.Type(), t) {
					return x
				}
			}
			return nil
		case *ssa.FieldAddr:
			addr = x.X
		case *ssa.IndexAddr:
			addr = x.X
		case *ssa.Slice:
			addr = x.X
		case *ssa.UnOp:
			if x.Op != token.MUL {
				return nil
			}
			addr = x.X
		case *ssa.Phi:
			// pe = phi(&c.path[..], &c.path[..])
			if len(x.Edges) == 0 {
				return nil
			}
			addr = x.Edges[0]
		case *ssa.Call:
			// pe := c.top(): an accessor that hands out the address of an element of the state
			_, _, arg, ok := navAccessor(x)
			if !ok {
				return nil
			}
			addr = arg
		default:
			return nil
		}
	}
	return nil
}

// navAccessor: call is a call of a repository helper whose single result is the address of a part of the cursor
// state reached from one of its parameters (`func (c *Cursor) top() *pathEntry { return &c.path[len(c.path)-1] }`).
// ret is that address expression inside the helper, arg the caller's argument for the parameter it starts from.
func navAccessor(call *ssa.Call) (h *ssa.Function, ret ssa.Value, arg ssa.Value, ok bool) {
	h = ir.Callee(call.Call)
	if h == nil || h.Blocks == nil || h.Pkg == nil || h.Pkg.Pkg.Path() != ir.MastPath || h.Signature.Results().Len() != 1 {
		return nil, nil, nil, false
	}
	if _, isPtr := h.Signature.Results().At(0).Type().Underlying().(*types.Pointer); !isPtr {
		return nil, nil, nil, false
	}
	var rets []*ssa.Return
	for _, r := range ir.Returns(h) {
		if len(r.Block().Preds) == 0 && r.Block().Index != 0 {
			continue
		}
		rets = append(rets, r)
	}
	if len(rets) != 1 || len(rets[0].Results) != 1 {
		return nil, nil, nil, false
	}
	ret = rets[0].Results[0]
	if _, nested := ret.(*ssa.Call); nested {
		return nil, nil, nil, false
	}
	p := navStateRoot(ret)
	if p == nil || p.Parent() != h {
		return nil, nil, nil, false
	}
	k := paramIndex(p)
	if k < 0 || k >= len(call.Call.Args) {
		return nil, nil, nil, false
	}
	return h, ret, call.Call.Args[k], true
}

// navSym is ir.Sym of an address with accessor calls at its root replaced by what they return, written in the
// caller's terms: `c.top().linkIndex` reads as `c.path[len(c.path)-1].linkIndex`.
func navSym(addr ssa.Value) string {
	s := ir.Sym(addr)
	root := addr
walk:
	for i := 0; i < 8; i++ {
		switch x := root.(type) {
		case *ssa.FieldAddr:
			root = x.X
		case *ssa.IndexAddr:
			root = x.X
		default:
			break walk
		}
	}
	call, isCall := root.(*ssa.Call)
	if !isCall {
		return s
	}
	h, ret, arg, ok := navAccessor(call)
	if !ok {
		return s
	}
	p := navStateRoot(ret)
	inl := ir.Sym(ret)
	if pn, an := "P:"+p.Name(), ir.Sym(arg); pn != an {
		inl = regexp.MustCompile(regexp.QuoteMeta(pn)+`\b`).ReplaceAllString(inl, an)
	}
	_ = h
	return strings.Replace(s, ir.Sym(call), strings.TrimPrefix(inl, "&"), 1)
}

func runNAVCOMMIT(c *Ctx) {
	P := c.P
	entries := c.Entries("(*Cursor).Min", "(*Cursor).Max", "(*Cursor).Forward", "(*Cursor).Backward", "(*Cursor).Ceil", "(*DiffCursor).NextEntry")
	if len(entries) == 0 {
		return
	}
	reach := c.Facts.Reach(entries...)
	// summaries: function writes nav state through parameter k
	writes := map[*ssa.Function]map[int]string{}
	direct := map[*ssa.Function][]Effect{}
	for fn := range reach {
		for _, b := range fn.Blocks {
			for _, ins := range b.Instrs {
				st, ok := ins.(*ssa.Store)
				if !ok {
					continue
				}
				if p := navStateRoot(st.Addr); p != nil && p.Parent() == fn {
					if writes[fn] == nil {
						writes[fn] = map[int]string{}
					}
					writes[fn][paramIndex(p)] = "store to " + pathDesc(navSym(st.Addr))
					direct[fn] = append(direct[fn], Effect{Instr: st, Desc: "store to " + pathDesc(navSym(st.Addr))})
				}
			}
		}
	}
	for changed := true; changed; {
		changed = false
		for fn := range reach {
			for _, ci := range CallsOf(fn) {
				for _, callee := range c.Facts.Callees(ci) {
					for k, why := range writes[callee] {
						if k >= len(ci.Common().Args) {
							continue
						}
						if p := navStateRoot(ci.Common().Args[k]); p != nil && p.Parent() == fn {
							if writes[fn] == nil {
								writes[fn] = map[int]string{}
							}
							if _, have := writes[fn][paramIndex(p)]; !have {
								writes[fn][paramIndex(p)] = "via " + callee.Name() + ": " + why
								changed = true
							}
						}
					}
				}
			}
		}
	}
	nextEntry := c.P.MastFunc("(*DiffCursor).NextEntry")
	diffOnly := map[*ssa.Function]bool{}
	if nextEntry != nil {
		cur := c.Facts.Reach(c.Entries("(*Cursor).Min", "(*Cursor).Max", "(*Cursor).Forward", "(*Cursor).Backward", "(*Cursor).Ceil")...)
		for fn := range c.Facts.Reach(nextEntry) {
			if !cur[fn] {
				diffOnly[fn] = true
			}
		}
	}
	var fns []*ssa.Function
	for fn := range reach {
		fns = append(fns, fn)
	}
	sort.Slice(fns, func(i, j int) bool { return ir.PosLess(fns[i].Pos(), fns[j].Pos()) })
	type diffHit struct {
		fn, name string
		eff      Effect
		call     ssa.CallInstruction
	}
	var diffFirst *diffHit
	diffKinds := map[string]bool{}
	defer func() {
		if diffFirst == nil {
			return
		}
		var ks []string
		for k := range diffKinds {
			ks = append(ks, k)
		}
		sort.Strings(ks)
		h := diffFirst
		c.Violation(nextEntry, P.InstrPos(h.call), "diff state changed before a fallible step {"+strings.Join(ks, ", ")+"}",
			fmt.Sprintf("in %s, %s can fail after the diff state was already changed (%s at %s): NextEntry returns an error, and continuing or retrying drops the popped subtree or desynchronises the two sides; kinds of failure that can strike after a state change: %s",
				h.fn, h.name, h.eff.Desc, P.InstrPos(h.eff.Instr), strings.Join(ks, ", ")),
			"earliest state change: "+h.eff.Desc+" at "+P.InstrPos(h.eff.Instr))
	}()
	for _, fn := range fns {
		if ir.ErrorResultIndex(fn.Signature) < 0 {
			continue
		}
		effs := append([]Effect(nil), direct[fn]...)
		for _, ci := range CallsOf(fn) {
			for _, callee := range c.Facts.Callees(ci) {
				for k, why := range writes[callee] {
					if k < len(ci.Common().Args) && navStateRoot(ci.Common().Args[k]) != nil {
						effs = append(effs, Effect{Instr: ci, Desc: "call " + callee.Name() + " [" + why + "]"})
					}
				}
			}
		}
		if len(effs) == 0 {
			continue
		}
		sort.SliceStable(effs, func(i, j int) bool { return ir.PosLess(effs[i].Instr.Pos(), effs[j].Instr.Pos()) })
		type hit struct {
			eff  Effect
			call ssa.CallInstruction
		}
		found := map[string]hit{}
		for _, ci := range CallsOf(fn) {
			ok, name := fallible(c, ci)
			if !ok {
				continue
			}
			var first *Effect
			for i := range effs {
				e := effs[i]
				if e.Instr == ssa.Instruction(ci) {
					if inCycle(ci.Block()) {
						first = &effs[i]
						break
					}
					continue
				}
				if ir.InstrReaches(e.Instr, ci) {
					first = &effs[i]
					break
				}
			}
			if first == nil {
				c.OK(P.InstrPos(ci), fmt.Sprintf("fallible call %s in %s", name, ir.FuncName(fn)), "no cursor-state store can precede it", false)
				continue
			}
			if _, dup := found[name]; !dup {
				found[name] = hit{*first, ci}
			}
		}
		var names []string
		for n := range found {
			names = append(names, n)
		}
		sort.Strings(names)
		for _, n := range names {
			h := found[n]
			if compensated(fn, h.call, effs) {
				c.OK(P.InstrPos(h.call), fmt.Sprintf("%s: state changed before fallible %s", ir.FuncName(fn), n), "the error edge of the call stores the changed locations back before returning (undo)", false)
				continue
			}
			if why, ok := navExceptions[ir.FuncName(fn)]; ok && navExceptionHolds(fn, h.call) {
				c.OK(P.InstrPos(h.call), fmt.Sprintf("%s: state changed before fallible %s", ir.FuncName(fn), n), "exception (idempotent under retry): "+why, false)
				continue
			}
			if diffOnly[fn] && nextEntry != nil {
				// the diff cursor: one finding for the whole step machinery — its retry-safety is
				// one property of NextEntry, wherever the pops and loads sit after a refactoring.
				// The finding names the kinds of failure that can strike after the state change
				// (the store, the callbacks): a new kind of fallible step placed after the pops
				// (a context check, a new external call) is a different finding.
				for k := range failSources(c, h.call, map[*ssa.Function]bool{}, 0) {
					diffKinds[k] = true
				}
				if diffFirst == nil {
					diffFirst = &diffHit{ir.FuncName(fn), n, h.eff, h.call}
				}
				continue
			}
			c.Violation(fn, P.InstrPos(h.call), "state changed before fallible "+n,
				fmt.Sprintf("%s can fail after the cursor state was already changed (%s at %s): the call returns an error but a retry starts from the half-moved position and skips or repeats entries",
					n, h.eff.Desc, P.InstrPos(h.eff.Instr)),
				"earliest state change: "+h.eff.Desc+" at "+P.InstrPos(h.eff.Instr))
		}
	}
}

var reIdx = regexp.MustCompile(`\[[^\[\]]*\]`)

// locKey normalises a location path for comparing "the same field of the
// same object" regardless of the index expression used to reach it.
func locKey(s string) string {
	s = pathDesc(s)
	for i := 0; i < 4; i++ {
		s = reIdx.ReplaceAllString(s, "[]")
	}
	return s
}

// compensated: every location stored before the fallible call is stored again
// on the call's error edge before the function returns (an undo).
func compensated(fn *ssa.Function, call ssa.CallInstruction, effs []Effect) bool {
	cv, ok := call.(*ssa.Call)
	if !ok {
		return false
	}
	var errV ssa.Value = cv
	if cv.Call.Signature().Results().Len() > 1 {
		errV = nil
		if cv.Referrers() != nil {
			for _, r := range *cv.Referrers() {
				if ex, ok := r.(*ssa.Extract); ok && ex.Index == ir.ErrorResultIndex(cv.Call.Signature()) {
					errV = ex
				}
			}
		}
	}
	if errV == nil {
		return false
	}
	before := map[string]bool{}
	type helperPush struct {
		at  ssa.Instruction
		loc string
	}
	var helperPushes []helperPush // c.push(entry) before the call: stands for the append it contains
	for _, e := range effs {
		st, ok := e.Instr.(*ssa.Store)
		if !ok {
			if ir.InstrReaches(e.Instr, call) && e.Instr != ssa.Instruction(call) {
				if _, _, _, kind, _ := pathHelperStore(e.Instr); kind == "push" {
					loc := locKey(pathHelperLoc(e.Instr))
					before[loc] = true
					helperPushes = append(helperPushes, helperPush{e.Instr, loc})
					continue
				}
				return false // a callee changed state: cannot see what to undo
			}
			continue
		}
		if ir.InstrReaches(st, call) {
			before[locKey(navSym(st.Addr))] = true
		}
	}
	if len(before) == 0 {
		return false
	}
	undone := map[string]bool{}
	for _, b := range fn.Blocks {
		if !nilFactOn(b, errV, false) {
			continue
		}
		for _, ins := range b.Instrs {
			if st, ok := ins.(*ssa.Store); ok {
				undone[locKey(navSym(st.Addr))] = true
			}
		}
	}
	for k := range before {
		if !undone[k] {
			return false
		}
	}
	// the undo touches nothing the step had not changed: a store on the error edge into cursor state that was not
	// stored before the call (a decrement copied from the sibling method) moves the cursor instead of restoring it
	posBefore := false
	for k := range before {
		if strings.Contains(k, posFieldName) {
			posBefore = true
		}
	}
	for _, b := range fn.Blocks {
		for _, ins := range b.Instrs {
			// also a position reached through a helper's result (`pe := c.top(); pe.linkIndex++`)
			if st, ok := ins.(*ssa.Store); ok && strings.HasSuffix(navSym(st.Addr), "."+posFieldName) && ir.InstrReaches(st, call) {
				posBefore = true
			}
		}
	}
	for k := range undone {
		if !before[k] && !posBefore && strings.Contains(k, posFieldName) {
			return false
		}
	}
	// the undo must restore the *old* state: every integer it uses (index, slice bound, stored number) is a
	// constant, a snapshot taken before the first change, or the changed counter itself (x = x ∓ k)
	var effStores []*ssa.Store
	for _, e := range effs {
		if st, ok := e.Instr.(*ssa.Store); ok && ir.InstrReaches(st, call) {
			effStores = append(effStores, st)
		}
	}
	postState := func(i ssa.Instruction) bool {
		for _, e := range effStores {
			if ir.InstrReaches(e, i) {
				return true
			}
		}
		for _, hp := range helperPushes {
			if ir.InstrReaches(hp.at, i) {
				return true
			}
		}
		return false
	}
	isInt := func(v ssa.Value) bool {
		b, ok := v.Type().Underlying().(*types.Basic)
		return ok && b.Info()&types.IsInteger != 0
	}
	var intLeavesOK func(v ssa.Value, self string, d int) bool
	intLeavesOK = func(v ssa.Value, self string, d int) bool {
		if d > 10 {
			return false
		}
		switch x := v.(type) {
		case *ssa.Const, *ssa.Parameter, *ssa.FreeVar, *ssa.Alloc, *ssa.Global:
			return true
		case *ssa.BinOp:
			return intLeavesOK(x.X, self, d+1) && intLeavesOK(x.Y, self, d+1)
		case *ssa.Convert:
			return intLeavesOK(x.X, self, d+1)
		case *ssa.IndexAddr:
			return intLeavesOK(x.X, self, d+1) && intLeavesOK(x.Index, self, d+1)
		case *ssa.FieldAddr:
			return intLeavesOK(x.X, self, d+1)
		case *ssa.Slice:
			ok := intLeavesOK(x.X, self, d+1)
			for _, bnd := range []ssa.Value{x.Low, x.High, x.Max} {
				if bnd != nil {
					ok = ok && intLeavesOK(bnd, self, d+1)
				}
			}
			return ok
		case *ssa.UnOp:
			if x.Op != token.MUL {
				return intLeavesOK(x.X, self, d+1)
			}
			if isInt(x) && postState(x) && locKey(ir.Sym(x.X)) != self {
				// a number read back from state that has already been changed
				if before[locKey(ir.Sym(x.X))] {
					return false
				}
			}
			return intLeavesOK(x.X, self, d+1)
		case *ssa.Call:
			if b, ok := x.Call.Value.(*ssa.Builtin); ok && (b.Name() == "len" || b.Name() == "cap") {
				if postState(x) {
					if ld, ok := x.Call.Args[0].(*ssa.UnOp); ok && ld.Op == token.MUL && before[locKey(ir.Sym(ld.X))] {
						return false // the length of a slice that was already changed: not the old length
					}
				}
				return intLeavesOK(x.Call.Args[0], self, d+1)
			}
			return true
		case *ssa.Phi:
			for _, e := range x.Edges {
				if !intLeavesOK(e, self, d+1) {
					return false
				}
			}
			return true
		}
		return true
	}
	// positions are compared in terms of the state before the first change: LEN0(x) is len(x) read before it,
	// LEN1(x) one read after it
	type nform struct {
		base string
		off  int64
	}
	// at != nil: v belongs to an accessor inlined at the call `at` (its reads happen when the call runs); rename
	// rewrites the accessor's own names into the caller's
	var nfAt func(v ssa.Value, d int, at ssa.Instruction, rename func(string) string) nform
	nfAt = func(v ssa.Value, d int, at ssa.Instruction, rename func(string) string) nform {
		v = ir.ResolveCell(v)
		if d > 8 {
			return nform{rename(ir.Sym(v)), 0}
		}
		if k, isK := ir.ConstInt(v); isK {
			return nform{"", k}
		}
		switch x := v.(type) {
		case *ssa.BinOp:
			if k, isK := ir.ConstInt(x.Y); isK && (x.Op == token.ADD || x.Op == token.SUB) {
				n := nfAt(x.X, d+1, at, rename)
				if x.Op == token.SUB {
					k = -k
				}
				return nform{n.base, n.off + k}
			}
		case *ssa.Call:
			if b, ok := x.Call.Value.(*ssa.Builtin); ok && b.Name() == "len" {
				if ld, ok := x.Call.Args[0].(*ssa.UnOp); ok && ld.Op == token.MUL {
					var when ssa.Instruction = x
					if at != nil {
						when = at
					}
					loc := locKey(rename(ir.Sym(ld.X)))
					tag := "LEN0:"
					if postState(when) && before[loc] {
						tag = "LEN1:"
					}
					return nform{tag + loc, 0}
				}
			}
		}
		return nform{rename(ir.Sym(v)), 0}
	}
	ident := func(s string) string { return s }
	nf := func(v ssa.Value, d int) nform { return nfAt(v, d, nil, ident) }
	firstIndex := func(addr ssa.Value) (nform, bool) {
		for i := 0; i < 8; i++ {
			switch x := addr.(type) {
			case *ssa.FieldAddr:
				addr = x.X
			case *ssa.IndexAddr:
				return nf(x.Index, 0), true
			case *ssa.UnOp:
				if x.Op != token.MUL {
					return nform{}, false
				}
				addr = x.X
			case *ssa.Phi:
				return nform{}, false
			case *ssa.Call:
				// pe := c.top(): the element the accessor picks when it is called
				_, ret, arg, ok := navAccessor(x)
				if !ok {
					return nform{}, false
				}
				p := navStateRoot(ret)
				rename := ident
				if pn, an := "P:"+p.Name(), ir.Sym(arg); pn != an {
					re := regexp.MustCompile(regexp.QuoteMeta(pn) + `\b`)
					rename = func(s string) string { return re.ReplaceAllString(s, an) }
				}
				for j := 0; j < 8; j++ {
					switch y := ret.(type) {
					case *ssa.FieldAddr:
						ret = y.X
						continue
					case *ssa.IndexAddr:
						return nfAt(y.Index, 0, x, rename), true
					}
					return nform{}, false
				}
				return nform{}, false
			default:
				// a pointer variable (pe := &c.path[i]): look through its single definition
				if r := ir.ResolveCell(addr); r != addr {
					addr = r
					continue
				}
				return nform{}, false
			}
		}
		return nform{}, false
	}
	for _, b := range fn.Blocks {
		if !nilFactOn(b, errV, false) {
			continue
		}
		for _, ins := range b.Instrs {
			st, ok := ins.(*ssa.Store)
			if !ok || !before[locKey(navSym(st.Addr))] {
				continue
			}
			self := locKey(navSym(st.Addr))
			if !intLeavesOK(st.Addr, self, 0) || !intLeavesOK(st.Val, self, 0) {
				return false
			}
			for _, fw := range effStores {
				if locKey(navSym(fw.Addr)) != self {
					continue
				}
				// the same element
				fi, fok := firstIndex(fw.Addr)
				ui, uok := firstIndex(st.Addr)
				if fok && uok && fi != ui {
					return false
				}
				if fok != uok {
					return false // one of the two elements cannot be named: not shown to be the same
				}
				// a list that was appended to is cut back to its old length
				if _, isSlice := fw.Val.Type().Underlying().(*types.Slice); isSlice {
					if ap, ok := fw.Val.(*ssa.Call); ok {
						if bi, ok := ap.Call.Value.(*ssa.Builtin); ok && bi.Name() == "append" {
							sl, isSl := st.Val.(*ssa.Slice)
							if !isSl || sl.High == nil || (sl.Low != nil && nf(sl.Low, 0) != nform{"", 0}) {
								return false
							}
							if nf(sl.High, 0) != (nform{"LEN0:" + self, 0}) {
								return false
							}
						}
					}
				}
			}
			// the same for a list appended to through a helper
			for _, hp := range helperPushes {
				if hp.loc != self {
					continue
				}
				sl, isSl := st.Val.(*ssa.Slice)
				if !isSl || sl.High == nil || (sl.Low != nil && nf(sl.Low, 0) != nform{"", 0}) {
					return false
				}
				if nf(sl.High, 0) != (nform{"LEN0:" + self, 0}) {
					return false
				}
			}
		}
	}
	return true
}

// navExceptionHolds: the structural premise of a tabled exception, checked on the current code. The exceptions say
// "a retry resumes from the partial progress": that is only true while the path is never *shorter* at a failing
// step than the retry needs — whatever was popped since the function began has been pushed back (by an append to
// the path) on every path to the fallible call.
func navExceptionHolds(fn *ssa.Function, call ssa.CallInstruction) bool {
	// "partial progress is kept and the retry resumes from it": so nothing moves the cursor on the call's error edge
	// (a half-written undo there changes the position the retry starts from)
	if cv, ok := call.(*ssa.Call); ok {
		var errV ssa.Value = cv
		if cv.Call.Signature().Results().Len() > 1 {
			errV = nil
			if cv.Referrers() != nil {
				for _, r := range *cv.Referrers() {
					if ex, ok := r.(*ssa.Extract); ok && ex.Index == ir.ErrorResultIndex(cv.Call.Signature()) {
						errV = ex
					}
				}
			}
		}
		if errV != nil {
			for _, b := range fn.Blocks {
				if !nilFactOn(b, errV, false) {
					continue
				}
				for _, ins := range b.Instrs {
					if st, ok := ins.(*ssa.Store); ok {
						k := ir.Sym(st.Addr)
						if strings.HasSuffix(k, "."+posFieldName) {
							return false
						}
						// nor is the path cut or rebuilt there: a "rollback" on the error edge of a method whose
						// retry-safety rests on keeping what was reached drops an entry the retry needs
						if navStateRoot(st.Addr) != nil {
							return false
						}
					}
					if _, _, _, kind, _ := pathHelperStore(ins); kind != "" {
						return false // the same cut or push, written as a helper call
					}
				}
			}
		}
	}
	var pops []ssa.Instruction
	isPush := func(i ssa.Instruction) bool {
		if _, _, _, kind, must := pathHelperStore(i); kind == "push" && must {
			return true
		}
		st, ok := i.(*ssa.Store)
		if !ok || !isCursorPath(st.Addr) {
			return false
		}
		ap, ok := st.Val.(*ssa.Call)
		if !ok {
			return false
		}
		b, ok := ap.Call.Value.(*ssa.Builtin)
		return ok && b.Name() == "append"
	}
	for _, b := range fn.Blocks {
		for _, ins := range b.Instrs {
			if _, _, _, kind, _ := pathHelperStore(ins); kind == "cut" {
				pops = append(pops, ins)
				continue
			}
			st, ok := ins.(*ssa.Store)
			if !ok || !isCursorPath(st.Addr) {
				continue
			}
			if sl, ok := st.Val.(*ssa.Slice); ok && sl.High != nil {
				pops = append(pops, st)
			}
		}
	}
	for _, pop := range pops {
		if !ir.InstrReaches(pop, call) {
			continue
		}
		// every path from the pop to the call passes a push
		if !mustPassBetween(pop, call, isPush) {
			return false
		}
	}
	return true
}

// mustPassBetween: every path from instruction a to instruction b (a reaches b) contains an instruction satisfying pred.
func mustPassBetween(a, b ssa.Instruction, pred func(ssa.Instruction) bool) bool {
	// search forward from a for b, stopping at pred; if b is found, some path avoids pred
	seen := map[*ssa.BasicBlock]bool{}
	var walk func(blk *ssa.BasicBlock, from int) bool // true = reached b without passing pred
	walk = func(blk *ssa.BasicBlock, from int) bool {
		for i := from; i < len(blk.Instrs); i++ {
			ins := blk.Instrs[i]
			if ins == b {
				return true
			}
			if pred(ins) {
				return false
			}
		}
		for _, s := range blk.Succs {
			if seen[s] {
				continue
			}
			seen[s] = true
			if walk(s, 0) {
				return true
			}
		}
		return false
	}
	return !walk(a.Block(), ir.InstrIndex(a)+1)
}

// failSources: the kinds of failure a fallible call can report, followed through the repository's own
// functions down to where the error is born: the store (Persist.Load/Store), a user callback (by role),
// another call that leaves the repository, or an error the repository constructs itself.
func failSources(c *Ctx, ci ssa.CallInstruction, seen map[*ssa.Function]bool, d int) map[string]bool {
	out := map[string]bool{}
	ext := c.Facts.External(ci)
	callees := c.Facts.Callees(ci)
	switch {
	case strings.HasPrefix(ext, "callback:"):
		// which callback it is depends on how the helpers name their parameters: one class
		out["a user callback (key order, layer function, marshaler)"] = true
	case len(callees) == 0 && ext != "":
		if strings.HasPrefix(ext, "Persist.") {
			out["the store"] = true
		} else {
			out[strings.TrimPrefix(ext, "ext:")] = true
		}
	}
	for _, f := range callees {
		if seen[f] || !c.Facts.MayFail[f] || d > 8 {
			continue
		}
		seen[f] = true
		inner := false
		for _, cj := range CallsOf(f) {
			if ok, _ := fallible(c, cj); ok {
				inner = true
				for k := range failSources(c, cj, seen, d+1) {
					out[k] = true
				}
			}
		}
		ei := ir.ErrorResultIndex(f.Signature)
		for _, r := range ir.Returns(f) {
			if ei >= 0 && ei < len(r.Results) {
				if call, ok := r.Results[ei].(*ssa.Call); ok {
					if id := staticID(call); id == "fmt.Errorf" || id == "errors.New" {
						out["an error of the repository's own"] = true
					}
				}
			}
		}
		_ = inner
	}
	return out
}
