package rules

import (
	"fmt"
	"go/token"
	"sort"
	"strings"

	"golang.org/x/tools/go/ssa"

	"mastcheck/ir"
)

// READREJECT: a read operation on a valid tree fails only when something it depends on fails — the store, a user
// callback, a decoder judging stored bytes. An error the operation makes up itself from the *shape of the tree* (a
// child without keys, a value whose type is not the destination's, a node with "too many" entries) rejects trees
// that the writer produces: the cursor stops in the middle of a walk, Get refuses a present key.

func init() {
	Register(&Rule{ID: "READREJECT", Props: []string{"C10", "C01", "C06", "C07"}, Min: 10,
		Doc: "in everything reachable from the read-only operations (Get, Iter, SeekIter, the Cursor methods, the diffs) outside the load path — whose rejections ROOTEXACT and the decoder rules enumerate — " +
			"every non-nil error a function returns is, or wraps, the error of a call (the store, a callback, a repository function), is a package-level sentinel, or is handed in by the caller; " +
			"an error constructed on the spot is accepted only in the default arm of a switch over the dynamic type of a link or item (an internal 'cannot happen') and where its guard tests nothing but nil-ness of a configuration value or of the destination.",
		Run: runREADREJECT})
}

// errOrigin classifies an error value: "" = derives from a call / sentinel / parameter; otherwise the constructor.
func errOrigin(c *Ctx, v ssa.Value, seen map[ssa.Value]bool, d int) (constructed *ssa.Call) {
	if v == nil || d > 10 || seen[v] {
		return nil
	}
	seen[v] = true
	switch x := v.(type) {
	case *ssa.MakeInterface:
		return errOrigin(c, x.X, seen, d+1)
	case *ssa.ChangeInterface:
		return errOrigin(c, x.X, seen, d+1)
	case *ssa.Phi:
		for _, e := range x.Edges {
			if k := errOrigin(c, e, seen, d+1); k != nil {
				return k
			}
		}
	case *ssa.UnOp:
		if r := ir.ResolveCell(x); r != ssa.Value(x) {
			return errOrigin(c, r, seen, d+1)
		}
		// a load of a variable that several stores feed (named result, captured cell)
		if al, ok := x.X.(*ssa.Alloc); ok && al.Referrers() != nil {
			for _, r := range *al.Referrers() {
				if st, ok := r.(*ssa.Store); ok && st.Addr == ssa.Value(al) {
					if k := errOrigin(c, st.Val, seen, d+1); k != nil {
						return k
					}
				}
			}
		}
	case *ssa.Call:
		callee := ir.Callee(x.Call)
		name := ""
		if callee != nil {
			name = callee.String()
		}
		if name == "fmt.Errorf" || name == "errors.New" {
			if externalErrorSource(c, x, map[ssa.Value]bool{}, 0) != "" || wrapsAnyError(x) {
				return nil
			}
			return x
		}
	}
	return nil
}

// wrapsAnyError: one of the formatting arguments is an error value (whatever its origin).
func wrapsAnyError(call *ssa.Call) bool {
	for _, a := range call.Call.Args {
		sl, ok := a.(*ssa.Slice)
		if !ok {
			continue
		}
		al, ok := sl.X.(*ssa.Alloc)
		if !ok || al.Referrers() == nil {
			continue
		}
		for _, r := range *al.Referrers() {
			ia, ok := r.(*ssa.IndexAddr)
			if !ok || ia.Referrers() == nil {
				continue
			}
			for _, r2 := range *ia.Referrers() {
				if st, ok := r2.(*ssa.Store); ok {
					v := st.Val
					for i := 0; i < 4; i++ {
						if mi, ok := v.(*ssa.MakeInterface); ok {
							v = mi.X
						} else if ci, ok := v.(*ssa.ChangeInterface); ok {
							v = ci.X
						}
					}
					if ir.IsErrorType(v.Type()) {
						return true
					}
				}
			}
		}
	}
	return false
}

func runREADREJECT(c *Ctx) {
	P := c.P
	entries := c.Entries(readOnlyEntries...)
	if len(entries) == 0 {
		return
	}
	reach := c.Facts.Reach(entries...)
	lp := loadPathFuncs(c)
	var fns []*ssa.Function
	for fn := range reach {
		if lp[fn] || fn.Pkg == nil || fn.Pkg.Pkg.Path() != ir.MastPath || c.Facts.debugOnlyFunc(fn) != "" {
			continue
		}
		fns = append(fns, fn)
	}
	sort.Slice(fns, func(i, j int) bool { return ir.PosLess(fns[i].Pos(), fns[j].Pos()) })
	for _, fn := range fns {
		ei := ir.ErrorResultIndex(fn.Signature)
		if ei < 0 {
			continue
		}
		for _, r := range ir.Returns(fn) {
			if ei >= len(r.Results) || ir.IsNilConst(r.Results[ei]) {
				continue
			}
			pos := P.InstrPos(r)
			what := "error return of " + ir.FuncName(fn)
			k := errOrigin(c, r.Results[ei], map[ssa.Value]bool{}, 0)
			if k == nil {
				// a package-level error value (a sentinel) is an answer of the protocol — "no more diffs" — only where
				// the state of the iteration says so; returned on a condition over what was read from the tree it is a
				// made-up rejection like any other
				if sv := ir.ResolveCell(r.Results[ei]); isSentinel(sv) {
					if why := sentinelGuardOK(r.Block()); why == "" && inventedErrorAccepted(r.Block()) == "" && len(ir.FactsAt(r.Block())) > 0 {
						c.Violation(fn, pos, "read operation rejects a tree on a condition of its own",
							fmt.Sprintf("%s returns the package-level error %s on a condition over what it read from the tree (%s): a read operation on a tree the writer produced must not fail on its own", ir.FuncName(fn), pathDesc(ir.Sym(sv)), guardDesc(r.Block())))
						continue
					}
				}
				c.OK(pos, what, "is or wraps the error of a call, a sentinel, or the caller's own value", false)
				continue
			}
			// where was it made up?
			b := k.Block()
			if why := inventedErrorAccepted(b); why != "" {
				c.OK(pos, what, "constructed, "+why, false)
				continue
			}
			msg := ""
			if len(k.Call.Args) > 0 {
				if s, ok := k.Call.Args[0].(*ssa.Const); ok && s.Value != nil {
					msg = s.Value.ExactString()
				}
			}
			c.Violation(fn, P.InstrPos(k), "read operation rejects a tree on a condition of its own",
				fmt.Sprintf("%s makes up an error %s from the shape of what it reads, not from a failure of the store or of a callback: a read operation on a tree the writer produced must not fail on its own — such a rejection stops a walk in the middle or refuses a present key for trees that are perfectly valid (%s)", ir.FuncName(fn), msg, guardDesc(b)))
		}
	}
}

// inventedErrorAccepted: the block that constructs the error is (a) the default arm of a type switch — every
// dominating fact is a failed type assertion (`,ok` false) or a nil test —, or (b) guarded by nothing but nil tests
// of parameters / configuration fields.
func inventedErrorAccepted(b *ssa.BasicBlock) string {
	facts := ir.FactsAt(b) // innermost first
	if len(facts) == 0 {
		return ""
	}
	f := facts[0]
	if _, _, isNil := ir.NilTest(f.Cond); isNil {
		return "under a nil test (an absent configuration value, link or destination)"
	}
	// `case o == nil && n == nil:` of a tagless switch is a φ: its conjuncts are what is tested
	if _, isPhi := f.Cond.(*ssa.Phi); isPhi {
		all, n := true, 0
		for _, g := range ir.ExpandFacts([]ir.Fact{f}) {
			if _, isPhi := g.Cond.(*ssa.Phi); isPhi {
				continue
			}
			if g.From != nil && g.From.Parent() == b.Parent() && !sameSwitchArm(g, f) {
				continue
			}
			n++
			if _, _, isNil := ir.NilTest(g.Cond); !isNil {
				all = false
			}
		}
		if all && n > 0 {
			return "under nil tests only (both stacks exhausted, an absent value)"
		}
	}
	if ex, ok := f.Cond.(*ssa.Extract); ok && ex.Index == 1 && !f.Truth {
		if ta, isTA := ex.Tuple.(*ssa.TypeAssert); isTA {
			// the default arm of a switch: at least two dynamic types were tried for the same value. A single failed
			// assertion (`n, ok := link.(*mastNode); if !ok { return error }`) rejects every other legal form of it —
			// a link may be a name, a node or nil.
			n := 0
			for _, g := range facts {
				if gx, ok := g.Cond.(*ssa.Extract); ok && gx.Index == 1 && !g.Truth {
					if ta2, ok := gx.Tuple.(*ssa.TypeAssert); ok && ta2.X == ta.X {
						n++
					}
				}
			}
			if n >= 2 {
				return "in the default arm of a switch over dynamic types (an internal 'cannot happen')"
			}
			return ""
		}
	}
	// the default arm of a switch over a classification (`switch form { case linkStored: … case linkLoaded: … default: }`):
	// at least two failed comparisons of one and the same value with constants, the innermost among them
	isNeConst := func(g ir.Fact) (ssa.Value, bool) {
		bin, ok := g.Cond.(*ssa.BinOp)
		if !ok {
			return nil, false
		}
		if _, isK := bin.Y.(*ssa.Const); !isK {
			return nil, false
		}
		if (bin.Op == token.EQL && !g.Truth) || (bin.Op == token.NEQ && g.Truth) {
			return bin.X, true
		}
		return nil, false
	}
	if x, ok := isNeConst(f); ok {
		if _, isCall := ir.Origin(x).(*ssa.Extract); isCall || x != nil {
			n := 0
			for _, g := range facts {
				if y, ok := isNeConst(g); ok && y == x {
					n++
				}
			}
			if ex, isEx := ir.Origin(x).(*ssa.Extract); isEx && n >= 2 {
				if call, isCall := ex.Tuple.(*ssa.Call); isCall && ir.Callee(call.Call) != nil && ir.Callee(call.Call).Blocks != nil {
					return "in the default arm of a switch over a private classification of the link (an internal 'cannot happen')"
				}
			}
		}
	}
	return ""
}

func guardDesc(b *ssa.BasicBlock) string {
	var parts []string
	for _, f := range ir.FactsAt(b) {
		s := pathDesc(ir.Sym(f.Cond))
		if !f.Truth {
			s = "!(" + s + ")"
		}
		parts = append(parts, s)
	}
	if len(parts) > 4 {
		parts = parts[len(parts)-4:]
	}
	return "guard: " + strings.Join(parts, " && ")
}

// sentinelGuardOK: the innermost condition under which a sentinel is returned speaks about the state of the iteration
// itself (a flag or a stack length of the cursor / diff state), or compares an error with a sentinel (passing it on).
func sentinelGuardOK(b *ssa.BasicBlock) string {
	facts := ir.FactsAt(b)
	if len(facts) == 0 {
		return "unconditional"
	}
	var leaves func(v ssa.Value, d int) bool
	leaves = func(v ssa.Value, d int) bool {
		if d > 5 {
			return false
		}
		switch x := v.(type) {
		case *ssa.Const:
			return true
		case *ssa.BinOp:
			return leaves(x.X, d+1) && leaves(x.Y, d+1)
		case *ssa.UnOp:
			if x.Op == token.MUL {
				return navStateRoot(x.X) != nil || isSentinel(x)
			}
			return leaves(x.X, d+1)
		case *ssa.Call:
			if bi, ok := x.Call.Value.(*ssa.Builtin); ok && (bi.Name() == "len" || bi.Name() == "cap") {
				return leaves(x.Call.Args[0], d+1)
			}
			if sc := ir.Callee(x.Call); sc != nil && (sc.String() == "errors.Is" || sc.String() == "errors.As") {
				return true // an error classified as the sentinel: passing the protocol answer on
			}
			return ir.IsErrorType(x.Type())
		case *ssa.Extract:
			return ir.IsErrorType(x.Type())
		case *ssa.Phi:
			for _, e := range x.Edges {
				if !leaves(e, d+1) {
					return false
				}
			}
			return true
		case *ssa.Parameter:
			return ir.IsErrorType(x.Type())
		}
		return false
	}
	if leaves(facts[0].Cond, 0) {
		return "guarded by the state of the iteration"
	}
	return ""
}

// sameSwitchArm: g is one of the conjuncts the φ-fact f was expanded into (established in the blocks that feed the φ).
func sameSwitchArm(g, f ir.Fact) bool {
	phi, ok := f.Cond.(*ssa.Phi)
	if !ok || g.From == nil {
		return false
	}
	if g.Cond == f.Cond {
		return true
	}
	for _, p := range phi.Block().Preds {
		if p == g.From {
			return true
		}
	}
	// the first conjunct is tested in the block that dominates the others
	return g.From.Dominates(phi.Block())
}
