package rules

import (
	"fmt"
	"regexp"
	"strings"

	"golang.org/x/tools/go/ssa"

	"mastcheck/ir"
)

// CURSORGUARD: an index computed as len(S)-1 of a slice that may be empty
// (the cursor's path; a node's Key/Value) is used as an index, as a slice
// bound, or stored as a pathEntry's position only where len(S) ≥ 1 is known.
// An empty tree gives a cursor with an empty path and a root-less tree; a
// pass-through node has no keys.

func init() {
	Register(&Rule{
		ID:    "CURSORGUARD",
		Props: []string{"C10"},
		Min:   6,
		Doc: "in everything reachable from the Cursor methods and SeekIter, every value len(S)-1 (S ≠ a node's Link list, which " +
			"always holds n+1 ≥ 1 slots) that is used as an index or slice bound, or stored into a struct (pathEntry.linkIndex), " +
			"is dominated by a test establishing len(S) ≥ 1 on the same path with no shrinking store in between, or clamped; " +
			"an unexported helper's unguarded use becomes a requirement on its callers.",
		Run: runCURSORGUARD,
	})
}

type lenUse struct {
	fn   *ssa.Function
	v    ssa.Value // len(S)-1
	S    ssa.Value
	sink ssa.Instruction
	kind string
}

func runCURSORGUARD(c *Ctx) {
	P := c.P
	reach := c.Facts.reachFromProp("C10")
	if len(reach) == 0 {
		c.AnchorMissing("Cursor methods")
		return
	}
	type req struct {
		fn   *ssa.Function
		sSym string // path of S in terms of fn's parameters
		orig lenUse
	}
	var work []req
	seen := map[string]bool{}
	for _, fn := range P.Funcs {
		if !reach[fn] {
			continue
		}
		for _, u := range lenMinus1Uses(fn) {
			pos := P.InstrPos(u.sink)
			sdesc := sliceDesc(u.S)
			what := fmt.Sprintf("len(%s)-1 used as %s in %s", sdesc, u.kind, ir.FuncName(fn))
			if _, f, ok := nodeSliceRoot(u.S); ok && f == "Link" {
				c.OK(pos, what, "a node's Link list holds len(Key)+1 ≥ 1 slots (C09; exception table)", true)
				continue
			}
			if ok, why := lenGuardAt(u); ok {
				c.OK(pos, what, why, false)
				continue
			}
			// requirement on callers if S is rooted at a parameter of an unexported function
			if p := rootParam(u.S); p != nil && !(fn.Object() != nil && fn.Object().Exported()) && fn.Parent() == nil {
				c.OK(pos, what, "unguarded here: len("+sdesc+") ≥ 1 required of the callers of "+ir.FuncName(fn), false)
				k := ir.FuncName(fn) + "|" + ir.Sym(u.S)
				if !seen[k] {
					seen[k] = true
					work = append(work, req{fn, ir.Sym(u.S), u})
				}
				continue
			}
			_, why := lenGuardAt(u)
			c.Violation(fn, pos, fmt.Sprintf("len(%s)-1 as %s", sdesc, u.kind),
				fmt.Sprintf("%s: on an empty tree (empty cursor path / key-less node) the index is -1 — a panic here, or a stored position -1 that makes a later Get/Backward panic", why))
		}
	}
	for len(work) > 0 {
		r := work[0]
		work = work[1:]
		for _, cs := range c.P.Callers[r.fn] {
			caller := cs.Parent()
			// substitute parameters by arguments
			s := r.sSym
			for i, p := range r.fn.Params {
				if i < len(cs.Common().Args) {
					re := regexp.MustCompile(`P:` + regexp.QuoteMeta(p.Name()) + `\b`)
					s = re.ReplaceAllString(s, strings.ReplaceAll(ir.Sym(cs.Common().Args[i]), "$", "$$"))
				}
			}
			pos := P.InstrPos(cs)
			what := fmt.Sprintf("call %s→%s needs len(%s) ≥ 1", ir.FuncName(caller), ir.FuncName(r.fn), s)
			if ok, why := lenGuardSym(s, cs); ok {
				c.OK(pos, what, why, false)
				continue
			}
			exported := caller.Object() != nil && caller.Object().Exported()
			if !exported && caller.Parent() == nil && strings.Contains(s, "P:") {
				k := ir.FuncName(caller) + "|" + s
				c.OK(pos, what, "propagated to the callers of "+ir.FuncName(caller), false)
				if !seen[k] {
					seen[k] = true
					work = append(work, req{caller, s, r.orig})
				}
				continue
			}
			_, why := lenGuardSym(s, cs)
			c.Violation(caller, pos, fmt.Sprintf("call %s without len(%s) ≥ 1", ir.FuncName(r.fn), pathDesc(s)),
				fmt.Sprintf("%s indexes %s[len-1] (%s) and %s calls it with a possibly empty slice (%s): panics on an empty tree",
					ir.FuncName(r.fn), pathDesc(r.sSym), P.InstrPos(r.orig.sink), ir.FuncName(caller), why))
		}
	}
}

func rootParam(v ssa.Value) *ssa.Parameter {
	for i := 0; i < 16; i++ {
		v = ir.ResolveCell(v)
		switch x := v.(type) {
		case *ssa.Parameter:
			return x
		case *ssa.UnOp:
			v = x.X
		case *ssa.FieldAddr:
			v = x.X
		case *ssa.IndexAddr:
			v = x.X
		case *ssa.Field:
			v = x.X
		case *ssa.Slice:
			v = x.X
		default:
			return nil
		}
	}
	return nil
}

func sliceDesc(S ssa.Value) string { return pathDesc(ir.Sym(S)) }

// pathDesc strips SSA-specific decoration from a path for use in keys.
var reReg = regexp.MustCompile(`(phi|call)@t\d+(#\d+)?`)
var reAlloc = regexp.MustCompile(`A:(\w*)@t\d+`)

func pathDesc(s string) string {
	s = strings.ReplaceAll(s, "*", "")
	s = strings.ReplaceAll(s, "P:", "")
	s = strings.ReplaceAll(s, ".Node.", ".")
	s = reReg.ReplaceAllString(s, "$1")
	s = reAlloc.ReplaceAllString(s, "$1")
	return s
}

// lenMinus1Uses finds every value len(S)-1 in fn and the sinks it reaches.
func lenMinus1Uses(fn *ssa.Function) []lenUse {
	var out []lenUse
	for _, b := range fn.Blocks {
		for _, ins := range b.Instrs {
			v, ok := ins.(*ssa.BinOp)
			if !ok {
				continue
			}
			S, ok := ir.LenMinus1(v)
			if !ok {
				continue
			}
			seen := map[ssa.Value]bool{}
			var follow func(x ssa.Value)
			follow = func(x ssa.Value) {
				if seen[x] || x.Referrers() == nil {
					return
				}
				seen[x] = true
				for _, r := range *x.Referrers() {
					switch y := r.(type) {
					case *ssa.IndexAddr:
						if y.Index == x {
							out = append(out, lenUse{fn, x, S, y, "index"})
						}
					case *ssa.Index:
						if y.Index == x {
							out = append(out, lenUse{fn, x, S, y, "index"})
						}
					case *ssa.Slice:
						if y.High == x || y.Low == x || y.Max == x {
							out = append(out, lenUse{fn, x, S, y, "slice bound"})
						}
					case *ssa.Store:
						if y.Val == x {
							if fa, ok := y.Addr.(*ssa.FieldAddr); ok {
								out = append(out, lenUse{fn, x, S, y, "stored position ." + ir.FieldName(fa.X.Type(), fa.Field)})
							}
						}
					case *ssa.Phi:
						// clamp idiom: is this edge taken only when len(S) ≥ 1?
						safe := true
						for i, e := range y.Edges {
							if e != x {
								continue
							}
							pred := y.Block().Preds[i]
							ok := false
							for _, f := range ir.EdgeFacts(pred, y.Block()) {
								if ss, is := ir.LenAtLeast1(f); is && ss == ir.Sym(S) {
									ok = true
								}
								if ir.NonNegative(f, x) {
									ok = true
								}
							}
							if !ok {
								safe = false
							}
						}
						if !safe {
							follow(y)
						}
					}
				}
			}
			follow(v)
		}
	}
	return out
}

func lenGuardAt(u lenUse) (bool, string) {
	// the index value itself tested non-negative
	for _, f := range ir.FactsAt(u.sink.Block()) {
		if ir.NonNegative(f, u.v) {
			return true, "dominating test: the index is ≥ 0"
		}
	}
	s := ir.Sym(u.S)
	if ir.FlowLenAtLeast1(s, ir.LoadDeps(u.S), u.sink) {
		return true, "on every path a test len(" + pathDesc(s) + ") ≥ 1 precedes with no shrinking store after it"
	}
	return false, "some path reaches this use without a test that len(" + pathDesc(s) + ") ≥ 1 (or a store may shrink it after the test)"
}

// lenGuardSym: len(<path s>) ≥ 1 known at use (s is a Sym-style path).
func lenGuardSym(s string, use ssa.Instruction) (bool, string) {
	if ir.FlowLenAtLeast1(s, nil, use) {
		return true, "on every path a test len(" + pathDesc(s) + ") ≥ 1 precedes with no shrinking store after it"
	}
	return false, "some path reaches the call without a test that len(" + pathDesc(s) + ") ≥ 1"
}
