package rules

import (
	"fmt"
	"go/token"
	"regexp"
	"strings"

	"golang.org/x/tools/go/ssa"

	"mastcheck/ir"
)

// CURSORGUARD: an index computed as len(S)-1 of a slice that may be empty
// (the cursor's path; a node's Key/Value) is used as an index, as a slice
// bound, or stored as a pathEntry's position only where len(S) ≥ 1 is known.
// An empty tree gives a cursor with an empty path and a root-less tree; a
// pass-through node has no keys.

func init() {
	Register(&Rule{
		ID:    "CURSORGUARD",
		Props: []string{"C10"},
		Min:   6,
		Doc: "in everything reachable from the Cursor methods and SeekIter, every value len(S)-1 (S ≠ a node's Link list, which " +
			"always holds n+1 ≥ 1 slots) that is used as an index or slice bound, or stored into a struct (pathEntry.linkIndex), " +
			"is dominated by a test establishing len(S) ≥ 1 on the same path with no shrinking store in between, or clamped; " +
			"an unexported helper's unguarded use becomes a requirement on its callers.",
		Run: runCURSORGUARD,
	})
}

type lenUse struct {
	fn   *ssa.Function
	v    ssa.Value // len(S)-1
	S    ssa.Value
	sink ssa.Instruction
	kind string
}

func runCURSORGUARD(c *Ctx) {
	P := c.P
	reach := c.Facts.reachFromProp("C10")
	if len(reach) == 0 {
		c.AnchorMissing("Cursor methods")
		return
	}
	type req struct {
		fn   *ssa.Function
		sSym string // path of S in terms of fn's parameters
		orig lenUse
	}
	var work []req
	seen := map[string]bool{}
	for _, fn := range P.Funcs {
		if !reach[fn] {
			continue
		}
		for _, u := range lenMinus1Uses(fn) {
			pos := P.InstrPos(u.sink)
			sdesc := sliceDesc(u.S)
			what := fmt.Sprintf("len(%s)-1 used as %s in %s", sdesc, u.kind, ir.FuncName(fn))
			if _, f, ok := nodeSliceRoot(u.S); ok && f == "Link" {
				c.OK(pos, what, "a node's Link list holds len(Key)+1 ≥ 1 slots (C09; exception table)", true)
				continue
			}
			if ok, why := lenGuardAt(u); ok {
				c.OK(pos, what, why, false)
				continue
			}
			// requirement on callers if S is rooted at a parameter of an unexported function
			if p := rootParam(u.S); p != nil && !(fn.Object() != nil && fn.Object().Exported()) && fn.Parent() == nil {
				c.OK(pos, what, "unguarded here: len("+sdesc+") ≥ 1 required of the callers of "+ir.FuncName(fn), false)
				k := ir.FuncName(fn) + "|" + ir.Sym(u.S)
				if !seen[k] {
					seen[k] = true
					work = append(work, req{fn, ir.Sym(u.S), u})
				}
				continue
			}
			_, why := lenGuardAt(u)
			c.Violation(fn, pos, fmt.Sprintf("len(%s)-1 as %s", sdesc, u.kind),
				fmt.Sprintf("%s: on an empty tree (empty cursor path / key-less node) the index is -1 — a panic here, or a stored position -1 that makes a later Get/Backward panic", why))
		}
	}
	for len(work) > 0 {
		r := work[0]
		work = work[1:]
		for _, cs := range c.P.Callers[r.fn] {
			caller := cs.Parent()
			// substitute parameters by arguments
			s := r.sSym
			for i, p := range r.fn.Params {
				if i < len(cs.Common().Args) {
					re := regexp.MustCompile(`P:` + regexp.QuoteMeta(p.Name()) + `\b`)
					s = re.ReplaceAllString(s, strings.ReplaceAll(ir.Sym(cs.Common().Args[i]), "$", "$$"))
				}
			}
			pos := P.InstrPos(cs)
			what := fmt.Sprintf("call %s→%s needs len(%s) ≥ 1", ir.FuncName(caller), ir.FuncName(r.fn), s)
			if ok, why := lenGuardSym(s, cs); ok {
				c.OK(pos, what, why, false)
				continue
			}
			exported := caller.Object() != nil && caller.Object().Exported()
			if !exported && caller.Parent() == nil && strings.Contains(s, "P:") {
				k := ir.FuncName(caller) + "|" + s
				c.OK(pos, what, "propagated to the callers of "+ir.FuncName(caller), false)
				if !seen[k] {
					seen[k] = true
					work = append(work, req{caller, s, r.orig})
				}
				continue
			}
			_, why := lenGuardSym(s, cs)
			c.Violation(caller, pos, fmt.Sprintf("call %s without len(%s) ≥ 1", ir.FuncName(r.fn), pathDesc(s)),
				fmt.Sprintf("%s indexes %s[len-1] (%s) and %s calls it with a possibly empty slice (%s): panics on an empty tree",
					ir.FuncName(r.fn), pathDesc(r.sSym), P.InstrPos(r.orig.sink), ir.FuncName(caller), why))
		}
	}
}

func rootParam(v ssa.Value) *ssa.Parameter {
	for i := 0; i < 16; i++ {
		v = ir.ResolveCell(v)
		switch x := v.(type) {
		case *ssa.Parameter:
			return x
		case *ssa.UnOp:
			v = x.X
		case *ssa.FieldAddr:
			v = x.X
		case *ssa.IndexAddr:
			v = x.X
		case *ssa.Field:
			v = x.X
		case *ssa.Slice:
			v = x.X
		default:
			return nil
		}
	}
	return nil
}

func sliceDesc(S ssa.Value) string { return pathDesc(ir.Sym(S)) }

// pathDesc strips SSA-specific decoration from a path for use in keys.
var reReg = regexp.MustCompile(`(phi|call)@t\d+(#\d+)?`)
var reAlloc = regexp.MustCompile(`A:(\w*)@t\d+`)

func pathDesc(s string) string {
	s = strings.ReplaceAll(s, "*", "")
	s = strings.ReplaceAll(s, "P:", "")
	s = strings.ReplaceAll(s, ".Node.", ".")
	s = reReg.ReplaceAllString(s, "$1")
	s = reAlloc.ReplaceAllString(s, "$1")
	return s
}

// lenMinus1Uses finds every value len(S)-1 in fn and the sinks it reaches.
func lenMinus1Uses(fn *ssa.Function) []lenUse {
	var out []lenUse
	for _, b := range fn.Blocks {
		for _, ins := range b.Instrs {
			v, ok := ins.(*ssa.BinOp)
			if !ok {
				continue
			}
			S, ok := ir.LenMinus1(v)
			if !ok {
				continue
			}
			seen := map[ssa.Value]bool{}
			var follow func(x ssa.Value)
			follow = func(x ssa.Value) {
				if seen[x] || x.Referrers() == nil {
					return
				}
				seen[x] = true
				for _, r := range *x.Referrers() {
					switch y := r.(type) {
					case *ssa.IndexAddr:
						if y.Index == x {
							out = append(out, lenUse{fn, x, S, y, "index"})
						}
					case *ssa.Index:
						if y.Index == x {
							out = append(out, lenUse{fn, x, S, y, "index"})
						}
					case *ssa.Slice:
						if y.High == x || y.Low == x || y.Max == x {
							out = append(out, lenUse{fn, x, S, y, "slice bound"})
						}
					case *ssa.Store:
						if y.Val == x {
							if fa, ok := y.Addr.(*ssa.FieldAddr); ok {
								out = append(out, lenUse{fn, x, S, y, "stored position ." + ir.FieldName(fa.X.Type(), fa.Field)})
							}
						}
					case *ssa.Phi:
						// clamp idiom: is this edge taken only when len(S) ≥ 1?
						safe := true
						for i, e := range y.Edges {
							if e != x {
								continue
							}
							pred := y.Block().Preds[i]
							ok := false
							for _, f := range ir.EdgeFacts(pred, y.Block()) {
								if ss, is := ir.LenAtLeast1(f); is && ss == ir.Sym(S) {
									ok = true
								}
								if ir.NonNegative(f, x) {
									ok = true
								}
							}
							if !ok {
								safe = false
							}
						}
						if !safe {
							follow(y)
						}
					}
				}
			}
			follow(v)
		}
	}
	return out
}

func lenGuardAt(u lenUse) (bool, string) {
	// the index value itself tested non-negative
	for _, f := range ir.FactsAt(u.sink.Block()) {
		if ir.NonNegative(f, u.v) {
			return true, "dominating test: the index is ≥ 0"
		}
	}
	s := ir.Sym(u.S)
	if ir.FlowLenAtLeast1(s, ir.LoadDeps(u.S), u.sink) {
		return true, "on every path a test len(" + pathDesc(s) + ") ≥ 1 precedes with no shrinking store after it"
	}
	return false, "some path reaches this use without a test that len(" + pathDesc(s) + ") ≥ 1 (or a store may shrink it after the test)"
}

// lenGuardSym: len(<path s>) ≥ 1 known at use (s is a Sym-style path).
func lenGuardSym(s string, use ssa.Instruction) (bool, string) {
	if ir.FlowLenAtLeast1(s, nil, use) {
		return true, "on every path a test len(" + pathDesc(s) + ") ≥ 1 precedes with no shrinking store after it"
	}
	return false, "some path reaches the call without a test that len(" + pathDesc(s) + ") ≥ 1"
}

// ---- CURSORPUSH -----------------------------------------------------------------------

func init() {
	Register(&Rule{
		ID:    "CURSORPUSH",
		Props: []string{"C10"},
		Min:   1,
		Doc: "the cursor's path is a chain root→…→current node, each entry the child of the one below it: an entry pushed by a Cursor method " +
			"whose node may be the node of the entry that is currently on top (read from path[len-1].node, possibly through a loop variable) " +
			"is preceded on every path by a pop of that entry; otherwise the top entry is on the path twice and later steps return to the stale copy. " +
			"A push or pop may be written inside a helper (c.push(entry), c.pop()): a helper's push of a node it is handed is judged at every call of the helper, with the argument's node.",
		Run: runCURSORPUSH,
	})
}

func isCursorPath(addr ssa.Value) bool {
	fa, ok := addr.(*ssa.FieldAddr)
	return ok && ir.IsPtrToNamed(fa.X.Type(), "Cursor") && ir.FieldName(fa.X.Type(), fa.Field) == "path"
}

// topNodeRead: v is (a load of) the node field of the path's top entry: path[len(path)-1].node,
// read in place or from a copy of the entry.
func topNodeRead(v ssa.Value, d int) bool {
	if d > 6 {
		return false
	}
	v = ir.ResolveCell(v)
	switch x := v.(type) {
	case *ssa.UnOp:
		if x.Op != token.MUL {
			return false
		}
		if fa, ok := x.X.(*ssa.FieldAddr); ok && ir.FieldName(fa.X.Type(), fa.Field) == nodeFieldName {
			// &path[i].node, or &copy.node where copy = path[i]
			switch b := fa.X.(type) {
			case *ssa.IndexAddr:
				if ld, ok := b.X.(*ssa.UnOp); ok && ld.Op == token.MUL && isCursorPath(ld.X) {
					return true
				}
			case *ssa.Alloc:
				// local copy of an entry: find what was stored into it
				if b.Referrers() != nil {
					for _, r := range *b.Referrers() {
						if st, ok := r.(*ssa.Store); ok && st.Addr == ssa.Value(b) {
							if ld, ok := st.Val.(*ssa.UnOp); ok && ld.Op == token.MUL {
								if ia, ok := ld.X.(*ssa.IndexAddr); ok {
									if l2, ok := ia.X.(*ssa.UnOp); ok && l2.Op == token.MUL && isCursorPath(l2.X) {
										return true
									}
								}
							}
						}
					}
				}
			}
		}
	case *ssa.Field:
		// (path[i]).node on a loaded entry value
		if ir.FieldName(x.X.Type(), x.Field) == nodeFieldName {
			if ld, ok := x.X.(*ssa.UnOp); ok && ld.Op == token.MUL {
				if ia, ok := ld.X.(*ssa.IndexAddr); ok {
					if l2, ok := ia.X.(*ssa.UnOp); ok && l2.Op == token.MUL && isCursorPath(l2.X) {
						return true
					}
				}
			}
		}
	}
	return false
}

func mayBeTopNode(v ssa.Value, seen map[ssa.Value]bool) bool {
	if seen[v] {
		return false
	}
	seen[v] = true
	if topNodeRead(v, 0) {
		return true
	}
	switch x := ir.ResolveCell(v).(type) {
	case *ssa.Phi:
		for _, e := range x.Edges {
			if mayBeTopNode(e, seen) {
				return true
			}
		}
	}
	return false
}

// runCURSORPUSH: r_cursorpush.go (pushes and pops written in the method or inside helpers it calls).

// ---- PATHINDEX -----------------------------------------------------------------------
//
// A path entry's position li satisfies 0 ≤ li ≤ len(Key) = len(Value) = len(Link)-1 (it names a key, or the
// slot after the last key). Indexing with li+k is in range for Link when k = 0; every other use needs a test.
// All quantities are compared through "<" with lengths, so the analysis is a one-variable bound:
// a fact li+a < len(F) gives li ≤ n + δF − a − 1 (n = len(Key), δLink = 1, δKey = δValue = 0), and the use
// X[li+k] needs li ≤ n + δX − k − 1.

func init() {
	Register(&Rule{
		ID:    "PATHINDEX",
		Props: []string{"C10"},
		Min:   6,
		Doc: "in the Cursor methods (String excepted), every index into a node's Key/Value/Link computed from a path entry's position (linkIndex + k) is in range on every path: " +
			"by the entry invariant 0 ≤ linkIndex ≤ len(Key) = len(Link)-1 alone (Link[linkIndex]), or by a test of linkIndex(+a) against a length of the same node that is still valid at the use (must-dataflow; a store to any linkIndex kills it); k < 0 needs linkIndex ≥ -k.",
		Run: runPATHINDEX,
	})
}

// liPlusK: v = load(X.linkIndex) + k.
func liPlusK(v ssa.Value) (li *ssa.UnOp, k int64, ok bool) {
	v = ir.ResolveCell(v)
	if bin, isBin := v.(*ssa.BinOp); isBin && (bin.Op == token.ADD || bin.Op == token.SUB) {
		if c, isC := ir.ConstInt(bin.Y); isC {
			l, k0, ok := liPlusK(bin.X)
			if !ok {
				return nil, 0, false
			}
			if bin.Op == token.SUB {
				c = -c
			}
			return l, k0 + c, true
		}
		return nil, 0, false
	}
	ld, isLd := v.(*ssa.UnOp)
	if !isLd || ld.Op != token.MUL {
		return nil, 0, false
	}
	fa, isFA := ld.X.(*ssa.FieldAddr)
	if !isFA || ir.FieldName(fa.X.Type(), fa.Field) != posFieldName {
		return nil, 0, false
	}
	return ld, 0, true
}

// lenOfNodeSlice: v = len(N.Key|Value|Link): the node value N (cells resolved) and δ.
func lenOfNodeSlice(v ssa.Value) (node string, delta int64, ok bool) {
	call, isCall := ir.ResolveCell(v).(*ssa.Call)
	if !isCall {
		return "", 0, false
	}
	if b, isB := call.Call.Value.(*ssa.Builtin); !isB || b.Name() != "len" {
		return "", 0, false
	}
	base, f, ok := nodeSliceRoot(call.Call.Args[0])
	if !ok {
		return "", 0, false
	}
	d := int64(0)
	if f == "Link" {
		d = 1
	}
	return ir.Sym(ir.ResolveCell(base)), d, true
}

func runPATHINDEX(c *Ctx) {
	P := c.P
	n := 0
	for _, fn := range P.Funcs {
		if fn.Pkg.Pkg.Path() != ir.MastPath || fn.Signature.Recv() == nil || !ir.IsPtrToNamed(fn.Signature.Recv().Type(), "Cursor") {
			continue
		}
		for _, b := range fn.Blocks {
			for _, ins := range b.Instrs {
				ia, ok := ins.(*ssa.IndexAddr)
				if !ok {
					continue
				}
				base, f, ok := nodeSliceRoot(ia.X)
				if !ok {
					continue
				}
				li, k, ok := liPlusK(ia.Index)
				if !ok {
					continue
				}
				n++
				nodeSym := ir.Sym(ir.ResolveCell(base))
				liSym := ir.Sym(li)
				deps := ir.LoadDeps(li)
				dU := int64(0)
				if f == "Link" {
					dU = 1
				}
				need := dU - k - 1 // li ≤ n + need
				pos := P.InstrPos(ia)
				what := fmt.Sprintf("%s.%s[%s%+d] in %s", pathDesc(nodeSym), f, pathDesc(liSym), k, ir.FuncName(fn))
				upperOK, lowerOK := pathIdxFacts(liSym, nodeSym, need, k, ia, deps)
				if !upperOK || !lowerOK {
					// the test may sit in the caller of an extracted helper
					if ok, _ := viaCallers(c, fn, ia, func(i ssa.Instruction) bool {
						st, ok := i.(*ssa.Store)
						return ok && strings.HasSuffix(ir.Sym(st.Addr), "."+posFieldName)
					}, func(rw func(string) string, at ssa.Instruction) bool {
						u, l := pathIdxFacts(rw(liSym), rw(nodeSym), need, k, at, nil)
						return (upperOK || u) && (lowerOK || l)
					}); ok {
						upperOK, lowerOK = true, true
					}
				}
				switch {
				case upperOK && lowerOK && need >= 0 && k >= 0:
					c.OK(pos, what, "in range by the entry invariant 0 ≤ linkIndex ≤ len(Key) = len(Link)-1", false)
				case upperOK && lowerOK:
					c.OK(pos, what, "a test against the node's length (or against 0) holds on every path to the use", false)
				case !upperOK:
					c.Violation(fn, pos, fmt.Sprintf("%s[linkIndex%+d] not known to be in range", f, k),
						"the position may name the slot after the last key (linkIndex = len(Key)); without a test against the node's length this index panics, e.g. on a key-less root (empty tree) or at the right edge of a node")
				default:
					c.Violation(fn, pos, fmt.Sprintf("%s[linkIndex%+d] may be negative", f, k), "no test establishes linkIndex ≥ the subtracted constant on every path")
				}
			}
		}
	}
	if n == 0 {
		c.AnchorMissing("indexing by a path entry's position in the Cursor methods")
	}
}

// ---- ENTRYINV -------------------------------------------------------------------------
//
// PATHINDEX relies on the invariant linkIndex ≤ len(node.Key) of every path entry. ENTRYINV checks the writers.

func init() {
	Register(&Rule{
		ID:    "ENTRYINV",
		Props: []string{"C10"},
		Min:   6,
		Doc:   "every position written into a path entry by the Cursor code is at most len(node.Key) (= len(Link)-1): the constant 0; len(Link)-1, len(Key), len(Value) or one of these minus a constant; the result of sort.Search over at most len(Key) positions; the old position +1 under a test that position+1 is below len(Link) (or the position below len(Key)); the old position −k; or a φ of such values. Any other constant needs a test that the node has that many keys.",
		Run:   runENTRYINV,
	})
}

func runENTRYINV(c *Ctx) {
	P := c.P
	n := 0
	var okVal func(v ssa.Value, at ssa.Instruction, seen map[ssa.Value]bool) (bool, string)
	okVal = func(v ssa.Value, at ssa.Instruction, seen map[ssa.Value]bool) (bool, string) {
		v = ir.ResolveCell(v)
		if seen[v] {
			return true, "loop"
		}
		seen[v] = true
		if k, isK := ir.ConstInt(v); isK {
			if k == 0 {
				return true, "0"
			}
			return false, fmt.Sprintf("the constant %d (a node may have fewer keys)", k)
		}
		switch x := v.(type) {
		case *ssa.Phi:
			for _, e := range x.Edges {
				if ok, why := okVal(e, at, seen); !ok {
					return false, why
				}
			}
			return true, "φ"
		case *ssa.Extract:
			if call, ok := x.Tuple.(*ssa.Call); ok {
				if sc := ir.Callee(call.Call); sc != nil && isOwn(P, sc) {
					return true, "position returned by " + sc.Name() // findNode / search helpers: checked where they store
				}
			}
		case *ssa.Call:
			// a helper computing the position (lastEntryIndex(node)): every value it returns
			if sc := ir.Callee(x.Call); sc != nil && sc.Blocks != nil && isOwn(P, sc) && sc.Signature.Results().Len() == 1 {
				rets := ir.Returns(sc)
				if len(rets) == 0 {
					return false, "a helper that never returns"
				}
				for _, r := range rets {
					if ok, why := okVal(r.Results[0], r, seen); !ok {
						return false, why + " (returned by " + sc.Name() + ")"
					}
				}
				return true, "position computed by " + sc.Name()
			}
			if sc := ir.Callee(x.Call); sc != nil && sc.String() == "sort.Search" {
				if atMostALength(x.Call.Args[0], map[ssa.Value]bool{}) {
					return true, "sort.Search over at most a length"
				}
				return false, "sort.Search over a range that is not known to be within the keys"
			}
			if b, ok := x.Call.Value.(*ssa.Builtin); ok && b.Name() == "len" {
				if _, f, ok := nodeSliceRoot(x.Call.Args[0]); ok && (f == "Key" || f == "Value") {
					return true, "len(" + f + ")"
				}
				return false, "a length that is not the number of keys"
			}
			if b, ok := x.Call.Value.(*ssa.Builtin); ok && (b.Name() == "max" || b.Name() == "min") {
				// max(len(Value)-1, 0): every operand is itself an admissible position
				for _, a := range x.Call.Args {
					if ok, why := okVal(a, at, seen); !ok {
						return false, why
					}
				}
				return true, b.Name() + " of admissible positions"
			}
		case *ssa.BinOp:
			k, isK := ir.ConstInt(x.Y)
			if !isK {
				break
			}
			if x.Op == token.SUB && k >= 0 {
				// len(Link)-1, len(Key)-k, position-k
				if lc, ok := ir.ResolveCell(x.X).(*ssa.Call); ok {
					if b, ok := lc.Call.Value.(*ssa.Builtin); ok && b.Name() == "len" {
						if _, f, ok := nodeSliceRoot(lc.Call.Args[0]); ok {
							if f == "Link" && k >= 1 || f != "Link" {
								return true, "a length minus a constant"
							}
							return false, "len(Link) itself (one more than the number of keys)"
						}
					}
				}
				if _, _, ok := liPlusK(x.X); ok {
					return true, "the old position minus a constant"
				}
				return okVal(x.X, at, seen)
			}
			if x.Op == token.ADD && k >= 1 {
				if li, k0, ok := liPlusK(x.X); ok {
					// position + k ≤ len(Key)  ⇔  position + k < len(Link)
					liSym := ir.Sym(li)
					tot := k0 + k
					ok := advanceOK(liSym, tot, at)
					if !ok {
						ok, _ = viaCallers(c, at.Parent(), at, func(i ssa.Instruction) bool {
							st, isSt := i.(*ssa.Store)
							return isSt && strings.HasSuffix(ir.Sym(st.Addr), "."+posFieldName)
						}, func(rw func(string) string, site ssa.Instruction) bool {
							return advanceOK(rw(liSym), tot, site)
						})
					}
					if ok {
						return true, "the old position plus a constant, tested against the node's length"
					}
					return false, "the old position advanced without a test against the node's length"
				}
			}
		}
		return false, "a value of unrecognised form (" + pathDesc(ir.Sym(v)) + ")"
	}
	for _, fn := range P.Funcs {
		if fn.Pkg.Pkg.Path() != ir.MastPath || fn.Signature.Recv() == nil || !ir.IsPtrToNamed(fn.Signature.Recv().Type(), "Cursor") {
			continue
		}
		for _, b := range fn.Blocks {
			if ir.IsDead(b) {
				continue
			}
			for _, ins := range b.Instrs {
				st, ok := ins.(*ssa.Store)
				if !ok {
					continue
				}
				fa, ok := st.Addr.(*ssa.FieldAddr)
				if !ok || ir.FieldName(fa.X.Type(), fa.Field) != posFieldName {
					continue
				}
				n++
				pos := P.InstrPos(st)
				what := fmt.Sprintf("position %s stored into a path entry in %s", pathDesc(ir.Sym(st.Val)), ir.FuncName(fn))
				if ok, why := okVal(st.Val, st, map[ssa.Value]bool{}); ok {
					c.OK(pos, what, "at most the number of keys: "+why, false)
				} else {
					c.Violation(fn, pos, "path entry position may exceed the number of keys",
						"the stored position is "+why+": an entry past the slot after the last key makes the next Get/Forward/Backward index out of range (e.g. Max on an entry-less root, then Backward)")
				}
			}
		}
	}
	if n == 0 {
		c.AnchorMissing("stores of a path entry's position in the Cursor methods")
	}
}

// pathIdxFacts: do the comparisons that hold at instruction `at` bound the position li (a path string) so that
// li+k indexes within a list of the node nodeSym? need is the required bound li ≤ n + need (n = len(Key)).
func pathIdxFacts(liSym, nodeSym string, need, k int64, at ssa.Instruction, deps []string) (upperOK, lowerOK bool) {
	kills := func(i ssa.Instruction) bool {
		st, ok := i.(*ssa.Store)
		if !ok {
			return false
		}
		as := ir.Sym(st.Addr)
		return strings.HasSuffix(as, "."+posFieldName) || (deps != nil && ir.MayClobber(as, deps))
	}
	upperOK = need >= 0
	if !upperOK {
		upperOK = ir.FlowFact(at, func(fc ir.Fact) bool {
			bin, ok := fc.Cond.(*ssa.BinOp)
			if !ok {
				return false
			}
			// normalise to  L REL len  with L = li + a
			x, y, op := bin.X, bin.Y, bin.Op
			if _, _, isLen := lenOfNodeSlice(x); isLen {
				x, y = y, x
				switch op {
				case token.LSS:
					op = token.GTR
				case token.GTR:
					op = token.LSS
				case token.LEQ:
					op = token.GEQ
				case token.GEQ:
					op = token.LEQ
				}
			}
			l2, a, ok := liPlusK(x)
			if !ok || ir.Sym(l2) != liSym {
				return false
			}
			nd, dF, ok := lenOfNodeSlice(y)
			if !ok || nd != nodeSym {
				return false
			}
			if !fc.Truth {
				switch op {
				case token.LSS:
					op = token.GEQ
				case token.GEQ:
					op = token.LSS
				case token.LEQ:
					op = token.GTR
				case token.GTR:
					op = token.LEQ
				case token.EQL:
					op = token.NEQ
				case token.NEQ:
					op = token.EQL
				}
			}
			var bound int64
			switch op {
			case token.LSS: // li + a < n + dF
				bound = dF - a - 1
			case token.LEQ:
				bound = dF - a
			case token.NEQ: // li + a ≠ n + dF, and li ≤ n: excludes the top value only when dF - a == 0
				if dF-a != 0 {
					return false
				}
				bound = -1
			default:
				return false
			}
			return bound <= need
		}, kills)
	}
	lowerOK = k >= 0
	if !lowerOK {
		lowerOK = ir.FlowFact(at, func(fc ir.Fact) bool {
			bin, ok := fc.Cond.(*ssa.BinOp)
			if !ok {
				return false
			}
			l2, a, ok := liPlusK(bin.X)
			cst, isC := ir.ConstInt(bin.Y)
			if !ok || !isC || ir.Sym(l2) != liSym {
				return false
			}
			op := bin.Op
			if !fc.Truth {
				switch op {
				case token.LEQ:
					op = token.GTR
				case token.LSS:
					op = token.GEQ
				case token.EQL:
					op = token.NEQ
				default:
					return false
				}
			}
			switch op {
			case token.GTR: // li + a > cst  ⇒ li ≥ cst - a + 1
				return cst-a+1 >= -k
			case token.GEQ:
				return cst-a >= -k
			case token.NEQ: // li ≠ 0 with li ≥ 0
				return cst-a == 0 && -k <= 1
			}
			return false
		}, kills)
	}
	return
}

// advanceOK: at instruction `at`, position li (path string) advanced by tot is still at most len(Key):
// some comparison li+a < len(F) on every path gives li ≤ n + δF − a − 1 ≤ n − tot.
func advanceOK(liSym string, tot int64, at ssa.Instruction) bool {
	return ir.FlowFact(at, func(fc ir.Fact) bool {
		bin, isB := fc.Cond.(*ssa.BinOp)
		if !isB {
			return false
		}
		l2, a, ok := liPlusK(bin.X)
		if !ok || ir.Sym(l2) != liSym {
			return false
		}
		_, dF, ok := lenOfNodeSlice(bin.Y)
		if !ok {
			return false
		}
		op := bin.Op
		if !fc.Truth {
			switch op {
			case token.GEQ:
				op = token.LSS
			case token.GTR:
				op = token.LEQ
			case token.EQL:
				op = token.NEQ
			default:
				return false
			}
		}
		switch op {
		case token.LSS:
			return dF-a-1+tot <= 0
		case token.LEQ:
			return dF-a+tot <= 0
		case token.NEQ:
			return dF-a == 0 && tot <= 1
		}
		return false
	}, func(i ssa.Instruction) bool {
		st, ok := i.(*ssa.Store)
		return ok && strings.HasSuffix(ir.Sym(st.Addr), "."+posFieldName)
	})
}

// ---- STEPOVER -------------------------------------------------------------------------

func init() {
	Register(&Rule{
		ID:    "STEPOVER",
		Props: []string{"C10"},
		Min:   2,
		Doc:   "between two neighbouring keys of a node lies the subtree under the link between them: a cursor step that moves a path entry's position by one without descending (position ± 1 stored, no child pushed from that slot) is taken only where exactly the link it steps over was found nil or absent — Link[position+1] for a step forward, Link[position] for a step back — or where that very link is being followed (the descent). Undo stores on an error edge are exempt.",
		Run:   runSTEPOVER,
	})
}

func runSTEPOVER(c *Ctx) {
	P := c.P
	n := 0
	for _, fn := range P.Funcs {
		if fn.Pkg.Pkg.Path() != ir.MastPath || fn.Signature.Recv() == nil || !ir.IsPtrToNamed(fn.Signature.Recv().Type(), "Cursor") {
			continue
		}
		for _, b := range fn.Blocks {
			if ir.IsDead(b) {
				continue
			}
			for _, ins := range b.Instrs {
				st, ok := ins.(*ssa.Store)
				if !ok {
					continue
				}
				fa, ok := st.Addr.(*ssa.FieldAddr)
				if !ok || ir.FieldName(fa.X.Type(), fa.Field) != posFieldName {
					continue
				}
				bin, ok := st.Val.(*ssa.BinOp)
				if !ok || (bin.Op != token.ADD && bin.Op != token.SUB) {
					continue
				}
				k, isK := ir.ConstInt(bin.Y)
				li, k0, okLi := liPlusK(bin.X)
				if !isK || k != 1 || !okLi || k0 != 0 || ir.Sym(li.X) != ir.Sym(st.Addr) {
					continue
				}
				// an undo on an error edge restores what a failed step changed
				undo := false
				for _, f := range ir.FactsAt(b) {
					if tv, tnn, isNil := ir.NilTest(f.Cond); isNil && f.Truth == tnn && ir.IsErrorType(tv.Type()) {
						undo = true
					}
				}
				if undo {
					continue
				}
				n++
				liSym := ir.Sym(li)
				liDeps := ir.LoadDeps(li)
				skipped := int64(0) // Link[position + skipped] is the link stepped over
				dir := "back"
				if bin.Op == token.ADD {
					skipped, dir = 1, "forward"
				}
				// the slot Link[li+skipped] of the entry's node
				isSlot := func(v ssa.Value) bool {
					ld, ok := ir.ResolveCell(v).(*ssa.UnOp)
					if !ok || ld.Op != token.MUL {
						return false
					}
					ia, ok := ld.X.(*ssa.IndexAddr)
					if !ok {
						return false
					}
					if _, f, ok := nodeSliceRoot(ia.X); !ok || f != "Link" {
						return false
					}
					l2, a, ok := liPlusK(ia.Index)
					return ok && ir.Sym(l2) == liSym && a == skipped
				}
				pos := P.InstrPos(st)
				what := fmt.Sprintf("step %s in %s (position%+d without descent)", dir, ir.FuncName(fn), map[bool]int{true: 1, false: -1}[bin.Op == token.ADD])
				// coming back up: once an entry was popped, the parent's position names the link that was just walked, and
				// moving it is not a step over an unvisited link — a pop discharges the obligation like the nil test does
				isPopEvent := func(i ssa.Instruction) bool {
					if call, ok := i.(*ssa.Call); ok {
						if h := ir.Callee(call.Call); h != nil && h != fn && h.Blocks != nil && h.Signature.Recv() != nil && ir.IsPtrToNamed(h.Signature.Recv().Type(), "Cursor") {
							return allReturnsPass(h, func(j ssa.Instruction) bool {
								s2, ok := j.(*ssa.Store)
								if !ok || !isCursorPath(s2.Addr) {
									return false
								}
								_, isSl := s2.Val.(*ssa.Slice)
								return isSl
							})
						}
						return false
					}
					s2, ok := i.(*ssa.Store)
					if !ok || !isCursorPath(s2.Addr) {
						return false
					}
					_, isSl := s2.Val.(*ssa.Slice)
					return isSl
				}
				killsStep := func(i ssa.Instruction) bool {
					if isPopEvent(i) {
						return false
					}
					s2, ok := i.(*ssa.Store)
					return ok && s2 != st && (strings.HasSuffix(ir.Sym(s2.Addr), "."+posFieldName) || ir.MayClobber(ir.Sym(s2.Addr), liDeps))
				}
				var edgeTo *ssa.BasicBlock
				slotNilAt := func(use ssa.Instruction, lsym string) bool {
					slot := func(v ssa.Value) bool {
						ld, ok := ir.ResolveCell(v).(*ssa.UnOp)
						if !ok || ld.Op != token.MUL {
							return false
						}
						ia, ok := ld.X.(*ssa.IndexAddr)
						if !ok {
							return false
						}
						if _, f, ok := nodeSliceRoot(ia.X); !ok || f != "Link" {
							return false
						}
						l2, a, ok := liPlusK(ia.Index)
						return ok && ir.Sym(l2) == lsym && a == skipped
					}
					est := func(fc ir.Fact) bool {
						// the link stepped over is nil
						if tv, tnn, isNil := ir.NilTest(fc.Cond); isNil && fc.Truth != tnn && slot(tv) {
							return true
						}
						// or there is no such slot: position+skipped < len(Link) refuted
						if bb, ok := fc.Cond.(*ssa.BinOp); ok && !fc.Truth && bb.Op == token.LSS {
							if l2, a, ok := liPlusK(bb.X); ok && ir.Sym(l2) == lsym && a == skipped {
								if _, dF, ok := lenOfNodeSlice(bb.Y); ok && dF == 1 {
									return true
								}
							}
						}
						return false
					}
					if ir.FlowFactGen(use, est, isPopEvent, killsStep) {
						return true
					}
					// use is the branch that ends a block: the outcome taken towards edgeTo counts as well
					if iff, ok := use.(*ssa.If); ok && edgeTo != nil {
						blk := iff.Block()
						if blk.Succs[0] != blk.Succs[1] {
							for _, f2 := range ir.ExpandFacts([]ir.Fact{{Cond: iff.Cond, Truth: blk.Succs[0] == edgeTo, From: blk}}) {
								if est(f2) {
									return true
								}
							}
						}
					}
					return false
				}
				okStep := slotNilAt(st, liSym)
				// the entry is named through a loop variable (cur := top; for … { pop; cur = top }; cur.linkIndex--):
				// decide per way into the loop, with the entry each way brings
				if !okStep {
					if phi, isPhi := fa.X.(*ssa.Phi); isPhi {
						all := len(phi.Edges) > 0
						for i, e := range phi.Edges {
							pred := phi.Block().Preds[i]
							last := pred.Instrs[len(pred.Instrs)-1]
							edgeTo = phi.Block()
							if !slotNilAt(last, "*"+ir.Sym(e)+"."+posFieldName) {
								all = false
							}
							edgeTo = nil
						}
						// nothing between the loop head and the step invalidates it
						for _, bb := range fn.Blocks {
							for _, i2 := range bb.Instrs {
								if killsStep(i2) && ir.InstrReaches(phi, i2) && ir.InstrReaches(i2, st) {
									all = false
								}
							}
						}
						okStep = all
					}
				}
				// or the link is being followed: a load of exactly that slot precedes the store on every path
				if !okStep {
					okStep = ir.MustPass(st, func(i ssa.Instruction) bool {
						call, ok := i.(*ssa.Call)
						if !ok || !c.Facts.MayLoad[ir.Callee(call.Call)] {
							return false
						}
						for _, a := range call.Call.Args {
							if isSlot(a) {
								return true
							}
						}
						return false
					})
					if okStep {
						c.OK(pos, what, "the link at that slot is being followed (descent)", false)
						continue
					}
				}
				if okStep {
					c.OK(pos, what, "the link stepped over was found nil or absent on every path", false)
				} else {
					c.Violation(fn, pos, "cursor steps over a link it did not look at",
						fmt.Sprintf("the position moves %s by one inside the node without the link between the two keys (Link[position%+d]) having been found nil: the subtree under it is skipped (keys are missing from the walk)", dir, skipped))
				}
			}
		}
	}
	if n == 0 {
		c.AnchorMissing("in-node steps (linkIndex ± 1) in the Cursor methods")
	}
}

// ---- POSNODE --------------------------------------------------------------------------
//
// A path position means something only relative to its own entry's node. Comparing the position of one entry with
// the key count of another entry's node (a local `node := pe.node` that survived `pe = &c.path[…]`) makes Forward
// or Backward pop too far or stop on a slot without a key.

func init() {
	Register(&Rule{
		ID:    "POSNODE",
		Props: []string{"C10"},
		Min:   4,
		Doc: "in the Cursor methods, wherever a path entry's position (E.linkIndex ± k) is compared with the length of a node's Key/Value/Link list and that node was read out of a path entry (E'.node), " +
			"E' is the same entry as E: the same pointer value, or the same element expression with no store to the path slice between the read of the node and the comparison.",
		Run: runPOSNODE,
	})
}

func runPOSNODE(c *Ctx) {
	P := c.P
	n := 0
	// the entry a node value was read from: N = *(E.node)
	entryOfNode := func(base ssa.Value) (ssa.Value, *ssa.UnOp) {
		ld, ok := ir.ResolveCell(base).(*ssa.UnOp)
		if !ok || ld.Op != token.MUL {
			return nil, nil
		}
		fa, ok := ld.X.(*ssa.FieldAddr)
		if !ok || ir.FieldName(fa.X.Type(), fa.Field) != nodeFieldName {
			return nil, nil
		}
		return fa.X, ld
	}
	for _, fn := range P.Funcs {
		if fn.Pkg.Pkg.Path() != ir.MastPath || fn.Signature.Recv() == nil || !ir.IsPtrToNamed(fn.Signature.Recv().Type(), "Cursor") {
			continue
		}
		var pathStores []*ssa.Store
		for _, b := range fn.Blocks {
			for _, ins := range b.Instrs {
				if st, ok := ins.(*ssa.Store); ok && isCursorPath(st.Addr) {
					pathStores = append(pathStores, st)
				}
			}
		}
		for _, b := range fn.Blocks {
			if ir.IsDead(b) {
				continue
			}
			for _, ins := range b.Instrs {
				bin, ok := ins.(*ssa.BinOp)
				if !ok {
					continue
				}
				switch bin.Op {
				case token.LSS, token.LEQ, token.GTR, token.GEQ, token.EQL, token.NEQ:
				default:
					continue
				}
				for _, side := range [][2]ssa.Value{{bin.X, bin.Y}, {bin.Y, bin.X}} {
					li, _, ok := liPlusK(side[0])
					if !ok {
						continue
					}
					lenV := ir.ResolveCell(side[1])
					if sub, isBin := lenV.(*ssa.BinOp); isBin && (sub.Op == token.ADD || sub.Op == token.SUB) {
						if _, isK := ir.ConstInt(sub.Y); isK {
							lenV = ir.ResolveCell(sub.X)
						}
					}
					call, isCall := lenV.(*ssa.Call)
					if !isCall {
						continue
					}
					if bi, isB := call.Call.Value.(*ssa.Builtin); !isB || bi.Name() != "len" {
						continue
					}
					base, f, ok := nodeSliceRoot(call.Call.Args[0])
					if !ok {
						continue
					}
					e2, nodeLd := entryOfNode(base)
					if e2 == nil {
						continue // a node that was not read out of a path entry (just loaded, a parameter): nothing to relate
					}
					e1 := li.X.(*ssa.FieldAddr).X
					n++
					pos := P.InstrPos(bin)
					what := fmt.Sprintf("%s compared with len(%s.%s) in %s", pathDesc(ir.Sym(li)), pathDesc(ir.Sym(base)), f, ir.FuncName(fn))
					r1, r2 := ir.ResolveCell(e1), ir.ResolveCell(e2)
					same := r1 == r2
					why := "position and node are read through the same entry pointer"
					if !same && ir.Sym(r1) == ir.Sym(r2) {
						same, why = true, "position and node are read from the same element expression, the path slice unchanged in between"
						for _, st := range pathStores {
							if ir.InstrReaches(nodeLd, st) && ir.InstrReaches(st, bin) && !ir.InstrReaches(st, nodeLd) {
								same = false
							}
						}
					}
					if same {
						c.OK(pos, what, why, false)
					} else {
						c.Violation(fn, pos, "position of one path entry compared with the node of another",
							fmt.Sprintf("the position is read from %s but the node whose %s list is measured was read from %s: after the entry pointer moved (a pop, a push) the two belong to different levels, so the cursor pops past keys that are still to come or stops on a slot that has no key",
								pathDesc(ir.Sym(r1)), f, pathDesc(ir.Sym(r2))))
					}
				}
			}
		}
	}
	if n == 0 {
		c.AnchorMissing("comparison of a path position with its node's list length in the Cursor methods")
	}
}

// ---- POPGUARD --------------------------------------------------------------------------
//
// A step that leaves a node (pops its path entry) gives up whatever keys the node still holds beyond the position.
// It may be taken only when there are none: for a step forward the position has no key after it, for a step back
// none before it. An extra condition on the in-node step ("only leaves step inside a node") sends the cursor up
// from a node that still has keys, and they are never visited.

func init() {
	Register(&Rule{
		ID:    "POPGUARD",
		Props: []string{"C10"},
		Min:   2,
		Doc: "in Cursor.Forward and Cursor.Backward, every store that drops the last path entry (path = path[:len-1]) is reached only where a test has just established that the entry's node has no key left in the " +
			"direction of travel: the negative outcome of a comparison of a path position with the node's key count (forward) or with 0 (backward) holds on every path to the pop, each loop pass re-establishing it for the entry it exposes.",
		Run: runPOPGUARD,
	})
}

func runPOPGUARD(c *Ctx) {
	P := c.P
	n := 0
	isPop := func(ins ssa.Instruction) bool {
		st, ok := ins.(*ssa.Store)
		if !ok || !isCursorPath(st.Addr) {
			return false
		}
		sl, ok := st.Val.(*ssa.Slice)
		if !ok || sl.High == nil {
			return false
		}
		// path[:len(path)-1]: a pop (not the undo that cuts back to a saved depth)
		hb, ok := ir.ResolveCell(sl.High).(*ssa.BinOp)
		if !ok || hb.Op != token.SUB {
			return false
		}
		k, isK := ir.ConstInt(hb.Y)
		return isK && k == 1
	}
	// helpers that pop (`func (c *Cursor) pop() *pathEntry`): a call of one is the pop
	popFns := map[*ssa.Function]bool{}
	for _, fn := range P.Funcs {
		if fn.Pkg == nil || fn.Pkg.Pkg.Path() != ir.MastPath || fn.Signature.Recv() == nil || !ir.IsPtrToNamed(fn.Signature.Recv().Type(), "Cursor") {
			continue
		}
		if o := fn.Object(); o != nil && o.Exported() {
			continue
		}
		for _, b := range fn.Blocks {
			for _, ins := range b.Instrs {
				if isPop(ins) && len(fn.Blocks) <= 4 {
					popFns[fn] = true
				}
			}
		}
	}
	exhausted := func(f ir.Fact) bool {
		bin, ok := f.Cond.(*ssa.BinOp)
		if !ok {
			return false
		}
		for _, side := range [][2]ssa.Value{{bin.X, bin.Y}, {bin.Y, bin.X}} {
			if _, _, ok := liPlusK(side[0]); !ok {
				continue
			}
			flip := map[token.Token]token.Token{token.LSS: token.GTR, token.GTR: token.LSS, token.LEQ: token.GEQ, token.GEQ: token.LEQ}
			// against the node's key count …
			if _, _, ok := lenOfNodeSlice(side[1]); ok {
				op := bin.Op
				if side[0] == bin.Y {
					if fo, has := flip[op]; has {
						op = fo
					}
				}
				// position(+k) < len false, or position(+k) >= len true
				return (op == token.LSS || op == token.LEQ) && !f.Truth || (op == token.GEQ || op == token.GTR) && f.Truth
			}
			// … or against 0 (stepping back)
			if k, isK := ir.ConstInt(side[1]); isK && (k == 0 || k == 1) {
				op := bin.Op
				if side[0] == bin.Y {
					if fo, has := flip[op]; has {
						op = fo
					}
				}
				return (op == token.GTR || op == token.GEQ) && !f.Truth || (op == token.LEQ || op == token.LSS || op == token.EQL) && f.Truth
			}
		}
		return false
	}
	// exhaustedKind: which of the two it is — 1: position not below the node's key count, 2: position not above 0 —
	// with the position read and the node measured
	exhaustedKind := func(f ir.Fact) (int, *ssa.UnOp, string) {
		if !exhausted(f) {
			return 0, nil, ""
		}
		bin := f.Cond.(*ssa.BinOp)
		for _, side := range [][2]ssa.Value{{bin.X, bin.Y}, {bin.Y, bin.X}} {
			li, _, ok := liPlusK(side[0])
			if !ok {
				continue
			}
			if nd, _, ok := lenOfNodeSlice(side[1]); ok {
				return 1, li, nd
			}
			return 2, li, ""
		}
		return 0, nil, ""
	}
	// stopParam: the fact is the negative answer of a stop condition handed to fn as a parameter
	// (`ascendUntil(accept func(*pathEntry) bool)`: `if accept(&c.path[len(c.path)-1])` not taken): the index of
	// that parameter, else -1. What the answer means is decided at every call of fn, on the function handed in.
	stopParam := func(fn *ssa.Function, f ir.Fact) int {
		call, ok := f.Cond.(*ssa.Call)
		if !ok || f.Truth || call.Call.IsInvoke() || len(call.Call.Args) != 1 {
			return -1
		}
		prm, ok := ir.ResolveCell(call.Call.Value).(*ssa.Parameter)
		if !ok || prm.Parent() != fn {
			return -1
		}
		ia, ok := call.Call.Args[0].(*ssa.IndexAddr)
		if !ok || !ir.IsPtrToNamed(ia.Type(), pathNames(P).typ) {
			return -1
		}
		if ld, ok := ia.X.(*ssa.UnOp); !ok || ld.Op != token.MUL || !isCursorPath(ld.X) {
			return -1
		}
		// … about the entry the pop has just exposed: path[len(path)-1]
		ib, ok := ir.ResolveCell(ia.Index).(*ssa.BinOp)
		if !ok || ib.Op != token.SUB || !isLenCall(ib.X) {
			return -1
		}
		if k, isK := ir.ConstInt(ib.Y); !isK || k != 1 {
			return -1
		}
		if lc, ok := ir.ResolveCell(ib.X).(*ssa.Call); !ok || len(lc.Call.Args) != 1 {
			return -1
		} else if ld, ok := lc.Call.Args[0].(*ssa.UnOp); !ok || ld.Op != token.MUL || !isCursorPath(ld.X) {
			return -1
		}
		return paramIndex(prm)
	}
	// stopFuncExhausts: v is a function of the package (a closure, a named function) of one path entry whose answer
	// false means that entry's node has no key left, in the given direction: every return yields the constant true,
	// or the constant false where the test has failed, or the test itself.
	stopFuncExhausts := func(v ssa.Value, kind int) bool {
		var g *ssa.Function
		switch x := ir.ResolveCell(ir.Strip(v)).(type) {
		case *ssa.MakeClosure:
			g, _ = x.Fn.(*ssa.Function)
		case *ssa.Function:
			g = x
		}
		if g == nil || g.Blocks == nil || g.Pkg == nil || g.Pkg.Pkg.Path() != ir.MastPath || len(g.Params) != 1 || g.Signature.Results().Len() != 1 {
			return false
		}
		about := func(f ir.Fact) bool {
			k, li, nd := exhaustedKind(f)
			if k != kind {
				return false
			}
			fa, ok := li.X.(*ssa.FieldAddr)
			if !ok || ir.ResolveCell(fa.X) != ssa.Value(g.Params[0]) {
				return false
			}
			return k != 1 || strings.Contains(nd, ir.Sym(g.Params[0])+".") // the node measured is that entry's
		}
		rets := ir.Returns(g)
		for _, r := range rets {
			res := ir.ResolveCell(r.Results[0])
			if b, isK := ir.ConstBool(res); isK {
				if !b && !ir.FlowFact(r, about, func(ssa.Instruction) bool { return false }) {
					return false
				}
				continue
			}
			if _, isBin := res.(*ssa.BinOp); !isBin || !about(ir.Fact{Cond: res, Truth: false}) {
				return false
			}
		}
		return len(rets) > 0
	}
	type popJob struct{ entry, fn *ssa.Function }
	var jobs []popJob
	inRegion := map[*ssa.Function]bool{}
	for _, entry := range c.Entries("(*Cursor).Forward", "(*Cursor).Backward") {
		for _, fn := range regionOf(c, entry) {
			jobs = append(jobs, popJob{entry, fn})
			inRegion[fn] = true
		}
	}
	// a private helper shared by the two steps (called from both, so in neither's region) belongs to their joint
	// region: each pop in it is one obligation per call of the helper
	shared := map[*ssa.Function]bool{}
	for changed := true; changed; {
		changed = false
		for _, fn := range P.Funcs {
			if inRegion[fn] || !privateHelper(c, fn) {
				continue
			}
			all := true
			for _, cs := range P.Callers[fn] {
				if _, isCall := cs.(*ssa.Call); !isCall || !inRegion[ir.Outermost(cs.Parent())] {
					all = false
				}
			}
			if all {
				inRegion[fn], shared[fn], changed = true, true, true
				jobs = append(jobs, popJob{nil, fn})
			}
		}
	}
	for _, job := range jobs {
		entry := job.entry
		{
			fn := job.fn
			if popFns[fn] {
				continue
			}
			for _, b := range fn.Blocks {
				if ir.IsDead(b) {
					continue
				}
				for _, ins := range b.Instrs {
					pop := isPop(ins)
					if call, ok := ins.(*ssa.Call); ok && popFns[ir.Callee(call.Call)] {
						pop = true
					}
					if !pop {
						continue
					}
					n++
					pos := P.InstrPos(ins)
					what := "pop of the last path entry in " + ir.FuncName(fn)
					held := ir.FlowFact(ins, exhausted, func(ssa.Instruction) bool { return false })
					if !held && fn != entry && len(fn.Blocks) > 0 && len(fn.Blocks[0].Instrs) > 0 {
						// the pop loop extracted into a helper of the region: the test made before the call counts for the
						// first pass — the fact holds at the helper's entry if it holds at every call of the helper
						first := fn.Blocks[0].Instrs[0]
						stops := map[int]bool{} // stop conditions handed in whose negative answer the later passes rely on
						inside := ir.FlowFactGen(ins, func(f ir.Fact) bool {
							if exhausted(f) {
								return true
							}
							if j := stopParam(fn, f); j >= 0 {
								stops[j] = true
								return true
							}
							return false
						}, func(i ssa.Instruction) bool { return i == first }, func(i ssa.Instruction) bool {
							// in a helper shared by the two steps each pop exposes another entry: what was known is gone
							return shared[fn] && isPop(i)
						})
						atCalls := len(P.Callers[fn]) > 0
						for _, cs := range P.Callers[fn] {
							if len(stops) == 0 {
								if !ir.FlowFact(cs, exhausted, func(ssa.Instruction) bool { return false }) {
									atCalls = false
								}
								continue
							}
							// the test made before the call and the stop condition handed in look the same way
							okCall := false
							for _, kind := range []int{1, 2} {
								ok := ir.FlowFact(cs, func(f ir.Fact) bool { k, _, _ := exhaustedKind(f); return k == kind }, func(ssa.Instruction) bool { return false })
								for j := range stops {
									if args := cs.Common().Args; j >= len(args) || !stopFuncExhausts(args[j], kind) {
										ok = false
									}
								}
								if ok {
									okCall = true
								}
							}
							if !okCall {
								atCalls = false
							}
						}
						held = inside && atCalls
					}
					if held && shared[fn] {
						for _, cs := range P.Callers[fn] {
							c.OK(pos, what+", called from "+ir.FuncName(ir.Outermost(cs.Parent())), "every path to it has just found the entry's node without a key left in the direction of travel", false)
						}
					} else if held {
						c.OK(pos, what, "every path to it has just found the entry's node without a key left in the direction of travel", false)
					} else {
						c.Violation(fn, pos, "path entry dropped although its node may still have keys to visit",
							"on some path to this pop no test has established that the node has no key left beyond (forward) or before (backward) the position: the step inside the node depends on a further condition, and where that fails the cursor climbs out of a node whose remaining keys are then never visited")
					}
				}
			}
		}
	}
	if n == 0 {
		c.AnchorMissing("a pop of the last path entry in Cursor.Forward / Cursor.Backward")
	}
}

// ---- DESCENTLAND -----------------------------------------------------------------------
//
// A descent that ends by pushing a child with a position at its far end ("a leaf: its last entry is the predecessor")
// claims that nothing lies beyond that entry in the child — which is so only if the child's LAST link is nil. A nil
// first link says nothing about the last one: an inner node may have no subtree before its first key and one after
// its last.

func init() {
	Register(&Rule{
		ID:    "DESCENTLAND",
		Props: []string{"C10"},
		Min:   0,
		Doc: "in the Cursor methods, a push of a child node with a position computed from the child's own list lengths that ends the step (the method returns without continuing the descent through Min/Max) " +
			"is reached only where the child's link beyond that position was found nil — a test of Link[k] for a constant k other than the far end does not discharge it.",
		Run: runDESCENTLAND,
	})
}

func runDESCENTLAND(c *Ctx) {
	P := c.P
	n := 0
	for _, fn := range P.Funcs {
		if fn.Pkg.Pkg.Path() != ir.MastPath || fn.Signature.Recv() == nil || !ir.IsPtrToNamed(fn.Signature.Recv().Type(), "Cursor") {
			continue
		}
		for _, b := range fn.Blocks {
			if ir.IsDead(b) {
				continue
			}
			for idx, ins := range b.Instrs {
				st, ok := ins.(*ssa.Store)
				if !ok || !isCursorPath(st.Addr) {
					continue
				}
				ap, ok := st.Val.(*ssa.Call)
				if !ok {
					continue
				}
				if bi, ok := ap.Call.Value.(*ssa.Builtin); !ok || bi.Name() != "append" || len(ap.Call.Args) != 2 {
					continue
				}
				// the pushed literal: stores into the varargs array's element
				sl, ok := ap.Call.Args[1].(*ssa.Slice)
				if !ok {
					continue
				}
				arr, ok := sl.X.(*ssa.Alloc)
				if !ok || arr.Referrers() == nil {
					continue
				}
				var nodeV, posV ssa.Value
				for _, r := range *arr.Referrers() {
					ia, ok := r.(*ssa.IndexAddr)
					if !ok || ia.Referrers() == nil {
						continue
					}
					for _, r2 := range *ia.Referrers() {
						switch y := r2.(type) {
						case *ssa.FieldAddr:
							if y.Referrers() == nil {
								continue
							}
							for _, r3 := range *y.Referrers() {
								if fs, ok := r3.(*ssa.Store); ok && fs.Addr == ssa.Value(y) {
									switch ir.FieldName(y.X.Type(), y.Field) {
									case nodeFieldName:
										nodeV = fs.Val
									case posFieldName:
										posV = fs.Val
									}
								}
							}
						case *ssa.Store:
							// a whole struct value stored: the composite literal was built in a temporary
							if ld, ok := y.Val.(*ssa.UnOp); ok && ld.Op == token.MUL {
								if lit, ok := ld.X.(*ssa.Alloc); ok && lit.Referrers() != nil {
									for _, r3 := range *lit.Referrers() {
										fa, ok := r3.(*ssa.FieldAddr)
										if !ok || fa.Referrers() == nil {
											continue
										}
										for _, r4 := range *fa.Referrers() {
											if fs, ok := r4.(*ssa.Store); ok && fs.Addr == ssa.Value(fa) {
												switch ir.FieldName(fa.X.Type(), fa.Field) {
												case nodeFieldName:
													nodeV = fs.Val
												case posFieldName:
													posV = fs.Val
												}
											}
										}
									}
								}
							}
						}
					}
				}
				if nodeV == nil || posV == nil {
					continue
				}
				if _, isK := ir.ConstInt(posV); isK {
					continue // position 0 / a constant: the descent continues from the near end
				}
				// position computed from the pushed node's own lengths?
				ps := ir.Sym(posV)
				ns := ir.Sym(ir.ResolveCell(nodeV))
				if !strings.Contains(ps, "len(") || !strings.Contains(ps, ns) {
					continue
				}
				// terminal: the method returns in this block without another call of a Cursor method
				terminal := false
				for _, later := range b.Instrs[idx+1:] {
					if call, ok := later.(*ssa.Call); ok {
						if f := ir.Callee(call.Call); f != nil && f.Signature.Recv() != nil && ir.IsPtrToNamed(f.Signature.Recv().Type(), "Cursor") {
							break
						}
					}
					if _, ok := later.(*ssa.Return); ok {
						terminal = true
					}
				}
				if !terminal {
					continue
				}
				n++
				farNil := ir.FlowFact(st, func(f ir.Fact) bool {
					tv, tnn, ok := ir.NilTest(f.Cond)
					if !ok || f.Truth == tnn {
						return false
					}
					ld, ok := ir.ResolveCell(tv).(*ssa.UnOp)
					if !ok || ld.Op != token.MUL {
						return false
					}
					ia, ok := ld.X.(*ssa.IndexAddr)
					if !ok {
						return false
					}
					base, fld, ok := nodeSliceRoot(ia.X)
					if !ok || fld != "Link" || ir.Sym(ir.ResolveCell(base)) != ns {
						return false
					}
					_, isK := ir.ConstInt(ia.Index)
					return !isK // a slot named relative to the node's length (the far end), not a fixed near slot
				}, func(ssa.Instruction) bool { return false })
				pos := P.InstrPos(st)
				if farNil {
					c.OK(pos, "descent ends on a far-end entry of the pushed child in "+ir.FuncName(fn), "the child's link beyond it was found nil", false)
				} else {
					c.Violation(fn, pos, "descent ends inside a child whose far link was not found nil",
						"the step pushes the child with a position at its far end and returns, without having found the child's last link nil: an inner node that has no subtree before its first key but one after its last is taken for a leaf, and that whole subtree is skipped")
				}
			}
		}
	}
	if n == 0 {
		c.OK("-", "no descent ends by pushing a child at a far-end position", "nothing to check", true)
	}
}
