package rules

import (
	"fmt"
	"go/token"
	"go/types"
	"sort"
	"strings"

	"golang.org/x/tools/go/ssa"

	"mastcheck/ir"
)

// Own is the ownership lattice of *mastNode values (DESIGN §3.3).
type Own int

const (
	Fresh    Own = iota // allocated here, or returned by a function returning only fresh nodes
	Unshared            // result of ToMut, or a node whose flags were tested (shared false / dirty true)
	ParamOwn            // a parameter: obligation moves to the callers
	Unknown             // loaded from store/cache/link slot: may be shared
)

func (o Own) String() string {
	return [...]string{"fresh", "unshared", "param", "UNKNOWN"}[o]
}

// Class is the classification of one *mastNode value.
type Class struct {
	Own   Own
	Param *ssa.Parameter // for ParamOwn
	Why   string
}

func join(a, b Class) Class {
	if a.Own == ParamOwn && b.Own == ParamOwn && a.Param != b.Param {
		return Class{Own: Unknown, Why: "phi of two parameters"}
	}
	if b.Own > a.Own {
		return b
	}
	return a
}

// NodeWrite is one instruction that writes memory belonging to a node.
type NodeWrite struct {
	Fn      *ssa.Function
	Instr   ssa.Instruction
	Base    ssa.Value // the *mastNode (or address of a mastNode) written through
	Field   string    // dirty shared expected source Key Value Link Node *
	Kind    string    // field | elem | append | copy | escape | whole
	Class   Class
	Guarded bool // parameter base, unreachable under the shared-state valuation of that parameter
}

func (w *NodeWrite) Desc() string {
	return fmt.Sprintf("%s write to .%s", w.Kind, w.Field)
}

// Requirement: function Fn writes through parameter Idx unless guarded; every
// caller must pass an unshared or fresh node.
type Requirement struct {
	Fn     *ssa.Function
	Idx    int
	Writes []*NodeWrite // the local writes (empty when inherited from a callee)
	Via    []ssa.CallInstruction
}

type ownAnalysis struct {
	F        *Facts
	Writes   []*NodeWrite
	Reqs     map[*ssa.Function]map[int]*Requirement
	retMemo  map[retKey]int // 0 unknown 1 computing 2 yes 3 no
	normMemo map[*ssa.Function][]normalised
	through  map[*ssa.Function]map[int]bool // writes through pointer param (non-node pointers)
	// Undischarged requirement instances: (requirement, call site, class of argument)
	Undischarged []Undischarged
	rcallers     map[*ssa.Function][]ssa.CallInstruction
}

type Undischarged struct {
	Req  *Requirement
	Call ssa.CallInstruction
	Arg  Class
}

type retKey struct {
	fn   *ssa.Function
	idx  int
	kind int // 0 fresh, 1 unshared
}

// Own returns (computing on first use) the ownership analysis.
func (F *Facts) Own() *ownAnalysis {
	if F.own == nil {
		F.own = &ownAnalysis{F: F,
			Reqs:     map[*ssa.Function]map[int]*Requirement{},
			retMemo:  map[retKey]int{},
			normMemo: map[*ssa.Function][]normalised{},
			through:  map[*ssa.Function]map[int]bool{},
			rcallers: map[*ssa.Function][]ssa.CallInstruction{},
		}
		F.own.run()
	}
	return F.own
}

func isNodePtr(t types.Type) bool { return ir.IsPtrToNamed(t, "mastNode") }

// nodeBaseOfAddr: if addr points into the memory of a mastNode (one of its
// fields, or an element of one of its slices), return the node pointer.
func nodeBaseOfAddr(addr ssa.Value) (base ssa.Value, field, kind string, ok bool) {
	switch x := addr.(type) {
	case *ssa.FieldAddr:
		fname := ir.FieldName(x.X.Type(), x.Field)
		if isNodePtr(x.X.Type()) {
			return x.X, fname, "field", true
		}
		if ir.IsPtrToNamed(x.X.Type(), "Node") {
			if fa, ok2 := x.X.(*ssa.FieldAddr); ok2 && isNodePtr(fa.X.Type()) {
				return fa.X, fname, "field", true
			}
		}
	case *ssa.IndexAddr:
		if b, f, ok2 := nodeSliceRoot(x.X); ok2 {
			return b, f, "elem", true
		}
	}
	return nil, "", "", false
}

// nodeSliceRoot: if slice value s is (a reslice of) a slice loaded from a node
// field, return the node and the field.
func nodeSliceRoot(s ssa.Value) (base ssa.Value, field string, ok bool) {
	for i := 0; i < 12; i++ {
		switch x := s.(type) {
		case *ssa.Slice:
			s = x.X
			continue
		case *ssa.UnOp:
			if x.Op != token.MUL {
				return nil, "", false
			}
			b, f, k, ok2 := nodeBaseOfAddr(x.X)
			if ok2 && k == "field" {
				return b, f, true
			}
			return nil, "", false
		case *ssa.Field:
			// slice header read out of a struct *value* copied from a node:
			// `trimmed := *node; trimmed.Link[i] = …`
			if u, ok2 := x.X.(*ssa.UnOp); ok2 && u.Op == token.MUL && isNodePtr(u.X.Type()) {
				return u.X, ir.FieldName(x.X.Type(), x.Field), true
			}
			return nil, "", false
		}
		return nil, "", false
	}
	return nil, "", false
}

func (A *ownAnalysis) run() {
	P := A.F.P
	for _, fn := range P.Funcs {
		for _, ci := range CallsOf(fn) {
			for _, c := range A.F.Callees(ci) {
				A.rcallers[c] = append(A.rcallers[c], ci)
			}
		}
	}
	A.computeThrough()
	for _, fn := range P.Funcs {
		for _, b := range fn.Blocks {
			for _, ins := range b.Instrs {
				A.collect(fn, ins)
			}
		}
	}
	for _, w := range A.Writes {
		w.Class = A.Classify(w.Base, w.Instr)
		if w.Class.Own == ParamOwn {
			w.Guarded = A.unreachableUnderSharedValuation(w.Fn, w.Class.Param, w.Instr.Block())
		}
	}
	// requirements from local writes
	for _, w := range A.Writes {
		if w.Class.Own != ParamOwn || w.Guarded {
			continue
		}
		idx := paramIndex(w.Class.Param)
		fn := w.Class.Param.Parent()
		r := A.req(fn, idx)
		r.Writes = append(r.Writes, w)
	}
	// propagate to callers until fixpoint
	for changed := true; changed; {
		changed = false
		var fns []*ssa.Function
		for fn := range A.Reqs {
			fns = append(fns, fn)
		}
		sort.Slice(fns, func(i, j int) bool { return ir.PosLess(fns[i].Pos(), fns[j].Pos()) })
		for _, fn := range fns {
			for idx, r := range A.Reqs[fn] {
				for _, cs := range A.rcallers[fn] {
					args := cs.Common().Args
					if idx >= len(args) {
						continue
					}
					cl := A.Classify(args[idx], cs)
					if cl.Own != ParamOwn {
						continue
					}
					if A.unreachableUnderSharedValuation(cs.Parent(), cl.Param, cs.Block()) {
						continue
					}
					pi := paramIndex(cl.Param)
					pf := cl.Param.Parent()
					if A.Reqs[pf] == nil || A.Reqs[pf][pi] == nil {
						changed = true
					}
					rr := A.req(pf, pi)
					dup := false
					for _, v := range rr.Via {
						if v == cs {
							dup = true
						}
					}
					if !dup {
						rr.Via = append(rr.Via, cs)
					}
				}
				_ = r
			}
		}
	}
	// discharge
	for fn, m := range A.Reqs {
		for idx, r := range m {
			for _, cs := range A.rcallers[fn] {
				args := cs.Common().Args
				if idx >= len(args) {
					continue
				}
				cl := A.Classify(args[idx], cs)
				if cl.Own == Unknown {
					A.Undischarged = append(A.Undischarged, Undischarged{r, cs, cl})
				}
			}
		}
	}
	sort.Slice(A.Undischarged, func(i, j int) bool {
		return ir.PosLess(A.Undischarged[i].Call.Pos(), A.Undischarged[j].Call.Pos())
	})
}

func (A *ownAnalysis) req(fn *ssa.Function, idx int) *Requirement {
	if A.Reqs[fn] == nil {
		A.Reqs[fn] = map[int]*Requirement{}
	}
	if A.Reqs[fn][idx] == nil {
		A.Reqs[fn][idx] = &Requirement{Fn: fn, Idx: idx}
	}
	return A.Reqs[fn][idx]
}

func paramIndex(p *ssa.Parameter) int {
	for i, q := range p.Parent().Params {
		if q == p {
			return i
		}
	}
	return -1
}

// RootWrites returns the local writes that ultimately make requirement r
// necessary (following Via edges to callees).
func (A *ownAnalysis) RootWrites(r *Requirement) []*NodeWrite {
	seen := map[*Requirement]bool{}
	var out []*NodeWrite
	var walk func(*Requirement)
	walk = func(r *Requirement) {
		if seen[r] {
			return
		}
		seen[r] = true
		out = append(out, r.Writes...)
		for _, cs := range r.Via {
			for _, c := range A.F.Callees(cs) {
				for idx, rr := range A.Reqs[c] {
					if idx < len(cs.Common().Args) {
						cl := A.Classify(cs.Common().Args[idx], cs)
						if cl.Own == ParamOwn && cl.Param.Parent() == r.Fn && paramIndex(cl.Param) == r.Idx {
							walk(rr)
						}
					}
				}
			}
		}
	}
	walk(r)
	return out
}

// computeThrough: which pointer parameters (to non-node memory, e.g.
// *[]interface{}) does a function store through?
func (A *ownAnalysis) computeThrough() {
	P := A.F.P
	rootParam := func(addr ssa.Value) *ssa.Parameter {
		for i := 0; i < 10; i++ {
			switch x := addr.(type) {
			case *ssa.Parameter:
				return x
			case *ssa.FieldAddr:
				addr = x.X
			case *ssa.IndexAddr:
				addr = x.X
			default:
				return nil
			}
		}
		return nil
	}
	for _, fn := range P.Funcs {
		for _, b := range fn.Blocks {
			for _, ins := range b.Instrs {
				if st, ok := ins.(*ssa.Store); ok {
					if p := rootParam(st.Addr); p != nil {
						if _, isPtr := p.Type().Underlying().(*types.Pointer); isPtr {
							if A.through[fn] == nil {
								A.through[fn] = map[int]bool{}
							}
							A.through[fn][paramIndex(p)] = true
						}
					}
				}
			}
		}
	}
	for changed := true; changed; {
		changed = false
		for _, fn := range P.Funcs {
			for _, ci := range CallsOf(fn) {
				for ai, a := range ci.Common().Args {
					p := rootParam(ir.Strip(a))
					if p == nil {
						continue
					}
					if _, isPtr := p.Type().Underlying().(*types.Pointer); !isPtr {
						continue
					}
					writes := false
					cs := A.F.Callees(ci)
					if len(cs) == 0 && !isReadOnlyExternal(A.F.External(ci)) {
						writes = true
					}
					for _, c := range cs {
						if A.through[c][ai] {
							writes = true
						}
					}
					if writes {
						if A.through[fn] == nil {
							A.through[fn] = map[int]bool{}
						}
						if !A.through[fn][paramIndex(p)] {
							A.through[fn][paramIndex(p)] = true
							changed = true
						}
					}
				}
			}
		}
	}
}

// isReadOnlyExternal: library calls known not to write through their
// arguments (printing, reflection reads, comparisons).
func isReadOnlyExternal(name string) bool {
	for _, p := range []string{"ext:fmt.", "ext:reflect.DeepEqual", "ext:reflect.TypeOf", "ext:reflect.ValueOf", "builtin:len", "builtin:cap", "builtin:print", "ext:errors.", "ext:bytes.Compare", "builtin:panic"} {
		if strings.HasPrefix(name, p) {
			return true
		}
	}
	return false
}

func (A *ownAnalysis) add(fn *ssa.Function, ins ssa.Instruction, base ssa.Value, field, kind string) {
	A.Writes = append(A.Writes, &NodeWrite{Fn: fn, Instr: ins, Base: base, Field: field, Kind: kind})
}

func (A *ownAnalysis) collect(fn *ssa.Function, ins ssa.Instruction) {
	switch x := ins.(type) {
	case *ssa.Store:
		if base, f, k, ok := nodeBaseOfAddr(x.Addr); ok {
			A.add(fn, ins, base, f, k)
			return
		}
		// whole-struct store *p = mastNode{...}
		if isNodePtr(x.Addr.Type()) {
			A.add(fn, ins, x.Addr, "*", "whole")
		}
	case ssa.CallInstruction:
		com := x.Common()
		if b, ok := com.Value.(*ssa.Builtin); ok {
			switch b.Name() {
			case "append", "copy":
				if len(com.Args) > 0 {
					if base, f, ok := nodeSliceRoot(com.Args[0]); ok {
						A.add(fn, ins, base, f, b.Name())
					}
				}
			}
			return
		}
		// address of node memory handed to a callee that writes through it
		for ai, a := range com.Args {
			a = ir.Strip(a)
			base, f, k, ok := nodeBaseOfAddr(a)
			if !ok || k != "field" {
				continue
			}
			writes := false
			cs := A.F.Callees(x)
			if len(cs) == 0 && !isReadOnlyExternal(A.F.External(x)) {
				writes = true
			}
			// static method calls: Args[0] is the receiver, indexes align with Params
			for _, c := range cs {
				if A.through[c][ai] {
					writes = true
				}
			}
			if com.IsInvoke() {
				writes = !isReadOnlyExternal(A.F.External(x))
			}
			if writes {
				A.add(fn, ins, base, f, "escape")
			}
		}
	}
}

// Classify computes the ownership class of node value v as used at `at`.
func (A *ownAnalysis) Classify(v ssa.Value, at ssa.Instruction) Class {
	return A.classify(v, at, map[ssa.Value]bool{}, 0)
}

func (A *ownAnalysis) classify(v ssa.Value, at ssa.Instruction, seen map[ssa.Value]bool, depth int) Class {
	if v == nil || depth > 24 {
		return Class{Own: Unknown, Why: "too deep"}
	}
	v = ir.Strip(v)
	if seen[v] {
		return Class{Own: Fresh, Why: "cycle"}
	}
	seen[v] = true
	defer delete(seen, v)

	// a dominating flag test on this very value: `if !v.shared`, `if v.dirty`
	if at != nil && isNodePtr(v.Type()) {
		if why := flagFactUnshared(v, at.Block()); why != "" {
			switch v.(type) {
			case *ssa.Alloc:
			default:
				// only promote: a Fresh value stays Fresh
				inner := A.classifyShape(v, at, seen, depth)
				if inner.Own <= Unshared {
					return inner
				}
				return Class{Own: Unshared, Why: why}
			}
		}
	}
	return A.classifyShape(v, at, seen, depth)
}

func (A *ownAnalysis) classifyShape(v ssa.Value, at ssa.Instruction, seen map[ssa.Value]bool, depth int) Class {
	switch x := v.(type) {
	case *ssa.Alloc:
		return Class{Own: Fresh, Why: "local allocation " + x.Comment}
	case *ssa.Const:
		return Class{Own: Fresh, Why: "nil"}
	case *ssa.Parameter:
		return Class{Own: ParamOwn, Param: x, Why: "parameter " + x.Name()}
	case *ssa.FreeVar:
		if b := bindingOf(x); b != nil {
			return A.classify(b, nil, seen, depth+1)
		}
		return Class{Own: Unknown, Why: "captured variable " + x.Name()}
	case *ssa.Phi:
		res := Class{Own: Fresh, Why: "phi"}
		for i, e := range x.Edges {
			// classify each edge at the end of its predecessor block
			var atp ssa.Instruction
			if i < len(x.Block().Preds) {
				pb := x.Block().Preds[i]
				if len(pb.Instrs) > 0 {
					atp = pb.Instrs[len(pb.Instrs)-1]
				}
			}
			res = join(res, A.classify(e, atp, seen, depth+1))
		}
		return res
	case *ssa.Call:
		return A.classifyCall(x.Common(), 0, x)
	case *ssa.Extract:
		if c, ok := x.Tuple.(*ssa.Call); ok {
			return A.classifyCall(c.Common(), x.Index, c)
		}
		return Class{Own: Unknown, Why: "tuple element"}
	case *ssa.TypeAssert:
		return Class{Own: Unknown, Why: "type-asserted out of a link slot (" + ir.Sym(x.X) + ")"}
	case *ssa.UnOp:
		if x.Op != token.MUL {
			break
		}
		return A.classifyLoad(x, at, seen, depth)
	case *ssa.FieldAddr, *ssa.IndexAddr:
		// address of a mastNode stored by value inside something else
		return Class{Own: Unknown, Why: "address " + ir.Sym(v)}
	}
	return Class{Own: Unknown, Why: fmt.Sprintf("%T", v)}
}

func bindingOf(fv *ssa.FreeVar) ssa.Value {
	fn := fv.Parent()
	idx := -1
	for i, f := range fn.FreeVars {
		if f == fv {
			idx = i
		}
	}
	par := fn.Parent()
	if par == nil || idx < 0 {
		return nil
	}
	var found ssa.Value
	n := 0
	for _, b := range par.Blocks {
		for _, ins := range b.Instrs {
			if mc, ok := ins.(*ssa.MakeClosure); ok && mc.Fn == fn && idx < len(mc.Bindings) {
				found = mc.Bindings[idx]
				n++
			}
		}
	}
	if n != 1 {
		return nil
	}
	return found
}

func (A *ownAnalysis) classifyCall(com *ssa.CallCommon, idx int, at ssa.Instruction) Class {
	cs := A.F.Callees(at.(ssa.CallInstruction))
	if len(cs) == 0 {
		return Class{Own: Unknown, Why: "result of " + A.F.External(at.(ssa.CallInstruction))}
	}
	best := Fresh
	names := []string{}
	for _, c := range cs {
		names = append(names, c.Name())
		if A.returns(c, idx, 0) {
			continue
		}
		if A.returns(c, idx, 1) {
			if best < Unshared {
				best = Unshared
			}
			continue
		}
		return Class{Own: Unknown, Why: "result of " + c.Name()}
	}
	return Class{Own: best, Why: "result of " + strings.Join(names, "/")}
}

// returns: kind 0 = every return operand idx of fn is Fresh/nil;
// kind 1 = every one is Fresh or Unshared (checked, not assumed: e.g. ToMut
// returns its receiver only on the `!shared` edge).
func (A *ownAnalysis) returns(fn *ssa.Function, idx int, kind int) bool {
	k := retKey{fn, idx, kind}
	switch A.retMemo[k] {
	case 1:
		return true // optimistic for recursion
	case 2:
		return true
	case 3:
		return false
	}
	A.retMemo[k] = 1
	ok := true
	rets := ir.Returns(fn)
	if len(rets) == 0 {
		ok = false
	}
	for _, r := range rets {
		if idx >= len(r.Results) {
			ok = false
			break
		}
		if !isNodePtr(r.Results[idx].Type()) {
			ok = false
			break
		}
		cl := A.Classify(r.Results[idx], r)
		if cl.Own == Fresh || (kind == 1 && cl.Own == Unshared) {
			continue
		}
		ok = false
		break
	}
	if ok {
		A.retMemo[k] = 2
	} else {
		A.retMemo[k] = 3
	}
	return ok
}

// flagFactUnshared: does a dominating branch establish that node v is not
// shared (shared tested false, or dirty tested true — dirty ⇒ ¬shared is the
// FLAGS invariant)?
func flagFactUnshared(v ssa.Value, b *ssa.BasicBlock) string {
	sv := ir.Sym(v)
	for _, f := range ir.FactsAt(b) {
		cond := f.Cond
		truth := f.Truth
		for {
			u, ok := cond.(*ssa.UnOp)
			if !ok || u.Op != token.NOT {
				break
			}
			truth = !truth
			cond = u.X
		}
		ld, ok := cond.(*ssa.UnOp)
		if !ok || ld.Op != token.MUL {
			continue
		}
		fa, ok := ld.X.(*ssa.FieldAddr)
		if !ok || !isNodePtr(fa.X.Type()) {
			continue
		}
		name := ir.FieldName(fa.X.Type(), fa.Field)
		if ir.Sym(fa.X) != sv {
			continue
		}
		if name == "shared" && !truth {
			return "dominating test: " + sv + ".shared is false"
		}
		if name == "dirty" && truth {
			return "dominating test: " + sv + ".dirty is true (dirty ⇒ ¬shared, FLAGS)"
		}
	}
	return ""
}

// classifyLoad: node pointer loaded from memory.
func (A *ownAnalysis) classifyLoad(x *ssa.UnOp, at ssa.Instruction, seen map[ssa.Value]bool, depth int) Class {
	addr := x.X
	switch a := addr.(type) {
	case *ssa.Alloc:
		// spilled local variable: join of everything ever stored into it
		stores, esc := allCellStores(a)
		if esc || len(stores) == 0 {
			return Class{Own: Unknown, Why: "escaping cell " + a.Comment}
		}
		res := Class{Own: Fresh}
		for _, s := range stores {
			res = join(res, A.classify(s.Val, s, seen, depth+1))
		}
		if res.Why == "" {
			res.Why = "cell " + a.Comment
		}
		return res
	case *ssa.FreeVar:
		if b, ok := bindingOf(a).(*ssa.Alloc); ok && b != nil {
			stores, esc := allCellStores(b)
			if esc || len(stores) == 0 {
				return Class{Own: Unknown, Why: "escaping captured cell " + a.Name()}
			}
			res := Class{Own: Fresh}
			for _, s := range stores {
				res = join(res, A.classify(s.Val, s, seen, depth+1))
			}
			if res.Own == ParamOwn && res.Param.Parent() != x.Parent() {
				// the parameter belongs to the enclosing function
				return res
			}
			return res
		}
		return Class{Own: Unknown, Why: "captured " + a.Name()}
	}
	// struct-copy forwarding: `entry := path[i]; entry.node`
	s := addrSym(addr)
	// store-to-load forwarding inside the block
	if st := lastStoreTo(x, s); st != nil {
		c := A.classify(st.Val, st, seen, depth+1)
		c.Why = "value just stored to " + s + ": " + c.Why
		return c
	}
	// established by a normalising loop (savePathForRoot idiom)
	if why := A.normalisedAt(x, s); why != "" {
		return Class{Own: Unshared, Why: why}
	}
	return Class{Own: Unknown, Why: "loaded from " + s}
}

// addrSym is ir.Sym of an address, seeing through a struct variable that is
// initialised exactly once by copying another location:
// `entry := path[i]; … entry.node` is the location path[i].node.
func addrSym(addr ssa.Value) string {
	fa, ok := addr.(*ssa.FieldAddr)
	if !ok {
		return ir.Sym(addr)
	}
	al, ok := fa.X.(*ssa.Alloc)
	if !ok || al.Referrers() == nil {
		return ir.Sym(addr)
	}
	var st *ssa.Store
	for _, r := range *al.Referrers() {
		switch y := r.(type) {
		case *ssa.Store:
			if y.Addr != al || st != nil {
				return ir.Sym(addr)
			}
			st = y
		case *ssa.FieldAddr, *ssa.DebugRef, *ssa.UnOp:
		default:
			return ir.Sym(addr)
		}
	}
	if st == nil {
		return ir.Sym(addr)
	}
	ld, ok := st.Val.(*ssa.UnOp)
	if !ok || ld.Op != token.MUL {
		return ir.Sym(addr)
	}
	return ir.Sym(ld.X) + "." + ir.FieldName(fa.X.Type(), fa.Field)
}

// allCellStores: stores into a local cell from its function and from the
// closures that capture it.
func allCellStores(a *ssa.Alloc) (stores []*ssa.Store, escapes bool) {
	stores, escapes = ir.CellStores(a)
	if escapes {
		return
	}
	var visit func(fn *ssa.Function, cell ssa.Value)
	visit = func(fn *ssa.Function, cell ssa.Value) {
		for _, b := range fn.Blocks {
			for _, ins := range b.Instrs {
				mc, ok := ins.(*ssa.MakeClosure)
				if !ok {
					continue
				}
				for i, bv := range mc.Bindings {
					if bv != cell {
						continue
					}
					cf := mc.Fn.(*ssa.Function)
					fv := cf.FreeVars[i]
					if fv.Referrers() != nil {
						for _, r := range *fv.Referrers() {
							switch y := r.(type) {
							case *ssa.Store:
								if y.Addr == fv {
									stores = append(stores, y)
								} else {
									escapes = true
								}
							case *ssa.UnOp, *ssa.DebugRef, *ssa.MakeClosure:
							default:
								escapes = true
							}
						}
					}
					visit(cf, fv)
				}
			}
		}
	}
	visit(a.Parent(), a)
	return
}

// lastStoreTo finds, in the block of load ld, the latest preceding store to
// the address with symbolic path s, with no possibly-clobbering instruction
// in between.
func lastStoreTo(ld *ssa.UnOp, s string) *ssa.Store {
	b := ld.Block()
	idx := ir.InstrIndex(ld)
	last := lastSeg(s)
	for i := idx - 1; i >= 0; i-- {
		switch y := b.Instrs[i].(type) {
		case *ssa.Store:
			ys := ir.Sym(y.Addr)
			if ys == s {
				return y
			}
			if lastSeg(ys) == last {
				return nil // may alias
			}
		case ssa.CallInstruction:
			// a callee can clobber the location only if it can reach it:
			// conservatively, if some argument's path is a prefix of s.
			for _, a := range y.Common().Args {
				as := ir.Sym(a)
				if strings.HasPrefix(s, as) || strings.HasPrefix(strings.TrimPrefix(s, "*"), as) {
					if _, isB := y.Common().Value.(*ssa.Builtin); !isB {
						return nil
					}
				}
			}
		}
	}
	return nil
}

func lastSeg(s string) string {
	if i := strings.LastIndexAny(s, ".["); i >= 0 {
		return s[i:]
	}
	return s
}

// ---- shared-state valuation (DESIGN §3.2) -----------------------------------

// evalUnderShared evaluates a branch condition assuming parameter p is a node
// in shared state: shared=true, dirty=false, source≠nil (FLAGS invariant).
//
// Besides direct loads of p's flags the condition may be a boolean result of a
// same-package predicate helper that is handed the very node p
// (`_, done, _ := node.storedAs(); if done {…}`): the helper is evaluated under
// the same valuation of the parameter that receives p — the returns of the
// helper that stay reachable under that valuation are collected, and the
// result is known iff every one of them yields the same known boolean at that
// result index. This carries the valuation through the helper's result. It is
// sound under the same premise the intraprocedural valuation already rests on
// (the flags of p are as on entry when the test is made): a write to p's flags
// that is reachable under the valuation — in the caller before the call, or in
// the helper before its test — is itself an undischarged write/requirement on
// p and is reported by OWN, so a silent verdict implies no such write exists.
// Anything else (helper without a body, dynamic call, no reachable return,
// returns that disagree or are not known) is "unknown": the edge stays
// feasible and nothing is discharged.
func evalUnderShared(cond ssa.Value, p *ssa.Parameter) (val, known bool) {
	return evalUnderVal(cond, p, valShared, 0)
}

// nodeValuation is an assumption about the flags of one node parameter.
type nodeValuation int

const (
	// valShared: the node is shared — shared ∧ ¬dirty ∧ source≠nil.
	valShared nodeValuation = iota
	// valDirty: the node is dirty — dirty ∧ ¬shared (dirty ⇒ ¬shared, FLAGS); nothing is known about source.
	valDirty
)

func evalUnderVal(cond ssa.Value, p *ssa.Parameter, nv nodeValuation, depth int) (val, known bool) {
	if v, ok := ir.ConstBool(cond); ok {
		return v, true
	}
	switch x := cond.(type) {
	case *ssa.UnOp:
		if x.Op == token.NOT {
			v, k := evalUnderVal(x.X, p, nv, depth)
			return !v, k
		}
		if x.Op == token.MUL {
			if fa, ok := x.X.(*ssa.FieldAddr); ok && isNodePtr(fa.X.Type()) && ir.ResolveCell(fa.X) == ssa.Value(p) {
				switch ir.FieldName(fa.X.Type(), fa.Field) {
				case "shared":
					return nv == valShared, true
				case "dirty":
					return nv == valDirty, true
				}
			}
		}
	case *ssa.BinOp:
		if (x.Op == token.EQL || x.Op == token.NEQ) && nv == valShared {
			v, tnn, ok := ir.NilTest(x)
			if ok {
				if ld, ok := v.(*ssa.UnOp); ok && ld.Op == token.MUL {
					if fa, ok := ld.X.(*ssa.FieldAddr); ok && isNodePtr(fa.X.Type()) && ir.ResolveCell(fa.X) == ssa.Value(p) &&
						ir.FieldName(fa.X.Type(), fa.Field) == "source" {
						return tnn, true // source is non-nil
					}
				}
			}
		}
	case *ssa.Call:
		return evalHelperUnderVal(x, 0, p, nv, depth)
	case *ssa.Extract:
		if call, ok := x.Tuple.(*ssa.Call); ok {
			return evalHelperUnderVal(call, x.Index, p, nv, depth)
		}
	}
	return false, false
}

// helperParamFor: call is a static call of a same-package function with a
// body, and exactly one of its arguments is the node parameter p of the calling
// function (seen through the cell go/ssa makes for a captured parameter):
// the callee and its parameter that receives p.
func helperParamFor(call ssa.CallInstruction, p *ssa.Parameter) (*ssa.Function, *ssa.Parameter) {
	com := call.Common()
	if com.IsInvoke() {
		return nil, nil
	}
	callee := ir.Callee(com)
	if callee == nil || callee.Blocks == nil || callee.Pkg == nil || p.Parent() == nil || callee.Pkg != p.Parent().Pkg {
		return nil, nil
	}
	var q *ssa.Parameter
	for i, a := range com.Args {
		if ir.ResolveCell(a) == ssa.Value(p) && i < len(callee.Params) {
			if q != nil {
				return nil, nil
			}
			q = callee.Params[i]
		}
	}
	if q == nil || !isNodePtr(q.Type()) {
		return nil, nil
	}
	return callee, q
}

func evalHelperUnderVal(call *ssa.Call, idx int, p *ssa.Parameter, nv nodeValuation, depth int) (val, known bool) {
	if depth > 3 || call.Parent() != p.Parent() {
		return false, false
	}
	callee, q := helperParamFor(call, p)
	if callee == nil {
		return false, false
	}
	reach := reachUnderVal(callee, q, nv, depth+1)
	n := 0
	for _, b := range callee.Blocks {
		if !reach[b] || len(b.Instrs) == 0 || ir.IsDead(b) {
			continue
		}
		r, ok := b.Instrs[len(b.Instrs)-1].(*ssa.Return)
		if !ok {
			continue
		}
		if idx >= len(r.Results) {
			return false, false
		}
		v, k := evalUnderVal(r.Results[idx], q, nv, depth+1)
		if !k || (n > 0 && v != val) {
			return false, false
		}
		val = v
		n++
	}
	return val, n > 0
}

// reachUnderVal: the blocks of fn reachable from its entry when parameter p
// is a node in the state nv (branches whose condition is known under the
// valuation are followed on the feasible side only).
func reachUnderVal(fn *ssa.Function, p *ssa.Parameter, nv nodeValuation, depth int) map[*ssa.BasicBlock]bool {
	if len(fn.Blocks) == 0 {
		return nil
	}
	return ir.ReachableFrom(fn.Blocks[0], func(from, to *ssa.BasicBlock) bool {
		if len(from.Instrs) == 0 {
			return false
		}
		iff, ok := from.Instrs[len(from.Instrs)-1].(*ssa.If)
		if !ok {
			return false
		}
		v, known := evalUnderVal(iff.Cond, p, nv, depth)
		if !known {
			return false
		}
		if v {
			return to == from.Succs[1] && from.Succs[0] != from.Succs[1]
		}
		return to == from.Succs[0] && from.Succs[0] != from.Succs[1]
	})
}

func (A *ownAnalysis) unreachableUnderSharedValuation(fn *ssa.Function, p *ssa.Parameter, target *ssa.BasicBlock) bool {
	if p.Parent() != fn || len(fn.Blocks) == 0 {
		return false
	}
	return !reachUnderVal(fn, p, valShared, 0)[target]
}

// UnreachableUnderShared is the exported form used by other rules (CLEANSKIP).
func (A *ownAnalysis) UnreachableUnderShared(fn *ssa.Function, p *ssa.Parameter, target *ssa.BasicBlock) bool {
	return A.unreachableUnderSharedValuation(fn, p, target)
}
