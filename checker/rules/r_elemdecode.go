package rules

import (
	"go/token"
	"go/types"

	"golang.org/x/tools/go/ssa"

	"mastcheck/ir"
)

// ELEMDECODE: the binary node format stores each key and value as a length-prefixed body; an empty body stands for nil.
// The decoder rebuilds the entry list element by element. An element whose body is present must be decoded whatever the
// configuration says about example values: leaving the slot nil because no example type was configured turns every
// stored value into nil on reload (persist-then-load is no longer the identity), although the writer accepted the
// configuration.

func init() {
	Register(&Rule{ID: "ELEMDECODE", Props: []string{"C05"}, Min: 1,
		Doc: "in every element-wise decoder of package mast (a loop that reads a body per element and calls the unmarshal callback), on every path of an iteration on which the body is known to be present " +
			"(the non-nil edge of a test of the body) an element of the result list is stored or the function returns (an error) before the next iteration starts; " +
			"edges that contradict the body's presence are not followed.",
		Run: runELEMDECODE})
}

func runELEMDECODE(c *Ctx) {
	P := c.P
	n := 0
	for _, fn := range P.Funcs {
		if fn.Pkg == nil || fn.Pkg.Pkg.Path() != ir.MastPath || fn.Parent() != nil {
			continue
		}
		// an element-wise decoder: calls a func([]byte, interface{}) error parameter inside a loop
		var um *ssa.Parameter
		for _, p := range fn.Params {
			if sig, ok := p.Type().Underlying().(*types.Signature); ok && sig.Params().Len() == 2 && sig.Results().Len() == 1 && ir.IsErrorType(sig.Results().At(0).Type()) {
				if sl, ok := sig.Params().At(0).Type().Underlying().(*types.Slice); ok {
					if b, ok := sl.Elem().Underlying().(*types.Basic); ok && b.Kind() == types.Uint8 {
						um = p
					}
				}
			}
		}
		if um == nil {
			continue
		}
		looped := false
		for _, ci := range CallsOf(fn) {
			if ir.ResolveCell(ci.Common().Value) == ssa.Value(um) && inCycle(ci.Block()) {
				looped = true
			}
		}
		if !looped {
			continue
		}
		isElemStore := func(ins ssa.Instruction) bool {
			st, ok := ins.(*ssa.Store)
			if !ok {
				return false
			}
			ia, ok := st.Addr.(*ssa.IndexAddr)
			if !ok {
				return false
			}
			_, fresh := ir.ResolveCell(ia.X).(*ssa.MakeSlice)
			return fresh
		}
		for _, b := range fn.Blocks {
			if !inCycle(b) || len(b.Instrs) == 0 {
				continue
			}
			iff, ok := b.Instrs[len(b.Instrs)-1].(*ssa.If)
			if !ok {
				continue
			}
			tv, tnn, isNil := ir.NilTest(iff.Cond)
			if !isNil {
				continue
			}
			if _, isByteSlice := tv.Type().Underlying().(*types.Slice); !isByteSlice {
				continue
			}
			body := ir.Sym(tv)
			present := b.Succs[0]
			if !tnn {
				present = b.Succs[1]
			}
			// is this the first test of the body on the way (not itself under a presence fact)? every test is checked:
			// a later test under the fact is pruned consistently below
			n++
			seen := map[*ssa.BasicBlock]bool{}
			var bad *ssa.BasicBlock
			var walk func(x *ssa.BasicBlock)
			walk = func(x *ssa.BasicBlock) {
				if bad != nil || seen[x] {
					return
				}
				seen[x] = true
				if x.Dominates(b) && x != present {
					bad = x // back at (or above) the loop header without having stored an element
					return
				}
				for _, ins := range x.Instrs {
					if isElemStore(ins) {
						return
					}
					if _, isRet := ins.(*ssa.Return); isRet {
						return
					}
					if _, isPanic := ins.(*ssa.Panic); isPanic {
						return
					}
				}
				if i2, ok := x.Instrs[len(x.Instrs)-1].(*ssa.If); ok {
					if tv2, tnn2, isNil2 := ir.NilTest(i2.Cond); isNil2 && ir.Sym(tv2) == body {
						// the body is present: only the consistent edge is feasible
						if tnn2 {
							walk(x.Succs[0])
						} else {
							walk(x.Succs[1])
						}
						return
					}
				}
				for _, s := range x.Succs {
					walk(s)
				}
			}
			walk(present)
			pos := P.InstrPos(iff)
			if p := iff.Pos(); p == token.NoPos {
				pos = P.Pos(fn.Pos())
			}
			if bad == nil {
				c.OK(pos, "element with a present body in "+ir.FuncName(fn), "decoded and stored (or the function fails) before the next element", false)
			} else {
				c.Violation(fn, pos, "an element whose body is present can be left undecoded",
					"on some path of the loop the body read for an element is non-empty and yet no element is stored before the next iteration: the slot keeps nil. With the example value (KeysLike/ValuesLike) left nil — a configuration the writer accepts when UnmarshalerUsesRegisteredTypes is set — every key or value of a reloaded node is nil")
			}
		}
	}
	if n == 0 {
		c.AnchorMissing("a presence test of an element body in an element-wise decoder")
	}
}
