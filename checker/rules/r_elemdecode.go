package rules

import (
	"go/token"
	"go/types"

	"golang.org/x/tools/go/ssa"

	"mastcheck/ir"
)

// ELEMDECODE: the binary node format stores each key and value as a length-prefixed body; an empty body stands for nil.
// The decoder rebuilds the entry list element by element. An element whose body is present must be decoded whatever the
// configuration says about example values: leaving the slot nil because no example type was configured turns every
// stored value into nil on reload (persist-then-load is no longer the identity), although the writer accepted the
// configuration.

func init() {
	Register(&Rule{ID: "ELEMDECODE", Props: []string{"C05"}, Min: 1,
		Doc: "in every element-wise decoder of package mast (a loop that reads a body per element and calls the unmarshal callback), on every path of an iteration on which the body is known to be present " +
			"(the non-nil edge of a test of the body) an element of the result list is stored or the function returns (an error) before the next iteration starts; " +
			"edges that contradict the body's presence are not followed.",
		Run: runELEMDECODE})
}

func runELEMDECODE(c *Ctx) {
	P := c.P
	n := 0
	root := c.MustFunc("unmarshalMastNode")
	if root == nil {
		return
	}
	decoders := c.Facts.Reach(root)
	decoders[root] = true
	// (2) a converter handed to a generic element loop (func(body []byte) (interface{}, error)) must not answer
	// "nil, no error" for a body it was given: that is the skipped element again, one call deeper
	for _, fn := range P.Funcs {
		if fn.Pkg == nil || fn.Pkg.Pkg.Path() != ir.MastPath {
			continue
		}
		sig := fn.Signature
		if sig.Params().Len() != 1 || sig.Results().Len() != 2 || !ir.IsErrorType(sig.Results().At(1).Type()) {
			continue
		}
		if sl, ok := sig.Params().At(0).Type().Underlying().(*types.Slice); !ok || !isByte(sl.Elem()) {
			continue
		}
		if _, isIface := sig.Results().At(0).Type().Underlying().(*types.Interface); !isIface {
			continue
		}
		if !decoders[ir.Outermost(fn)] {
			continue
		}
		for _, r := range ir.Returns(fn) {
			if !ir.IsNilConst(r.Results[1]) {
				continue
			}
			n++
			if ir.IsNilConst(r.Results[0]) {
				c.Violation(fn, P.InstrPos(r), "an element whose body is present can be left undecoded",
					"the element converter returns a nil value with a nil error for a body it was handed: the slot keeps nil. With the example value (KeysLike/ValuesLike) left nil — a configuration the writer accepts when UnmarshalerUsesRegisteredTypes is set — every key or value of a reloaded node is nil")
			} else {
				c.OK(P.InstrPos(r), "element converter "+ir.FuncName(fn), "returns a decoded value on success", false)
			}
		}
	}
	for _, fn := range P.Funcs {
		if fn.Pkg == nil || fn.Pkg.Pkg.Path() != ir.MastPath || fn.Parent() != nil {
			continue
		}
		// an element-wise decoder of the node format: reachable from the node decoder and looping over bodies (a nil
		// test of a []byte inside a loop, an element store into a list made here)
		if !decoders[fn] {
			continue
		}
		isElemStore := func(ins ssa.Instruction) bool {
			st, ok := ins.(*ssa.Store)
			if !ok {
				return false
			}
			ia, ok := st.Addr.(*ssa.IndexAddr)
			if !ok {
				return false
			}
			_, fresh := ir.ResolveCell(ia.X).(*ssa.MakeSlice)
			return fresh
		}
		for _, b := range fn.Blocks {
			if !inCycle(b) || len(b.Instrs) == 0 {
				continue
			}
			iff, ok := b.Instrs[len(b.Instrs)-1].(*ssa.If)
			if !ok {
				continue
			}
			tv, tnn, isNil := ir.NilTest(iff.Cond)
			if !isNil {
				continue
			}
			if _, isByteSlice := tv.Type().Underlying().(*types.Slice); !isByteSlice {
				continue
			}
			body := ir.Sym(tv)
			present := b.Succs[0]
			if !tnn {
				present = b.Succs[1]
			}
			// is this the first test of the body on the way (not itself under a presence fact)? every test is checked:
			// a later test under the fact is pruned consistently below
			n++
			seen := map[*ssa.BasicBlock]bool{}
			var bad *ssa.BasicBlock
			var walk func(x *ssa.BasicBlock)
			walk = func(x *ssa.BasicBlock) {
				if bad != nil || seen[x] {
					return
				}
				seen[x] = true
				if x.Dominates(b) && x != present {
					bad = x // back at (or above) the loop header without having stored an element
					return
				}
				for _, ins := range x.Instrs {
					if isElemStore(ins) {
						return
					}
					if _, isRet := ins.(*ssa.Return); isRet {
						return
					}
					if _, isPanic := ins.(*ssa.Panic); isPanic {
						return
					}
				}
				if i2, ok := x.Instrs[len(x.Instrs)-1].(*ssa.If); ok {
					if tv2, tnn2, isNil2 := ir.NilTest(i2.Cond); isNil2 && ir.Sym(tv2) == body {
						// the body is present: only the consistent edge is feasible
						if tnn2 {
							walk(x.Succs[0])
						} else {
							walk(x.Succs[1])
						}
						return
					}
				}
				for _, s := range x.Succs {
					walk(s)
				}
			}
			walk(present)
			pos := P.InstrPos(iff)
			if p := iff.Pos(); p == token.NoPos {
				pos = P.Pos(fn.Pos())
			}
			if bad == nil {
				c.OK(pos, "element with a present body in "+ir.FuncName(fn), "decoded and stored (or the function fails) before the next element", false)
			} else {
				c.Violation(fn, pos, "an element whose body is present can be left undecoded",
					"on some path of the loop the body read for an element is non-empty and yet no element is stored before the next iteration: the slot keeps nil. With the example value (KeysLike/ValuesLike) left nil — a configuration the writer accepts when UnmarshalerUsesRegisteredTypes is set — every key or value of a reloaded node is nil")
			}
		}
	}
	if n == 0 {
		c.AnchorMissing("a presence test of an element body in an element-wise decoder")
	}
}

func isByte(t types.Type) bool {
	b, ok := t.Underlying().(*types.Basic)
	return ok && b.Kind() == types.Uint8
}
