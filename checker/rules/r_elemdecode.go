package rules

import (
	"go/token"
	"go/types"

	"golang.org/x/tools/go/ssa"

	"mastcheck/ir"
)

// ELEMDECODE: the binary node format stores each key and value as a length-prefixed body; an empty body stands for nil.
// The decoder rebuilds the entry list element by element. An element whose body is present must be decoded whatever the
// configuration says about example values: leaving the slot nil because no example type was configured turns every
// stored value into nil on reload (persist-then-load is no longer the identity), although the writer accepted the
// configuration.

func init() {
	Register(&Rule{ID: "ELEMDECODE", Props: []string{"C05"}, Min: 1,
		Doc: "in every element-wise decoder of package mast (a loop that reads a body per element and calls the unmarshal callback), on every path of an iteration on which the body is known to be present " +
			"(the non-nil edge of a test of the body) an element of the result list is stored or the function returns (an error) before the next iteration starts; " +
			"edges that contradict the body's presence are not followed.",
		Run: runELEMDECODE})
}

func runELEMDECODE(c *Ctx) {
	P := c.P
	n := 0
	root := c.MustFunc("unmarshalMastNode")
	if root == nil {
		return
	}
	decoders := c.Facts.Reach(root)
	decoders[root] = true
	// (2) a converter handed to a generic element loop (func(body []byte) (interface{}, error)) must not answer
	// "nil, no error" for a body it was given: that is the skipped element again, one call deeper
	for _, fn := range P.Funcs {
		if fn.Pkg == nil || fn.Pkg.Pkg.Path() != ir.MastPath {
			continue
		}
		sig := fn.Signature
		if sig.Params().Len() != 1 || sig.Results().Len() != 2 || !ir.IsErrorType(sig.Results().At(1).Type()) {
			continue
		}
		if sl, ok := sig.Params().At(0).Type().Underlying().(*types.Slice); !ok || !isByte(sl.Elem()) {
			continue
		}
		if _, isIface := sig.Results().At(0).Type().Underlying().(*types.Interface); !isIface {
			continue
		}
		if !decoders[ir.Outermost(fn)] {
			continue
		}
		for _, r := range ir.Returns(fn) {
			if !ir.IsNilConst(r.Results[1]) {
				continue
			}
			n++
			if ir.IsNilConst(r.Results[0]) {
				c.Violation(fn, P.InstrPos(r), "an element whose body is present can be left undecoded",
					"the element converter returns a nil value with a nil error for a body it was handed: the slot keeps nil. With the example value (KeysLike/ValuesLike) left nil — a configuration the writer accepts when UnmarshalerUsesRegisteredTypes is set — every key or value of a reloaded node is nil")
			} else {
				c.OK(P.InstrPos(r), "element converter "+ir.FuncName(fn), "returns a decoded value on success", false)
			}
		}
	}
	for _, fn := range P.Funcs {
		if fn.Pkg == nil || fn.Pkg.Pkg.Path() != ir.MastPath || fn.Parent() != nil {
			continue
		}
		// an element-wise decoder of the node format: reachable from the node decoder and looping over bodies (a nil
		// test of a []byte inside a loop, an element store into a list made here)
		if !decoders[fn] {
			continue
		}
		isElemStore := func(ins ssa.Instruction) bool {
			st, ok := ins.(*ssa.Store)
			if !ok {
				return false
			}
			ia, ok := st.Addr.(*ssa.IndexAddr)
			if !ok {
				return false
			}
			_, fresh := ir.ResolveCell(ia.X).(*ssa.MakeSlice)
			return fresh
		}
		for _, b := range fn.Blocks {
			if !inCycle(b) || len(b.Instrs) == 0 {
				continue
			}
			iff, ok := b.Instrs[len(b.Instrs)-1].(*ssa.If)
			if !ok {
				continue
			}
			tv, tnn, isNil := ir.NilTest(iff.Cond)
			if !isNil {
				continue
			}
			if _, isByteSlice := tv.Type().Underlying().(*types.Slice); !isByteSlice {
				continue
			}
			body := ir.Sym(tv)
			present := b.Succs[0]
			if !tnn {
				present = b.Succs[1]
			}
			// is this the first test of the body on the way (not itself under a presence fact)? every test is checked:
			// a later test under the fact is pruned consistently below
			n++
			seen := map[*ssa.BasicBlock]bool{}
			var bad *ssa.BasicBlock
			var walk func(x *ssa.BasicBlock)
			walk = func(x *ssa.BasicBlock) {
				if bad != nil || seen[x] {
					return
				}
				seen[x] = true
				if x.Dominates(b) && x != present {
					bad = x // back at (or above) the loop header without having stored an element
					return
				}
				for _, ins := range x.Instrs {
					if isElemStore(ins) {
						return
					}
					if _, isRet := ins.(*ssa.Return); isRet {
						return
					}
					if _, isPanic := ins.(*ssa.Panic); isPanic {
						return
					}
				}
				if i2, ok := x.Instrs[len(x.Instrs)-1].(*ssa.If); ok {
					if tv2, tnn2, isNil2 := ir.NilTest(i2.Cond); isNil2 && ir.Sym(tv2) == body {
						// the body is present: only the consistent edge is feasible
						if tnn2 {
							walk(x.Succs[0])
						} else {
							walk(x.Succs[1])
						}
						return
					}
				}
				for _, s := range x.Succs {
					walk(s)
				}
			}
			walk(present)
			pos := P.InstrPos(iff)
			if p := iff.Pos(); p == token.NoPos {
				pos = P.Pos(fn.Pos())
			}
			if bad == nil {
				c.OK(pos, "element with a present body in "+ir.FuncName(fn), "decoded and stored (or the function fails) before the next element", false)
			} else {
				c.Violation(fn, pos, "an element whose body is present can be left undecoded",
					"on some path of the loop the body read for an element is non-empty and yet no element is stored before the next iteration: the slot keeps nil. With the example value (KeysLike/ValuesLike) left nil — a configuration the writer accepts when UnmarshalerUsesRegisteredTypes is set — every key or value of a reloaded node is nil")
			}
		}
	}
	// (3) what is stored as the element is what was decoded: the value read back from the very target that was handed
	// to an unmarshal callback before (a local variable, a reflect.New value), a conversion of the body itself, or the
	// result of a converter; a store of a value no decoding step produced (the target read before the call, a fresh zero
	// value) is the undecoded element again
	for _, fn := range P.Funcs {
		if fn.Pkg == nil || fn.Pkg.Pkg.Path() != ir.MastPath || !decoders[ir.Outermost(fn)] {
			continue
		}
		for _, b := range fn.Blocks {
			for _, ins := range b.Instrs {
				st, ok := ins.(*ssa.Store)
				if !ok {
					continue
				}
				ia, ok := st.Addr.(*ssa.IndexAddr)
				if !ok {
					continue
				}
				if _, fresh := ir.ResolveCell(ia.X).(*ssa.MakeSlice); !fresh || !inCycle(b) {
					continue
				}
				if _, isIface := st.Val.Type().Underlying().(*types.Interface); !isIface {
					continue
				}
				n++
				if why, ok := decodedValue(c, st.Val, st, 0); ok {
					c.OK(P.InstrPos(st), "element stored by "+ir.FuncName(fn), why, false)
				} else {
					c.Violation(fn, P.InstrPos(st), "the element stored is not what was decoded",
						"the value put into the list does not come out of a decoding step that ran before the store (the target handed to the unmarshal callback, read back afterwards; a conversion of the body; a converter's result): the slot gets a zero value although a body was present")
				}
			}
		}
	}
	if n == 0 {
		c.AnchorMissing("a presence test of an element body in an element-wise decoder")
	}
}

func isByte(t types.Type) bool {
	b, ok := t.Underlying().(*types.Basic)
	return ok && b.Kind() == types.Uint8
}

// decodedValue: v (stored at `at`) is produced by a decoding step that ran before.
func decodedValue(c *Ctx, v ssa.Value, at ssa.Instruction, d int) (string, bool) {
	if d > 6 {
		return "", false
	}
	isCallback := func(ci ssa.CallInstruction) bool {
		_, isParam := ir.ResolveCell(ci.Common().Value).(*ssa.Parameter)
		_, isFV := ir.ResolveCell(ci.Common().Value).(*ssa.FreeVar)
		return isParam || isFV || len(c.Facts.External(ci)) > 0 && c.Facts.External(ci)[:min(9, len(c.Facts.External(ci)))] == "callback:"
	}
	// the target was handed to a callback call that precedes `at`
	handedBefore := func(target ssa.Value) bool {
		seen := map[ssa.Value]bool{}
		var walk func(x ssa.Value, dd int) bool
		walk = func(x ssa.Value, dd int) bool {
			if dd > 4 || seen[x] || x.Referrers() == nil {
				return false
			}
			seen[x] = true
			for _, r := range *x.Referrers() {
				switch y := r.(type) {
				case ssa.CallInstruction:
					isArg := false
					for _, a := range y.Common().Args {
						if a == x {
							isArg = true
						}
					}
					if isArg && isCallback(y) && ir.InstrReaches(y, at) && ir.Before(y, at) {
						return true
					}
					// (reflect.Value).Interface(x) etc.: the derived value may be what is handed over
					if cv := y.Value(); cv != nil && isArg {
						if walk(cv, dd+1) {
							return true
						}
					}
				case *ssa.MakeInterface:
					if walk(y, dd+1) {
						return true
					}
				}
			}
			return false
		}
		return walk(target, 0)
	}
	switch x := v.(type) {
	case *ssa.UnOp:
		if x.Op == token.MUL {
			if a, ok := x.X.(*ssa.Alloc); ok && handedBefore(a) {
				return "read back from the variable handed to the unmarshal callback", true
			}
		}
	case *ssa.Call:
		// elem.Elem().Interface(): follow the receiver chain to the reflect.New value
		if sc := ir.Callee(x.Call); sc != nil && (sc.String() == "(reflect.Value).Interface" || sc.String() == "(reflect.Value).Elem") && len(x.Call.Args) > 0 {
			recv := x.Call.Args[0]
			if rc, ok := recv.(*ssa.Call); ok {
				if sc2 := ir.Callee(rc.Call); sc2 != nil && sc2.String() == "reflect.New" {
					if handedBefore(rc) {
						return "read back from the reflect.New value handed to the unmarshal callback", true
					}
					return "", false
				}
			}
			return decodedValue(c, recv, at, d+1)
		}
		if isCallback(x) {
			return "result of a converter", true
		}
	case *ssa.Extract:
		if call, ok := x.Tuple.(*ssa.Call); ok && isCallback(call) {
			return "result of a converter", true
		}
		// a same-package helper that decodes one element: each of its successful returns hands back a decoded value
		if call, ok := x.Tuple.(*ssa.Call); ok {
			if h := ir.Callee(call.Call); h != nil && h.Blocks != nil && h.Pkg != nil && h.Pkg.Pkg.Path() == ir.MastPath {
				ei := ir.ErrorResultIndex(h.Signature)
				n := 0
				for _, r := range ir.Returns(h) {
					if ei >= 0 && !ir.IsNilConst(r.Results[ei]) {
						continue
					}
					n++
					if x.Index >= len(r.Results) {
						return "", false
					}
					if _, ok := decodedValue(c, r.Results[x.Index], r, d+1); !ok {
						return "", false
					}
				}
				if n > 0 {
					return "result of the element decoder " + ir.FuncName(h), true
				}
			}
		}
	case *ssa.MakeInterface:
		// string(body) / the body itself boxed
		if cv, ok := x.X.(*ssa.Convert); ok {
			if _, isBytes := cv.X.Type().Underlying().(*types.Slice); isBytes {
				return "a conversion of the body", true
			}
		}
		return decodedValue(c, x.X, at, d+1)
	case *ssa.Phi:
		for _, e := range x.Edges {
			if _, ok := decodedValue(c, e, at, d+1); !ok {
				return "", false
			}
		}
		return "every merged value is a decoded one", len(x.Edges) > 0
	}
	return "", false
}
