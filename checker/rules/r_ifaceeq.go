package rules

import (
	"fmt"
	"go/token"
	"go/types"

	"golang.org/x/tools/go/ssa"

	"mastcheck/ir"
)

// IFACEEQ: keys and values are arbitrary user types held in interface{}.
// `==` / `!=` on two interfaces panics at run time when the dynamic type is
// not comparable (slices, maps, funcs, structs containing them), and compares
// pointers by identity. The sibling paths use reflect.DeepEqual / keyOrder.

func init() {
	Register(&Rule{
		ID:    "IFACEEQ",
		Props: []string{"C01", "C06", "C10", "C07"},
		Min:   4,
		Doc: "every interface ==/!= with two non-constant operands is classified by provenance: an operand that originates " +
			"from a node's Key/Value slot, from an entry{Key,Value}, or from a key/value argument of the exported API is a " +
			"finding (run-time panic for uncomparable dynamic types); link×link, error×sentinel and reflect.Type comparisons are allowed.",
		Run: runIFACEEQ,
	})
}

type provKind int

const (
	provOther provKind = iota
	provUser           // user key or value
	provLink           // link slot, root, considerLink, link parameter
	provError
	provType
)

func (k provKind) String() string {
	return [...]string{"other", "user key/value", "link", "error", "reflect.Type"}[k]
}

func runIFACEEQ(c *Ctx) {
	P := c.P
	userParams := userValueParams(c)
	for _, fn := range P.Funcs {
		for _, b := range fn.Blocks {
			for _, ins := range b.Instrs {
				bin, ok := ins.(*ssa.BinOp)
				if !ok || (bin.Op != token.EQL && bin.Op != token.NEQ) {
					continue
				}
				if !isIface(bin.X.Type()) || !isIface(bin.Y.Type()) {
					continue
				}
				if _, isC := bin.X.(*ssa.Const); isC {
					continue
				}
				if _, isC := bin.Y.(*ssa.Const); isC {
					continue
				}
				kx, wx := provenance(bin.X, userParams, 0)
				ky, wy := provenance(bin.Y, userParams, 0)
				pos := P.InstrPos(bin)
				what := fmt.Sprintf("%s %s %s in %s", wx, bin.Op, wy, ir.FuncName(fn))
				if kx == provUser || ky == provUser {
					c.Violation(fn, pos, fmt.Sprintf("%s %s %s", wx, bin.Op, wy),
						"user keys/values are compared with "+bin.Op.String()+": this panics for uncomparable dynamic types (slices, maps) and compares pointers by identity; the sibling paths use reflect.DeepEqual / the key order")
					continue
				}
				c.OK(pos, what, fmt.Sprintf("%s × %s", kx, ky), false)
			}
		}
	}
}

func isIface(t types.Type) bool {
	_, ok := t.Underlying().(*types.Interface)
	return ok
}

// userValueParams: interface{}-typed parameters that carry user keys/values:
// those of exported Mast/Cursor methods, propagated through static calls.
func userValueParams(c *Ctx) map[*ssa.Parameter]bool {
	out := map[*ssa.Parameter]bool{}
	emptyIface := func(t types.Type) bool {
		i, ok := t.Underlying().(*types.Interface)
		return ok && i.NumMethods() == 0
	}
	for _, fn := range c.Facts.ExportedEntries() {
		if fn.Signature.Recv() == nil {
			continue
		}
		for i, p := range fn.Params {
			if i == 0 {
				continue
			}
			if emptyIface(p.Type()) {
				out[p] = true
			}
		}
	}
	for changed := true; changed; {
		changed = false
		for _, fn := range c.P.Funcs {
			for _, ci := range CallsOf(fn) {
				if ir.Callee(ci.Common()) == nil {
					continue // signature-based resolution of function values would smear user values over unrelated closures
				}
				for _, callee := range c.Facts.Callees(ci) {
					for i, a := range ci.Common().Args {
						if i >= len(callee.Params) || !emptyIface(callee.Params[i].Type()) {
							continue
						}
						if p, ok := ir.ResolveCell(ir.Strip(a)).(*ssa.Parameter); ok && out[p] && !out[callee.Params[i]] {
							// a link parameter (mergeNodes' links …) is never fed from a user param
							out[callee.Params[i]] = true
							changed = true
						}
					}
				}
			}
		}
	}
	return out
}

func provenance(v ssa.Value, userParams map[*ssa.Parameter]bool, d int) (provKind, string) {
	if d > 8 {
		return provOther, "value"
	}
	if ir.IsErrorType(v.Type()) {
		return provError, "error"
	}
	if n, ok := v.Type().(*types.Named); ok && n.Obj().Pkg() != nil && n.Obj().Pkg().Path() == "reflect" && n.Obj().Name() == "Type" {
		return provType, "reflect.Type"
	}
	v = ir.ResolveCell(v)
	switch x := v.(type) {
	case *ssa.Parameter:
		if userParams[x] {
			return provUser, "param " + x.Name()
		}
		return provLink, "param " + x.Name()
	case *ssa.UnOp:
		if x.Op != token.MUL {
			break
		}
		switch a := x.X.(type) {
		case *ssa.IndexAddr:
			if _, f, ok := nodeSliceRoot(a.X); ok {
				if f == "Key" || f == "Value" {
					return provUser, "node." + f + "[i]"
				}
				if f == "Link" {
					return provLink, "node.Link[i]"
				}
			}
			// element of a local slice: provenance of what is stored — give up politely
			return provOther, "element"
		case *ssa.FieldAddr:
			fname := ir.FieldName(a.X.Type(), a.Field)
			switch {
			case ir.IsPtrToNamed(a.X.Type(), "entry") && (fname == "Key" || fname == "Value"):
				return provUser, "entry." + fname
			case ir.IsPtrToNamed(a.X.Type(), "iterItem") && fname == "considerLink":
				return provLink, "item.considerLink"
			case ir.IsPtrToNamed(a.X.Type(), "Mast") && fname == "root":
				return provLink, "Mast.root"
			case ir.IsPtrToNamed(a.X.Type(), "diffState") && (fname == "curKey" || fname == "addedValue" || fname == "removedValue"):
				return provUser, "diffState." + fname
			case ir.IsPtrToNamed(a.X.Type(), "diffState") && (fname == "addedLink" || fname == "removedLink"):
				return provLink, "diffState." + fname
			case ir.IsPtrToNamed(a.X.Type(), "Mast") && (fname == "zeroKey" || fname == "zeroValue"):
				return provUser, "Mast." + fname
			}
			return provOther, "field " + fname
		}
	case *ssa.Field:
		fname := ir.FieldName(x.X.Type(), x.Field)
		if ir.IsNamed(x.X.Type(), "entry") && (fname == "Key" || fname == "Value") {
			return provUser, "entry." + fname
		}
		if ir.IsNamed(x.X.Type(), "iterItem") && fname == "considerLink" {
			return provLink, "item.considerLink"
		}
		return provenance(x.X, userParams, d+1)
	case *ssa.Lookup:
		// the memo maps hold links
		return provLink, "map element"
	case *ssa.Phi:
		best, bw := provOther, "phi"
		for _, e := range x.Edges {
			k, w := provenance(e, userParams, d+1)
			if k == provUser {
				return k, w
			}
			if k != provOther {
				best, bw = k, w
			}
		}
		return best, bw
	case *ssa.MakeInterface:
		return provOther, "boxed " + x.X.Type().String()
	case *ssa.Extract, *ssa.Call:
		return provOther, "call result"
	case *ssa.TypeAssert:
		return provenance(x.X, userParams, d+1)
	case *ssa.Next:
		return provLink, "range element"
	}
	return provOther, "value"
}
