package rules

// C05 — persist then load is the identity on the map: the structural clauses.

import (
	"fmt"
	"go/constant"
	"go/token"
	"go/types"
	"regexp"
	"sort"
	"strings"

	"golang.org/x/tools/go/ssa"

	"mastcheck/ir"
)

func init() {
	Register(&Rule{ID: "ROOTFIELDS", Props: []string{"C05", "C19"}, Min: 15,
		Doc: "every field of Root is set by MakeRoot from the corresponding Mast field / flush result (Size←size, Height←height, BranchFactor←branchFactor, NodeFormat←string(nodeFormat), Link←&link or nil iff link==\"\"), " +
			"set by NewRoot, and read by LoadMast into the corresponding Mast field (size, height, branchFactor, nodeFormat through the format switch, root←*Link or an empty node).",
		Run: runRootFields})
	Register(&Rule{ID: "CTOR", Props: []string{"C01", "C05"}, Min: 20,
		Doc: "every function-typed field of Mast that is called without a dominating nil test is non-nil on every path to every success return of every constructor (dataflow with nil-test refinement; `assigned from the config, replaced when nil` is accepted); " +
			"LoadMast initialises every other Mast field except the tabled per-session marks `debug` and `emptied` (zero value = right start) from the Root or the RemoteConfig.",
		Run: runCtor})
	Register(&Rule{ID: "CODECSYM", Props: []string{"C05", "C19"}, Min: 12,
		Doc: "the binary encoder and decoder visit Key, Value, Link in the same order with paired primitives (marshalled elements↔decodeEfaceSlice, string links↔decodeStringSlice, PutUvarint↔Uvarint); Key is decoded with the type of zeroKey and Value with zeroValue in both decoders; " +
			"every decoder restores a dropped link list as len(Key)+1 nil links and only then; a zero length decodes to nil (the encoder writes length 0 for nil links).",
		Run: runCodecSym})
	Register(&Rule{ID: "FORMATS", Props: []string{"C05", "C19"}, Min: 6,
		Doc: "the node-format dispatch sites (marshal closure of flush, unmarshal closure of loadPersisted, LoadMast's switch) cover the same formats {v1marshaler, v1.1.5binary} and send any other format to an error return.",
		Run: runFormats})
}

// ---------------------------------------------------------------------------
// ROOTFIELDS

func mentionsValue(v ssa.Value, pred func(ssa.Value) bool, depth int) bool {
	if v == nil || depth > 4 {
		return false
	}
	if pred(v) {
		return true
	}
	ins, ok := v.(ssa.Instruction)
	if !ok {
		return false
	}
	for _, op := range ins.Operands(nil) {
		if op != nil && *op != nil && mentionsValue(*op, pred, depth+1) {
			return true
		}
	}
	return false
}

func runRootFields(c *Ctx) {
	root := c.P.StructOf(ir.MastPath, "Root")
	if root == nil {
		c.AnchorMissing("struct Root")
		return
	}
	pair := map[string]string{"Size": "size", "Height": "height", "BranchFactor": "branchFactor", "NodeFormat": "nodeFormat", "Link": "root"}
	var rootFields []string
	for i := 0; i < root.NumFields(); i++ {
		n := root.Field(i).Name()
		rootFields = append(rootFields, n)
		if _, ok := pair[n]; !ok {
			c.Undecided(nil, c.P.Pos(root.Field(i).Pos()), "Root."+n, "Root has a field the rule has no pairing for: it cannot tell whether it survives MakeRoot/LoadMast")
		}
	}
	// (i) MakeRoot
	if fn := c.MustFunc("(*Mast).MakeRoot"); fn != nil {
		recv := fn.Params[0]
		a, _ := fxReturnedAlloc(fn, "Root")
		var linkParam ssa.Value
		if a == nil {
			// the Root is built by a private helper: follow it, with its
			// receiver standing for MakeRoot's and its parameter for flush's result
			if h, hr, hl := rootHelper(c, fn, recv); h != nil {
				a, _ = fxReturnedAlloc(h, "Root")
				if a != nil {
					fn, recv, linkParam = h, hr, hl
				}
			}
		}
		if a == nil {
			c.Undecided(fn, c.P.Pos(fn.Pos()), "returned Root", "cannot find the Root MakeRoot returns")
		} else {
			fs, whole := fxStructStores(a)
			if len(whole) > 0 {
				c.Undecided(fn, c.P.InstrPos(whole[0]), "returned Root", "the Root is assigned as a whole")
			}
			for _, rf := range rootFields {
				mf, ok := pair[rf]
				if !ok {
					continue
				}
				construct := "Root." + rf
				sts := fxStoresOf(fs, rf)
				if len(sts) == 0 {
					c.Violation(fn, c.P.InstrPos(a), construct, fmt.Sprintf("MakeRoot does not set Root.%s (it stays zero): the tree loaded from this root has a different %s", rf, mf))
					continue
				}
				if rf == "Link" {
					checkMakeRootLink(c, fn, sts, linkParam)
					continue
				}
				for _, s := range sts {
					p, path, ok := fxParamField(s.Val)
					switch {
					case ok && p == recv && path == mf:
						c.OK(c.P.InstrPos(s.St), "MakeRoot "+construct, "← m."+mf, false)
					case ok && p == recv:
						c.Violation(fn, c.P.InstrPos(s.St), construct, fmt.Sprintf("MakeRoot sets Root.%s from m.%s, not from m.%s", rf, path, mf))
					default:
						c.Violation(fn, c.P.InstrPos(s.St), construct, fmt.Sprintf("MakeRoot sets Root.%s to %s, not to m.%s", rf, ir.Sym(s.Val), mf))
					}
				}
			}
		}
	}
	// NewRoot
	if fn := c.MustFunc("NewRoot"); fn != nil {
		for _, ret := range fxSuccessReturns(fn) {
			a := fxAllocOfReturn(ret, "Root")
			if a == nil {
				c.Undecided(fn, c.P.InstrPos(ret), "returned Root", "cannot find the Root NewRoot returns")
				continue
			}
			fs, _ := fxStructStores(a)
			for _, rf := range rootFields {
				construct := "Root." + rf
				sts := fxStoresOf(fs, rf)
				switch rf {
				case "BranchFactor", "NodeFormat":
					if len(sts) == 0 {
						c.Violation(fn, c.P.InstrPos(a), construct, "NewRoot does not set Root."+rf+": LoadMast would see a zero "+rf)
					} else {
						c.OK(c.P.InstrPos(sts[0].St), "NewRoot "+construct, "set (value decided by FORMATCONST_NEWROOT)", false)
					}
				default:
					bad := false
					for _, s := range sts {
						k := fxConst(s.Val)
						zero := ir.IsNilConst(s.Val) || (k != nil && k.Kind() == constant.Int && constant.Sign(k) == 0)
						if !zero {
							bad = true
							c.Violation(fn, c.P.InstrPos(s.St), construct, "NewRoot's empty tree has a non-zero Root."+rf)
						}
					}
					if !bad {
						c.OK(c.P.InstrPos(a), "NewRoot "+construct, "zero (empty tree)", true)
					}
				}
			}
		}
	}
	// (ii) LoadMast
	fn := c.MustFunc("(*Root).LoadMast")
	if fn == nil {
		return
	}
	recv := fn.Params[0]
	a, _ := fxReturnedAlloc(fn, "Mast")
	if a == nil {
		c.Undecided(fn, c.P.Pos(fn.Pos()), "returned Mast", "cannot find the Mast LoadMast returns")
		return
	}
	fs, _ := fxStructStores(a)
	for _, rf := range rootFields {
		mf, ok := pair[rf]
		if !ok {
			continue
		}
		construct := "Mast." + mf
		sts := fxStoresOf(fs, mf)
		if len(sts) == 0 {
			c.Violation(fn, c.P.InstrPos(a), construct, fmt.Sprintf("LoadMast does not set Mast.%s: Root.%s is lost on load", mf, rf))
			continue
		}
		switch rf {
		case "NodeFormat":
			for _, f := range currentFormats(c) {
				res, problem := loadMastFormatCase(c, fn, f)
				sub := construct + " for " + f
				switch {
				case problem != "":
					c.Undecided(fn, c.P.Pos(fn.Pos()), sub, problem)
				case len(res.Open) > 0 || len(res.Unres) > 0:
					c.Undecided(fn, res.StorePos, sub, "the flow from Root.NodeFormat to Mast.nodeFormat is not decided")
				case !res.Success || len(res.Stored) != 1 || res.Stored[0] != f:
					c.Violation(fn, res.StorePos, sub, fmt.Sprintf("a root written with node format %q loads as %q: MakeRoot's string(m.nodeFormat) does not round-trip", f, res.Stored))
				default:
					c.OK(res.StorePos, "LoadMast "+sub, "string(nodeFormat) round-trips", false)
				}
			}
		case "Link":
			checkLoadMastRoot(c, fn, recv, sts)
		default:
			for _, s := range sts {
				p, path, ok := fxParamField(s.Val)
				switch {
				case ok && p == recv && path == rf:
					c.OK(c.P.InstrPos(s.St), "LoadMast "+construct, "← r."+rf, false)
				case ok && p == recv:
					c.Violation(fn, c.P.InstrPos(s.St), construct, fmt.Sprintf("LoadMast sets Mast.%s from r.%s, not from r.%s", mf, path, rf))
				default:
					c.Violation(fn, c.P.InstrPos(s.St), construct, fmt.Sprintf("LoadMast sets Mast.%s to %s, not to r.%s", mf, ir.Sym(s.Val), rf))
				}
			}
		}
	}
}

// rootHelper: MakeRoot's success returns yield the result of one static
// in-repo helper; returns the helper, its parameter bound to MakeRoot's
// receiver and its parameter bound to the name flush returned (nil if none).
func rootHelper(c *Ctx, fn *ssa.Function, recv *ssa.Parameter) (*ssa.Function, *ssa.Parameter, ssa.Value) {
	flush := c.P.MastFunc("(*Mast).flush")
	fromFlush := func(v ssa.Value) bool {
		v = fxStripNoConv(v)
		if u, ok := v.(*ssa.UnOp); ok && u.Op == token.MUL {
			if a, ok := u.X.(*ssa.Alloc); ok {
				if st := ir.SingleStore(a); st != nil {
					v = fxStripNoConv(st.Val)
				}
			}
		}
		e, ok := v.(*ssa.Extract)
		if !ok || e.Index != 0 {
			return false
		}
		call, ok := e.Tuple.(*ssa.Call)
		return ok && flush != nil && ir.Callee(call.Call) == flush
	}
	var call *ssa.Call
	for _, r := range fxSuccessReturns(fn) {
		if len(r.Results) == 0 {
			return nil, nil, nil
		}
		cl, idx := fxCallOf(r.Results[0])
		if cl == nil || idx != 0 || (call != nil && cl != call) {
			return nil, nil, nil
		}
		call = cl
	}
	if call == nil {
		return nil, nil, nil
	}
	h := ir.Callee(call.Call)
	if h == nil || !fxOwnFunc(h) {
		return nil, nil, nil
	}
	var hr *ssa.Parameter
	var hl ssa.Value
	for i, a := range call.Call.Args {
		if i >= len(h.Params) {
			break
		}
		if ir.ResolveCell(a) == ssa.Value(recv) {
			hr = h.Params[i]
		} else if fromFlush(a) {
			hl = h.Params[i]
		}
	}
	if hr == nil {
		return nil, nil, nil
	}
	return h, hr, hl
}

func checkMakeRootLink(c *Ctx, fn *ssa.Function, sts []fxFieldStore, linkParam ssa.Value) {
	flush := c.P.MastFunc("(*Mast).flush")
	isLinkCell := func(a *ssa.Alloc) bool {
		// the address is taken on purpose (it becomes Root.Link); only the
		// direct stores matter
		var stores []*ssa.Store
		if a.Referrers() != nil {
			for _, r := range *a.Referrers() {
				if s, ok := r.(*ssa.Store); ok && s.Addr == ssa.Value(a) {
					stores = append(stores, s)
				}
			}
		}
		if len(stores) == 0 {
			return false
		}
		for _, s := range stores {
			if linkParam != nil && fxStripNoConv(s.Val) == linkParam {
				continue // the helper's parameter that carries flush's result
			}
			call, idx := fxCallOf(s.Val)
			if call == nil || idx != 0 || flush == nil || ir.Callee(call.Call) != flush {
				return false
			}
		}
		return true
	}
	isLink := func(v ssa.Value) bool {
		v = fxStripNoConv(v)
		if linkParam != nil && v == linkParam {
			return true
		}
		if u, ok := v.(*ssa.UnOp); ok && u.Op == token.MUL {
			if a, ok := u.X.(*ssa.Alloc); ok {
				return isLinkCell(a)
			}
		}
		if e, ok := v.(*ssa.Extract); ok && e.Index == 0 {
			if call, ok := e.Tuple.(*ssa.Call); ok && flush != nil && ir.Callee(call.Call) == flush {
				return true
			}
		}
		return false
	}
	for _, s := range sts {
		for _, cs := range []struct {
			name string
			val  string
		}{{"link empty", ""}, {"link non-empty", "x"}} {
			as := &fxAssume{
				decide: func(cond ssa.Value) (bool, bool) {
					if bin, ok := cond.(*ssa.BinOp); ok {
						return fxCmpConst(bin, isLink, fxConst, constant.MakeString(cs.val))
					}
					return false, false
				},
				relevant: func(cond ssa.Value) bool { return mentionsValue(cond, isLink, 0) },
			}
			reach := as.reach(fn.Blocks[0])
			construct := "Root.Link when " + cs.name
			pos := c.P.InstrPos(s.St)
			if open := as.open(reach); len(open) > 0 {
				c.Undecided(fn, fxValPos(c.P, open[0], fn), construct, "test on the flushed link not decided: "+ir.Sym(open[0]))
				continue
			}
			bad := ""
			for _, l := range as.leaves(s.Val, reach) {
				if cs.val == "" {
					if !ir.IsNilConst(l) {
						bad = "an empty tree (flush returned \"\") gets a non-nil Root.Link"
					}
				} else {
					al, ok := l.(*ssa.Alloc)
					if !ok || !isLinkCell(al) {
						bad = "Root.Link is " + ir.Sym(l) + ", not the address of the name flush returned"
					}
				}
			}
			if bad != "" {
				c.Violation(fn, pos, construct, "MakeRoot: "+bad)
			} else {
				c.OK(pos, "MakeRoot "+construct, map[string]string{"": "nil", "x": "&link, link = flush's result"}[cs.val], false)
			}
		}
	}
}

// rootLeaf is one value Mast.root can take, with the predicate recognising a
// read of Root.Link in the function the value lives in.
type rootLeaf struct {
	val        ssa.Value
	isLinkLoad func(ssa.Value) bool
}

// rootLeaves evaluates v (or, when v is nil, what fn returns as result #0)
// assuming Root.Link is nil / non-nil. recv is the parameter of fn holding the
// *Root. A value produced by a static in-repo helper that receives the same
// *Root is followed into the helper (depth ≤ 2).
func rootLeaves(fn *ssa.Function, recv *ssa.Parameter, v ssa.Value, wantNil bool, depth int) (leaves []rootLeaf, open ssa.Value) {
	isLinkLoad := func(x ssa.Value) bool {
		p, path, ok := fxParamField(x)
		return ok && p == recv && path == "Link"
	}
	as := &fxAssume{
		decide: func(cond ssa.Value) (bool, bool) {
			if x, tnn, ok := ir.NilTest(cond); ok && isLinkLoad(x) {
				return tnn != wantNil, true
			}
			return rootLinkPredicate(cond, recv, wantNil, depth)
		},
		relevant: func(cond ssa.Value) bool { return mentionsValue(cond, isLinkLoad, 0) },
	}
	reach := as.reach(fn.Blocks[0])
	if o := as.open(reach); len(o) > 0 {
		return nil, o[0]
	}
	var vals []ssa.Value
	if v != nil {
		vals = as.leaves(v, reach)
	} else {
		for _, r := range ir.Returns(fn) {
			if reach[r.Block()] && len(r.Results) > 0 {
				vals = append(vals, as.leaves(r.Results[0], reach)...)
			}
		}
	}
	for _, l := range vals {
		if call, idx := fxCallOf(fxStripNoConv(l)); call != nil && idx == 0 && depth < 2 {
			if callee := ir.Callee(call.Call); callee != nil && fxOwnFunc(callee) {
				followed := false
				for i, a := range call.Call.Args {
					if ir.ResolveCell(a) == ssa.Value(recv) && i < len(callee.Params) {
						sub, o := rootLeaves(callee, callee.Params[i], nil, wantNil, depth+1)
						if o != nil {
							return nil, o
						}
						leaves = append(leaves, sub...)
						followed = true
					}
				}
				if followed {
					continue
				}
			}
		}
		leaves = append(leaves, rootLeaf{l, isLinkLoad})
	}
	return leaves, nil
}

// rootLinkPredicate: cond is the result of a static in-repo predicate on the
// same *Root (`r.IsEmpty()`, `hasLink(r)`): a function without stores or calls
// of its own (other than such predicates) whose every return reachable under
// the assumption yields the same decided truth value.
func rootLinkPredicate(cond ssa.Value, recv *ssa.Parameter, wantNil bool, depth int) (bool, bool) {
	call, ok := cond.(*ssa.Call)
	if !ok || depth >= 2 || call.Call.IsInvoke() {
		return false, false
	}
	callee := ir.Callee(call.Call)
	if callee == nil || !fxOwnFunc(callee) || len(callee.FreeVars) != 0 || callee.Signature.Results().Len() != 1 || len(callee.Params) != len(call.Call.Args) {
		return false, false
	}
	if b, isB := callee.Signature.Results().At(0).Type().Underlying().(*types.Basic); !isB || b.Kind() != types.Bool {
		return false, false
	}
	var sub *ssa.Parameter
	for i, a := range call.Call.Args {
		if ir.ResolveCell(a) == ssa.Value(recv) {
			sub = callee.Params[i]
		}
	}
	if sub == nil {
		return false, false
	}
	isLinkLoad := func(x ssa.Value) bool {
		p, path, ok := fxParamField(x)
		return ok && p == sub && path == "Link"
	}
	as := &fxAssume{
		relevant: func(c ssa.Value) bool { return mentionsValue(c, isLinkLoad, 0) },
	}
	as.decide = func(c ssa.Value) (bool, bool) {
		if x, tnn, ok := ir.NilTest(c); ok && isLinkLoad(x) {
			return tnn != wantNil, true
		}
		return rootLinkPredicate(c, sub, wantNil, depth+1)
	}
	reach := as.reach(callee.Blocks[0])
	if len(as.open(reach)) > 0 {
		return false, false
	}
	truth, n := false, 0
	for b := range reach {
		for _, ins := range b.Instrs {
			switch x := ins.(type) {
			case *ssa.Store, *ssa.Go, *ssa.Defer, *ssa.MapUpdate, *ssa.Send:
				return false, false
			case *ssa.Call:
				if _, known := rootLinkPredicate(x, sub, wantNil, depth+1); !known {
					return false, false
				}
			case *ssa.Return:
				if len(x.Results) != 1 {
					return false, false
				}
				t, known := as.eval(x.Results[0])
				if !known || (n > 0 && t != truth) {
					return false, false
				}
				truth = t
				n++
			}
		}
	}
	return truth, n > 0
}

func checkLoadMastRoot(c *Ctx, fn *ssa.Function, recv *ssa.Parameter, sts []fxFieldStore) {
	for _, s := range sts {
		for _, wantNil := range []bool{false, true} {
			construct := "Mast.root when Link " + map[bool]string{true: "nil", false: "non-nil"}[wantNil]
			pos := c.P.InstrPos(s.St)
			lv, open := rootLeaves(fn, recv, s.Val, wantNil, 0)
			if open != nil {
				c.Undecided(fn, fxValPos(c.P, open, fn), construct, "test on Root.Link not decided: "+ir.Sym(open))
				continue
			}
			bad := ""
			if len(lv) == 0 {
				bad = "no value reaches Mast.root"
			}
			for _, l := range lv {
				v := fxStripNoConv(l.val)
				if !wantNil {
					u, ok := v.(*ssa.UnOp)
					if !ok || u.Op != token.MUL || !l.isLinkLoad(u.X) {
						bad = "Mast.root is " + ir.Sym(v) + ", not *r.Link"
					}
					continue
				}
				if ir.IsNilConst(v) {
					continue
				}
				call, _ := v.(*ssa.Call)
				if call == nil || ir.Callee(call.Call) == nil || !ir.IsPtrToNamed(call.Type(), "mastNode") || mentionsValue(call, l.isLinkLoad, 0) {
					bad = "Mast.root of an empty root is " + ir.Sym(v) + ", not an empty node"
				}
			}
			if bad != "" {
				c.Violation(fn, pos, construct, "LoadMast: "+bad)
			} else {
				c.OK(pos, "LoadMast "+construct, map[bool]string{true: "an empty node", false: "*r.Link"}[wantNil], false)
			}
		}
	}
}

// ---------------------------------------------------------------------------
// CTOR

// ctorState: for each tracked struct (a local Mast, or — inside a helper —
// the pointer parameter standing for it) the abstract values of one field.
type ctorState map[ssa.Value]map[string]bool

func (s ctorState) clone() ctorState {
	o := ctorState{}
	for a, m := range s {
		n := map[string]bool{}
		for k := range m {
			n[k] = true
		}
		o[a] = n
	}
	return o
}

func (s ctorState) joinInto(dst ctorState) bool {
	changed := false
	for a, m := range s {
		if dst[a] == nil {
			dst[a] = map[string]bool{}
		}
		for k := range m {
			if !dst[a][k] {
				dst[a][k] = true
				changed = true
			}
		}
	}
	return changed
}

type ctorFlow struct {
	c       *Ctx
	tracked map[ssa.Value]bool
	field   string
	isFunc  bool
	// tr renders a symbolic path of this function in the caller's terms
	// (helper parameters replaced by the arguments); nil at the top level
	tr    func(string) string
	depth int
}

func (f *ctorFlow) sym(v ssa.Value) string {
	s := ir.Sym(v)
	if f.tr != nil {
		s = f.tr(s)
	}
	return s
}

func (f *ctorFlow) classify(v ssa.Value) string {
	if !f.isFunc {
		return "set"
	}
	return f.classifyDepth(v, 0)
}

// classifyDepth classifies a function value. A merged value (a local that
// was given the config's function and replaced by a default when nil) is
// non-nil if every incoming value is non-nil on its edge: either by itself, or
// because the edge is the non-nil side of a nil test of that same value.
func (f *ctorFlow) classifyDepth(v ssa.Value, depth int) string {
	if phi, ok := ir.ResolveCell(v).(*ssa.Phi); ok && depth < 4 {
		worst := "nonnil"
		for i, e := range phi.Edges {
			pred := phi.Block().Preds[i]
			k := f.classifyDepth(e, depth+1)
			if strings.HasPrefix(k, "maybe:") {
				sym := strings.TrimPrefix(k, "maybe:")
				isIt := func(x ssa.Value) bool { return f.sym(x) == sym }
				if blockHasNil(pred, isIt, false) || edgeHasNil(pred, phi.Block(), isIt, false) {
					k = "nonnil"
				} else if edgeHasNil(pred, phi.Block(), isIt, true) {
					k = "nil"
				}
			}
			if k != "nonnil" {
				worst = k
			}
		}
		if worst != "nonnil" && !strings.HasPrefix(worst, "maybe:") {
			return worst
		}
		if worst != "nonnil" {
			return "maybe:" + f.sym(v)
		}
		return worst
	}
	// result #i of a private helper: the helper's i-th return operand on every return
	if call, idx := fxCallOf(ir.ResolveCell(v)); call != nil && depth < 4 {
		callee := ir.Callee(call.Call)
		if callee != nil && fxOwnFunc(callee) && callee.Object() != nil && !callee.Object().Exported() && fxReturnedClosure(callee) == nil {
			worst, n := "nonnil", 0
			for _, r := range ir.Returns(callee) {
				if idx >= len(r.Results) {
					continue
				}
				n++
				k := f.classifyDepth(r.Results[idx], depth+1)
				if strings.HasPrefix(k, "maybe:") {
					// early return under the non-nil side of a nil test of that same value
					// (`if cfg.F != nil { return cfg.F }`)
					sym := strings.TrimPrefix(k, "maybe:")
					if blockHasNil(r.Block(), func(y ssa.Value) bool { return f.sym(y) == sym }, false) {
						k = "nonnil"
					}
				}
				if k != "nonnil" {
					worst = k
				}
			}
			if n > 0 {
				if strings.HasPrefix(worst, "maybe:") {
					return "maybe:" + f.sym(v)
				}
				return worst
			}
		}
	}
	if ir.IsNilConst(v) {
		return "nil"
	}
	if fxFuncOf(f.c.P, v) != nil {
		return "nonnil"
	}
	if _, ok := ir.ResolveCell(v).(*ssa.MakeClosure); ok {
		return "nonnil"
	}
	if _, callee := fxCallee(v); callee != nil && fxReturnedClosure(callee) != nil {
		return "nonnil"
	}
	return "maybe:" + f.sym(v)
}

// transfer applies one instruction to the state.
func (f *ctorFlow) transfer(st ctorState, ins ssa.Instruction) {
	switch x := ins.(type) {
	case *ssa.Alloc:
		if f.tracked[x] {
			st[x] = map[string]bool{"unset": true}
		}
	case *ssa.Call:
		// the struct's address handed to a static in-repo helper: apply the
		// helper's effect on the field (depth ≤ 2)
		callee := ir.Callee(x.Call)
		if callee == nil || !fxOwnFunc(callee) || f.depth >= 2 {
			return
		}
		for i, arg := range x.Call.Args {
			if f.tracked[arg] && i < len(callee.Params) {
				st[arg] = f.calleeEffect(callee, i, x, st[arg])
			}
		}
	case *ssa.Store:
		if f.tracked[x.Addr] {
			a := x.Addr
			if u, ok := x.Val.(*ssa.UnOp); ok && u.Op == token.MUL {
				if f.tracked[u.X] {
					n := map[string]bool{}
					for k := range st[u.X] {
						n[k] = true
					}
					st[a] = n
					return
				}
				if p, ok := ir.ResolveCell(u.X).(*ssa.Parameter); ok && ir.IsPtrToNamed(p.Type(), "Mast") {
					st[a] = map[string]bool{"inherited": true}
					return
				}
			}
			if call, _ := fxCallOf(x.Val); call != nil {
				st[a] = map[string]bool{"inherited": true}
				return
			}
			st[a] = map[string]bool{"unset": true}
			return
		}
		if fa, ok := x.Addr.(*ssa.FieldAddr); ok {
			if a := fa.X; f.tracked[a] && ir.FieldName(fa.X.Type(), fa.Field) == f.field {
				v := f.classify(x.Val)
				if strings.HasPrefix(v, "maybe:") {
					sym := strings.TrimPrefix(v, "maybe:")
					if blockHasNil(x.Block(), func(y ssa.Value) bool { return f.sym(y) == sym }, false) {
						v = "nonnil" // assigned under a dominating non-nil test of the same value
					}
				}
				st[a] = map[string]bool{v: true}
			}
		}
	}
}

// calleeEffect runs the same dataflow inside a helper that receives the
// tracked struct's address as parameter i, starting from the caller's state,
// and returns the field's values when the helper returns.
func (f *ctorFlow) calleeEffect(callee *ssa.Function, i int, call *ssa.Call, inVals map[string]bool) map[string]bool {
	p := callee.Params[i]
	type repl struct {
		re *regexp.Regexp
		to string
	}
	var repls []repl
	for j, q := range callee.Params {
		if j < len(call.Call.Args) {
			repls = append(repls, repl{regexp.MustCompile(`P:` + regexp.QuoteMeta(q.Name()) + `\b`), f.sym(call.Call.Args[j])})
		}
	}
	sub := &ctorFlow{c: f.c, tracked: map[ssa.Value]bool{p: true}, field: f.field, isFunc: f.isFunc, depth: f.depth + 1,
		tr: func(s string) string {
			for _, r := range repls {
				s = r.re.ReplaceAllLiteralString(s, r.to)
			}
			return s
		}}
	entry := ctorState{p: map[string]bool{}}
	for k := range inVals {
		entry[p][k] = true
	}
	in := sub.run(callee, entry)
	out := map[string]bool{}
	n := 0
	for _, r := range ir.Returns(callee) {
		st := sub.at(in, r)
		if st == nil {
			continue
		}
		n++
		for k := range st[p] {
			out[k] = true
		}
	}
	if n == 0 {
		return inVals
	}
	return out
}

func newCtorFlow(c *Ctx, allocs []*ssa.Alloc, field string, isFunc bool) *ctorFlow {
	f := &ctorFlow{c: c, tracked: map[ssa.Value]bool{}, field: field, isFunc: isFunc}
	for _, a := range allocs {
		f.tracked[a] = true
	}
	return f
}

// run is the forward dataflow over fn: the abstract values (unset, nil,
// nonnil, inherited, set, maybe:<sym>) the field of each tracked struct may
// have on entry to each block; nil tests refine them per edge.
func (fl *ctorFlow) run(fn *ssa.Function, entry ctorState) map[*ssa.BasicBlock]ctorState {
	in := map[*ssa.BasicBlock]ctorState{}
	in[fn.Blocks[0]] = entry
	work := []*ssa.BasicBlock{fn.Blocks[0]}
	for len(work) > 0 {
		b := work[0]
		work = work[1:]
		st := in[b].clone()
		for _, ins := range b.Instrs {
			fl.transfer(st, ins)
		}
		for _, succ := range b.Succs {
			out := st
			if iff, ok := b.Instrs[len(b.Instrs)-1].(*ssa.If); ok && b.Succs[0] != b.Succs[1] && fl.isFunc {
				if v, tnn, ok := ir.NilTest(iff.Cond); ok {
					truth := succ == b.Succs[0]
					repl := map[bool]string{true: "nonnil", false: "nil"}[truth == tnn]
					out = st.clone()
					// a test of the field itself
					if u, ok := v.(*ssa.UnOp); ok && u.Op == token.MUL {
						if fa, ok := u.X.(*ssa.FieldAddr); ok {
							if a := fa.X; fl.tracked[a] && ir.FieldName(fa.X.Type(), fa.Field) == fl.field {
								out[a] = map[string]bool{repl: true}
							}
						}
					}
					key := "maybe:" + fl.sym(v)
					for a := range out {
						if out[a][key] {
							delete(out[a], key)
							out[a][repl] = true
						}
					}
				}
			}
			if in[succ] == nil {
				in[succ] = ctorState{}
				out.joinInto(in[succ])
				work = append(work, succ)
			} else if out.joinInto(in[succ]) {
				work = append(work, succ)
			}
		}
	}
	return in
}

// at replays the block of `at` up to that instruction.
func (fl *ctorFlow) at(in map[*ssa.BasicBlock]ctorState, at ssa.Instruction) ctorState {
	b := at.Block()
	if in[b] == nil {
		return nil
	}
	st := in[b].clone()
	for _, ins := range b.Instrs {
		if ins == at {
			break
		}
		fl.transfer(st, ins)
	}
	return st
}

func ctorField(c *Ctx, fn *ssa.Function, allocs []*ssa.Alloc, field string, isFunc bool) map[*ssa.BasicBlock]ctorState {
	fl := newCtorFlow(c, allocs, field, isFunc)
	entry := ctorState{}
	for _, a := range allocs {
		entry[a] = map[string]bool{"unset": true}
	}
	return fl.run(fn, entry)
}

func ctorStateAt(c *Ctx, fn *ssa.Function, allocs []*ssa.Alloc, field string, isFunc bool, in map[*ssa.BasicBlock]ctorState, at ssa.Instruction) ctorState {
	return newCtorFlow(c, allocs, field, isFunc).at(in, at)
}

func runCtor(c *Ctx) {
	mast := c.P.StructOf(ir.MastPath, "Mast")
	if mast == nil {
		c.AnchorMissing("struct Mast")
		return
	}
	// function-typed fields called without a dominating nil test
	needed := map[string]string{}
	isFuncField := map[string]bool{}
	for i := 0; i < mast.NumFields(); i++ {
		if _, ok := mast.Field(i).Type().Underlying().(*types.Signature); ok {
			isFuncField[mast.Field(i).Name()] = true
		}
	}
	for _, fn := range c.P.Funcs {
		for _, ci := range CallsOf(fn) {
			com := ci.Common()
			if com.IsInvoke() || ir.Callee(com) != nil {
				continue
			}
			b, p, ok := fxFieldLoad(com.Value)
			if !ok || b == nil || !isFuncField[p] || !ir.IsPtrToNamed(b.Type(), "Mast") {
				continue
			}
			if ir.NonNilAt(ci.Block(), ir.Sym(com.Value)) {
				continue
			}
			if _, seen := needed[p]; !seen {
				needed[p] = ir.FuncName(fn) + " at " + c.P.InstrPos(ci)
			}
		}
	}
	// constructors
	type ctor struct {
		fn     *ssa.Function
		allocs []*ssa.Alloc
	}
	var ctors []ctor
	delegatedCtor := func(r *ssa.Return) *ssa.Function {
		for _, res := range r.Results {
			if !ir.IsNamed(res.Type(), "Mast") && !ir.IsPtrToNamed(res.Type(), "Mast") {
				continue
			}
			call, idx := fxCallOf(ir.ResolveCell(res))
			if call == nil {
				continue
			}
			h := ir.Callee(call.Call)
			if h == nil || !fxOwnFunc(h) || idx >= h.Signature.Results().Len() {
				continue
			}
			if t := h.Signature.Results().At(idx).Type(); ir.IsNamed(t, "Mast") || ir.IsPtrToNamed(t, "Mast") {
				return h
			}
		}
		return nil
	}
	for _, fn := range c.P.Funcs {
		if fn.Parent() != nil || fn.Pkg == nil || fn.Pkg.Pkg.Path() != ir.MastPath {
			continue
		}
		res := fn.Signature.Results()
		yields := false
		for i := 0; i < res.Len(); i++ {
			t := res.At(i).Type()
			if ir.IsNamed(t, "Mast") || ir.IsPtrToNamed(t, "Mast") {
				yields = true
			}
		}
		if !yields {
			continue
		}
		var allocs []*ssa.Alloc
		for _, b := range fn.Blocks {
			for _, ins := range b.Instrs {
				if a, ok := ins.(*ssa.Alloc); ok && ir.IsPtrToNamed(a.Type(), "Mast") {
					allocs = append(allocs, a)
				}
			}
		}
		if len(allocs) == 0 {
			// every success return hands on the Mast a helper built
			all := true
			rets := fxSuccessReturns(fn)
			for _, ret := range rets {
				if delegatedCtor(ret) == nil {
					all = false
				}
			}
			if !all || len(rets) == 0 {
				c.Undecided(fn, c.P.Pos(fn.Pos()), "constructed Mast", "function returns a Mast it does not build in a local; how its fields are initialised is not decided")
				continue
			}
		}
		ctors = append(ctors, ctor{fn, allocs})
	}
	if len(ctors) == 0 {
		c.AnchorMissing("constructors of Mast")
		return
	}
	fieldNames := make([]string, 0, len(needed))
	for f := range needed {
		fieldNames = append(fieldNames, f)
	}
	sort.Strings(fieldNames)
	returnedAlloc := func(r *ssa.Return) *ssa.Alloc {
		for _, res := range r.Results {
			v := res
			if u, ok := v.(*ssa.UnOp); ok && u.Op == token.MUL {
				v = u.X
			}
			if a, ok := v.(*ssa.Alloc); ok && ir.IsPtrToNamed(a.Type(), "Mast") {
				return a
			}
		}
		return nil
	}
	isCtor := map[*ssa.Function]bool{}
	for _, ct := range ctors {
		isCtor[ct.fn] = true
	}
	for _, ct := range ctors {
		rets := fxSuccessReturns(ct.fn)
		for _, f := range fieldNames {
			in := ctorField(c, ct.fn, ct.allocs, f, true)
			for _, r := range rets {
				a := returnedAlloc(r)
				construct := "Mast." + f
				if a == nil {
					// result #i of a helper that is itself judged as a constructor
					if h := delegatedCtor(r); h != nil && isCtor[h] {
						c.OK(c.P.InstrPos(r), fmt.Sprintf("%s non-nil at return of %s", construct, ir.FuncName(ct.fn)), "the Mast is result of "+h.Name()+"(), judged there", true)
						continue
					}
					c.Undecided(ct.fn, c.P.InstrPos(r), construct, "the returned Mast is not a local of the constructor")
					continue
				}
				st := ctorStateAt(c, ct.fn, ct.allocs, f, true, in, r)
				vals := st[a]
				var bad []string
				for v := range vals {
					if v != "nonnil" && v != "inherited" {
						bad = append(bad, v)
					}
				}
				sort.Strings(bad)
				if len(vals) == 0 {
					bad = append(bad, "unreachable?")
				}
				if len(bad) == 0 {
					c.OK(c.P.InstrPos(r), fmt.Sprintf("%s non-nil at return of %s", construct, ir.FuncName(ct.fn)), "called unguarded in "+needed[f], vals["inherited"])
					continue
				}
				why := strings.Join(bad, ", ")
				why = strings.ReplaceAll(why, "maybe:", "possibly nil value ")
				why = strings.ReplaceAll(why, "unset", "never assigned")
				c.Violation(ct.fn, c.P.InstrPos(r), construct, fmt.Sprintf("%s can return a Mast whose %s is nil (%s); it is called without a nil test in %s", ir.FuncName(ct.fn), f, why, needed[f]))
			}
		}
	}
	// LoadMast: every other field from the Root or the config
	fn := c.MustFunc("(*Root).LoadMast")
	if fn == nil {
		return
	}
	var lm *ctor
	for i := range ctors {
		if ctors[i].fn == fn {
			lm = &ctors[i]
		}
	}
	if lm == nil {
		c.Undecided(fn, c.P.Pos(fn.Pos()), "constructed Mast", "LoadMast does not build its Mast in a local")
		return
	}
	tabled := map[string]bool{"debug": true, "emptied": true} // per-session state whose zero value is the right start (never set under test / not emptied since loaded)
	okParam := map[*ssa.Parameter]bool{}
	for _, p := range fn.Params {
		if ir.IsPtrToNamed(p.Type(), "Root") || ir.IsPtrToNamed(p.Type(), "RemoteConfig") || ir.IsNamed(p.Type(), "RemoteConfig") {
			okParam[p] = true
		}
	}
	retA, _ := fxReturnedAlloc(fn, "Mast")
	var fs []fxFieldStore
	if retA != nil {
		fs, _ = fxStructStores(retA)
	}
	for i := 0; i < mast.NumFields(); i++ {
		f := mast.Field(i).Name()
		construct := "LoadMast Mast." + f
		if tabled[f] {
			c.OK(c.P.Pos(mast.Field(i).Pos()), construct, "tabled: not part of the persisted state", true)
			continue
		}
		// sibling agreement: a field that no constructor of the repository assigns (a label, a statistics counter, a
		// per-session mark added later) starts at its zero value in every tree, loaded or new — there is nothing for
		// LoadMast to carry over. Only a field another constructor does set must be set here as well.
		setSomewhere := false
		for _, ct := range ctors {
			for _, b := range ct.fn.Blocks {
				for _, ins := range b.Instrs {
					if _, f2, _, ok := mastFieldStore(ins); ok && f2 == f {
						setSomewhere = true
					}
				}
			}
		}
		if bt, isB := mast.Field(i).Type().Underlying().(*types.Basic); !setSomewhere && isB && bt.Kind() == types.String {
			c.OK(c.P.Pos(mast.Field(i).Pos()), construct, "no constructor assigns it: every tree starts with its zero value", true)
			continue
		}
		if isFuncField[f] && needed[f] != "" {
			continue // decided above
		}
		in := ctorField(c, fn, lm.allocs, f, false)
		unset := false
		for _, r := range fxSuccessReturns(fn) {
			a := returnedAlloc(r)
			if a == nil {
				continue
			}
			st := ctorStateAt(c, fn, lm.allocs, f, false, in, r)
			if st[a]["unset"] || len(st[a]) == 0 {
				unset = true
				c.Violation(fn, c.P.InstrPos(r), "Mast."+f, fmt.Sprintf("LoadMast can return a Mast whose %s was never assigned: the loaded tree does not carry the Root's / config's %s", f, f))
			}
		}
		if unset {
			continue
		}
		bad := false
		for _, s := range fxStoresOf(fs, f) {
			dep := fxDependsOnParams(s.Val)
			from := false
			for p := range dep {
				if okParam[p] {
					from = true
				}
			}
			if !from {
				bad = true
				c.Violation(fn, c.P.InstrPos(s.St), "Mast."+f, fmt.Sprintf("LoadMast sets Mast.%s to %s, which derives neither from the Root nor from the RemoteConfig", f, ir.Sym(s.Val)))
			}
		}
		if !bad {
			c.OK(c.P.Pos(fn.Pos()), construct, "assigned on every path from the Root / RemoteConfig", false)
		}
	}
}

// ---------------------------------------------------------------------------
// CODECSYM

// staticCallsIn lists the static calls of fn in block order.
func staticCallsIn(fn *ssa.Function) []*ssa.Call {
	var out []*ssa.Call
	for _, b := range fn.Blocks {
		for _, ins := range b.Instrs {
			if c, ok := ins.(*ssa.Call); ok && ir.Callee(c.Call) != nil {
				out = append(out, c)
			}
		}
	}
	return out
}

func byteSliceParam(fn *ssa.Function) *ssa.Parameter {
	for _, p := range fn.Params {
		if isByteSlice(p.Type()) {
			return p
		}
	}
	// the reader idiom: a pointer to a struct holding the buffer and the
	// number of bytes consumed so far
	for _, p := range fn.Params {
		if readerBufField(p.Type()) >= 0 {
			return p
		}
	}
	return nil
}

// readerBufField: t is *struct with exactly one []byte field (the buffer) and
// an int field (the offset); returns the index of the buffer field, else -1.
func readerBufField(t types.Type) int {
	pt, ok := t.Underlying().(*types.Pointer)
	if !ok {
		return -1
	}
	st, ok := pt.Elem().Underlying().(*types.Struct)
	if !ok {
		return -1
	}
	bufIdx, nBuf, nInt := -1, 0, 0
	for i := 0; i < st.NumFields(); i++ {
		ft := st.Field(i).Type()
		if isByteSlice(ft) {
			bufIdx = i
			nBuf++
		} else if b, ok := ft.Underlying().(*types.Basic); ok && b.Kind() == types.Int {
			nInt++
		}
	}
	if nBuf != 1 || nInt < 1 {
		return -1
	}
	return bufIdx
}

// readerRest: v is the unconsumed rest r.buf[r.off:] of reader r — directly,
// or as the result of a static in-repo method of r that returns it.
func readerRest(v ssa.Value, r ssa.Value, depth int) bool {
	v = fxStripNoConv(v)
	if sl, ok := v.(*ssa.Slice); ok && sl.High == nil && sl.Low != nil {
		bb, bp, ok1 := fxFieldLoad(sl.X)
		ob, op, ok2 := fxFieldLoad(sl.Low)
		if ok1 && ok2 && bb == r && ob == r && bp != op {
			_, isInt := sl.Low.Type().Underlying().(*types.Basic)
			return isInt && isByteSlice(sl.X.Type())
		}
		return false
	}
	if call, idx := fxCallOf(v); call != nil && idx == 0 && depth < 2 {
		callee := ir.Callee(call.Call)
		if callee == nil || !fxOwnFunc(callee) || len(call.Call.Args) == 0 || ir.ResolveCell(call.Call.Args[0]) != r || len(callee.Params) == 0 {
			return false
		}
		rets := ir.Returns(callee)
		if len(rets) == 0 {
			return false
		}
		for _, ret := range rets {
			if len(ret.Results) != 1 || !readerRest(ret.Results[0], callee.Params[0], depth+1) {
				return false
			}
		}
		return true
	}
	return false
}

// lengthDecoder: fn reads a varint from its buffer parameter. Returns the
// fully qualified reader ("encoding/binary.Uvarint").
func lengthDecoder(fn *ssa.Function) string {
	if fn == nil || fn.Blocks == nil {
		return ""
	}
	buf := byteSliceParam(fn)
	for _, c := range staticCallsIn(fn) {
		n := fxFullName(ir.Callee(c.Call))
		if (n == "encoding/binary.Uvarint" || n == "encoding/binary.Varint") && buf != nil && len(c.Call.Args) == 1 {
			if fxStripNoConv(c.Call.Args[0]) == ssa.Value(buf) || (!isByteSlice(buf.Type()) && readerRest(c.Call.Args[0], buf, 0)) {
				return n
			}
		}
	}
	return ""
}

// bytesDecoder: fn reads a length through a lengthDecoder and stores a slice
// of the buffer through its pointer parameter. Returns the length call.
func bytesDecoder(fn *ssa.Function) *ssa.Call {
	if fn == nil || fn.Blocks == nil || byteSliceParam(fn) == nil {
		return nil
	}
	var lc *ssa.Call
	for _, c := range staticCallsIn(fn) {
		if lengthDecoder(ir.Callee(c.Call)) != "" {
			lc = c
		}
	}
	if lc == nil {
		return nil
	}
	// the body handed back as a result: (body, rest []byte, err error)
	if bytesBodyResult(fn) >= 0 {
		return lc
	}
	if len(fn.Params) != 2 {
		return nil
	}
	for _, b := range fn.Blocks {
		for _, ins := range b.Instrs {
			if st, ok := ins.(*ssa.Store); ok {
				if p, ok := st.Addr.(*ssa.Parameter); ok && p != byteSliceParam(fn) {
					if _, isSlice := st.Val.(*ssa.Slice); isSlice {
						return lc
					}
				}
			}
		}
	}
	return nil
}

// bytesBodyResult: fn takes the buffer alone and returns exactly two byte slices (and an error): the body, a
// prefix buf[:n] of what follows the length on some successful return, and the rest, a suffix buf[n:]. Returns
// the index of the body result, or -1 when fn does not have that shape.
func bytesBodyResult(fn *ssa.Function) int {
	if fn == nil || fn.Blocks == nil || len(fn.Params) != 1 || !isByteSlice(fn.Params[0].Type()) {
		return -1
	}
	res := fn.Signature.Results()
	var idx []int
	for i := 0; i < res.Len(); i++ {
		if isByteSlice(res.At(i).Type()) {
			idx = append(idx, i)
		}
	}
	if len(idx) != 2 || ir.ErrorResultIndex(fn.Signature) < 0 {
		return -1
	}
	body := -1
	for _, r := range fxSuccessReturns(fn) {
		for k, i := range idx {
			if i >= len(r.Results) {
				return -1
			}
			sl, ok := r.Results[i].(*ssa.Slice)
			if !ok {
				continue
			}
			other, isO := r.Results[idx[1-k]].(*ssa.Slice)
			if sl.High != nil && sl.Low == nil && isO && other.High == nil && other.Low != nil {
				if body >= 0 && body != i {
					return -1
				}
				body = i
			}
		}
	}
	return body
}

// bytesBodyOf: the body a call of a bytes decoder yields when it hands it back as a result.
func bytesBodyOf(call *ssa.Call) ssa.Value {
	bi := bytesBodyResult(ir.Callee(call.Call))
	if bi < 0 || call.Referrers() == nil {
		return nil
	}
	for _, r := range *call.Referrers() {
		if e, ok := r.(*ssa.Extract); ok && e.Index == bi {
			return e
		}
	}
	return nil
}

type sliceDecoderInfo struct {
	Kind     string // "eface" | "string"
	Length   *ssa.Call
	Bytes    *ssa.Call
	ElemStor *ssa.Store // the store of the decoded element
	BodyCell *ssa.Alloc
	BodyVal  ssa.Value // the body as a result of the bytes decoder (no out-parameter)
}

// decoderGroup is fn together with the static in-repo functions it calls
// (depth ≤ 2) and the function literals created by any of them: the code that
// makes up one list decoder, however it is split into helpers and closures.
func decoderGroup(fn *ssa.Function) []*ssa.Function {
	seen := map[*ssa.Function]bool{}
	var out []*ssa.Function
	var add func(f *ssa.Function, depth int)
	add = func(f *ssa.Function, depth int) {
		if f == nil || f.Blocks == nil || seen[f] || !fxOwnFunc(f) {
			return
		}
		seen[f] = true
		out = append(out, f)
		for _, b := range f.Blocks {
			for _, ins := range b.Instrs {
				switch x := ins.(type) {
				case *ssa.MakeClosure:
					if g, ok := x.Fn.(*ssa.Function); ok {
						add(g, depth)
					}
				case *ssa.Call:
					if sc := ir.Callee(x.Call); sc != nil && depth < 2 {
						add(sc, depth+1)
					}
					// a function literal without captures is passed as a plain function value
					for _, a := range x.Call.Args {
						if g, ok := a.(*ssa.Function); ok && g.Parent() != nil {
							add(g, depth)
						}
					}
				}
			}
		}
	}
	add(fn, 0)
	return out
}

// fromParamOrCapture: v is a parameter or a captured variable (possibly read
// through its cell).
func fromParamOrCapture(v ssa.Value) bool {
	v = fxStripNoConv(v)
	if u, ok := v.(*ssa.UnOp); ok && u.Op == token.MUL {
		v = u.X
	}
	switch v.(type) {
	case *ssa.Parameter, *ssa.FreeVar:
		return true
	}
	return false
}

// sliceDecoder classifies fn as a decoder of a length-prefixed list: somewhere
// in its group a varint length is read, a loop reads length-prefixed bodies,
// and each body becomes either a string ("string") or a value unmarshalled
// into reflect.New(elemT) by the caller-supplied function ("eface").
func sliceDecoder(fn *ssa.Function) *sliceDecoderInfo {
	if fn == nil || fn.Blocks == nil || byteSliceParam(fn) == nil {
		return nil
	}
	info := &sliceDecoderInfo{}
	var loopFn *ssa.Function
	isString, usesReflectNew, callsFuncParam := false, false, false
	for _, g := range decoderGroup(fn) {
		if lengthDecoder(g) != "" || bytesDecoder(g) != nil {
			continue // the primitives themselves
		}
		for _, c := range staticCallsIn(g) {
			callee := ir.Callee(c.Call)
			if lengthDecoder(callee) != "" && info.Length == nil {
				info.Length = c
			}
			if bytesDecoder(callee) != nil {
				info.Bytes = c
				loopFn = g
				if len(c.Call.Args) == 2 {
					info.BodyCell, _ = c.Call.Args[1].(*ssa.Alloc)
				}
				info.BodyVal = bytesBodyOf(c)
			}
			if fxFullName(callee) == "reflect.New" && fromParamOrCapture(c.Call.Args[0]) {
				usesReflectNew = true
			}
		}
		for _, b := range g.Blocks {
			for _, ins := range b.Instrs {
				switch x := ins.(type) {
				case *ssa.Call:
					if !x.Call.IsInvoke() && ir.Callee(x.Call) == nil && fromParamOrCapture(x.Call.Value) {
						if _, isB := x.Call.Value.(*ssa.Builtin); !isB && len(x.Call.Args) == 2 {
							callsFuncParam = true
						}
					}
				case *ssa.Convert:
					if fxShortType(x.Type()) == "string" && isByteSlice(x.X.Type()) {
						isString = true
					}
				}
			}
		}
	}
	if info.Length == nil || info.Bytes == nil || loopFn == nil {
		return nil
	}
	switch {
	case isString && !usesReflectNew:
		info.Kind = "string"
	case usesReflectNew && callsFuncParam && !isString:
		info.Kind = "eface"
	default:
		return nil
	}
	// the store of the decoded element into the output list
	for _, b := range loopFn.Blocks {
		for _, ins := range b.Instrs {
			if st, ok := ins.(*ssa.Store); ok {
				if _, isIA := st.Addr.(*ssa.IndexAddr); isIA && !ir.IsNilConst(st.Val) && info.ElemStor == nil {
					info.ElemStor = st
				}
			}
		}
	}
	if info.ElemStor == nil {
		return nil
	}
	return info
}

// reflectZeroField traces v = reflect.New(reflect.TypeOf(m.F)).Elem().Interface()
// to F; it also returns the reflect.New value.
func reflectZeroField(v ssa.Value) (string, *ssa.Call) {
	step := func(v ssa.Value, name string) *ssa.Call {
		c, callee := fxCallee(fxStripNoConv(v))
		if callee == nil || fxFullName(callee) != name || len(c.Call.Args) == 0 {
			return nil
		}
		return c
	}
	i := step(v, "(reflect.Value).Interface")
	if i == nil {
		return "", nil
	}
	e := step(i.Call.Args[0], "(reflect.Value).Elem")
	if e == nil {
		return "", nil
	}
	n := step(e.Call.Args[0], "reflect.New")
	if n == nil {
		return "", nil
	}
	return typeOfField(n.Call.Args[0]), n
}

// typeOfField: v = reflect.TypeOf(m.F) → F.
func typeOfField(v ssa.Value) string {
	c, callee := fxCallee(fxStripNoConv(v))
	if callee == nil || fxFullName(callee) != "reflect.TypeOf" {
		return ""
	}
	b, p, ok := fxFieldLoad(c.Call.Args[0])
	if !ok || b == nil || !ir.IsPtrToNamed(b.Type(), "Mast") {
		return ""
	}
	return p
}

// fxEnv maps the parameters of an inlined helper to the caller's arguments.
type fxEnv struct {
	bind map[*ssa.Parameter]ssa.Value
	up   *fxEnv
}

// resolve sees through wrappers and helper parameters to the caller's value.
func (e *fxEnv) resolve(v ssa.Value) (ssa.Value, *fxEnv) {
	for i := 0; i < 8; i++ {
		v = fxStripNoConv(v)
		p, ok := v.(*ssa.Parameter)
		if !ok || e == nil {
			return v, e
		}
		a, ok := e.bind[p]
		if !ok {
			return v, e
		}
		v, e = a, e.up
	}
	return v, e
}

type elemOrigin struct {
	zero, raw string // Mast field giving the type; string-node field giving the bytes
	via       string
	problem   string
}

// decodedElems traces a decoded element to
// reflect.New(reflect.TypeOf(m.F)).Elem().Interface() and to the raw message
// unmarshalled into it, following static in-repo helpers (depth ≤ 2) with
// their parameters mapped to the arguments.
func decodedElems(v ssa.Value, env *fxEnv, depth int) []elemOrigin {
	v, env = env.resolve(v)
	if ir.IsNilConst(v) {
		return nil
	}
	if call, idx := fxCallOf(v); call != nil && idx == 0 {
		if callee := ir.Callee(call.Call); callee != nil && fxOwnFunc(callee) {
			if depth >= 2 {
				return []elemOrigin{{problem: "helper nesting too deep at " + callee.Name()}}
			}
			sub := &fxEnv{bind: map[*ssa.Parameter]ssa.Value{}, up: env}
			for i, p := range callee.Params {
				if i < len(call.Call.Args) {
					sub.bind[p] = call.Call.Args[i]
				}
			}
			var out []elemOrigin
			as := &fxAssume{}
			for _, r := range fxSuccessReturns(callee) {
				if len(r.Results) == 0 {
					continue
				}
				for _, l := range as.leaves(r.Results[0], nil) {
					for _, o := range decodedElems(l, sub, depth+1) {
						if o.via == "" {
							o.via = " (via " + callee.Name() + ")"
						}
						out = append(out, o)
					}
				}
			}
			if len(out) == 0 {
				out = append(out, elemOrigin{problem: "helper " + callee.Name() + " returns nothing the rule can trace"})
			}
			return out
		}
	}
	step := func(v ssa.Value, name string) *ssa.Call {
		c, callee := fxCallee(fxStripNoConv(v))
		if callee == nil || fxFullName(callee) != name || len(c.Call.Args) == 0 {
			return nil
		}
		return c
	}
	bad := []elemOrigin{{problem: "the decoded element " + ir.Sym(v) + " is not reflect.New(reflect.TypeOf(m.F)).Elem().Interface()"}}
	i := step(v, "(reflect.Value).Interface")
	if i == nil {
		return bad
	}
	e := step(i.Call.Args[0], "(reflect.Value).Elem")
	if e == nil {
		return bad
	}
	n := step(e.Call.Args[0], "reflect.New")
	if n == nil {
		return bad
	}
	// the type witness may be handed to a helper as an argument
	targ, tenv := env.resolve(n.Call.Args[0])
	// a witness hoisted out of the loop under a nil guard is φ(nil, reflect.TypeOf(m.F)): take the one real edge
	if phi, isPhi := targ.(*ssa.Phi); isPhi {
		var real ssa.Value
		for _, e := range phi.Edges {
			ev, _ := tenv.resolve(e)
			if ir.IsNilConst(ev) {
				continue
			}
			if real != nil && real != ev {
				return bad
			}
			real = ev
		}
		if real == nil {
			return bad
		}
		targ = real
	}
	t := step(targ, "reflect.TypeOf")
	if t == nil {
		return bad
	}
	tv, _ := tenv.resolve(t.Call.Args[0])
	b, zero, ok := fxFieldLoad(tv)
	if !ok || b == nil || !ir.IsPtrToNamed(b.Type(), "Mast") {
		return bad
	}
	o := elemOrigin{zero: zero}
	// which raw message was unmarshalled into it
	for _, r := range *n.Referrers() {
		ic, ok := r.(*ssa.Call)
		if !ok || ic.Referrers() == nil {
			continue
		}
		for _, rr := range *ic.Referrers() {
			uc, ok := rr.(*ssa.Call)
			if !ok || uc.Call.IsInvoke() || ir.Callee(uc.Call) != nil || len(uc.Call.Args) != 2 {
				continue
			}
			src, _ := env.resolve(uc.Call.Args[0])
			if u, ok := src.(*ssa.UnOp); ok && u.Op == token.MUL {
				if ria, ok := u.X.(*ssa.IndexAddr); ok {
					if _, p, ok := fxFieldLoad(ria.X); ok {
						o.raw = p
					}
				}
			}
		}
	}
	return []elemOrigin{o}
}

func runCodecSym(c *Ctx) {
	zeroFor := map[string]string{"Key": "zeroKey", "Value": "zeroValue"}
	// 1. encoder order and element kinds
	encFn, ts, err := binaryEncoderTerm(c)
	if encFn == nil {
		return
	}
	type visit struct{ field, kind string }
	var enc []visit
	if err != nil {
		c.Undecided(encFn, c.P.Pos(encFn.Pos()), "encoder order", "the encoder's emission cannot be evaluated: "+err.Error())
	} else {
		for _, t := range ts {
			if t.Kind != "REP" {
				continue
			}
			k := "?"
			if n := len(t.Body); n > 0 {
				switch {
				case strings.HasPrefix(t.Body[n-1].Arg, "M("):
					k = "eface"
				case strings.HasPrefix(t.Body[n-1].Arg, "str("):
					k = "string"
				}
			}
			enc = append(enc, visit{strings.TrimPrefix(t.Over, "N."), k})
		}
	}
	dec := c.MustFunc("unmarshalMastNode")
	if dec != nil {
		buf := byteSliceParam(dec)
		var node *ssa.Parameter
		for _, p := range dec.Params {
			if ir.IsPtrToNamed(p.Type(), "mastNode") {
				node = p
			}
		}
		if buf == nil || node == nil {
			c.Undecided(dec, c.P.Pos(dec.Pos()), "decoder signature", "unmarshalMastNode no longer takes (…, buf []byte, node *mastNode)")
		} else {
			var cur ssa.Value = buf
			var got []visit
			var decodeCalls []*ssa.Call
			idx := 0
			// the reader idiom: the decode steps are the method calls on one
			// local reader built over buf, in execution order
			var readerCalls []*ssa.Call
			threaded := false
			for _, cl := range staticCallsIn(dec) {
				if len(cl.Call.Args) > 0 && cl.Call.Args[0] == cur {
					threaded = true
				}
			}
			if !threaded {
				for _, b := range dec.Blocks {
					for _, ins := range b.Instrs {
						al, ok := ins.(*ssa.Alloc)
						if !ok || readerBufField(al.Type()) < 0 {
							continue
						}
						fs, _ := fxStructStores(al)
						overBuf := false
						for _, f := range fs {
							if fxStripNoConv(f.Val) == ssa.Value(buf) {
								overBuf = true
							}
						}
						if !overBuf {
							continue
						}
						for _, cl := range staticCallsIn(dec) {
							if len(cl.Call.Args) > 0 && cl.Call.Args[0] == ssa.Value(al) && sliceDecoder(ir.Callee(cl.Call)) != nil {
								readerCalls = append(readerCalls, cl)
							}
						}
					}
				}
				sort.SliceStable(readerCalls, func(i, j int) bool { return ir.Before(readerCalls[i], readerCalls[j]) })
				for i := 0; i+1 < len(readerCalls); i++ {
					if !ir.Before(readerCalls[i], readerCalls[i+1]) {
						c.Undecided(dec, c.P.InstrPos(readerCalls[i+1]), "decode order", "the list decodes on the reader are not totally ordered by dominance")
					}
				}
			}
			for steps := 0; steps < 8 && (cur != nil || steps < len(readerCalls)); steps++ {
				var call *ssa.Call
				if len(readerCalls) > 0 {
					if steps >= len(readerCalls) {
						break
					}
					call = readerCalls[steps]
				} else {
					for _, cl := range staticCallsIn(dec) {
						if len(cl.Call.Args) > 0 && cl.Call.Args[0] == cur {
							call = cl
						}
					}
				}
				if call == nil {
					break
				}
				callee := ir.Callee(call.Call)
				decodeCalls = append(decodeCalls, call)
				info := sliceDecoder(callee)
				target := "?"
				for _, a := range call.Call.Args[1:] {
					if b, p, ok := fxFieldAddr(a); ok && b == ssa.Value(node) {
						target = p
					}
				}
				construct := fmt.Sprintf("decode step %d", idx)
				pos := c.P.InstrPos(call)
				if info == nil {
					c.Undecided(dec, pos, construct, callee.Name()+" is not recognised as a list decoder")
				} else {
					got = append(got, visit{target, info.Kind})
					// pairing with the encoder
					if err == nil {
						switch {
						case idx >= len(enc):
							c.Violation(dec, pos, construct, fmt.Sprintf("the decoder reads a list (%s) the encoder does not write", target))
						case enc[idx].field != target:
							c.Violation(dec, pos, construct, fmt.Sprintf("the encoder writes %s at position %d, the decoder reads it into node.%s: the lists are exchanged on load", enc[idx].field, idx, target))
						case enc[idx].kind != info.Kind:
							c.Violation(dec, pos, construct, fmt.Sprintf("node.%s is written as %s elements and read with a %s decoder (%s)", target, enc[idx].kind, info.Kind, callee.Name()))
						default:
							c.OK(pos, construct+" node."+target, "paired with the encoder's "+enc[idx].kind+" list "+enc[idx].field+" via "+callee.Name(), false)
						}
					}
					// element type
					if want, ok := zeroFor[target]; ok && info.Kind == "eface" {
						gotF := ""
						for _, a := range call.Call.Args[1:] {
							if fxTypeString(a.Type()) == "reflect.Type" {
								gotF = typeOfField(a)
							}
						}
						sub := "element type of node." + target + " (binary)"
						switch {
						case gotF == "":
							c.Undecided(dec, pos, sub, "the element type passed to "+callee.Name()+" is not reflect.TypeOf of a Mast field")
						case gotF != want:
							c.Violation(dec, pos, sub, fmt.Sprintf("node.%s is decoded with the type of m.%s, not m.%s: keys and values of different types no longer round-trip", target, gotF, want))
						default:
							c.OK(pos, sub, "reflect.TypeOf(m."+want+")", false)
						}
					}
				}
				idx++
				cur = nil
				for _, r := range *call.Referrers() {
					if e, ok := r.(*ssa.Extract); ok && e.Index == 0 {
						cur = e
					}
				}
			}
			// DECODEALL: every success return is preceded, on every path, by all list decodes
			for _, r := range fxSuccessReturns(dec) {
				missed := ""
				for i, dc := range decodeCalls {
					if !ir.Before(dc, r) {
						t := fmt.Sprint(i)
						if i < len(got) {
							t = "node." + got[i].field
						}
						missed = t
						break
					}
				}
				if missed != "" {
					c.Violation(dec, c.P.InstrPos(r), "success before all lists are decoded", "the node decoder can return success without having decoded "+missed+": a node truncated there loads with that list missing (restored as nil links / empty) instead of being rejected")
				} else {
					c.OK(c.P.InstrPos(r), "success return of "+dec.Name(), fmt.Sprintf("preceded by all %d list decodes", len(decodeCalls)), false)
				}
			}
			if err == nil && len(got) < len(enc) {
				c.Violation(dec, c.P.Pos(dec.Pos()), fmt.Sprintf("decode step %d", len(got)), fmt.Sprintf("the encoder writes %d lists, the decoder reads %d: node.%s is not restored", len(enc), len(got), enc[len(got)].field))
			}
			// primitive pairing: PutUvarint ↔ Uvarint
			seen := map[*ssa.Function]bool{}
			for fn := range c.Facts.Reach(dec) {
				if r := lengthDecoder(fn); r != "" && !seen[fn] {
					seen[fn] = true
					if r == "encoding/binary.Uvarint" {
						c.OK(c.P.Pos(fn.Pos()), "length primitive in "+fn.Name(), "binary.Uvarint, paired with the encoder's binary.PutUvarint", false)
					} else {
						c.Violation(fn, c.P.Pos(fn.Pos()), "length primitive", "lengths are read with "+r+" but written with binary.PutUvarint")
					}
				}
			}
			if len(seen) == 0 {
				c.Undecided(dec, c.P.Pos(dec.Pos()), "length primitive", "no function reading a varint length found under unmarshalMastNode")
			}
		}
	}
	// 2. two-stage JSON decoder: element types and raw sources
	_, sfn, _ := stringNodeStruct(c)
	if sfn == nil {
		c.AnchorMissing("the two-stage JSON node decoder (unmarshalStringNode)")
	} else {
		var node *ssa.Parameter
		for _, p := range sfn.Params {
			if ir.IsPtrToNamed(p.Type(), "mastNode") {
				node = p
			}
		}
		nStores := map[string]int{}
		for _, b := range sfn.Blocks {
			for _, ins := range b.Instrs {
				st, ok := ins.(*ssa.Store)
				if !ok {
					continue
				}
				ia, ok := st.Addr.(*ssa.IndexAddr)
				if !ok {
					continue
				}
				base, target, ok := fxFieldLoad(ia.X)
				want, isKV := zeroFor[target]
				if !ok || !isKV || base != ssa.Value(node) {
					continue
				}
				nStores[target]++
				sub := "element type of node." + target + " (two-stage JSON)"
				pos := c.P.InstrPos(st)
				as := &fxAssume{}
				for _, l := range as.leaves(st.Val, nil) {
					if ir.IsNilConst(l) {
						continue
					}
					for _, o := range decodedElems(l, nil, 0) {
						switch {
						case o.problem != "":
							c.Undecided(sfn, pos, sub, o.problem)
						case o.zero != want:
							c.Violation(sfn, pos, sub, fmt.Sprintf("node.%s[i] is built with the type of m.%s, not m.%s%s", target, o.zero, want, o.via))
						case o.raw == "":
							c.Undecided(sfn, pos, sub, "the raw message unmarshalled into the element is not traced to a field of the string node")
						case o.raw != target:
							c.Violation(sfn, pos, sub, fmt.Sprintf("node.%s[i] is decoded from the raw %s list%s", target, o.raw, o.via))
						default:
							c.OK(pos, sub, "reflect.TypeOf(m."+want+"), from raw "+o.raw+"[i]"+o.via, false)
						}
					}
				}
			}
		}
		for t := range zeroFor {
			if nStores[t] == 0 {
				c.Undecided(sfn, c.P.Pos(sfn.Pos()), "element type of node."+t+" (two-stage JSON)", "no store into node."+t+"[i] found")
			}
		}
	}
	// 3. link restoration
	restoreCheck(c)
	// 4. zero length ↔ nil
	zeroLenCheck(c, dec)
	// 5. primitives: a fresh body cell per element, lengths only from Uvarint
	bodyFreshCheck(c, dec)
	lengthPrimCheck(c, dec)
	// 6. every decoded entry and link is transferred to the node
	copyLoopCheck(c, dec)
}

// linkEmptyAssume assumes node.Link is empty (or non-empty).
func linkEmptyAssume(node ssa.Value, empty bool) *fxAssume {
	isLink := func(v ssa.Value) bool {
		b, p, ok := fxFieldLoad(v)
		return ok && p == "Link" && b == node
	}
	isLenLink := func(v ssa.Value) bool {
		a, ok := lenArg(v)
		return ok && isLink(a)
	}
	return &fxAssume{
		decide: func(cond ssa.Value) (bool, bool) {
			if v, tnn, ok := ir.NilTest(cond); ok && isLink(v) {
				return tnn != empty, true
			}
			if bin, ok := cond.(*ssa.BinOp); ok {
				if empty {
					return fxCmpConst(bin, isLenLink, fxConst, constant.MakeInt64(0))
				}
				// non-empty: decided if the comparison has the same outcome for length 1 and for a huge length
				t1, k1 := fxCmpConst(bin, isLenLink, fxConst, constant.MakeInt64(1))
				t2, k2 := fxCmpConst(bin, isLenLink, fxConst, constant.MakeInt64(1<<40))
				if k1 && k2 && t1 == t2 {
					return t1, true
				}
			}
			return false, false
		},
	}
}

// freshSliceLens: v is a freshly made slice — a make, or the result of a
// static in-repo helper (depth ≤ 2) all of whose returns are such — and
// returns the length expressions in terms of the outermost caller's values
// (helper parameters mapped to arguments).
func freshSliceLens(v ssa.Value, env *fxEnv, depth int) ([]ssa.Value, bool) {
	v, env = env.resolve(v)
	if ms, ok := v.(*ssa.MakeSlice); ok {
		ln, _ := env.resolve(ms.Len)
		return []ssa.Value{ln}, true
	}
	call, idx := fxCallOf(v)
	if call == nil || idx != 0 || depth >= 2 {
		return nil, false
	}
	callee := ir.Callee(call.Call)
	if callee == nil || !fxOwnFunc(callee) {
		return nil, false
	}
	sub := &fxEnv{bind: map[*ssa.Parameter]ssa.Value{}, up: env}
	for i, p := range callee.Params {
		if i < len(call.Call.Args) {
			sub.bind[p] = call.Call.Args[i]
		}
	}
	var out []ssa.Value
	for _, r := range ir.Returns(callee) {
		if len(r.Results) == 0 {
			return nil, false
		}
		for _, l := range (&fxAssume{}).leaves(r.Results[0], nil) {
			ls, ok := freshSliceLens(l, sub, depth+1)
			if !ok {
				return nil, false
			}
			out = append(out, ls...)
		}
	}
	return out, len(out) > 0
}

func restoreCheck(c *Ctx) {
	type site struct {
		fn   *ssa.Function
		node ssa.Value // the node parameter, or the decoder's own `var node mastNode`
		what string
		from ssa.CallInstruction // own-variable shape: the decode call after which the list must be restored
	}
	var sites []site
	nodeParam := func(fn *ssa.Function) *ssa.Parameter {
		for _, p := range fn.Params {
			if ir.IsPtrToNamed(p.Type(), "mastNode") {
				return p
			}
		}
		return nil
	}
	// binary: the function that calls unmarshalMastNode
	if dec := c.P.MastFunc("unmarshalMastNode"); dec != nil {
		for _, ci := range c.P.Callers[dec] {
			fn := ci.Parent()
			if p := nodeParam(fn); p != nil {
				sites = append(sites, site{fn, p, "binary decoder path", nil})
				continue
			}
			// the calling function declares the node itself (`var node mastNode; unmarshalMastNode(m, b, &node)`,
			// returned as &node): the same obligations on that variable, on the paths from the decode call
			for _, a := range ci.Common().Args {
				if al, ok := ir.ResolveCell(a).(*ssa.Alloc); ok && al.Parent() == fn && ir.IsPtrToNamed(al.Type(), "mastNode") {
					sites = append(sites, site{fn, al, "binary decoder path", ci})
					break
				}
			}
		}
	}
	// registered types: the function that hands &node.Node to the user unmarshaler
	for _, fn := range c.P.Funcs {
		if fn.Pkg == nil || fn.Pkg.Pkg.Path() != ir.MastPath {
			continue
		}
		p := nodeParam(fn)
		if p == nil {
			continue
		}
		for _, ci := range CallsOf(fn) {
			com := ci.Common()
			if com.IsInvoke() || ir.Callee(com) != nil || len(com.Args) != 2 {
				continue
			}
			if mi, ok := com.Args[1].(*ssa.MakeInterface); ok {
				if fa, ok := mi.X.(*ssa.FieldAddr); ok && ir.ResolveCell(fa.X) == ssa.Value(p) && ir.IsPtrToNamed(fa.Type(), "Node") {
					sites = append(sites, site{fn, p, "registered-types JSON decoder", nil})
				}
			}
		}
	}
	if len(sites) < 2 {
		c.Undecided(nil, "-", "link restoration sites", fmt.Sprintf("found %d decoder paths that must restore a dropped link list (binary, registered types); expected 2", len(sites)))
	}
	for _, s := range sites {
		fn, node := s.fn, s.node
		var stores []*ssa.Store
		for _, b := range fn.Blocks {
			for _, ins := range b.Instrs {
				st, ok := ins.(*ssa.Store)
				if !ok {
					continue
				}
				b2, p, ok := fxFieldAddr(st.Addr)
				if ok && p == "Link" && b2 == node {
					stores = append(stores, st)
				}
			}
		}
		construct := "restore node.Link"
		if len(stores) == 0 {
			c.Violation(fn, c.P.Pos(fn.Pos()), construct, s.what+": a link list dropped by the writer (leaf nodes) is never restored; the loaded leaf has no link slots")
			continue
		}
		okLen := true
		storeBlocks := map[*ssa.BasicBlock]bool{}
		for _, st := range stores {
			storeBlocks[st.Block()] = true
			lens, ok := freshSliceLens(st.Val, nil, 0)
			if !ok {
				okLen = false
				c.Undecided(fn, c.P.InstrPos(st), construct, "node.Link is assigned "+ir.Sym(st.Val)+", not a fresh slice")
				continue
			}
			for _, ln := range lens {
				if b, ok := fxIsLenOfFieldPlus1(ln, "Key"); !ok || b != node {
					okLen = false
					c.Violation(fn, c.P.InstrPos(st), construct, s.what+": the restored link list has length "+ir.Sym(ln)+", the writer dropped len(node.Key)+1 nil links")
				}
			}
		}
		if !okLen {
			continue
		}
		start := fn.Blocks[0]
		if s.from != nil {
			// the variable is zero before the decode call: the obligations start there; a store of the link list
			// that does not follow the call is not a restoration
			start = s.from.Block()
			early := false
			for _, st := range stores {
				if !ir.InstrReaches(s.from, st) {
					early = true
					c.Undecided(fn, c.P.InstrPos(st), construct, s.what+": node.Link is assigned on a path that does not come from the decode call")
				}
			}
			if early {
				continue
			}
		}
		// present list must not be overwritten
		as := linkEmptyAssume(node, false)
		reach := as.reach(start)
		over := false
		for _, st := range stores {
			if reach[st.Block()] {
				over = true
				c.Violation(fn, c.P.InstrPos(st), construct, s.what+": node.Link is replaced by nil links even when the decoded list is present")
			}
		}
		// empty list must be restored on every successful path
		as = linkEmptyAssume(node, true)
		reach = ir.ReachableFrom(start, func(f, t *ssa.BasicBlock) bool { return !as.edgeLive(f, t) || storeBlocks[t] })
		missed := false
		if !storeBlocks[start] {
			for _, r := range fxSuccessReturns(fn) {
				if reach[r.Block()] {
					missed = true
					c.Violation(fn, c.P.InstrPos(r), construct, s.what+": a success return is reachable with an empty node.Link that was not restored to len(node.Key)+1 nil links")
				}
			}
		}
		if !over && !missed {
			c.OK(c.P.InstrPos(stores[0]), construct+" in "+ir.FuncName(fn), s.what+": make(len(node.Key)+1) exactly when the decoded list is empty", false)
		}
	}
	// two-stage JSON: the literal's Link
	if _, sfn, _ := stringNodeStruct(c); sfn != nil {
		n := 0
		for _, b := range sfn.Blocks {
			for _, ins := range b.Instrs {
				st, ok := ins.(*ssa.Store)
				if !ok {
					continue
				}
				fa, ok := st.Addr.(*ssa.FieldAddr)
				if !ok || ir.FieldName(fa.X.Type(), fa.Field) != "Link" {
					continue
				}
				ms, ok := st.Val.(*ssa.MakeSlice)
				if !ok {
					continue
				}
				n++
				if _, ok := fxIsLenOfFieldPlus1(ms.Len, "Key"); ok {
					c.OK(c.P.InstrPos(st), "restore node.Link in "+ir.FuncName(sfn), "two-stage JSON decoder: make(len(Key)+1)", false)
				} else {
					c.Violation(sfn, c.P.InstrPos(st), "restore node.Link", "two-stage JSON decoder: the link list is built with length "+ir.Sym(ms.Len)+", not len(Key)+1")
				}
			}
		}
		if n == 0 {
			c.Violation(sfn, c.P.Pos(sfn.Pos()), "restore node.Link", "two-stage JSON decoder: no link list of len(Key)+1 is allocated; an omitted (all-nil) list stays empty")
		}
	}
}

func zeroLenCheck(c *Ctx, dec *ssa.Function) {
	if dec == nil {
		return
	}
	var bfn *ssa.Function
	var sdec *ssa.Function
	var sinfo *sliceDecoderInfo
	for fn := range c.Facts.Reach(dec) {
		if bytesDecoder(fn) != nil {
			bfn = fn
		}
		if i := sliceDecoder(fn); i != nil && i.Kind == "string" {
			sdec, sinfo = fn, i
		}
	}
	if bfn == nil {
		c.Undecided(dec, c.P.Pos(dec.Pos()), "zero length", "no length-prefixed bytes decoder found under unmarshalMastNode")
	} else {
		lc := bytesDecoder(bfn)
		var ncell *ssa.Alloc
		for _, a := range lc.Call.Args {
			if al, ok := a.(*ssa.Alloc); ok {
				ncell = al
			}
		}
		isN := func(v ssa.Value) bool {
			v = fxStrip(v)
			if u, ok := v.(*ssa.UnOp); ok && u.Op == token.MUL && ncell != nil && u.X == ssa.Value(ncell) {
				return true
			}
			if e, ok := v.(*ssa.Extract); ok && e.Tuple == ssa.Value(lc) {
				_, isInt := e.Type().Underlying().(*types.Basic)
				return isInt && !isByteSlice(e.Type())
			}
			return false
		}
		as := &fxAssume{decide: func(cond ssa.Value) (bool, bool) {
			if bin, ok := cond.(*ssa.BinOp); ok {
				if v, tnn, isNil := ir.NilTest(cond); isNil && ir.IsErrorType(v.Type()) {
					return !tnn, true
				}
				return fxCmpConst(bin, isN, fxConst, constant.MakeInt64(0))
			}
			return false, false
		}}
		reach := as.reach(fn0(bfn))
		stored := false
		var where ssa.Instruction
		for b := range reach {
			for _, ins := range b.Instrs {
				if st, ok := ins.(*ssa.Store); ok {
					if p, ok := st.Addr.(*ssa.Parameter); ok && p != byteSliceParam(bfn) {
						stored = true
						where = st
					}
				}
			}
		}
		// the body handed back as a result: nil, literally, on every successful return a zero length reaches
		if bi := bytesBodyResult(bfn); bi >= 0 {
			for _, r := range successIn(bfn, reach) {
				if bi >= len(r.Results) || !ir.IsNilConst(r.Results[bi]) {
					stored = true
					where = r
				}
			}
		}
		switch {
		case len(successIn(bfn, reach)) == 0:
			c.Violation(bfn, c.P.Pos(bfn.Pos()), "zero length", "a zero length is rejected; the encoder writes length 0 for nil links")
		case stored:
			c.Violation(bfn, c.P.InstrPos(where), "zero length", "a zero length yields a non-nil (empty) body: nil links written as length 0 come back as empty strings, not nil")
		default:
			c.OK(c.P.Pos(bfn.Pos()), "zero length in "+bfn.Name(), "returns without touching *body (stays nil); paired with the encoder's length 0 for nil links", false)
		}
	}
	if sdec == nil {
		c.Undecided(dec, c.P.Pos(dec.Pos()), "nil link", "no string-list decoder found under unmarshalMastNode")
		return
	}
	isBody := func(v ssa.Value) bool {
		if sinfo.BodyVal != nil && v == sinfo.BodyVal {
			return true
		}
		u, ok := v.(*ssa.UnOp)
		return ok && u.Op == token.MUL && sinfo.BodyCell != nil && u.X == ssa.Value(sinfo.BodyCell)
	}
	if blockHasNil(sinfo.ElemStor.Block(), isBody, false) {
		c.OK(c.P.InstrPos(sinfo.ElemStor), "nil link in "+sdec.Name(), "the element is set only for a non-nil body; a zero-length link stays nil", false)
	} else {
		c.Violation(sdec, c.P.InstrPos(sinfo.ElemStor), "nil link", "a zero-length (nil) link is decoded as the string \"\" instead of nil: empty link slots become loadable names")
	}
}

func fn0(fn *ssa.Function) *ssa.BasicBlock { return fn.Blocks[0] }

// ---------------------------------------------------------------------------
// FORMATS

func runFormats(c *Ctx) {
	type site struct {
		fn   *ssa.Function
		what string
	}
	var sites []site
	if fn, _ := flushMarshalClosure(c); fn != nil {
		sites = append(sites, site{fn, "marshal dispatch (flush)"})
	}
	isNF := func(v ssa.Value) bool {
		b, p, ok := fxFieldLoad(fxStrip(v))
		return ok && p == "nodeFormat" && b != nil && ir.IsPtrToNamed(b.Type(), "Mast")
	}
	// other functions that branch on Mast.nodeFormat
	for _, fn := range c.P.Funcs {
		if fn.Pkg == nil || fn.Pkg.Pkg.Path() != ir.MastPath || (len(sites) > 0 && fn == sites[0].fn) {
			continue
		}
		for _, b := range fn.Blocks {
			if len(b.Instrs) == 0 {
				continue
			}
			iff, ok := b.Instrs[len(b.Instrs)-1].(*ssa.If)
			if !ok {
				continue
			}
			if bin, ok := iff.Cond.(*ssa.BinOp); ok && (isNF(bin.X) || isNF(bin.Y)) {
				sites = append(sites, site{fn, "dispatch on Mast.nodeFormat"})
				break
			}
		}
	}
	if len(sites) < 2 {
		c.Undecided(nil, "-", "dispatch sites", fmt.Sprintf("found %d functions dispatching on Mast.nodeFormat; expected the marshal and the unmarshal closure", len(sites)))
	}
	want := currentFormats(c)
	tableCond := map[ssa.Value]bool{}     // lookup comparisons against a table entry
	lookupFns := map[*ssa.Function]bool{} // functions that look the format up in a table
	// the table lookups first, so that the sites delegating to them see them
	sort.SliceStable(sites, func(i, j int) bool {
		return delegatesTo(sites[j].fn, sites[i].fn) && !delegatesTo(sites[i].fn, sites[j].fn)
	})
	for _, s := range sites {
		fn := s.fn
		// formats compared
		var got []string
		for _, b := range fn.Blocks {
			if len(b.Instrs) == 0 {
				continue
			}
			iff, ok := b.Instrs[len(b.Instrs)-1].(*ssa.If)
			if !ok {
				continue
			}
			bin, ok := iff.Cond.(*ssa.BinOp)
			if !ok {
				continue
			}
			for _, pr := range [][2]ssa.Value{{bin.X, bin.Y}, {bin.Y, bin.X}} {
				if isNF(pr[0]) {
					if str, ok := fxStringOf(c.P, pr[1]); ok {
						got = append(got, str)
					} else if tf, field := tableFieldOf(pr[1]); tf != nil {
						// a lookup in a table of {format, marshal, unmarshal} entries
						entries, okT := parseCodecTable(tf)
						if !okT {
							c.Undecided(fn, c.P.InstrPos(iff), "format set", "Mast.nodeFormat is looked up in the table "+tf.Name()+"(), whose entries the rule cannot read")
							continue
						}
						tableCond[iff.Cond] = true
						for _, e := range entries {
							if str, ok := fxStringOf(c.P, e[field]); ok {
								got = append(got, str)
							} else {
								c.Undecided(fn, c.P.InstrPos(iff), "format set", "an entry of "+tf.Name()+"() has a format that does not resolve to a name")
							}
						}
						checkCodecTable(c, tf, entries, field)
						lookupFns[fn] = true
					} else {
						c.Undecided(fn, c.P.InstrPos(iff), "format set", "Mast.nodeFormat is compared with "+ir.Sym(pr[1])+", which does not resolve to a format name")
					}
				}
			}
		}
		pos := c.P.Pos(fn.Pos())
		// a site without a branch of its own that asks a lookup function and
		// hands its error on
		if len(got) == 0 {
			if lk := delegatedLookup(fn, lookupFns); lk != nil {
				ei := ir.ErrorResultIndex(fn.Signature)
				lei := ir.ErrorResultIndex(ir.Callee(lk.Call).Signature)
				as := &fxAssume{decide: func(cond ssa.Value) (bool, bool) {
					if v, tnn, ok := ir.NilTest(cond); ok {
						if call, idx := fxCallOf(v); call == lk && idx == lei {
							return tnn, true // the lookup failed
						}
					}
					return false, false
				}}
				reach := as.reach(fn.Blocks[0])
				bad := false
				for _, ret := range ir.Returns(fn) {
					if !reach[ret.Block()] {
						continue
					}
					okErr := false
					if ei >= 0 && ei < len(ret.Results) {
						if call, idx := fxCallOf(ret.Results[ei]); (call == lk && idx == lei) || freshError(ret.Results[ei]) {
							okErr = true
						}
					}
					if !okErr {
						bad = true
						c.Violation(fn, c.P.InstrPos(ret), "unknown format", fmt.Sprintf("%s: when the format lookup %s fails this return is reached without handing the error on", ir.FuncName(fn), ir.Callee(lk.Call).Name()))
					}
				}
				if !bad {
					c.OK(pos, "format dispatch of "+ir.FuncName(fn), "delegated to "+ir.Callee(lk.Call).Name()+"(); its error is handed on", false)
				}
				continue
			}
		}
		missing, extra := fxSetDiff(want, got)
		for _, m := range missing {
			c.Violation(fn, pos, "format "+m, fmt.Sprintf("%s in %s has no branch for node format %q, which the other dispatch sites accept", s.what, ir.FuncName(fn), m))
		}
		for _, e := range extra {
			c.Violation(fn, pos, "format "+e, fmt.Sprintf("%s in %s handles node format %q, which is not one of the published formats", s.what, ir.FuncName(fn), e))
		}
		if len(missing)+len(extra) == 0 {
			c.OK(pos, "format set of "+ir.FuncName(fn), strings.Join(fxSorted(got), ", "), false)
		}
		// unknown → error
		as := nodeFormatAssume(c, fn, "\x00unknown-format", func(cond ssa.Value) (bool, bool) {
			if tableCond[cond] { // no table entry matches an unknown format
				if bin, ok := cond.(*ssa.BinOp); ok {
					return bin.Op == token.NEQ, true
				}
			}
			return false, false
		})
		reach := as.reach(fn.Blocks[0])
		if open := as.open(reach); len(open) > 0 {
			c.Undecided(fn, fxValPos(c.P, open[0], fn), "unknown format", "dispatch not decided: "+ir.Sym(open[0]))
			continue
		}
		ei := ir.ErrorResultIndex(fn.Signature)
		bad := false
		for _, r := range ir.Returns(fn) {
			if !reach[r.Block()] {
				continue
			}
			if ei < 0 || !freshError(r.Results[ei]) {
				bad = true
				c.Violation(fn, c.P.InstrPos(r), "unknown format", fmt.Sprintf("%s: with a node format other than the published ones this return is reached without a freshly made error (an unknown format is treated as a known one)", ir.FuncName(fn)))
			}
		}
		if !bad {
			c.OK(pos, "unknown format in "+ir.FuncName(fn), "only error returns are reachable", false)
		}
	}
	// LoadMast
	fn := c.MustFunc("(*Root).LoadMast")
	if fn == nil {
		return
	}
	got := loadMastCompared(c, fn)
	missing, extra := fxSetDiff(want, got)
	for _, m := range missing {
		c.Violation(fn, c.P.Pos(fn.Pos()), "format "+m, fmt.Sprintf("LoadMast has no case for node format %q, which flush can write", m))
	}
	for _, e := range extra {
		c.Violation(fn, c.P.Pos(fn.Pos()), "format "+e, fmt.Sprintf("LoadMast accepts node format %q, which the marshal/unmarshal dispatch does not know", e))
	}
	if len(missing)+len(extra) == 0 {
		c.OK(c.P.Pos(fn.Pos()), "format set of LoadMast", strings.Join(fxSorted(got), ", ")+" (and \"\" as v1marshaler)", false)
	}
	res, problem := loadMastFormatCase(c, fn, "\x00unknown-format")
	switch {
	case problem != "":
		c.Undecided(fn, c.P.Pos(fn.Pos()), "unknown format", problem)
	case len(res.Open) > 0:
		c.Undecided(fn, fxValPos(c.P, res.Open[0], fn), "unknown format", "switch on Root.NodeFormat not decided: "+ir.Sym(res.Open[0]))
	case res.Success:
		c.Violation(fn, res.StorePos, "unknown format", fmt.Sprintf("LoadMast accepts a Root whose NodeFormat is none of the published names (it is treated as %q) instead of returning an error", res.Stored))
	default:
		c.OK(res.StorePos, "unknown format in LoadMast", "only error returns are reachable", false)
	}
}

// freshError: v is an error made on the spot (fmt.Errorf, errors.New, …).
func freshError(v ssa.Value) bool {
	call, _ := fxCallOf(fxStripNoConv(v))
	if call == nil {
		return false
	}
	sc := ir.Callee(call.Call)
	if sc == nil {
		return false
	}
	n := fxFullName(sc)
	return n == "fmt.Errorf" || n == "errors.New"
}

// currentFormats are the names the tree's two node formats have in the
// current sources (C05/C19 need the dispatch sites to agree with each other;
// that the names are the published ones is FORMATCONST_CONSTS' clause).
func currentFormats(c *Ctx) []string {
	out := []string{frozenV1, frozenV115}
	for i, n := range []string{"V1Marshaler", "V115Binary"} {
		if s, _, ok := mastStringValue(c, n); ok {
			out[i] = s
		}
	}
	return out
}

// innermostLoopHeader finds the header of the innermost natural loop
// containing block b (nil if b is not in a loop).
func innermostLoopHeader(b *ssa.BasicBlock) *ssa.BasicBlock {
	for d := b; d != nil; d = d.Idom() {
		for _, p := range d.Preds {
			if d.Dominates(p) && (p == b || ir.CanReach(b, p)) {
				return d
			}
		}
	}
	return nil
}

// bodyFreshCheck (BODYFRESH): the bytes decoder leaves its out-parameter
// untouched for a zero length, so the variable handed to it must be a fresh
// (nil) cell for every element: declared inside the loop, or reset to nil
// before each call. Otherwise an empty-encoded element decodes as a copy of
// the previous one.
func bodyFreshCheck(c *Ctx, dec *ssa.Function) {
	if dec == nil {
		return
	}
	seen := map[*ssa.Call]bool{}
	var fns []*ssa.Function
	for fn := range c.Facts.Reach(dec) {
		fns = append(fns, fn)
	}
	sort.Slice(fns, func(i, j int) bool { return ir.PosLess(fns[i].Pos(), fns[j].Pos()) })
	for _, fn := range fns {
		for _, call := range staticCallsIn(fn) {
			if seen[call] || bytesDecoder(ir.Callee(call.Call)) == nil {
				continue
			}
			if len(call.Call.Args) != 2 {
				// the body is a result of the call: a value of its own in every iteration, nil for a zero length (ZEROLEN)
				if h := innermostLoopHeader(call.Block()); h != nil && bytesBodyOf(call) != nil {
					seen[call] = true
					c.OK(c.P.InstrPos(call), "body cell of "+fn.Name(), "the body is a result of the bytes decoder: a fresh value for every element", false)
				}
				continue
			}
			seen[call] = true
			h := innermostLoopHeader(call.Block())
			if h == nil {
				continue
			}
			construct := "body cell of " + fn.Name()
			cell, ok := call.Call.Args[1].(*ssa.Alloc)
			if !ok {
				c.Undecided(fn, c.P.InstrPos(call), construct, "the out-parameter handed to the bytes decoder in a loop is not a local variable")
				continue
			}
			fresh := h.Dominates(cell.Block()) && cell.Parent() == fn
			if !fresh && cell.Referrers() != nil {
				for _, rf := range *cell.Referrers() {
					if st, ok := rf.(*ssa.Store); ok && st.Addr == ssa.Value(cell) && ir.IsNilConst(st.Val) && h.Dominates(st.Block()) && ir.Before(st, call) {
						fresh = true
					}
				}
			}
			if fresh {
				c.OK(c.P.InstrPos(call), construct, "a fresh nil cell for every element (declared in the loop or reset before the call)", false)
			} else {
				c.Violation(fn, c.P.InstrPos(call), construct, "the body variable is shared by all iterations and the bytes decoder leaves it untouched for a zero length: an empty-encoded element (nil link, empty value) decodes as a copy of the previous element")
			}
		}
	}
}

// lengthPrimCheck (LENPRIM): in the function that reads a length, the length
// it yields is result #0 of binary.Uvarint and the rest of the buffer starts
// at result #1, on every path — no other arithmetic on buffer bytes produces
// a length.
func lengthPrimCheck(c *Ctx, dec *ssa.Function) {
	if dec == nil {
		return
	}
	var fns []*ssa.Function
	for fn := range c.Facts.Reach(dec) {
		if lengthDecoder(fn) != "" {
			fns = append(fns, fn)
		}
	}
	sort.Slice(fns, func(i, j int) bool { return ir.PosLess(fns[i].Pos(), fns[j].Pos()) })
	for _, fn := range fns {
		buf := byteSliceParam(fn)
		var uv *ssa.Call
		for _, cl := range staticCallsIn(fn) {
			if n := fxFullName(ir.Callee(cl.Call)); n == "encoding/binary.Uvarint" || n == "encoding/binary.Varint" {
				uv = cl
			}
		}
		if uv == nil || buf == nil {
			continue
		}
		fromUv := func(v ssa.Value, idx int) bool {
			e, ok := fxStrip(v).(*ssa.Extract)
			return ok && e.Tuple == ssa.Value(uv) && e.Index == idx
		}
		bad := false
		// lengths stored through an *int parameter
		for _, b := range fn.Blocks {
			for _, ins := range b.Instrs {
				st, ok := ins.(*ssa.Store)
				if !ok {
					continue
				}
				if p, ok := st.Addr.(*ssa.Parameter); ok && p != buf {
					if !fromUv(st.Val, 0) {
						bad = true
						c.Violation(fn, c.P.InstrPos(st), "decoded length", "a length is produced as "+ir.Sym(st.Val)+", not as the value binary.Uvarint decoded: lengths written by PutUvarint are read back differently on this path")
					}
				}
			}
		}
		for _, r := range fxSuccessReturns(fn) {
			for _, res := range r.Results {
				switch {
				case isByteSlice(res.Type()):
					sl, ok := res.(*ssa.Slice)
					if !ok || fxStripNoConv(sl.X) != ssa.Value(buf) || sl.Low == nil || !fromUv(sl.Low, 1) || sl.High != nil {
						bad = true
						c.Violation(fn, c.P.InstrPos(r), "rest of buffer", "the remaining buffer is "+ir.Sym(res)+", not buf[n:] with n the byte count binary.Uvarint consumed")
					}
				case ir.IsErrorType(res.Type()):
				default:
					if b, ok := res.Type().Underlying().(*types.Basic); ok && b.Info()&types.IsInteger != 0 && !fromUv(res, 0) {
						bad = true
						c.Violation(fn, c.P.InstrPos(r), "decoded length", "a length is returned as "+ir.Sym(res)+", not as the value binary.Uvarint decoded")
					}
				}
			}
		}
		if !bad {
			c.OK(c.P.Pos(fn.Pos()), "length primitive only in "+fn.Name(), "length = Uvarint #0, rest = buf[Uvarint #1:] on every path", false)
		}
		// the bound is taken against the very bytes Uvarint read
		lenBoundCheck(c, fn, uv, fxStripNoConv(uv.Call.Args[0]))
		// the reader idiom: the consumed count advances by exactly Uvarint #1
		if !isByteSlice(buf.Type()) {
			n := 0
			for _, b := range fn.Blocks {
				for _, ins := range b.Instrs {
					st, ok := ins.(*ssa.Store)
					if !ok {
						continue
					}
					base, _, ok := fxFieldAddr(st.Addr)
					if !ok || base != ssa.Value(buf) {
						continue
					}
					if _, isInt := st.Val.Type().Underlying().(*types.Basic); !isInt || isByteSlice(st.Val.Type()) {
						continue
					}
					n++
					bin, isBin := st.Val.(*ssa.BinOp)
					okAdv := false
					if isBin && bin.Op == token.ADD {
						lb, lp, ok1 := fxFieldLoad(bin.X)
						_, sp, _ := fxFieldAddr(st.Addr)
						okAdv = ok1 && lb == ssa.Value(buf) && lp == sp && fromUv(bin.Y, 1)
					}
					if okAdv {
						c.OK(c.P.InstrPos(st), "reader advance in "+fn.Name(), "offset += the byte count binary.Uvarint consumed", false)
					} else {
						c.Violation(fn, c.P.InstrPos(st), "reader advance", "after reading a length the reader's offset becomes "+ir.Sym(st.Val)+", not offset + the byte count binary.Uvarint consumed: the following bytes are read from the wrong position")
					}
				}
			}
			if n == 0 {
				c.Violation(fn, c.P.Pos(fn.Pos()), "reader advance", "the reader's offset is not advanced past the length that was read")
			}
		}
	}
}

// armLenBound arms the LENBOUND clause below. Today's decodeLength narrows the
// Uvarint to int without comparing it with the bytes that remain (a length
// ≥ 2^63 turns negative and make panics during LoadMast), so the clause is
// recorded as a note only; once /repo has the repair
//
//	if k > uint64(len(buf)-n) { return nil, errors.New("bad length") }
//
// set this to true and its removal becomes a violation.
const armLenBound = true

// lenBoundCheck (LENBOUND): the narrowing of Uvarint's result #0 to int is
// dominated by a comparison of that result with a quantity derived from
// len(buf) whose failing side reaches only error returns. The bound is a
// run-time quantity, not a constant.
func lenBoundCheck(c *Ctx, fn *ssa.Function, uv *ssa.Call, buf ssa.Value) {
	isK := func(v ssa.Value) bool {
		e, ok := fxStrip(v).(*ssa.Extract)
		return ok && e.Tuple == ssa.Value(uv) && e.Index == 0
	}
	isLenBuf := func(v ssa.Value) bool {
		a, ok := lenArg(v)
		if !ok {
			return false
		}
		a = fxStripNoConv(a)
		if sl, isSl := a.(*ssa.Slice); isSl {
			a = fxStripNoConv(sl.X)
		}
		return a == buf
	}
	// the narrowing conversions of k
	var convs []*ssa.Convert
	for _, b := range fn.Blocks {
		for _, ins := range b.Instrs {
			if cv, ok := ins.(*ssa.Convert); ok && isK(cv.X) {
				if tb, ok := cv.Type().Underlying().(*types.Basic); ok && tb.Info()&types.IsInteger != 0 && tb.Info()&types.IsUnsigned == 0 {
					convs = append(convs, cv)
				}
			}
		}
	}
	if len(convs) == 0 {
		return
	}
	errorOnly := func(from *ssa.BasicBlock) bool {
		reach := ir.ReachableFrom(from, nil)
		n := 0
		for _, r := range ir.Returns(fn) {
			if reach[r.Block()] {
				n++
				ei := ir.ErrorResultIndex(fn.Signature)
				if ei < 0 || ei >= len(r.Results) || ir.IsNilConst(r.Results[ei]) {
					return false
				}
			}
		}
		return n > 0
	}
	for _, cv := range convs {
		bounded, exact, inexact := false, false, false
		for _, f := range ir.FactsAt(cv.Block()) {
			bin, ok := f.Cond.(*ssa.BinOp)
			if !ok {
				continue
			}
			switch bin.Op {
			case token.LSS, token.LEQ, token.GTR, token.GEQ:
			default:
				continue
			}
			var other ssa.Value
			if isK(bin.X) {
				other = bin.Y
			} else if isK(bin.Y) {
				other = bin.X
			} else {
				continue
			}
			if !mentionsValue(other, isLenBuf, 0) {
				continue
			}
			// the side not taken towards the conversion must reject
			fail := f.From.Succs[0]
			if f.Truth {
				fail = f.From.Succs[1]
			}
			if !errorOnly(fail) {
				continue
			}
			bounded = true
			// exactness: the guard must reject exactly k > len(buf) - used.
			// Normalise "the conversion is reached iff k ≤ T" and compare T,
			// as a linear form over len(buf) and the byte count Uvarint consumed.
			e, okForm := linearRemaining(other, buf, uv)
			cpos := c.P.InstrPos(f.From.Instrs[len(f.From.Instrs)-1])
			if !okForm {
				inexact = true
				c.Undecided(fn, cpos, "length bound", "the decoded length is compared with "+ir.Sym(other)+", which the rule cannot reduce to len(buf) - used")
				continue
			}
			// accept side: f.Truth of (k op other) with k on the left
			op := bin.Op
			if !isK(bin.X) { // other op k  →  k op' other
				op = map[token.Token]token.Token{token.LSS: token.GTR, token.LEQ: token.GEQ, token.GTR: token.LSS, token.GEQ: token.LEQ}[op]
			}
			// accepted ⇔ (k op other) == f.Truth ; express as k ≤ T
			var shift int64
			switch {
			case op == token.GTR && !f.Truth: // !(k > E)  ⇔ k ≤ E
				shift = 0
			case op == token.GEQ && !f.Truth: // !(k ≥ E)  ⇔ k ≤ E-1
				shift = -1
			case op == token.LEQ && f.Truth: // k ≤ E
				shift = 0
			case op == token.LSS && f.Truth: // k < E ⇔ k ≤ E-1
				shift = -1
			default:
				inexact = true
				c.Violation(fn, cpos, "length bound", "the test "+ir.Sym(bin)+" accepts lengths ABOVE the bound and rejects those below it")
				continue
			}
			e.c0 += shift
			switch {
			case e.cL == 1 && e.cU == -1 && e.c0 == 0:
				exact = true
			case e.cL == 1 && e.cU == -1 && e.c0 < 0:
				inexact = true
				c.Violation(fn, cpos, "length bound", fmt.Sprintf("the decoded length is accepted only up to len(buf) - used %+d: a final element that exactly fills the buffer is rejected, so valid nodes no longer load", e.c0))
			default:
				inexact = true
				c.Violation(fn, cpos, "length bound", fmt.Sprintf("the decoded length is accepted up to %s, which exceeds the bytes that remain (len(buf) - used): a truncated or malformed node makes a caller slice past the buffer / allocate a huge list and panic instead of the load returning an error", e))
			}
		}
		pos := c.P.InstrPos(cv)
		switch {
		case inexact:
		case bounded && exact:
			c.OK(pos, "length bound in "+fn.Name(), "the decoded length is compared with the bytes remaining before it is narrowed to int", false)
		case armLenBound:
			c.Violation(fn, pos, "length bound", "the decoded length is narrowed to int without being compared with the bytes that remain: a huge length turns negative (or enormous) and the caller's make panics instead of the load failing")
		default:
			c.Note("LENBOUND (not armed): %s narrows the Uvarint to int at %s without comparing it with the remaining bytes; a length ≥ 2^63 becomes negative and make panics in the list decoder", fn.Name(), pos)
		}
	}
}

// ---------------------------------------------------------------------------
// EMPTYBODY

func init() {
	Register(&Rule{ID: "EMPTYBODY", Props: []string{"C05"}, Min: 1,
		Doc: "binary node format: the body written for an element is the marshal callback's result verbatim behind its length, and the decoder maps length 0 to nil without calling Unmarshal; " +
			"unless the element encoder refuses an empty marshal result (or writes a presence marker), a non-nil element whose encoding is empty reloads as nil.",
		Run: runEmptyBody})
}

func runEmptyBody(c *Ctx) {
	encFn, ts, err := binaryEncoderTerm(c)
	if encFn == nil {
		return
	}
	if err != nil {
		c.Undecided(encFn, c.P.Pos(encFn.Pos()), "element encoder", "the encoder's emission cannot be evaluated: "+err.Error())
		return
	}
	n := 0
	for _, t := range ts {
		if t.Kind != "REP" || len(t.Body) == 0 {
			continue
		}
		last := t.Body[len(t.Body)-1]
		if last.Kind != "B" || !strings.HasPrefix(last.Arg, "M(") || last.Fn == nil {
			continue // not a list of marshalled elements
		}
		n++
		// the function that iterates the elements and calls the marshaler
		// (the length+bytes may be written by a helper it calls)
		fn := t.Fn
		if fn == nil {
			fn = last.Fn
		}
		what := "elements of " + strings.TrimPrefix(t.Over, "N.") + " in " + fn.Name()
		pos := c.P.Pos(fn.Pos())
		if last.Pos != nil {
			pos = c.P.InstrPos(last.Pos)
		}
		// a presence marker: anything besides the length and the body
		if len(t.Body) != 2 || t.Body[0].Kind != "U" || t.Body[0].Arg != "len("+last.Arg+")" {
			c.OK(pos, what, "the element is written with more than length+body ("+emString(t.Body)+"): an empty encoding is distinguishable", false)
			continue
		}
		// the marshal callback's result in fn
		var bodies []ssa.Value
		for _, ci := range CallsOf(fn) {
			call, ok := ci.(*ssa.Call)
			if !ok || ci.Common().IsInvoke() || ir.Callee(ci.Common()) != nil || len(ci.Common().Args) != 1 {
				continue
			}
			if p, ok := ir.ResolveCell(ci.Common().Value).(*ssa.Parameter); ok {
				if _, isSig := p.Type().Underlying().(*types.Signature); isSig && call.Referrers() != nil {
					for _, r := range *call.Referrers() {
						if e, ok := r.(*ssa.Extract); ok && e.Index == 0 {
							bodies = append(bodies, e)
						}
					}
				}
			}
		}
		if len(bodies) == 0 {
			c.Undecided(fn, pos, what, "the call of the element marshaler is not found in "+fn.Name())
			continue
		}
		isLenBody := func(v ssa.Value) bool {
			a, ok := lenArg(fxStrip(v))
			if !ok {
				return false
			}
			for _, b := range bodies {
				if fxStripNoConv(a) == b {
					return true
				}
			}
			return false
		}
		refuses := false
		// a helper that receives the body (depth 1) may hold the test
		type scope struct {
			fn    *ssa.Function
			isLen func(ssa.Value) bool
		}
		scopes := []scope{{fn, isLenBody}}
		for _, cl := range staticCallsIn(fn) {
			callee := ir.Callee(cl.Call)
			if callee == nil || !fxOwnFunc(callee) || callee == fn {
				continue
			}
			for i, a := range cl.Call.Args {
				for _, b := range bodies {
					if fxStripNoConv(a) == b && i < len(callee.Params) {
						p := callee.Params[i]
						scopes = append(scopes, scope{callee, func(v ssa.Value) bool {
							x, ok := lenArg(fxStrip(v))
							return ok && fxStripNoConv(x) == ssa.Value(p)
						}})
					}
				}
			}
		}
		for _, sc := range scopes {
			fn, isLenBody := sc.fn, sc.isLen
			ei := ir.ErrorResultIndex(fn.Signature)
			for _, b := range fn.Blocks {
				if len(b.Instrs) == 0 {
					continue
				}
				iff, ok := b.Instrs[len(b.Instrs)-1].(*ssa.If)
				if !ok {
					continue
				}
				bin, ok := iff.Cond.(*ssa.BinOp)
				if !ok {
					continue
				}
				truth, known := fxCmpConst(bin, isLenBody, fxConst, constant.MakeInt64(0))
				if !known {
					continue
				}
				emptySide := b.Succs[1]
				if truth {
					emptySide = b.Succs[0]
				}
				reach := ir.ReachableFrom(emptySide, nil)
				onlyErrors, any := true, false
				for _, r := range ir.Returns(fn) {
					if !reach[r.Block()] {
						continue
					}
					any = true
					if ei < 0 || ei >= len(r.Results) || ir.IsNilConst(r.Results[ei]) {
						onlyErrors = false
					}
				}
				// the refusal must not sit inside the loop's normal continuation
				if any && onlyErrors {
					refuses = true
				}
			}
		}
		if refuses {
			c.OK(pos, what, "an empty marshal result is refused with an error: every stored body is non-empty, so length 0 means nil only", false)
			continue
		}
		c.Violation(fn, pos, "an element whose encoding is empty is indistinguishable from nil",
			fmt.Sprintf("%s writes U(len(body)) body with body = marshal(elem) verbatim and never tests len(body): a non-nil element whose marshalled form is empty (a zero proto message, \"\" under a raw-bytes marshaler) is written exactly like nil (length 0), and the decoder maps length 0 to nil without calling Unmarshal — the value reloads as nil, and a zero-length key makes the version unloadable", fn.Name()))
	}
	if n == 0 {
		c.Undecided(encFn, c.P.Pos(encFn.Pos()), "element encoder", "no list of marshalled elements found in the binary encoder")
	}
}

// ---------------------------------------------------------------------------
// COPYLOOP (part of CODECSYM)

// loopBoundOf finds, for an element store at index idx in block b, the
// innermost enclosing loop whose test is `idx < bound` / `idx <= bound` with
// idx running from 0 in steps of 1.
func loopBoundOf(b *ssa.BasicBlock, idx ssa.Value) (bound ssa.Value, op token.Token, ok bool) {
	// a bottom-tested (rotated) loop, as go/ssa builds for `for i := range n`:
	// idx = phi(0, idx+1) in the header, the latch tests idx+1 < bound
	if phi, isPhi := idx.(*ssa.Phi); isPhi {
		h := phi.Block()
		var inc ssa.Value
		okPhi := len(phi.Edges) >= 2
		for i, e := range phi.Edges {
			if h.Dominates(h.Preds[i]) {
				bin, isBin := e.(*ssa.BinOp)
				if !isBin || bin.Op != token.ADD || bin.X != ssa.Value(phi) || !fxIsIntConst(bin.Y, 1) || (inc != nil && inc != e) {
					okPhi = false
				}
				inc = e
			} else if !fxIsIntConst(e, 0) {
				okPhi = false
			}
		}
		if okPhi && inc != nil && (h == b || h.Dominates(b)) {
			var bnd ssa.Value
			var bop token.Token
			all := true
			for i, p := range h.Preds {
				if !h.Dominates(p) {
					continue
				}
				_ = i
				iff, isIf := p.Instrs[len(p.Instrs)-1].(*ssa.If)
				if !isIf {
					all = false
					break
				}
				cond, isBin := iff.Cond.(*ssa.BinOp)
				if !isBin || (cond.Op != token.LSS && cond.Op != token.LEQ) || cond.X != inc || p.Succs[0] != h || (bnd != nil && bnd != cond.Y) {
					all = false
					break
				}
				bnd, bop = cond.Y, cond.Op
			}
			if all && bnd != nil {
				return bnd, bop, true
			}
		}
	}
	for h := innermostLoopHeader(b); h != nil; {
		if len(h.Instrs) > 0 {
			if iff, isIf := h.Instrs[len(h.Instrs)-1].(*ssa.If); isIf {
				if cond, isBin := iff.Cond.(*ssa.BinOp); isBin && (cond.Op == token.LSS || cond.Op == token.LEQ) && cond.X == idx && isFullRangeIndex(cond.X, h) {
					return cond.Y, cond.Op, true
				}
			}
		}
		// an outer loop
		if h.Idom() == nil {
			break
		}
		h = innermostLoopHeader(h.Idom())
	}
	return nil, 0, false
}

// copyLoopCheck: (a) in the two-stage JSON decoder (and the helpers it hands
// the node or the decoded lists to, depth ≤ 2) every store into node.Key[i],
// node.Value[i], node.Link[i] sits in a loop that ranges over the decoded list
// it copies from (or over the destination itself): a link copied in a loop
// over the keys loses link n. (b) in the binary list decoders the element
// store ranges over exactly the decoded count the output list was made with.
func copyLoopCheck(c *Ctx, dec *ssa.Function) {
	st, sfn, _ := stringNodeStruct(c)
	if sfn != nil {
		var node *ssa.Parameter
		for _, p := range sfn.Params {
			if ir.IsPtrToNamed(p.Type(), "mastNode") {
				node = p
			}
		}
		isSrcBase := func(v ssa.Value) bool {
			a, ok := v.(*ssa.Alloc)
			if !ok {
				return false
			}
			pt, ok := a.Type().Underlying().(*types.Pointer)
			return ok && types.Identical(types.Unalias(pt.Elem()).Underlying(), st)
		}
		// classify a list expression: ("src"|"dst", field)
		classify := func(v ssa.Value, env *fxEnv) (string, string) {
			v, env = env.resolve(v)
			base, path, ok := fxFieldLoad(v)
			if !ok || base == nil {
				return "", ""
			}
			base, _ = env.resolve(base)
			switch {
			case node != nil && base == ssa.Value(node):
				return "dst", path
			case isSrcBase(base):
				return "src", path
			}
			return "", ""
		}
		type scope struct {
			fn  *ssa.Function
			env *fxEnv
		}
		scopes := []scope{{sfn, nil}}
		seen := map[*ssa.Function]bool{sfn: true}
		for i := 0; i < len(scopes) && i < 8; i++ {
			sc := scopes[i]
			depth := 0
			for e := sc.env; e != nil; e = e.up {
				depth++
			}
			if depth >= 2 {
				continue
			}
			for _, cl := range staticCallsIn(sc.fn) {
				callee := ir.Callee(cl.Call)
				if callee == nil || !fxOwnFunc(callee) || seen[callee] {
					continue
				}
				relevant := false
				sub := &fxEnv{bind: map[*ssa.Parameter]ssa.Value{}, up: sc.env}
				for j, a := range cl.Call.Args {
					if j >= len(callee.Params) {
						break
					}
					sub.bind[callee.Params[j]] = a
					ra, re := sc.env.resolve(a)
					if node != nil && ra == ssa.Value(node) {
						relevant = true
					}
					if k, _ := classify(ra, re); k != "" {
						relevant = true
					}
				}
				if relevant {
					seen[callee] = true
					scopes = append(scopes, scope{callee, sub})
				}
			}
		}
		nStores := 0
		for _, sc := range scopes {
			for _, b := range sc.fn.Blocks {
				for _, ins := range b.Instrs {
					store, ok := ins.(*ssa.Store)
					if !ok {
						continue
					}
					ia, ok := store.Addr.(*ssa.IndexAddr)
					if !ok {
						continue
					}
					kind, field := classify(ia.X, sc.env)
					if kind != "dst" || (field != "Key" && field != "Value" && field != "Link") {
						continue
					}
					nStores++
					construct := "copy loop of node." + field
					pos := c.P.InstrPos(store)
					bound, op, ok := loopBoundOf(b, ia.Index)
					if !ok {
						c.Undecided(sc.fn, pos, construct, "node."+field+"[i] is assigned outside a loop `for i := 0; i < n; i++` / range the rule recognises")
						continue
					}
					// what the loop ranges over
					plus1 := false
					bv, benv := sc.env.resolve(bound)
					if bin, isBin := bv.(*ssa.BinOp); isBin && bin.Op == token.ADD && fxIsIntConst(bin.Y, 1) {
						plus1 = true
						bv = bin.X
					}
					over, overField := "", ""
					if a, isLen := lenArg(bv); isLen {
						over, overField = classify(a, benv)
					}
					if over == "" {
						c.Undecided(sc.fn, pos, construct, "the loop bound "+ir.Sym(bound)+" is not the length of a decoded list or of the node's own list")
						continue
					}
					entry := overField == "Key" || overField == "Value"
					okLoop := false
					switch field {
					case "Link":
						okLoop = (overField == "Link" && !plus1 && op == token.LSS) ||
							(entry && plus1 && op == token.LSS) || (entry && !plus1 && op == token.LEQ)
					default:
						okLoop = entry && !plus1 && op == token.LSS
					}
					what := map[string]string{"src": "the decoded ", "dst": "the node's "}[over] + overField + " list"
					if plus1 {
						what = "len(" + what + ")+1"
					}
					if okLoop {
						c.OK(pos, construct+" in "+sc.fn.Name(), "ranges over "+what+": every index is transferred", false)
					} else if field == "Link" {
						c.Violation(sc.fn, pos, construct, "node.Link[i] is copied in a loop over "+what+": a node with n entries has n+1 links, so the last decoded link is never transferred — a reloaded interior node silently loses its right-most subtree")
					} else {
						c.Violation(sc.fn, pos, construct, "node."+field+"[i] is copied in a loop over "+what+", not over the decoded entries")
					}
				}
			}
		}
		if nStores == 0 {
			c.Undecided(sfn, c.P.Pos(sfn.Pos()), "copy loops", "no store into node.Key/Value/Link[i] found in the two-stage JSON decoder or its helpers")
		}
	}
	// (b) binary list decoders
	if dec == nil {
		return
	}
	seenStore := map[*ssa.Store]bool{}
	var fns []*ssa.Function
	for fn := range c.Facts.Reach(dec) {
		fns = append(fns, fn)
	}
	sort.Slice(fns, func(i, j int) bool { return fns[i].Pos() < fns[j].Pos() })
	for _, fn := range fns {
		info := sliceDecoder(fn)
		if info == nil || info.ElemStor == nil || seenStore[info.ElemStor] {
			continue
		}
		seenStore[info.ElemStor] = true
		es := info.ElemStor
		lf := es.Parent()
		ia := es.Addr.(*ssa.IndexAddr)
		construct := "element loop of " + lf.Name()
		pos := c.P.InstrPos(es)
		ms, isMake := fxStripNoConv(ia.X).(*ssa.MakeSlice)
		bound, op, ok := loopBoundOf(es.Block(), ia.Index)
		if !isMake || !ok {
			c.Undecided(lf, pos, construct, "the decoded elements are not stored into a freshly made list inside a recognised counting loop")
			continue
		}
		same := op == token.LSS && (ir.Sym(bound) == ir.Sym(ms.Len) || bound == ms.Len)
		if a, isLen := lenArg(bound); isLen && op == token.LSS && fxStripNoConv(a) == ssa.Value(ms) {
			same = true
		}
		if same {
			c.OK(pos, construct, "ranges over exactly the decoded count the list was made with", false)
			// every success return lies behind the loop's own exit test (all
			// elements decoded) or behind a test that the count is zero
			idx := ia.Index
			sameBound := func(v ssa.Value) bool { return v == bound || ir.Sym(v) == ir.Sym(bound) }
			isIdx := func(v ssa.Value) bool {
				if v == idx || fxIsIntConst(v, 0) {
					return true
				}
				bin, ok := v.(*ssa.BinOp) // idx+1 of a bottom-tested loop
				return ok && bin.Op == token.ADD && bin.X == idx && fxIsIntConst(bin.Y, 1)
			}
			legitExit := func(from, to *ssa.BasicBlock) bool {
				if len(from.Instrs) == 0 || len(from.Succs) != 2 || from.Succs[0] == from.Succs[1] {
					return false
				}
				iff, ok := from.Instrs[len(from.Instrs)-1].(*ssa.If)
				if !ok {
					return false
				}
				bin, ok := iff.Cond.(*ssa.BinOp)
				if !ok {
					return false
				}
				truth := to == from.Succs[0]
				// the loop test failing: !(idx < bound)
				if bin.Op == token.LSS && sameBound(bin.Y) && isIdx(bin.X) && !truth {
					return true
				}
				// a test that holds only for count == 0
				x, y, op := bin.X, bin.Y, bin.Op
				if fxConst(x) != nil {
					x, y = y, x
					op = map[token.Token]token.Token{token.LSS: token.GTR, token.GTR: token.LSS, token.LEQ: token.GEQ, token.GEQ: token.LEQ, token.EQL: token.EQL, token.NEQ: token.NEQ}[op]
				}
				k := fxConst(y)
				if a, isLen := lenArg(x); isLen && fxStripNoConv(a) == ssa.Value(ms) {
					x = bound
				}
				if k == nil || k.Kind() != constant.Int || !sameBound(x) {
					return false
				}
				holds := func(n int64) bool { return constant.Compare(constant.MakeInt64(n), op, k) == truth }
				return holds(0) && !holds(1) && !holds(2) && !holds(1<<40)
			}
			reach := ir.ReachableFrom(lf.Blocks[0], legitExit)
			for _, ret := range fxSuccessReturns(lf) {
				if reach[ret.Block()] {
					c.Violation(lf, c.P.InstrPos(ret), "early success in "+lf.Name(), "the list decoder can return success without having run its element loop to the decoded count (and without the count being zero): the remaining elements are never decoded and the rest of the node is read from the wrong offset")
				}
			}
		} else {
			c.Violation(lf, pos, construct, "the element loop runs to "+ir.Sym(bound)+" while the output list was made with "+ir.Sym(ms.Len)+" elements: trailing elements (the last link) are never decoded")
		}
	}
}

// linForm is cL*len(buf) + cU*used + c0.
type linForm struct{ cL, cU, c0 int64 }

func (e linForm) String() string {
	var parts []string
	term := func(k int64, name string) {
		switch {
		case k == 0:
		case k == 1:
			parts = append(parts, "+ "+name)
		case k == -1:
			parts = append(parts, "- "+name)
		default:
			parts = append(parts, fmt.Sprintf("%+d*%s", k, name))
		}
	}
	term(e.cL, "len(buf)")
	term(e.cU, "used")
	if e.c0 != 0 || len(parts) == 0 {
		parts = append(parts, fmt.Sprintf("%+d", e.c0))
	}
	return strings.TrimPrefix(strings.Join(parts, " "), "+ ")
}

// linearRemaining reduces v to a linear form over len(buf) and the number of
// bytes binary.Uvarint consumed (its result #1): conversions are transparent,
// + and - are followed, len(buf[used:]) is len(buf) - used.
func linearRemaining(v ssa.Value, buf ssa.Value, uv *ssa.Call) (linForm, bool) {
	v = fxStrip(v)
	if k := fxConst(v); k != nil && k.Kind() == constant.Int {
		if n, exact := constant.Int64Val(k); exact {
			return linForm{c0: n}, true
		}
		return linForm{}, false
	}
	if e, ok := v.(*ssa.Extract); ok && e.Tuple == ssa.Value(uv) && e.Index == 1 {
		return linForm{cU: 1}, true
	}
	if a, ok := lenArg(v); ok {
		a = fxStripNoConv(a)
		if a == buf {
			return linForm{cL: 1}, true
		}
		if sl, ok := a.(*ssa.Slice); ok && fxStripNoConv(sl.X) == buf && sl.High == nil && sl.Max == nil {
			if sl.Low == nil {
				return linForm{cL: 1}, true
			}
			lo, ok := linearRemaining(sl.Low, buf, uv)
			if !ok {
				return linForm{}, false
			}
			return linForm{cL: 1 - lo.cL, cU: -lo.cU, c0: -lo.c0}, true
		}
		return linForm{}, false
	}
	if bin, ok := v.(*ssa.BinOp); ok && (bin.Op == token.ADD || bin.Op == token.SUB) {
		x, okx := linearRemaining(bin.X, buf, uv)
		y, oky := linearRemaining(bin.Y, buf, uv)
		if !okx || !oky {
			return linForm{}, false
		}
		if bin.Op == token.SUB {
			y = linForm{-y.cL, -y.cU, -y.c0}
		}
		return linForm{x.cL + y.cL, x.cU + y.cU, x.c0 + y.c0}, true
	}
	return linForm{}, false
}

// ---------------------------------------------------------------------------
// format tables

// tableFieldOf: v reads field F of an element of the slice returned by a
// parameterless static in-repo function T: returns T and F.
func tableFieldOf(v ssa.Value) (*ssa.Function, string) {
	v = fxStrip(v)
	var elem ssa.Value
	field := ""
	switch x := v.(type) {
	case *ssa.Field:
		elem, field = x.X, fxFieldNameOf(x.X.Type(), x.Field)
	case *ssa.UnOp:
		fa, ok := x.X.(*ssa.FieldAddr)
		if !ok || x.Op != token.MUL {
			return nil, ""
		}
		elem, field = fa.X, fxFieldNameOf(fa.X.Type(), fa.Field)
	default:
		return nil, ""
	}
	elem = ir.ResolveCell(elem)
	// the loop variable: a local struct holding a copy of the current element
	if al, ok := elem.(*ssa.Alloc); ok && al.Referrers() != nil {
		var st *ssa.Store
		n := 0
		for _, rf := range *al.Referrers() {
			if s, ok := rf.(*ssa.Store); ok && s.Addr == ssa.Value(al) {
				st = s
				n++
			}
		}
		if n != 1 {
			return nil, ""
		}
		elem = st.Val
	}
	if u, ok := elem.(*ssa.UnOp); ok && u.Op == token.MUL {
		elem = u.X
	}
	ia, ok := elem.(*ssa.IndexAddr)
	if !ok {
		return nil, ""
	}
	call, idx := fxCallOf(ir.ResolveCell(ia.X))
	if call == nil || idx != 0 || len(call.Call.Args) != 0 {
		return nil, ""
	}
	t := ir.Callee(call.Call)
	if t == nil || !fxOwnFunc(t) {
		return nil, ""
	}
	return t, field
}

// parseCodecTable reads the composite literal a table function returns: for
// every element, the value stored into each field.
func parseCodecTable(t *ssa.Function) ([]map[string]ssa.Value, bool) {
	rets := ir.Returns(t)
	if len(rets) != 1 || len(rets[0].Results) != 1 {
		return nil, false
	}
	sl, ok := rets[0].Results[0].(*ssa.Slice)
	if !ok || sl.Low != nil || sl.High != nil {
		return nil, false
	}
	arr, ok := sl.X.(*ssa.Alloc)
	if !ok {
		return nil, false
	}
	at, ok := arr.Type().Underlying().(*types.Pointer).Elem().Underlying().(*types.Array)
	if !ok {
		return nil, false
	}
	entries := make([]map[string]ssa.Value, at.Len())
	for i := range entries {
		entries[i] = map[string]ssa.Value{}
	}
	for _, b := range t.Blocks {
		for _, ins := range b.Instrs {
			st, ok := ins.(*ssa.Store)
			if !ok {
				continue
			}
			fa, ok := st.Addr.(*ssa.FieldAddr)
			if !ok {
				continue
			}
			ia, ok := fa.X.(*ssa.IndexAddr)
			if !ok || ia.X != ssa.Value(arr) {
				continue
			}
			k := fxConst(ia.Index)
			if k == nil {
				return nil, false
			}
			i, exact := constant.Int64Val(k)
			if !exact || i < 0 || int(i) >= len(entries) {
				return nil, false
			}
			entries[i][fxFieldNameOf(fa.X.Type(), fa.Field)] = st.Val
		}
	}
	for _, e := range entries {
		if len(e) == 0 {
			return nil, false
		}
	}
	return entries, true
}

// checkCodecTable: every entry pairs its format with the functions of that
// format: the binary format's marshal function reaches the binary encoder and
// its unmarshal function the binary decoder; the v1 format's reach neither.
func checkCodecTable(c *Ctx, t *ssa.Function, entries []map[string]ssa.Value, formatField string) {
	enc, dec := c.P.MastFunc("marshalMastNode"), c.P.MastFunc("unmarshalMastNode")
	cur := currentFormats(c)
	for i, e := range entries {
		format, ok := fxStringOf(c.P, e[formatField])
		if !ok {
			continue
		}
		binary := format == cur[1]
		for name, v := range e {
			if name == formatField {
				continue
			}
			f := fxRealFunc(ir.ResolveCell(v))
			construct := fmt.Sprintf("table entry %q.%s", format, name)
			pos := fxValPos(c.P, v, t)
			if f == nil {
				c.Undecided(t, pos, construct, "the entry's "+name+" is not a function the rule can resolve")
				continue
			}
			reach := staticReach(f)
			// is it an encoder or a decoder? by what the sibling entries' functions reach
			var target *ssa.Function
			role := ""
			for _, e2 := range entries {
				if g := fxRealFunc(ir.ResolveCell(e2[name])); g != nil {
					r2 := staticReach(g)
					if enc != nil && r2[enc] {
						target, role = enc, "encoder"
					}
					if dec != nil && r2[dec] {
						target, role = dec, "decoder"
					}
				}
			}
			if target == nil {
				c.Undecided(t, pos, construct, "no entry's "+name+" reaches the binary encoder or decoder: the role of this column is unknown")
				continue
			}
			if reach[target] == binary {
				c.OK(pos, construct, map[bool]string{true: "reaches", false: "does not reach"}[binary]+" the binary "+role+" ("+f.Name()+")", false)
			} else if binary {
				c.Violation(t, pos, construct, fmt.Sprintf("entry %d pairs node format %q with %s, which never reaches the binary %s: nodes of that format are written/read in the other format", i, format, f.Name(), role))
			} else {
				c.Violation(t, pos, construct, fmt.Sprintf("entry %d pairs node format %q with %s, which uses the binary %s: nodes of that format are written/read in the other format", i, format, f.Name(), role))
			}
		}
	}
}

// delegatesTo: a statically calls b.
func delegatesTo(a, b *ssa.Function) bool {
	for _, cl := range staticCallsIn(a) {
		if ir.Callee(cl.Call) == b {
			return true
		}
	}
	return false
}

// delegatedLookup: the call in fn of one of the table-lookup functions.
func delegatedLookup(fn *ssa.Function, lookups map[*ssa.Function]bool) *ssa.Call {
	for _, cl := range staticCallsIn(fn) {
		if lookups[ir.Callee(cl.Call)] {
			return cl
		}
	}
	return nil
}

// staticReach: the functions fn reaches through statically resolved calls
// only (callbacks are not followed).
func staticReach(fn *ssa.Function) map[*ssa.Function]bool {
	seen := map[*ssa.Function]bool{fn: true}
	work := []*ssa.Function{fn}
	for len(work) > 0 {
		f := work[len(work)-1]
		work = work[:len(work)-1]
		for _, cl := range staticCallsIn(f) {
			if g := ir.Callee(cl.Call); g != nil && g.Blocks != nil && !seen[g] {
				seen[g] = true
				work = append(work, g)
			}
		}
	}
	return seen
}
