package rules

// Old/new side qualifier inference for the diff code (DESIGN.md §3.5).
//
// Every value that flows through the diff is qualified OLD (comes from the
// tree the diff is taken against), NEW (comes from the receiver tree) or
// nothing. Seeds come only from the exported API; everything else is
// inferred. Values join (a φ of an old and a new value is BOTH); *slots* —
// fields of the diff state structs and parameters of the monomorphic
// functions of the diff — hold exactly one side: the first side that reaches
// them (breadth first from the seeds), corrected to the majority of the
// single-sided votes they receive. A vote that disagrees with its slot is the
// construct the SIDES rule reports.

import (
	"fmt"
	"go/constant"
	"go/token"
	"go/types"
	"sort"
	"strings"

	"golang.org/x/tools/go/ssa"

	"mastcheck/ir"
)

type side uint8

const (
	sdNone side = 0
	sdOld  side = 1
	sdNew  side = 2
	sdBoth side = 3
)

func (s side) String() string { return [...]string{"unsided", "OLD", "NEW", "OLD+NEW"}[s&3] }
func (s side) single() bool   { return s == sdOld || s == sdNew }

// sdSlot is a location that must have one side.
type sdSlot struct {
	name   string
	field  *types.Var
	owner  string // struct name for fields, function name for params
	param  *ssa.Parameter
	seed   side   // fixed by the exported API
	pin    side   // fixed by majority in an earlier round
	cur    side   // side in the current round
	exempt string // reason: the slot is written from both sides by design
	isBool bool
}

func (s *sdSlot) fixed() side {
	if s.seed != sdNone {
		return s.seed
	}
	return s.pin
}

// sdVote is one flow of a value into a slot.
type sdVote struct {
	slot *sdSlot
	side side
	at   ssa.Instruction
	kind string // store | co-argument | flag | argument | map-update
	desc string
	val  ssa.Value // the voting value (nil for flag votes)
}

// exempt fields: (struct role, field name) -> reason.
var sdExemptFields = map[string]string{
	"state.curKey": "carries the key from whichever side has it (written from both sides by design)",
	"Diff.Key":     "the key of the difference comes from whichever side has it",
}

// callbacks stored in Mast fields whose arguments are compared with each
// other, not looked up in the tree: not sinks.
var sdComparisonCallbacks = map[string]bool{"keyOrder": true}

type sidesInfo struct {
	P *ir.Program
	F *Facts

	missing []string // unresolved anchors

	entries []*ssa.Function
	slice   map[*ssa.Function]bool
	fns     []*ssa.Function // slice, sorted by position

	sidedT map[*types.TypeName]string // field-sided struct types -> role ("state", "Diff", "DiffCursor", "snapshot")
	fslot  map[*types.Var]*sdSlot
	pslot  map[*ssa.Parameter]*sdSlot
	slots  []*sdSlot
	poly   map[*ssa.Function]bool
	val    map[ssa.Value]side

	// snapshot structs (sides_snapshot.go): field slot of the snapshot -> the state field it copies
	snapOrigin map[*sdSlot]*sdSlot

	entrySig, linkSig *types.Signature
	entrySeed         map[int]side // entry callback: parameter index -> required side
	entryFlag         map[int]bool // ... and whether it is a flag
	linkRemovedIdx    int
	linkLinkIdx       int
	diffTypeT         types.Type
	constRemove       constant.Value
	constAdd          constant.Value

	itemT      *types.Named // iterItem
	itemLinkF  int          // index of considerLink
	itemEntryF int          // index of the entry (yield) field, -1 if not resolved
	// names of the key / value fields of the entry struct
	entryKeyName, entryValueName string
	keyCell                      *sdSlot // the state field fed to the entry callback's key position

	votes    []sdVote
	rounds   int
	unstable bool
}

var sidesCache = map[*Facts]*sidesInfo{}

// Sides computes (once per configuration) the side inference.
func (F *Facts) Sides() *sidesInfo {
	if s, ok := sidesCache[F]; ok {
		return s
	}
	S := &sidesInfo{P: F.P, F: F,
		slice:  map[*ssa.Function]bool{},
		sidedT: map[*types.TypeName]string{},
		fslot:  map[*types.Var]*sdSlot{},
		pslot:  map[*ssa.Parameter]*sdSlot{},
		poly:   map[*ssa.Function]bool{},
		val:    map[ssa.Value]side{},

		snapOrigin: map[*sdSlot]*sdSlot{},
	}
	sidesCache[F] = S
	S.anchors()
	if len(S.missing) == 0 {
		S.solve()
	}
	return S
}

func (S *sidesInfo) miss(what string) { S.missing = append(S.missing, what) }

func sdNamedStruct(t types.Type) (*types.Named, *types.Struct) {
	if p, ok := t.Underlying().(*types.Pointer); ok {
		t = p.Elem()
	}
	t = types.Unalias(t)
	n, _ := t.(*types.Named)
	st, _ := t.Underlying().(*types.Struct)
	return n, st
}

func sdIsMast(t types.Type) bool { return ir.IsPtrToNamed(t, "Mast") }

// anchors resolves the API seeds. Everything is found through exported names
// (DiffIter, DiffLinks, StartDiff, NextEntry, Diff, DiffCursor, DiffType_*)
// except the item type of the stacks (role table: iterItem.considerLink).
func (S *sidesInfo) anchors() {
	P := S.P
	get := func(n string) *ssa.Function {
		fn := P.MastFunc(n)
		if fn == nil {
			S.miss("function " + n)
		}
		return fn
	}
	iter, links, start, next := get("(*Mast).DiffIter"), get("(*Mast).DiffLinks"), get("(*Mast).StartDiff"), get("(*DiffCursor).NextEntry")
	if len(S.missing) > 0 {
		return
	}
	S.entries = []*ssa.Function{iter, links, start, next}
	for fn := range S.F.Reach(S.entries...) {
		if fn.Pkg != nil && fn.Pkg.Pkg.Path() == ir.MastPath {
			S.slice[fn] = true
			S.fns = append(S.fns, fn)
		}
	}
	sort.Slice(S.fns, func(i, j int) bool { return ir.PosLess(S.fns[i].Pos(), S.fns[j].Pos()) })

	// field-sided structs
	for _, n := range []string{"Diff", "DiffCursor"} {
		nt := P.Named(ir.MastPath, n)
		if nt == nil {
			S.miss("type " + n)
			continue
		}
		if _, ok := nt.Underlying().(*types.Struct); !ok {
			S.miss("struct type " + n)
			continue
		}
		S.sidedT[nt.Obj()] = n
	}
	if dcT := P.StructOf(ir.MastPath, "DiffCursor"); dcT != nil {
		found := false
		for i := 0; i < dcT.NumFields(); i++ {
			ft := dcT.Field(i).Type()
			if _, isPtr := ft.Underlying().(*types.Pointer); !isPtr || sdIsMast(ft) {
				continue
			}
			if n, st := sdNamedStruct(ft); n != nil && st != nil && n.Obj().Pkg() != nil && n.Obj().Pkg().Path() == ir.MastPath {
				S.sidedT[n.Obj()] = "state"
				found = true
			}
		}
		if !found {
			S.miss("diff state struct (a *struct field of DiffCursor)")
		}
	}
	// seeds: receiver NEW, *Mast parameter OLD
	for _, fn := range []*ssa.Function{iter, links, start} {
		if len(fn.Params) == 0 || !sdIsMast(fn.Params[0].Type()) {
			S.miss("receiver *Mast of " + fn.Name())
			continue
		}
		S.paramSlot(fn.Params[0]).seed = sdNew
		nOld := 0
		for _, p := range fn.Params[1:] {
			if sdIsMast(p.Type()) {
				S.paramSlot(p).seed = sdOld
				nOld++
			}
		}
		if nOld != 1 {
			S.miss("the one *Mast parameter of " + fn.Name())
		}
	}
	// callback signatures
	cbSig := func(fn *ssa.Function) *types.Signature {
		for _, p := range fn.Params {
			if sg, ok := p.Type().Underlying().(*types.Signature); ok {
				return sg
			}
		}
		S.miss("callback parameter of " + fn.Name())
		return nil
	}
	S.entrySig, S.linkSig = cbSig(iter), cbSig(links)
	S.entrySeed, S.entryFlag = map[int]side{}, map[int]bool{}
	if S.entrySig != nil {
		seen := map[string]bool{}
		for i := 0; i < S.entrySig.Params().Len(); i++ {
			p := S.entrySig.Params().At(i)
			isB := sdIsBool(p.Type())
			switch p.Name() {
			case "added", "addedValue":
				S.entrySeed[i], S.entryFlag[i] = sdNew, isB
				seen[p.Name()] = true
			case "removed", "removedValue":
				S.entrySeed[i], S.entryFlag[i] = sdOld, isB
				seen[p.Name()] = true
			}
		}
		for _, n := range []string{"added", "addedValue", "removed", "removedValue"} {
			if !seen[n] {
				S.miss("parameter " + n + " of DiffIter's callback")
			}
		}
	}
	S.linkRemovedIdx, S.linkLinkIdx = -1, -1
	if S.linkSig != nil {
		for i := 0; i < S.linkSig.Params().Len(); i++ {
			p := S.linkSig.Params().At(i)
			if p.Name() == "removed" && sdIsBool(p.Type()) {
				S.linkRemovedIdx = i
			} else if _, ok := p.Type().Underlying().(*types.Interface); ok {
				S.linkLinkIdx = i
			}
		}
		if S.linkRemovedIdx < 0 || S.linkLinkIdx < 0 {
			S.miss("parameters (removed bool, link) of DiffLinks' callback")
		}
	}
	S.anchors2()
}

func sdIsBool(t types.Type) bool {
	b, ok := t.Underlying().(*types.Basic)
	return ok && b.Info()&types.IsBoolean != 0
}

func (S *sidesInfo) anchors2() {
	P := S.P
	// Diff.OldValue / Diff.NewValue, DiffType constants
	if st := P.StructOf(ir.MastPath, "Diff"); st != nil {
		seen := 0
		for i := 0; i < st.NumFields(); i++ {
			switch st.Field(i).Name() {
			case "OldValue":
				S.fieldSlot(st.Field(i), "Diff").seed = sdOld
				seen++
			case "NewValue":
				S.fieldSlot(st.Field(i), "Diff").seed = sdNew
				seen++
			case "Type":
				S.diffTypeT = st.Field(i).Type()
				seen++
			}
		}
		if seen != 3 {
			S.miss("fields Type, OldValue, NewValue of Diff")
		}
	}
	if pkg := P.Pkgs[ir.MastPath]; pkg != nil {
		look := func(n string) constant.Value {
			c, _ := pkg.Types.Scope().Lookup(n).(*types.Const)
			if c == nil {
				S.miss("constant " + n)
				return nil
			}
			return c.Val()
		}
		S.constRemove, S.constAdd = look("DiffType_Remove"), look("DiffType_Add")
	}
	S.resolveItem()
	S.resolveSnapshots()
	S.resolveKeyCell()
}

// resolveItem finds the stack item type and its fields by structure: the
// diff state holds two fields of one named struct type (the old and the new
// stack) whose only field is a slice of a named struct — the item; in the
// item the link is the interface-typed field and the entry the struct-typed
// one; the entry's key / value fields are those filled from Node.Key /
// Node.Value. The literal names are the fallback.
func (S *sidesInfo) resolveItem() {
	P := S.P
	S.itemLinkF, S.itemEntryF = -1, -1
	S.entryKeyName, S.entryValueName = "Key", "Value"
	for tn, role := range S.sidedT {
		if role != "state" {
			continue
		}
		st, _ := tn.Type().Underlying().(*types.Struct)
		if st == nil {
			continue
		}
		count := map[*types.Named]int{}
		for i := 0; i < st.NumFields(); i++ {
			if n, ok := types.Unalias(st.Field(i).Type()).(*types.Named); ok {
				count[n]++
			}
		}
		for n, k := range count {
			ss, _ := n.Underlying().(*types.Struct)
			if k != 2 || ss == nil || ss.NumFields() != 1 {
				continue
			}
			sl, _ := ss.Field(0).Type().Underlying().(*types.Slice)
			if sl == nil {
				continue
			}
			el, _ := types.Unalias(sl.Elem()).(*types.Named)
			if el == nil {
				continue
			}
			if _, isStruct := el.Underlying().(*types.Struct); isStruct {
				S.itemT = el
			}
		}
	}
	if S.itemT == nil {
		S.itemT = P.Named(ir.MastPath, "iterItem")
	}
	if S.itemT == nil {
		S.miss("the stack item type (element of the slice held by the two stack fields of the diff state; fallback name iterItem)")
		return
	}
	ist, _ := S.itemT.Underlying().(*types.Struct)
	if ist == nil {
		S.miss("struct " + S.itemT.Obj().Name())
		return
	}
	nIface, nStruct := 0, 0
	for i := 0; i < ist.NumFields(); i++ {
		switch ist.Field(i).Type().Underlying().(type) {
		case *types.Interface:
			nIface++
			S.itemLinkF = i
		case *types.Struct:
			nStruct++
			S.itemEntryF = i
		}
	}
	if nIface != 1 {
		S.itemLinkF = -1
		for i := 0; i < ist.NumFields(); i++ {
			if ist.Field(i).Name() == "considerLink" {
				S.itemLinkF = i
			}
		}
	}
	if S.itemLinkF < 0 {
		S.miss("the link field of " + S.itemT.Obj().Name() + " (its one interface-typed field; fallback name considerLink)")
		return
	}
	if nStruct != 1 {
		S.itemEntryF = -1
	}
	// the entry's key / value fields: filled from Node.Key / Node.Value
	if S.itemEntryF >= 0 {
		et := ist.Field(S.itemEntryF).Type()
		for _, fn := range S.fns {
			for _, b := range fn.Blocks {
				for _, ins := range b.Instrs {
					st, ok := ins.(*ssa.Store)
					if !ok {
						continue
					}
					fa, ok := st.Addr.(*ssa.FieldAddr)
					if !ok {
						continue
					}
					pt, ok := fa.X.Type().Underlying().(*types.Pointer)
					if !ok || !types.Identical(pt.Elem(), et) {
						continue
					}
					name := ir.FieldName(fa.X.Type(), fa.Field)
					switch {
					case sdPathThroughNodeField(st.Val, "Key"):
						S.entryKeyName = name
					case sdPathThroughNodeField(st.Val, "Value"):
						S.entryValueName = name
					}
				}
			}
		}
	}
}

// sdPathThroughNodeField: the access path of v goes through the exported
// field `name` of the exported type Node.
func sdPathThroughNodeField(v ssa.Value, name string) bool {
	for i := 0; i < 16; i++ {
		v = ir.ResolveCell(ir.Strip(v))
		switch x := v.(type) {
		case *ssa.UnOp:
			if x.Op != token.MUL {
				return false
			}
			v = x.X
		case *ssa.FieldAddr:
			if ir.FieldName(x.X.Type(), x.Field) == name && ir.IsPtrToNamed(x.X.Type(), "Node") {
				return true
			}
			v = x.X
		case *ssa.IndexAddr:
			v = x.X
		case *ssa.Index:
			v = x.X
		default:
			return false
		}
	}
	return false
}

// resolveKeyCell marks the state field handed to the entry callback at its
// `key` position as written from both sides by design (fallback: the table).
func (S *sidesInfo) resolveKeyCell() {
	if S.entrySig == nil {
		return
	}
	ki := -1
	for i := 0; i < S.entrySig.Params().Len(); i++ {
		if S.entrySig.Params().At(i).Name() == "key" {
			ki = i
		}
	}
	if ki < 0 {
		return
	}
	for _, fn := range S.fns {
		for _, ci := range CallsOf(fn) {
			if S.callbackKind(ci) != "entry" || ki >= len(ci.Common().Args) {
				continue
			}
			if sl := S.slotRef(ci.Common().Args[ki]); sl != nil && sl.owner == "state" && sl.exempt == "" {
				sl.exempt = sdExemptFields["state.curKey"]
				S.keyCell = sl
			}
		}
	}
}

func (S *sidesInfo) paramSlot(p *ssa.Parameter) *sdSlot {
	if s, ok := S.pslot[p]; ok {
		return s
	}
	s := &sdSlot{name: "parameter " + p.Name() + " of " + ir.FuncName(p.Parent()), param: p, owner: ir.FuncName(p.Parent()), isBool: sdIsBool(p.Type())}
	S.pslot[p] = s
	S.slots = append(S.slots, s)
	return s
}

func (S *sidesInfo) fieldSlot(f *types.Var, role string) *sdSlot {
	if s, ok := S.fslot[f]; ok {
		return s
	}
	s := &sdSlot{name: "field " + f.Name(), field: f, owner: role, isBool: sdIsBool(f.Type())}
	if role != "state" {
		s.name = "field " + role + "." + f.Name()
	}
	s.exempt = sdExemptFields[role+"."+f.Name()]
	S.fslot[f] = s
	S.slots = append(S.slots, s)
	return s
}

// sidedField: is field idx of the struct (pointed to) by x a slot?
func (S *sidesInfo) sidedField(t types.Type, idx int) *sdSlot {
	n, st := sdNamedStruct(t)
	if n == nil || st == nil || idx >= st.NumFields() {
		return nil
	}
	role, ok := S.sidedT[n.Obj()]
	if !ok {
		return nil
	}
	return S.fieldSlot(st.Field(idx), role)
}

// slotRef: v is the address of a slot field or a load of one (possibly
// through inner fields of the slot's value: &dc.oldStack.things).
func (S *sidesInfo) slotRef(v ssa.Value) *sdSlot {
	for i := 0; i < 12; i++ {
		switch x := v.(type) {
		case *ssa.FieldAddr:
			if s := S.sidedField(x.X.Type(), x.Field); s != nil {
				if o := S.snapOrigin[s]; o != nil {
					return o // a field of a snapshot of the state stands for the field it copies
				}
				return s
			}
			v = x.X
		case *ssa.Field:
			if s := S.sidedField(x.X.Type(), x.Field); s != nil {
				if o := S.snapOrigin[s]; o != nil {
					return o
				}
				return s
			}
			v = x.X
		case *ssa.UnOp:
			if x.Op != token.MUL {
				return nil
			}
			v = x.X
		case *ssa.MakeInterface:
			v = x.X
		case *ssa.ChangeType:
			v = x.X
		default:
			return nil
		}
	}
	return nil
}

// storeRoot walks the address of a store up to what is written into: a slot,
// or the value (allocation, parameter, call result) that owns the memory.
func (S *sidesInfo) storeRoot(addr ssa.Value) (*sdSlot, ssa.Value) {
	v := addr
	for i := 0; i < 16; i++ {
		switch x := v.(type) {
		case *ssa.FieldAddr:
			if s := S.sidedField(x.X.Type(), x.Field); s != nil {
				return s, nil
			}
			v = x.X
		case *ssa.IndexAddr:
			v = x.X
		case *ssa.Slice:
			v = x.X
		case *ssa.UnOp:
			if x.Op != token.MUL {
				return nil, v
			}
			v = x.X
		default:
			return nil, v
		}
	}
	return nil, v
}

// skipType: values of these types never carry a side (errors, contexts).
func sdSkipType(t types.Type) bool {
	if ir.IsErrorType(t) {
		return true
	}
	if n, ok := types.Unalias(t).(*types.Named); ok && n.Obj().Pkg() != nil && n.Obj().Pkg().Path() == "context" {
		return true
	}
	return false
}

// sideOf is the side of a value in the current state.
func (S *sidesInfo) sideOf(v ssa.Value) side {
	switch x := v.(type) {
	case nil:
		return sdNone
	case *ssa.Const, *ssa.Global, *ssa.Function, *ssa.Builtin:
		return sdNone
	case *ssa.Parameter:
		if sdSkipType(x.Type()) {
			return sdNone
		}
		if s, ok := S.pslot[x]; ok && !S.poly[x.Parent()] {
			return s.cur
		}
		return sdNone
	}
	return S.val[v]
}

// SideOf is the final side of a value (for the rules).
func (S *sidesInfo) SideOf(v ssa.Value) side { return S.sideOf(v) }

// agnostic: the body of fn touches no slot field, invokes no API callback and
// is not an API seed: it may be used for both sides (a polymorphic helper).
func (S *sidesInfo) agnostic(fn *ssa.Function) bool {
	for _, e := range S.entries {
		if e == fn {
			return false
		}
	}
	for _, p := range fn.Params {
		if s, ok := S.pslot[p]; ok && s.seed != sdNone {
			return false
		}
	}
	for _, b := range fn.Blocks {
		for _, ins := range b.Instrs {
			switch x := ins.(type) {
			case *ssa.FieldAddr:
				if S.sidedField(x.X.Type(), x.Field) != nil {
					return false
				}
			case *ssa.Field:
				if S.sidedField(x.X.Type(), x.Field) != nil {
					return false
				}
			case ssa.CallInstruction:
				if S.callbackKind(x) != "" && !S.wrapsLinkCallback(x) {
					return false
				}
			}
		}
	}
	return true
}

// callbackKind: "entry" / "link" for a dynamic call of a function value with
// the signature of DiffIter's / DiffLinks' callback; "" otherwise.
func (S *sidesInfo) callbackKind(ci ssa.CallInstruction) string {
	com := ci.Common()
	if com.IsInvoke() || ir.Callee(com) != nil {
		return ""
	}
	if _, ok := com.Value.(*ssa.Builtin); ok {
		return ""
	}
	sg, ok := com.Value.Type().Underlying().(*types.Signature)
	if !ok {
		return ""
	}
	if S.entrySig != nil && types.Identical(sg, S.entrySig) {
		return "entry"
	}
	if S.linkSig != nil && types.Identical(sg, S.linkSig) {
		return "link"
	}
	return ""
}

// ---- solving --------------------------------------------------------------------

func (S *sidesInfo) solve() {
	S.iterate()
	S.resolve()
}

// badness counts the disagreements of the current solution: votes against
// their slot, calls mixing the sides, callback arguments on the wrong side.
func (S *sidesInfo) badness() int {
	n := len(S.MixedCalls())
	for _, v := range S.votes {
		if v.slot.exempt == "" && v.slot.cur != sdNone && v.side != sdNone && v.side != v.slot.cur {
			if v.slot.param != nil && S.poly[v.slot.param.Parent()] {
				continue
			}
			n++
		}
	}
	for _, fn := range S.fns {
		for _, ci := range CallsOf(fn) {
			args := ci.Common().Args
			switch S.callbackKind(ci) {
			case "entry":
				for i, want := range S.entrySeed {
					if i < len(args) {
						if got := S.sideOf(args[i]); got != sdNone && got != want {
							n++
						}
					}
				}
			}
		}
	}
	dl, _ := S.LinkDeliveries()
	for _, d := range dl {
		want := sdNew
		if d.removed {
			want = sdOld
		}
		if got := S.sideOf(d.link); got != sdNone && got != want {
			n++
		}
	}
	return n
}

// conflicted lists the slots without a fixed side that receive votes of
// both sides.
func (S *sidesInfo) conflicted() []*sdSlot {
	var out []*sdSlot
	for _, s := range S.slots {
		if s.seed != sdNone || s.pin != sdNone || s.exempt != "" || s.cur == sdNone {
			continue
		}
		if s.param != nil && S.poly[s.param.Parent()] {
			continue
		}
		if o, n := S.Tally(s); o > 0 && n > 0 {
			out = append(out, s)
		}
	}
	return out
}

// resolve: the first solution gives every slot the first side that reached
// it. While some slots receive both sides, fix them (up to four at a time,
// all combinations tried) to the sides under which the whole solution has the
// fewest disagreements, so that the odd use is what is reported and not
// everything downstream of a wrongly sided slot.
func (S *sidesInfo) resolve() {
	for step := 0; step < 8 && !S.unstable; step++ {
		conf := S.conflicted()
		if len(conf) == 0 {
			return
		}
		pins := map[*sdSlot]side{}
		for _, s := range S.slots {
			pins[s] = s.pin
		}
		polys := map[*ssa.Function]bool{}
		for f := range S.poly {
			polys[f] = true
		}
		restore := func() {
			for _, s := range S.slots {
				s.pin = pins[s]
			}
			S.poly = map[*ssa.Function]bool{}
			for f := range polys {
				S.poly[f] = true
			}
			S.unstable = false
		}
		if len(conf) > 4 {
			conf = conf[:4]
		}
		cur := make([]side, len(conf))
		for i, s := range conf {
			cur[i] = s.cur
		}
		bestMask, bestBad := -1, -1
		for mask := 0; mask < 1<<len(conf); mask++ {
			restore()
			for i, s := range conf {
				s.pin = cur[i]
				if mask&(1<<i) != 0 {
					s.pin = cur[i] ^ sdBoth
				}
			}
			S.iterate()
			if S.unstable {
				continue
			}
			b := S.badness()
			if bestBad < 0 || b < bestBad {
				bestMask, bestBad = mask, b
			}
		}
		restore()
		if bestMask < 0 {
			S.iterate()
			S.unstable = true
			return
		}
		for i, s := range conf {
			s.pin = cur[i]
			if bestMask&(1<<i) != 0 {
				s.pin = cur[i] ^ sdBoth
			}
		}
		S.iterate()
	}
}

func (S *sidesInfo) iterate() {
	for S.rounds = 1; S.rounds <= 8; S.rounds++ {
		S.val = map[ssa.Value]side{}
		for _, s := range S.slots {
			s.cur = s.fixed()
		}
		S.propagate()
		S.votes = S.votes[:0]
		S.scan(func(ssa.Value, side) {}, func(v sdVote) { S.votes = append(S.votes, v) })
		if !S.detectPoly() {
			return
		}
	}
	S.unstable = true
}

// propagate: synchronous sweeps (facts derived in a sweep become visible in
// the next one), so that a slot takes the side with the shortest derivation
// from the seeds.
func (S *sidesInfo) propagate() {
	for sweep := 0; sweep < 200; sweep++ {
		pend := map[ssa.Value]side{}
		type tally struct {
			old, new int
			first    side
		}
		pv := map[*sdSlot]*tally{}
		S.scan(func(v ssa.Value, s side) {
			if s != sdNone && !sdSkipType(v.Type()) {
				pend[v] |= s
			}
		}, func(v sdVote) {
			if v.slot.cur != sdNone || v.slot.exempt != "" || !v.side.single() {
				return
			}
			t := pv[v.slot]
			if t == nil {
				t = &tally{first: v.side}
				pv[v.slot] = t
			}
			if v.side == sdOld {
				t.old++
			} else {
				t.new++
			}
		})
		changed := false
		for v, s := range pend {
			if S.val[v]|s != S.val[v] {
				S.val[v] |= s
				changed = true
			}
		}
		for sl, t := range pv {
			switch {
			case t.old > t.new:
				sl.cur = sdOld
			case t.new > t.old:
				sl.cur = sdNew
			default:
				sl.cur = t.first
			}
			changed = true
		}
		if !changed {
			return
		}
	}
	S.unstable = true
}

func (S *sidesInfo) detectPoly() bool {
	type ps struct{ old, new bool }
	seen := map[*ssa.Function]map[*sdSlot]*ps{}
	for _, v := range S.votes {
		if v.kind != "argument" || !v.side.single() {
			continue
		}
		fn := v.slot.param.Parent()
		if seen[fn] == nil {
			seen[fn] = map[*sdSlot]*ps{}
		}
		p := seen[fn][v.slot]
		if p == nil {
			p = &ps{}
			seen[fn][v.slot] = p
		}
		if v.side == sdOld {
			p.old = true
		} else {
			p.new = true
		}
	}
	changed := false
	for _, fn := range S.fns {
		if S.poly[fn] {
			continue
		}
		conflict := false
		for _, p := range seen[fn] {
			if p.old && p.new {
				conflict = true
			}
		}
		if conflict && S.agnostic(fn) {
			S.poly[fn] = true
			changed = true
		}
	}
	return changed
}

// Tally returns the single-sided votes a slot received.
func (S *sidesInfo) Tally(s *sdSlot) (old, new int) {
	for _, v := range S.votes {
		if v.slot == s {
			if v.side == sdOld {
				old++
			} else if v.side == sdNew {
				new++
			}
		}
	}
	return
}

// ---- transfer functions -----------------------------------------------------------

func (S *sidesInfo) scan(emitVal func(ssa.Value, side), emitVote func(sdVote)) {
	for _, fn := range S.fns {
		for _, b := range fn.Blocks {
			for _, ins := range b.Instrs {
				switch x := ins.(type) {
				case *ssa.FieldAddr:
					if s := S.sidedField(x.X.Type(), x.Field); s != nil {
						if s.exempt == "" {
							emitVal(x, s.cur)
						}
					} else {
						emitVal(x, S.sideOf(x.X))
					}
				case *ssa.Field:
					if s := S.sidedField(x.X.Type(), x.Field); s != nil {
						if s.exempt == "" {
							emitVal(x, s.cur)
						}
					} else {
						emitVal(x, S.sideOf(x.X))
					}
				case *ssa.IndexAddr:
					emitVal(x, S.sideOf(x.X))
				case *ssa.Index:
					emitVal(x, S.sideOf(x.X))
				case *ssa.Lookup:
					emitVal(x, S.sideOf(x.X))
				case *ssa.Slice:
					emitVal(x, S.sideOf(x.X))
				case *ssa.UnOp:
					if x.Op == token.MUL || x.Op == token.NOT {
						emitVal(x, S.sideOf(x.X))
					}
				case *ssa.MakeInterface:
					emitVal(x, S.sideOf(x.X))
				case *ssa.ChangeInterface:
					emitVal(x, S.sideOf(x.X))
				case *ssa.ChangeType:
					emitVal(x, S.sideOf(x.X))
				case *ssa.Convert:
					emitVal(x, S.sideOf(x.X))
				case *ssa.TypeAssert:
					emitVal(x, S.sideOf(x.X))
				case *ssa.Extract:
					if s, ok := S.extractSide(x); ok {
						emitVal(x, s)
					} else {
						emitVal(x, S.sideOf(x.Tuple))
					}
				case *ssa.Range:
					emitVal(x, S.sideOf(x.X))
				case *ssa.Next:
					emitVal(x, S.sideOf(x.Iter))
				case *ssa.Phi:
					s := sdNone
					for _, e := range x.Edges {
						s |= S.sideOf(e)
					}
					emitVal(x, s)
				case *ssa.MakeClosure:
					if cf, ok := x.Fn.(*ssa.Function); ok {
						for i, bv := range x.Bindings {
							if i < len(cf.FreeVars) {
								emitVal(cf.FreeVars[i], S.sideOf(bv))
							}
						}
					}
				case *ssa.Store:
					S.scanStore(x, emitVal, emitVote)
				case *ssa.MapUpdate:
					vs := S.sideOf(x.Value)
					if sl := S.slotRef(x.Map); sl != nil {
						if _, isC := x.Value.(*ssa.Const); !isC {
							emitVote(sdVote{slot: sl, side: vs, at: x, kind: "map-update", val: x.Value,
								desc: "entry " + sdDesc(x.Value) + " put into " + sl.name})
						}
					} else if _, root := S.storeRoot(x.Map); root != nil {
						if a, ok := root.(*ssa.Alloc); ok {
							emitVal(a, vs)
						}
					}
				case ssa.CallInstruction:
					S.scanCall(x, emitVal, emitVote)
				}
			}
		}
	}
}

// extractSide: x is one component of the result of a monomorphic function of
// the diff that returns several values (o, n := dc.popPair()): its side is
// that of the component in the callee's returns, not the join of all of them.
func (S *sidesInfo) extractSide(x *ssa.Extract) (side, bool) {
	call, ok := x.Tuple.(*ssa.Call)
	if !ok {
		return sdNone, false
	}
	callee := ir.Callee(call.Common())
	if callee == nil || !S.slice[callee] || S.poly[callee] {
		return sdNone, false
	}
	rets := ir.Returns(callee)
	if len(rets) == 0 {
		return sdNone, false
	}
	s := sdNone
	for _, r := range rets {
		if x.Index >= len(r.Results) {
			return sdNone, false
		}
		if op := r.Results[x.Index]; !sdSkipType(op.Type()) {
			s |= S.sideOf(op)
		}
	}
	return s, true
}

func sdConstTrue(v ssa.Value) bool {
	b, ok := ir.ConstBool(v)
	return ok && b
}

func (S *sidesInfo) scanStore(x *ssa.Store, emitVal func(ssa.Value, side), emitVote func(sdVote)) {
	vs := S.sideOf(x.Val)
	slot, root := S.storeRoot(x.Addr)
	if slot != nil {
		if _, isC := x.Val.(*ssa.Const); isC {
			if slot.isBool && sdConstTrue(x.Val) {
				emitVote(sdVote{slot: slot, side: S.blockCoSide(x), at: x, kind: "flag",
					desc: slot.name + " = true next to " + S.blockCoDesc(x)})
			}
			return
		}
		emitVote(sdVote{slot: slot, side: vs, at: x, kind: "store", val: x.Val,
			desc: slot.name + " = " + sdDesc(x.Val)})
		return
	}
	if a, ok := root.(*ssa.Alloc); ok {
		emitVal(a, vs)
	}
}

// blockCoSide: the side of the non-constant values stored into slots in the
// same basic block as the flag store st.
func (S *sidesInfo) blockCoSide(st *ssa.Store) side {
	s := sdNone
	for _, ins := range st.Block().Instrs {
		o, ok := ins.(*ssa.Store)
		if !ok || o == st {
			continue
		}
		if _, isC := o.Val.(*ssa.Const); isC {
			continue
		}
		if sl, _ := S.storeRoot(o.Addr); sl != nil {
			s |= S.sideOf(o.Val)
		}
	}
	return s
}

func (S *sidesInfo) blockCoDesc(st *ssa.Store) string {
	var names []string
	for _, ins := range st.Block().Instrs {
		o, ok := ins.(*ssa.Store)
		if !ok || o == st {
			continue
		}
		if _, isC := o.Val.(*ssa.Const); isC {
			continue
		}
		if sl, _ := S.storeRoot(o.Addr); sl != nil && sl.exempt == "" && sl.field != nil {
			names = append(names, sl.field.Name())
		}
	}
	if len(names) == 0 {
		return "no sided store"
	}
	sort.Strings(names)
	return strings.Join(names, ",")
}

// polyArg describes one argument of a call of a polymorphic helper.
type sdArg struct {
	v    ssa.Value
	side side
	ref  *sdSlot // the argument is (the address of / a load of) this slot
}

func (S *sidesInfo) callArgs(ci ssa.CallInstruction) []sdArg {
	var out []sdArg
	for _, a := range ci.Common().Args {
		if sdSkipType(a.Type()) {
			out = append(out, sdArg{v: a})
			continue
		}
		ref := S.slotRef(a)
		if ref != nil && ref.exempt != "" {
			ref = nil
		}
		out = append(out, sdArg{v: a, side: S.sideOf(a), ref: ref})
	}
	return out
}

// coVote: the side the co-arguments of argument i give it.
func sdCoVote(args []sdArg, i int) side {
	s := sdNone
	for j, a := range args {
		if j != i && a.ref == nil {
			s |= a.side
		}
	}
	if s != sdNone {
		return s
	}
	// no sided plain argument: fall back on the other slot references, but
	// only when no plain argument is still waiting for its side
	for j, a := range args {
		if j != i && a.ref == nil && sdPendingArg(a.v) {
			return sdNone
		}
	}
	for j, a := range args {
		if j != i && a.ref != nil {
			s |= a.side
		}
	}
	return s
}

func (S *sidesInfo) scanCall(ci ssa.CallInstruction, emitVal func(ssa.Value, side), emitVote func(sdVote)) {
	com := ci.Common()
	callee := ir.Callee(com)
	cv, isVal := ci.(*ssa.Call)
	switch {
	case callee != nil && S.slice[callee] && !S.poly[callee]:
		for i, a := range com.Args {
			if i >= len(callee.Params) || sdSkipType(callee.Params[i].Type()) {
				continue
			}
			if as := S.sideOf(a); as != sdNone {
				p := callee.Params[i]
				emitVote(sdVote{slot: S.paramSlot(p), side: as, at: ci, kind: "argument", val: a,
					desc: "argument " + p.Name() + " of " + callee.Name() + " = " + sdDesc(a)})
			}
		}
		if isVal {
			for _, r := range ir.Returns(callee) {
				for _, op := range r.Results {
					if !sdSkipType(op.Type()) {
						emitVal(cv, S.sideOf(op))
					}
				}
			}
		}
	case callee != nil && S.slice[callee] && S.poly[callee]:
		args := S.callArgs(ci)
		j := sdNone
		for i, a := range args {
			j |= a.side
			if a.ref != nil {
				if cs := sdCoVote(args, i); cs != sdNone {
					emitVote(sdVote{slot: a.ref, side: cs, at: ci, kind: "co-argument", val: a.v,
						desc: a.ref.name + " used by " + callee.Name() + " with " + S.coDesc(args, i)})
				}
			}
		}
		// the result takes the unanimous side of the arguments, once every
		// argument that can have a side has one (a call mixing the sides has
		// no result side: it is reported, its result is not propagated)
		if isVal && j.single() {
			pending := false
			for _, a := range args {
				if a.side == sdNone && (a.ref != nil || sdPendingArg(a.v)) {
					pending = true
				}
			}
			if !pending {
				emitVal(cv, j)
			}
		}
	default:
		if b, ok := com.Value.(*ssa.Builtin); ok && b.Name() == "append" && isVal {
			j := sdNone
			for _, a := range com.Args {
				j |= S.sideOf(a)
			}
			emitVal(cv, j)
		}
	}
}

func (S *sidesInfo) coDesc(args []sdArg, i int) string {
	var parts []string
	for j, a := range args {
		if j != i && a.side != sdNone {
			parts = append(parts, a.side.String()+" "+sdDesc(a.v))
		}
	}
	return strings.Join(parts, ", ")
}

// sdDesc renders a value by its dataflow origin: field names, callee names,
// parameter names — never SSA registers.
func sdDesc(v ssa.Value) string { return sdDescD(v, 0) }

func sdDescD(v ssa.Value, d int) string {
	if v == nil || d > 8 {
		return "…"
	}
	v = ir.ResolveCell(v)
	switch x := v.(type) {
	case *ssa.Const:
		if x.Value == nil {
			return "nil"
		}
		return x.Value.ExactString()
	case *ssa.Parameter:
		return x.Name()
	case *ssa.FreeVar:
		return x.Name()
	case *ssa.Global:
		return x.Name()
	case *ssa.Alloc:
		if x.Comment != "" {
			return x.Comment
		}
		return "local"
	case *ssa.FieldAddr:
		return sdDescD(x.X, d+1) + "." + ir.FieldName(x.X.Type(), x.Field)
	case *ssa.Field:
		return sdDescD(x.X, d+1) + "." + ir.FieldName(x.X.Type(), x.Field)
	case *ssa.IndexAddr:
		return sdDescD(x.X, d+1) + "[" + sdDescD(x.Index, d+1) + "]"
	case *ssa.Index:
		return sdDescD(x.X, d+1) + "[" + sdDescD(x.Index, d+1) + "]"
	case *ssa.Lookup:
		return sdDescD(x.X, d+1) + "[…]"
	case *ssa.Slice:
		return sdDescD(x.X, d+1) + "[:]"
	case *ssa.UnOp:
		if x.Op == token.MUL {
			return sdDescD(x.X, d+1)
		}
		return x.Op.String() + sdDescD(x.X, d+1)
	case *ssa.MakeInterface:
		return sdDescD(x.X, d+1)
	case *ssa.ChangeInterface:
		return sdDescD(x.X, d+1)
	case *ssa.ChangeType:
		return sdDescD(x.X, d+1)
	case *ssa.Convert:
		return sdDescD(x.X, d+1)
	case *ssa.TypeAssert:
		return sdDescD(x.X, d+1)
	case *ssa.Extract:
		return sdDescD(x.Tuple, d+1)
	case *ssa.Phi:
		return "φ"
	case *ssa.Call:
		n := "call"
		if sc := ir.Callee(x.Call); sc != nil {
			n = sc.Name()
		} else if b, ok := x.Call.Value.(*ssa.Builtin); ok {
			n = b.Name()
		} else if !x.Call.IsInvoke() {
			n = describeFuncValue(x.Call.Value)
		} else {
			n = x.Call.Method.Name()
		}
		var as []string
		for _, a := range x.Call.Args {
			if sdSkipType(a.Type()) {
				continue
			}
			if _, isC := a.(*ssa.Const); isC {
				continue
			}
			as = append(as, sdDescD(a, d+2))
		}
		return n + "(" + strings.Join(as, ",") + ")"
	}
	return fmt.Sprintf("%T", v)
}

// sdPendingArg: an unsided argument that could carry a side (a reference to
// existing memory, not a constant or a fresh allocation).
func sdPendingArg(v ssa.Value) bool {
	if sdSkipType(v.Type()) || sdFresh(v) {
		return false
	}
	switch v.Type().Underlying().(type) {
	case *types.Pointer, *types.Interface, *types.Slice, *types.Map, *types.Struct:
		return true
	}
	return false
}

// MixedCalls lists the calls of polymorphic helpers whose sided arguments
// (other than slot references) disagree.
func (S *sidesInfo) MixedCalls() []*ssa.Call {
	var out []*ssa.Call
	for _, fn := range S.fns {
		for _, ci := range CallsOf(fn) {
			call, ok := ci.(*ssa.Call)
			callee := ir.Callee(ci.Common())
			if !ok || callee == nil || !S.slice[callee] || !S.poly[callee] {
				continue
			}
			if _, _, _, isEq := S.eqHelper(callee); isEq {
				continue // a comparison of its arguments: not a sink
			}
			j := sdNone
			for _, a := range S.callArgs(ci) {
				if a.ref == nil {
					j |= a.side
				}
			}
			if j == sdBoth {
				out = append(out, call)
			}
		}
	}
	return out
}

// Poisoned: the values computed from the result of a mixed call (their side
// is unknown because of a construct that is already reported).
func (S *sidesInfo) Poisoned() map[ssa.Value]bool {
	po := map[ssa.Value]bool{}
	var work []ssa.Value
	for _, c := range S.MixedCalls() {
		po[c] = true
		work = append(work, c)
	}
	for len(work) > 0 {
		v := work[len(work)-1]
		work = work[:len(work)-1]
		if v.Referrers() == nil {
			continue
		}
		for _, r := range *v.Referrers() {
			rv, ok := r.(ssa.Value)
			if !ok || po[rv] {
				continue
			}
			if _, isCall := rv.(*ssa.Call); isCall {
				continue
			}
			po[rv] = true
			work = append(work, rv)
		}
	}
	return po
}

// sdExpandFacts adds what a fact about a φ of a short-circuit expression in
// value position implies (`switch { case a && b: }` compiles to
// φ[false, b]): if only one incoming edge can give the φ the asserted truth
// value, the facts of that edge hold too.
func sdExpandFacts(facts []ir.Fact, depth int) []ir.Fact {
	out := append([]ir.Fact(nil), facts...)
	if depth > 4 {
		return out
	}
	for _, f := range facts {
		cond, truth := f.Cond, f.Truth
		for {
			u, ok := cond.(*ssa.UnOp)
			if !ok || u.Op != token.NOT {
				break
			}
			cond, truth = u.X, !truth
		}
		phi, ok := cond.(*ssa.Phi)
		if !ok {
			continue
		}
		feasible := -1
		n := 0
		for i, e := range phi.Edges {
			if k, isC := ir.ConstBool(e); isC && k != truth {
				continue
			}
			feasible = i
			n++
		}
		if n != 1 {
			continue
		}
		var add []ir.Fact
		if _, isC := phi.Edges[feasible].(*ssa.Const); !isC {
			add = append(add, ir.Fact{Cond: phi.Edges[feasible], Truth: truth, From: phi.Block().Preds[feasible]})
		}
		add = append(add, ir.EdgeFacts(phi.Block().Preds[feasible], phi.Block())...)
		out = append(out, sdExpandFacts(add, depth+1)...)
	}
	return out
}

// sdEvalCond evaluates a branch condition under a valuation of some values
// (leaf returns value, known); φs of short-circuit expressions are evaluated
// through the feasibility of their incoming edges.
func sdEvalCond(cond ssa.Value, leaf func(ssa.Value) (bool, bool), depth int) (bool, bool) {
	if depth > 6 {
		return false, false
	}
	if v, ok := leaf(cond); ok {
		return v, true
	}
	switch x := cond.(type) {
	case *ssa.Const:
		return ir.ConstBool(x)
	case *ssa.UnOp:
		if x.Op == token.NOT {
			v, ok := sdEvalCond(x.X, leaf, depth+1)
			return !v, ok
		}
	case *ssa.Phi:
		res, have := false, false
		for i, e := range x.Edges {
			feasible := true
			for _, f := range ir.EdgeFacts(x.Block().Preds[i], x.Block()) {
				if v, ok := sdEvalCond(f.Cond, leaf, depth+1); ok && v != f.Truth {
					feasible = false
				}
			}
			if !feasible {
				continue
			}
			v, ok := sdEvalCond(e, leaf, depth+1)
			if !ok || (have && v != res) {
				return false, false
			}
			res, have = v, true
		}
		return res, have
	}
	return false, false
}

// sdDelivery is one hand-over of a link to the link callback with a known
// `removed` constant: the callback call itself, or — when the call sits in a
// helper that receives both `removed` and the link as parameters — the call
// of that helper.
type sdDelivery struct {
	at      ssa.CallInstruction
	removed bool
	link    ssa.Value
	via     string // helper chain, "" for a direct call
}

func sdParamIndex(fn *ssa.Function, v ssa.Value) int {
	p, ok := ir.ResolveCell(ir.Strip(v)).(*ssa.Parameter)
	if !ok {
		return -1
	}
	for i, q := range fn.Params {
		if q == p {
			return i
		}
	}
	return -1
}

// wrapsLinkCallback: ci is a link callback call whose `removed` and link
// arguments are parameters of the enclosing function.
func (S *sidesInfo) wrapsLinkCallback(ci ssa.CallInstruction) bool {
	if S.callbackKind(ci) != "link" {
		return false
	}
	args := ci.Common().Args
	if S.linkRemovedIdx >= len(args) || S.linkLinkIdx >= len(args) {
		return false
	}
	fn := ci.Parent()
	return sdParamIndex(fn, args[S.linkRemovedIdx]) >= 0 && sdParamIndex(fn, args[S.linkLinkIdx]) >= 0
}

// LinkDeliveries resolves every link callback invocation of the diff to
// deliveries with a constant `removed`; unresolved lists the calls for which
// that is not possible.
func (S *sidesInfo) LinkDeliveries() (out []sdDelivery, unresolved []ssa.CallInstruction) {
	var resolve func(at ssa.CallInstruction, rem, link ssa.Value, via string, depth int) bool
	resolve = func(at ssa.CallInstruction, rem, link ssa.Value, via string, depth int) bool {
		if k, ok := ir.ConstBool(rem); ok {
			out = append(out, sdDelivery{at: at, removed: k, link: link, via: via})
			return true
		}
		fn := at.Parent()
		ri, li := sdParamIndex(fn, rem), sdParamIndex(fn, link)
		if ri < 0 || li < 0 || depth >= 2 {
			return false
		}
		n := 0
		for _, cs := range S.P.Callers[fn] {
			if !S.slice[cs.Parent()] {
				continue
			}
			a := cs.Common().Args
			if ri >= len(a) || li >= len(a) {
				return false
			}
			n++
			v := fn.Name()
			if via != "" {
				v = fn.Name() + " ← " + via
			}
			if !resolve(cs, a[ri], a[li], v, depth+1) {
				return false
			}
		}
		return n > 0
	}
	for _, fn := range S.fns {
		for _, ci := range CallsOf(fn) {
			if S.callbackKind(ci) != "link" {
				continue
			}
			args := ci.Common().Args
			if S.linkRemovedIdx >= len(args) || S.linkLinkIdx >= len(args) || !resolve(ci, args[S.linkRemovedIdx], args[S.linkLinkIdx], "", 0) {
				unresolved = append(unresolved, ci)
			}
		}
	}
	return
}

// sdEqCmp is a comparison of two values for (in)equality: a == / != instruction,
// or a call of a private predicate helper all of whose returns are such a
// comparison of two of its parameters (`func sameLink(a, b) bool { return a == b }`)
// — then X, Y are the arguments and Eq is read off the helper.
type sdEqCmp struct {
	X, Y   ssa.Value
	Eq     bool            // a true result means X == Y
	Val    ssa.Value       // the boolean result
	At     ssa.Instruction // the comparison / the call
	Helper *ssa.Function   // nil for a plain comparison
}

type sdEqHelperInfo struct {
	i, j int
	eq   bool
	ok   bool
}

var sdEqHelperCache = map[*ssa.Function]sdEqHelperInfo{}

// eqHelper: fn is a private function of the repository with one boolean result
// whose every return is the comparison (possibly negated) of the same two parameters.
func (S *sidesInfo) eqHelper(fn *ssa.Function) (i, j int, eq bool, ok bool) {
	if fn == nil {
		return 0, 0, false, false
	}
	if h, seen := sdEqHelperCache[fn]; seen {
		return h.i, h.j, h.eq, h.ok
	}
	res := sdEqHelperInfo{}
	defer func() { sdEqHelperCache[fn] = res }()
	if !isOwn(S.P, fn) || fn.Object() == nil || fn.Object().Exported() || fn.Signature.Results().Len() != 1 || !sdIsBool(fn.Signature.Results().At(0).Type()) {
		return 0, 0, false, false
	}
	rets := ir.Returns(fn)
	if len(rets) == 0 {
		return 0, 0, false, false
	}
	first := true
	for _, r := range rets {
		v, neg := r.Results[0], false
		for {
			u, isU := v.(*ssa.UnOp)
			if !isU || u.Op != token.NOT {
				break
			}
			v, neg = u.X, !neg
		}
		bin, isB := v.(*ssa.BinOp)
		if !isB || (bin.Op != token.EQL && bin.Op != token.NEQ) {
			return 0, 0, false, false
		}
		pi, pj := sdParamIndex(fn, bin.X), sdParamIndex(fn, bin.Y)
		if pi < 0 || pj < 0 || pi == pj {
			return 0, 0, false, false
		}
		e := (bin.Op == token.EQL) != neg
		if pi > pj {
			pi, pj = pj, pi
		}
		if first {
			res.i, res.j, res.eq, first = pi, pj, e, false
		} else if res.i != pi || res.j != pj || res.eq != e {
			return 0, 0, false, false
		}
	}
	res.ok = true
	return res.i, res.j, res.eq, true
}

// eqCompare decodes an instruction as a comparison for (in)equality.
func (S *sidesInfo) eqCompare(ins ssa.Instruction) (sdEqCmp, bool) {
	switch x := ins.(type) {
	case *ssa.BinOp:
		if x.Op == token.EQL || x.Op == token.NEQ {
			return sdEqCmp{X: x.X, Y: x.Y, Eq: x.Op == token.EQL, Val: x, At: x}, true
		}
	case *ssa.Call:
		callee := ir.Callee(x.Common())
		if i, j, eq, ok := S.eqHelper(callee); ok && j < len(x.Call.Args) {
			return sdEqCmp{X: x.Call.Args[i], Y: x.Call.Args[j], Eq: eq, Val: x, At: x, Helper: callee}, true
		}
	}
	return sdEqCmp{}, false
}

// itemTest decodes a branch condition as a nil test of a stack item or of an
// item's link: `it == nil`, `it.link != nil` (either operand order, through
// `!`), or a call of a private predicate method whose single return is such a
// test of its receiver's link (`func (it *iterItem) isLink() bool { return
// it.link != nil }`) — then the item is the receiver argument and the
// polarity is read off the predicate.
func (S *sidesInfo) itemTest(cond ssa.Value) (item ssa.Value, linkTest bool, trueMeansNonNil bool, ok bool) {
	if v, tnn, isNil := ir.NilTest(cond); isNil {
		if it, isLink := S.itemLink(v); isLink {
			return it, true, tnn, true
		}
		return ir.ResolveCell(ir.Strip(v)), false, tnn, true
	}
	neg := false
	for {
		u, isU := cond.(*ssa.UnOp)
		if !isU || u.Op != token.NOT {
			break
		}
		cond, neg = u.X, !neg
	}
	call, isCall := cond.(*ssa.Call)
	if !isCall {
		return nil, false, false, false
	}
	fn := ir.Callee(call.Common())
	if fn == nil || !isOwn(S.P, fn) || fn.Object() == nil || fn.Object().Exported() || fn.Signature.Results().Len() != 1 || !sdIsBool(fn.Signature.Results().At(0).Type()) {
		return nil, false, false, false
	}
	rets := ir.Returns(fn)
	if len(rets) != 1 {
		return nil, false, false, false
	}
	v, tnn, isNil := ir.NilTest(rets[0].Results[0])
	if !isNil {
		return nil, false, false, false
	}
	it, isLink := S.itemLink(v)
	if !isLink {
		return nil, false, false, false
	}
	pi := sdParamIndex(fn, it)
	if pi < 0 || pi >= len(call.Call.Args) {
		return nil, false, false, false
	}
	return ir.ResolveCell(ir.Strip(call.Call.Args[pi])), true, tnn != neg, true
}
