package rules

import (
	"go/types"
	"sort"
	"strings"

	"golang.org/x/tools/go/ssa"

	"mastcheck/ir"
)

// Private helpers are anchored by name first; when a refactoring renames one,
// the rule falls back on its role, described by receiver and signature (types
// are semantic facts, not text): exactly one unexported function of package
// mast must match, otherwise the anchor stays unresolved (fail closed).
var roleSignatures = map[string]string{
	"(*Mast).load":            "*Mast|Context,interface{}|*mastNode,error",
	"(*Mast).loadPersisted":   "*Mast|Context,string|*mastNode,error",
	"(*Mast).store":           "*Mast|*mastNode|interface{},error",
	"(*Mast).diffOne":         "*Mast|Context,*diffState|error",
	"(*Mast).alreadyNotified": "*Mast|Context,string,map[uint8]interface{},interface{}|bool",
	"(*mastNode).findNode":    "*mastNode|Context,*Mast,interface{},*findOptions|*mastNode,int,error",
	"(*Cursor).search1":       "*Cursor|Context,interface{}|error",
	"findEntry":               "|Context,*Mast,interface{},interface{},*findOptions|*mastNode,int,error",
	"marshalMastNode":         "|*mastNode,func(interface{}) ([]byte, error)|[]byte,error",
	"unmarshalMastNode":       "|*Mast,[]byte,*mastNode|error",
	"(*Mast).flush":           "*Mast|Context|string,error",
}

func sigKey(fn *ssa.Function) string {
	q := func(*types.Package) string { return "" }
	sig := fn.Signature
	recv := ""
	if sig.Recv() != nil {
		recv = types.TypeString(sig.Recv().Type(), q)
	}
	var ps, rs []string
	for i := 0; i < sig.Params().Len(); i++ {
		ps = append(ps, types.TypeString(sig.Params().At(i).Type(), q))
	}
	for i := 0; i < sig.Results().Len(); i++ {
		rs = append(rs, types.TypeString(sig.Results().At(i).Type(), q))
	}
	s := recv + "|" + strings.Join(ps, ",") + "|" + strings.Join(rs, ",")
	return strings.ReplaceAll(s, "any", "interface{}")
}

// looseKey ignores whether the tree / node is the receiver or an ordinary
// parameter and in which order parameters come: the multiset of parameter types
// (receiver included) plus the results.
func looseKey(k string) string {
	parts := strings.SplitN(k, "|", 3)
	if len(parts) != 3 {
		return k
	}
	var ps []string
	if parts[0] != "" {
		ps = append(ps, parts[0])
	}
	if parts[1] != "" {
		ps = append(ps, splitTop(parts[1])...)
	}
	sort.Strings(ps)
	return strings.Join(ps, ",") + "|" + parts[2]
}

// splitTop splits a comma-separated type list, not inside brackets/parens.
func splitTop(s string) []string {
	var out []string
	depth, start := 0, 0
	for i, r := range s {
		switch r {
		case '(', '[', '{':
			depth++
		case ')', ']', '}':
			depth--
		case ',':
			if depth == 0 {
				out = append(out, s[start:i])
				start = i + 1
			}
		}
	}
	return append(out, s[start:])
}

// roleFunc finds the unique unexported function of package mast with the
// signature recorded for the role `name`.
func roleFunc(P *ir.Program, name string) *ssa.Function {
	want, ok := roleSignatures[name]
	if !ok {
		return nil
	}
	var found *ssa.Function
	for _, fn := range P.Funcs {
		if fn.Parent() != nil || fn.Pkg.Pkg.Path() != ir.MastPath || fn.Object() == nil || fn.Object().Exported() {
			continue
		}
		if sigKey(fn) == want {
			if found != nil {
				return nil // ambiguous
			}
			found = fn
		}
	}
	if found != nil {
		return found
	}
	// function ↔ method, reordered parameters
	for _, fn := range P.Funcs {
		if fn.Parent() != nil || fn.Pkg.Pkg.Path() != ir.MastPath || fn.Object() == nil || fn.Object().Exported() {
			continue
		}
		if looseKey(sigKey(fn)) == looseKey(want) {
			if found != nil {
				return nil
			}
			found = fn
		}
	}
	return found
}

// The element type of a descent path ("pathEntry": a node and a position in it) and its two fields are unexported
// names a refactoring may change; they are resolved by structure: the struct type of package mast with exactly one
// *mastNode field and exactly one int field that is the element type of a slice-typed field of the exported Cursor.
type pathNamesT struct{ typ, node, idx string }

var pathNamesMemo = map[*ir.Program]pathNamesT{}

func pathNames(P *ir.Program) pathNamesT {
	if r, ok := pathNamesMemo[P]; ok {
		return r
	}
	res := pathNamesT{"pathEntry", "node", "linkIndex"}
	if mp := P.SPkgs[ir.MastPath]; mp != nil && mp.Pkg != nil {
		if obj := mp.Pkg.Scope().Lookup("Cursor"); obj != nil {
			if st, ok := obj.Type().Underlying().(*types.Struct); ok {
				var found []pathNamesT
				for i := 0; i < st.NumFields(); i++ {
					sl, ok := st.Field(i).Type().Underlying().(*types.Slice)
					if !ok {
						continue
					}
					named, ok := types.Unalias(sl.Elem()).(*types.Named)
					if !ok {
						continue
					}
					es, ok := named.Underlying().(*types.Struct)
					if !ok {
						continue
					}
					var nodes, ints []string
					for j := 0; j < es.NumFields(); j++ {
						ft := es.Field(j).Type()
						if isNodePtr(ft) {
							nodes = append(nodes, es.Field(j).Name())
						} else if b, ok := ft.Underlying().(*types.Basic); ok && b.Kind() == types.Int {
							ints = append(ints, es.Field(j).Name())
						}
					}
					if len(nodes) == 1 && len(ints) == 1 {
						found = append(found, pathNamesT{named.Obj().Name(), nodes[0], ints[0]})
					}
				}
				if len(found) == 1 {
					res = found[0]
				}
			}
		}
	}
	pathNamesMemo[P] = res
	return res
}

// names of the two fields of a path entry in the program under analysis (set when its facts are built)
var posFieldName, nodeFieldName = "linkIndex", "node"
