package rules

import (
	"go/types"
	"strings"

	"golang.org/x/tools/go/ssa"

	"mastcheck/ir"
)

// Private helpers are anchored by name first; when a refactoring renames one,
// the rule falls back on its role, described by receiver and signature (types
// are semantic facts, not text): exactly one unexported function of package
// mast must match, otherwise the anchor stays unresolved (fail closed).
var roleSignatures = map[string]string{
	"(*Mast).load":            "*Mast|Context,interface{}|*mastNode,error",
	"(*Mast).loadPersisted":   "*Mast|Context,string|*mastNode,error",
	"(*Mast).store":           "*Mast|*mastNode|interface{},error",
	"(*Mast).diffOne":         "*Mast|Context,*diffState|error",
	"(*Mast).alreadyNotified": "*Mast|Context,string,map[uint8]interface{},interface{}|bool",
	"(*mastNode).findNode":    "*mastNode|Context,*Mast,interface{},*findOptions|*mastNode,int,error",
	"(*Cursor).search1":       "*Cursor|Context,interface{}|error",
	"findEntry":               "|Context,*Mast,interface{},interface{},*findOptions|*mastNode,int,error",
	"marshalMastNode":         "|*mastNode,func(interface{}) ([]byte, error)|[]byte,error",
	"unmarshalMastNode":       "|*Mast,[]byte,*mastNode|error",
	"(*Mast).flush":           "*Mast|Context|string,error",
}

func sigKey(fn *ssa.Function) string {
	q := func(*types.Package) string { return "" }
	sig := fn.Signature
	recv := ""
	if sig.Recv() != nil {
		recv = types.TypeString(sig.Recv().Type(), q)
	}
	var ps, rs []string
	for i := 0; i < sig.Params().Len(); i++ {
		ps = append(ps, types.TypeString(sig.Params().At(i).Type(), q))
	}
	for i := 0; i < sig.Results().Len(); i++ {
		rs = append(rs, types.TypeString(sig.Results().At(i).Type(), q))
	}
	s := recv + "|" + strings.Join(ps, ",") + "|" + strings.Join(rs, ",")
	return strings.ReplaceAll(s, "any", "interface{}")
}

// roleFunc finds the unique unexported function of package mast with the
// signature recorded for the role `name`.
func roleFunc(P *ir.Program, name string) *ssa.Function {
	want, ok := roleSignatures[name]
	if !ok {
		return nil
	}
	var found *ssa.Function
	for _, fn := range P.Funcs {
		if fn.Parent() != nil || fn.Pkg.Pkg.Path() != ir.MastPath || fn.Object() == nil || fn.Object().Exported() {
			continue
		}
		if sigKey(fn) == want {
			if found != nil {
				return nil // ambiguous
			}
			found = fn
		}
	}
	return found
}
