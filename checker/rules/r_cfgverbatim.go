package rules

// CFGVERBATIM — the tree runs on the codec and the key functions the caller configured.
//
// LoadMast / NewInMemory install four function values in the tree: marshal, unmarshal, keyOrder, keyLayer. The encode
// and decode rules (CODECSYM, EMITGRAMMAR, ELEMDECODE, …) reason about what the repository does *around* calls of
// Mast.marshal / Mast.unmarshal; they take those fields to be the caller's functions (or the JSON defaults). A
// constructor that installs a wrapper instead — `compactMarshal(config.Marshal)` stripping a trailing newline
// (adv16-D-a3: with a gob or raw-string codec every value ending in "\n" is stored one byte short), `zeroFromEmpty(
// config.Unmarshal)` mapping empty input to nil (adv16-D-a4: a zero-byte top node decodes to an empty node and passes
// the root check) — changes every encoding without touching any of the code those rules look at.

import (
	"go/token"
	"go/types"
	"strings"

	"golang.org/x/tools/go/ssa"

	"mastcheck/ir"
)

func init() {
	Register(&Rule{ID: "CFGVERBATIM", Props: []string{"C05", "C19", "C08", "C14", "C01"}, Min: 4,
		Doc: "the function values a tree works with are the configured ones, installed as they are: every store into Mast.marshal, Mast.unmarshal, Mast.keyOrder or Mast.keyLayer stores (possibly through a φ of several of these) the corresponding function field of the caller's configuration, a package-level function or variable of the repository (the JSON defaults FORMATCONST_CONSTS pins), the result of one of the repository's exported Default… constructors, the same field of another tree, or nil — never a closure or call result wrapped around the configured function.",
		Run: runCFGVERBATIM})
}

func runCFGVERBATIM(c *Ctx) {
	P := c.P
	fields := map[string]bool{"marshal": true, "unmarshal": true, "keyOrder": true, "keyLayer": true}
	// env: inside a helper followed from a call site, the helper's parameters stand for the call's arguments
	type cfgEnv struct {
		args map[*ssa.Parameter]ssa.Value
		up   *cfgEnv
	}
	var okIn func(v ssa.Value, field string, d int, env *cfgEnv) (bool, string)
	// helperResult: result #idx of a static call of a repository helper is the helper's idx-th operand on every return
	helperResult := func(call *ssa.Call, idx int, field string, d int, env *cfgEnv) (bool, string, bool) {
		callee := ir.Callee(call.Common())
		if callee == nil || !fxOwnFunc(callee) || call.Common().IsInvoke() || len(callee.FreeVars) != 0 || len(callee.Params) != len(call.Common().Args) {
			return false, "", false
		}
		sub := &cfgEnv{args: map[*ssa.Parameter]ssa.Value{}, up: env}
		for i, q := range callee.Params {
			sub.args[q] = call.Common().Args[i]
		}
		var ds []string
		for _, r := range ir.Returns(callee) {
			if idx >= len(r.Results) {
				return false, "", false
			}
			k, d2 := okIn(r.Results[idx], field, d+1, sub)
			if !k {
				return false, d2 + " (returned by " + callee.Name() + ")", true
			}
			ds = append(ds, d2)
		}
		if len(ds) == 0 {
			return false, "", false
		}
		return true, callee.Name() + "(…) returning " + strings.Join(uniq(ds), " / "), true
	}
	ok := func(v ssa.Value, field string, d int) (bool, string) { return okIn(v, field, d, nil) }
	okIn = func(v ssa.Value, field string, d int, env *cfgEnv) (bool, string) {
		ok := func(v ssa.Value, field string, d int) (bool, string) { return okIn(v, field, d, env) }
		if d > 6 {
			return false, "too deep"
		}
		v = ir.ResolveCell(v)
		if ir.IsNilConst(v) {
			return true, "nil"
		}
		switch x := v.(type) {
		case *ssa.ChangeType:
			return ok(x.X, field, d+1)
		case *ssa.Function:
			if x.Parent() == nil && x.Pkg != nil && strings.HasPrefix(x.Pkg.Pkg.Path(), ir.MastPath) {
				return true, "package-level function " + x.Name()
			}
			if x.Parent() == nil {
				return true, "function " + x.String()
			}
			return false, "a closure (" + x.Name() + ")"
		case *ssa.UnOp:
			if x.Op != token.MUL {
				return false, "computed value"
			}
			switch a := x.X.(type) {
			case *ssa.Global:
				return true, "package-level variable " + a.Name()
			case *ssa.FieldAddr:
				fname := ir.FieldName(a.X.Type(), a.Field)
				if ir.IsPtrToNamed(a.X.Type(), "Mast") {
					if fname == field {
						return true, "the same field of another tree"
					}
					if field == "keyOrder" || field == "keyLayer" {
						return false, "Mast." + fname
					}
					return false, "Mast." + fname
				}
				if ft, isSig := a.Type().Underlying().(*types.Pointer).Elem().Underlying().(*types.Signature); isSig && ft != nil {
					return true, "configuration field " + fname
				}
				return false, "field " + fname
			}
			return false, "loaded from " + pathDesc(ir.Sym(x.X))
		case *ssa.Phi:
			var ds []string
			for _, e := range x.Edges {
				k, d2 := ok(e, field, d+1)
				if !k {
					return false, d2
				}
				ds = append(ds, d2)
			}
			return true, "φ(" + strings.Join(uniq(ds), ", ") + ")"
		case *ssa.Call:
			if callee := ir.Callee(x.Common()); callee != nil && callee.Parent() == nil && callee.Pkg != nil &&
				strings.HasPrefix(callee.Pkg.Pkg.Path(), ir.MastPath) && strings.HasPrefix(callee.Name(), "Default") && token.IsExported(callee.Name()) {
				return true, "result of " + callee.Name()
			}
			if callee := ir.Callee(x.Common()); callee != nil {
				if k, d2, decided := helperResult(x, 0, field, d, env); decided {
					return k, d2
				}
				return false, "the result of " + callee.Name() + "(…)"
			}
			return false, "a call result"
		case *ssa.Extract:
			if call, isCall := x.Tuple.(*ssa.Call); isCall {
				if k, d2, decided := helperResult(call, x.Index, field, d, env); decided {
					return k, d2
				}
			}
			return false, "a call result"
		case *ssa.MakeClosure:
			return false, "a closure (" + x.Fn.Name() + ")"
		case *ssa.Parameter:
			if env != nil {
				if a, has := env.args[x]; has {
					return okIn(a, field, d+1, env.up)
				}
				return false, "parameter " + x.Name() + " of a helper"
			}
			return true, "parameter " + x.Name()
		}
		return false, pathDesc(ir.Sym(v))
	}
	for _, fn := range P.Funcs {
		if fn.Pkg == nil || fn.Pkg.Pkg.Path() != ir.MastPath {
			continue
		}
		for _, b := range fn.Blocks {
			if ir.IsDead(b) {
				continue
			}
			for _, ins := range b.Instrs {
				_, f, st, isSt := mastFieldStore(ins)
				if !isSt || !fields[f] {
					continue
				}
				pos := P.InstrPos(st)
				good, desc := ok(st.Val, f, 0)
				if good {
					c.OK(pos, "Mast."+f+" set in "+ir.FuncName(fn), desc, false)
				} else {
					c.Violation(fn, pos, "Mast."+f+" is not the configured function",
						"Mast."+f+" is set to "+desc+" instead of the configured function (or the repository's default): whatever the wrapper does to the bytes or to the comparison applies to every node the tree writes and reads, outside everything the encode/decode rules examine — encodings that no longer round-trip, nodes that hash differently, a top node that passes the root check although it is not what was stored")
				}
			}
		}
	}
}
