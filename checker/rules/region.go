package rules

import (
	"sort"

	"golang.org/x/tools/go/ssa"

	"mastcheck/ir"
)

// A rule anchored at an entry point ("the loop of Insert that grows the tree") must not depend on whether the code
// it looks for sits in the entry function itself or in a private helper extracted from it. The region of an entry E
// is E together with the private helpers that are called from nowhere else: unexported, never used as a value, and
// every static call site lies in the region (computed as a greatest fixpoint over the helpers reachable from E).
// Analysing the region is analysing the function a maintainer would get by inlining those helpers back.

func privateHelper(c *Ctx, fn *ssa.Function) bool {
	return fn != nil && fn.Parent() == nil && fn.Blocks != nil && fn.Object() != nil && !fn.Object().Exported() &&
		!c.Facts.addrTaken[fn] && len(c.P.Callers[fn]) > 0 && fn.Pkg != nil && fn.Pkg.Pkg.Path() == ir.MastPath
}

// regionOf returns E first, then its private helpers in source order.
func regionOf(c *Ctx, E *ssa.Function) []*ssa.Function {
	in := map[*ssa.Function]bool{E: true}
	var work = []*ssa.Function{E}
	for len(work) > 0 {
		f := work[0]
		work = work[1:]
		for _, g := range append([]*ssa.Function{f}, f.AnonFuncs...) {
			for _, ci := range CallsOf(g) {
				h := ir.Callee(ci.Common())
				if h == nil || in[h] || !privateHelper(c, h) {
					continue
				}
				in[h] = true
				work = append(work, h)
			}
		}
	}
	for changed := true; changed; {
		changed = false
		for h := range in {
			if h == E {
				continue
			}
			for _, cs := range c.P.Callers[h] {
				if _, isCall := cs.(*ssa.Call); !isCall || !in[ir.Outermost(cs.Parent())] {
					delete(in, h)
					changed = true
					break
				}
			}
		}
	}
	out := []*ssa.Function{}
	for h := range in {
		if h != E {
			out = append(out, h)
		}
	}
	sort.Slice(out, func(i, j int) bool { return ir.PosLess(out[i].Pos(), out[j].Pos()) })
	return append([]*ssa.Function{E}, out...)
}

// rsite is a call instruction of the region with the chain of calls that leads to its function from the entry
// (empty for a call in the entry itself). A helper with several call sites yields one rsite per chain.
type rsite struct {
	ci    ssa.CallInstruction
	chain []*ssa.Call // chain[0] is in the entry function, chain[len-1] calls ci's function
}

// anchor is the instruction of the entry function under which the site runs.
func (s rsite) anchor() ssa.Instruction {
	if len(s.chain) > 0 {
		return s.chain[0]
	}
	return s.ci
}

// inLoop: the site is repeated — it lies in a cycle of its own function or one of the calls leading to it does.
func (s rsite) inLoop() bool {
	if inCycle(s.ci.Block()) {
		return true
	}
	for _, cs := range s.chain {
		if inCycle(cs.Block()) {
			return true
		}
	}
	return false
}

// symInEntry rewrites an access path of the site's function into the entry's terms (parameter → argument, innermost
// call first); ok is false if a path rooted at a parameter meets a call with a different arity.
func (s rsite) symInEntry(sym string) string {
	for i := len(s.chain) - 1; i >= 0; i-- {
		h := ir.Callee(s.chain[i].Call)
		if h == nil {
			return sym
		}
		if s2, ok := symInCaller(h, s.chain[i].Call.Args, sym); ok {
			sym = s2
		}
	}
	return sym
}

// factsInEntry: the branch facts known at the site: those of its own block plus those at every call of the chain.
func (s rsite) facts() []ir.Fact {
	fs := ir.FactsAt(s.ci.Block())
	for _, cs := range s.chain {
		fs = append(fs, ir.FactsAt(cs.Block())...)
	}
	return fs
}

func regionSites(c *Ctx, E *ssa.Function) []rsite {
	reg := regionOf(c, E)
	in := map[*ssa.Function]bool{}
	for _, f := range reg {
		in[f] = true
	}
	var out []rsite
	var walk func(f *ssa.Function, chain []*ssa.Call, depth int)
	walk = func(f *ssa.Function, chain []*ssa.Call, depth int) {
		for _, ci := range CallsOf(f) {
			out = append(out, rsite{ci, append([]*ssa.Call(nil), chain...)})
			if call, ok := ci.(*ssa.Call); ok && depth < 4 {
				if h := ir.Callee(call.Call); h != nil && in[h] && h != E && h != f {
					walk(h, append(append([]*ssa.Call(nil), chain...), call), depth+1)
				}
			}
		}
	}
	walk(E, nil, 0)
	return out
}
