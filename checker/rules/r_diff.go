package rules

// Rules of the diff group: SIDES (C06, C07), LINKPROV (C07), DIFFSHORTCUT
// (C15), CBPROP (C06). The side inference itself lives in sides.go.

import (
	"fmt"
	"go/constant"
	"go/token"
	"go/types"
	"sort"
	"strings"

	"golang.org/x/tools/go/ssa"

	"mastcheck/ir"
)

func init() {
	for _, p := range []string{"C06", "C07"} {
		Assume(p,
			"SIDES: a polymorphic helper of the diff (load, alreadyNotified, the stack methods — found because their call sites disagree on a side and their bodies touch no diff-state field) returns and stores only values derived from its own arguments",
			"SIDES: the parameter names of the callbacks declared by DiffIter (added, removed, addedValue, removedValue) and DiffLinks (removed) state which side each position stands for")
	}
	Assume("C15", "DIFFSHORTCUT: a call reads a node only if it reaches Persist.Load through the resolved call graph (Facts.MayLoad)")
	Register(&Rule{ID: "SIDES", Props: []string{"C06", "C07"}, Min: 40,
		Doc: "old/new side qualifiers over the diff code: seeded from the exported API (receiver NEW, *Mast parameter OLD, callback parameter " +
			"positions, Diff.OldValue/NewValue, DiffType_Remove/Add), propagated through fields, parameters and per call site through the " +
			"polymorphic helpers; a value of one side stored into a field, pushed on a stack, loaded through a tree or memo, or handed to a " +
			"callback position / Diff field / DiffType of the other side is reported.",
		Run: runSIDES})
	Register(&Rule{ID: "LINKPROV", Props: []string{"C07"}, Min: 4,
		Doc: "every link reported to the link callback is the link of the item popped, in the same step, from the stack of the version it is " +
			"reported for (added: new stack, removed: old stack) — so a reported name is a node of that version.",
		Run: runLINKPROV})
	Register(&Rule{ID: "NOTIFY", Props: []string{"C07"}, Min: 4,
		Doc: "every link recorded for the link callback is recorded only where alreadyNotified(memo of that side, that link) has answered false, " +
			"and alreadyNotified answers false (not yet notified) on each of its error paths — so a node is neither reported twice nor dropped.",
		Run: runNOTIFY})
	Register(&Rule{ID: "DIFFREADS", Props: []string{"C15"}, Min: 4,
		Doc: "every node read of the diff is one the cost bound accounts for: the entry points read nodes only through the diff step; when the two " +
			"loaded nodes start with the same key both are expanded and neither item is pushed back; alreadyNotified loads only the link it " +
			"is asked about and the single-link pass-through nodes below it.",
		Run: runDIFFREADS})
	Register(&Rule{ID: "DELIVERALL", Props: []string{"C07"}, Min: 2,
		Doc: "between one diff step and the next, every link cell read by the link callback (added, removed) that is non-nil is handed to the " +
			"callback (or the diff stops/fails): the delivery of one side does not depend on the other side's cell being nil.",
		Run: runDELIVERALL})
	Register(&Rule{ID: "ENTRYKEY", Props: []string{"C06"}, Min: 3,
		Doc: "wherever the diff step records an entry's value for the entry callback (the added / removed value cell), the key cell is set on the " +
			"same path from the key of the same popped item: no entry is reported without, or under another item's, key.",
		Run: runENTRYKEY})
	Register(&Rule{ID: "KEYEQ", Props: []string{"C06"}, Min: 1,
		Doc: "in the diff, reflect.DeepEqual decides only whether the two sides' values differ: its operands are the old and the new Value, never a " +
			"key or a whole entry (key equality is the comparator's business); and it alone decides: after the comparator has answered, nothing but its result " +
			"decides whether the values are compared, no dominating condition reads an entry's value, and where DeepEqual answers false both value cells of the entry callback are stored on every successful path (none where it answers true).",
		Run: runKEYEQ})
	Register(&Rule{ID: "EXPANDALL", Props: []string{"C06", "C07"}, Min: 2,
		Doc: "a link item that the diff step consumes (links not equal, item not pushed back) always has something pushed onto the stack of its " +
			"side before the step returns successfully: a loaded node is never dropped unexpanded.",
		Run: runEXPANDALL})
	Register(&Rule{ID: "EXPANDMODE", Props: []string{"C15", "C06"}, Min: 2,
		Doc: "in a function that expands a node (pushes Link[i] and entry i in a loop) no push depends on anything but the loop bounds and the " +
			"nil-ness of a link: a mode flag that thins the expansion out leaves the two stacks out of step, so common subtrees are read.",
		Run: func(c *Ctx) {
			if S := sidesReady(c); S != nil {
				expanderUnconditional(c, S)
			}
		}})
	Register(&Rule{ID: "LOADPROV", Props: []string{"C15"}, Min: 4,
		Doc: "every node read of the diff step (load, alreadyNotified) is given the link of an item popped from a diff stack in that step, never " +
			"a link read out of a loaded node.",
		Run: runLOADPROV})
	Register(&Rule{ID: "DIFFSHORTCUT", Props: []string{"C15"}, Min: 5,
		Doc: "in the both-links case of the diff step the old and the new link are compared; every node load of that case lies on the unequal " +
			"edge, the equal edge returns without a load and without pushing either item back; when both stacks are empty the step ends " +
			"without a load.",
		Run: runDIFFSHORTCUT})
	Register(&Rule{ID: "CBPROP", Props: []string{"C06"}, Min: 8,
		Doc: "a callback error reaches the error return of the diff, keepGoing==false returns nil without another callback, an error of the " +
			"diff step other than ErrNoMoreDiffs is returned, ErrNoMoreDiffs ends the callback diff with nil and is the only way the cursor ends.",
		Run: runCBPROP})
}

// sidesReady fetches the inference and reports unresolved anchors.
func sidesReady(c *Ctx) *sidesInfo {
	S := c.Facts.Sides()
	for _, m := range S.missing {
		c.AnchorMissing(m)
	}
	if len(S.missing) > 0 {
		return nil
	}
	if S.unstable {
		c.Undecided(nil, "-", "side inference", "the old/new side inference did not stabilise (slots keep changing side): the diff code mixes the sides beyond what the rule can attribute")
	}
	return S
}

// sdFresh: a value that is created here and therefore has no side.
func sdFresh(v ssa.Value) bool {
	switch x := v.(type) {
	case *ssa.Const, *ssa.Alloc, *ssa.MakeMap, *ssa.MakeSlice, *ssa.MakeChan, *ssa.MakeClosure, *ssa.Function:
		return true
	case *ssa.MakeInterface:
		return sdFresh(x.X)
	case *ssa.Convert:
		return sdFresh(x.X)
	case *ssa.BinOp:
		return true
	case *ssa.Call:
		if _, ok := x.Call.Value.(*ssa.Builtin); ok {
			return true
		}
	}
	return false
}

func runSIDES(c *Ctx) {
	S := sidesReady(c)
	if S == nil {
		return
	}
	P := c.P
	// inventory
	var polys []string
	for _, fn := range S.fns {
		if S.poly[fn] {
			polys = append(polys, ir.FuncName(fn))
		}
	}
	c.Note("rounds=%d polymorphic helpers: %s", S.rounds, strings.Join(polys, ", "))
	var sl []string
	for _, s := range S.slots {
		if s.param != nil && (S.poly[s.param.Parent()] || s.cur == sdNone) {
			continue
		}
		o, n := S.Tally(s)
		x := fmt.Sprintf("%s=%s(%d/%d)", strings.TrimPrefix(s.name, "field "), s.cur, o, n)
		if s.exempt != "" {
			x = strings.TrimPrefix(s.name, "field ") + "=exempt"
		}
		sl = append(sl, x)
	}
	sort.Strings(sl)
	c.Note("slots (side, OLD/NEW votes): %s", strings.Join(sl, " "))

	// 1. votes into slots
	poison := S.Poisoned()
	for _, v := range S.votes {
		fn := v.at.Parent()
		pos := P.InstrPos(v.at)
		s := v.slot
		if s.param != nil && S.poly[s.param.Parent()] {
			continue
		}
		if s.exempt != "" {
			c.OK(pos, v.desc, "exempt: "+s.exempt, true)
			continue
		}
		short := s.name
		if s.field != nil {
			short = s.field.Name()
			if s.owner != "state" {
				short = s.owner + "." + short
			}
		}
		if v.side == sdNone {
			if s.cur == sdNone {
				continue
			}
			switch v.kind {
			case "flag":
				c.Undecided(fn, pos, "flag "+short+" set without a sided store beside it",
					fmt.Sprintf("%s (%s) is set to true in a block that stores no sided value: the side this flag stands for cannot be checked here", s.name, s.cur))
			case "store", "map-update":
				if poison[v.val] {
					continue
				}
				if !sdFresh(v.val) {
					c.Undecided(fn, pos, "store "+short+" <- unsided value",
						fmt.Sprintf("%s (%s) receives %s, whose side cannot be determined", s.name, s.cur, sdDesc(v.val)))
				} else {
					c.OK(pos, v.desc, "fresh value without a side", true)
				}
			}
			continue
		}
		if s.cur == sdNone {
			continue
		}
		o, n := S.Tally(s)
		if v.side == s.cur {
			if o == n && s.seed == sdNone && s.pin == sdNone {
				c.Violation(fn, pos, fmt.Sprintf("%s: uses disagree on its side", short),
					fmt.Sprintf("%s: %s receives as many OLD as NEW values (%d each); the rule cannot tell which use is the wrong one, all are listed", v.desc, s.name, o))
				continue
			}
			c.OK(pos, v.desc, fmt.Sprintf("%s value into %s slot", v.side, s.cur), false)
			continue
		}
		why := fmt.Sprintf("%s is %s (", s.name, s.cur)
		if s.seed != sdNone {
			why += "fixed by the exported API"
		} else {
			why += fmt.Sprintf("%d OLD / %d NEW uses", o, n)
		}
		why += ")"
		switch v.kind {
		case "store":
			c.Violation(fn, pos, fmt.Sprintf("store %s(%s) <- %s value", short, s.cur, v.side),
				fmt.Sprintf("%s: a %s value is stored into it; %s", v.desc, v.side, why))
		case "map-update":
			c.Violation(fn, pos, fmt.Sprintf("map update %s(%s) <- %s value", short, s.cur, v.side),
				fmt.Sprintf("%s: a %s value is put into it; %s", v.desc, v.side, why))
		case "co-argument":
			callee := "?"
			if ci, ok := v.at.(ssa.CallInstruction); ok && ir.Callee(ci.Common()) != nil {
				callee = ir.Callee(ci.Common()).Name()
			}
			c.Violation(fn, pos, fmt.Sprintf("%s(%s) used by %s with %s arguments", short, s.cur, callee, v.side),
				fmt.Sprintf("%s; %s", v.desc, why))
		case "flag":
			c.Violation(fn, pos, fmt.Sprintf("flag %s(%s) set beside %s stores", short, s.cur, v.side),
				fmt.Sprintf("%s: the flag is raised where %s values are recorded; %s", v.desc, v.side, why))
		case "argument":
			c.Violation(fn, pos, fmt.Sprintf("%s(%s) <- %s value", short, s.cur, v.side),
				fmt.Sprintf("%s: a %s value is passed; %s", v.desc, v.side, why))
		}
	}
	sidesCalls(c, S)
	sidesCallbacks(c, S)
	sidesType(c, S)
}

// sidesCalls: calls of polymorphic helpers whose arguments disagree, tree
// callbacks applied to a value of the other tree, stores into an object of
// the other side.
func sidesCalls(c *Ctx, S *sidesInfo) {
	P := c.P
	poison := S.Poisoned()
	for _, fn := range S.fns {
		for _, b := range fn.Blocks {
			for _, ins := range b.Instrs {
				if st, ok := ins.(*ssa.Store); ok {
					slot, root := S.storeRoot(st.Addr)
					if slot != nil || root == nil {
						continue
					}
					if _, isA := root.(*ssa.Alloc); isA {
						continue
					}
					rs, vs := S.sideOf(root), S.sideOf(st.Val)
					if rs.single() && vs != sdNone {
						if rs == vs {
							c.OK(P.InstrPos(st), "store into "+sdDesc(st.Addr), "same side", false)
						} else {
							c.Violation(fn, P.InstrPos(st), fmt.Sprintf("store of %s value into %s object", vs, rs),
								fmt.Sprintf("%s = %s: a %s value is written into memory of the %s side", sdDesc(st.Addr), sdDesc(st.Val), vs, rs))
						}
					}
					continue
				}
				ci, ok := ins.(ssa.CallInstruction)
				if !ok {
					continue
				}
				com := ci.Common()
				callee := ir.Callee(com)
				pos := P.InstrPos(ci)
				if _, _, _, isEq := S.eqHelper(callee); isEq {
					continue // a comparison of its arguments: not a sink
				}
				if callee != nil && S.slice[callee] && S.poly[callee] {
					args := S.callArgs(ci)
					j, any := sdNone, false
					var parts []string
					for i, a := range args {
						if a.side != sdNone || a.ref != nil {
							any = true
						}
						if a.ref == nil {
							j |= a.side
						}
						if a.side != sdNone && i < len(callee.Params) {
							parts = append(parts, callee.Params[i].Name()+"="+a.side.String())
						}
					}
					if !any {
						continue
					}
					what := fmt.Sprintf("call %s(%s) in %s", callee.Name(), strings.Join(parts, ","), ir.FuncName(fn))
					bad := false
					for i, a := range args {
						if a.side == sdNone && a.ref == nil && sdPendingArg(a.v) && !poison[a.v] {
							pn := "?"
							if i < len(callee.Params) {
								pn = callee.Params[i].Name()
							}
							c.Undecided(fn, pos, fmt.Sprintf("call %s: argument %s without a side", callee.Name(), pn),
								fmt.Sprintf("%s is passed to %s next to sided arguments, but its own side cannot be determined", sdDesc(a.v), callee.Name()))
							bad = true
						}
					}
					if j == sdBoth {
						c.Violation(fn, pos, fmt.Sprintf("call %s(%s)", callee.Name(), strings.Join(parts, ",")),
							fmt.Sprintf("%s is used for one side per call, but here it gets %s: a link, item or node of one version is used through the tree, stack or memo of the other", callee.Name(), S.coDesc(args, -1)))
						bad = true
					}
					if !bad {
						c.OK(pos, what, "all sided arguments agree", false)
					}
					continue
				}
				// function value loaded from a field of a tree: keyLayer, marshal, ...
				if callee == nil && !com.IsInvoke() && S.callbackKind(ci) == "" {
					ld, ok := com.Value.(*ssa.UnOp)
					if !ok || ld.Op != token.MUL {
						continue
					}
					fa, ok := ld.X.(*ssa.FieldAddr)
					if !ok || !sdIsMast(fa.X.Type()) {
						continue
					}
					ts := S.sideOf(fa.X)
					name := ir.FieldName(fa.X.Type(), fa.Field)
					as := sdNone
					for _, a := range com.Args {
						if !sdSkipType(a.Type()) {
							as |= S.sideOf(a)
						}
					}
					if ts == sdNone || as == sdNone {
						continue
					}
					what := fmt.Sprintf("%s of the %s tree applied to %s values in %s", name, ts, as, ir.FuncName(fn))
					if sdComparisonCallbacks[name] {
						c.OK(pos, what, "comparison of its arguments: not a sink", true)
					} else if as == ts {
						c.OK(pos, what, "same side", false)
					} else {
						c.Violation(fn, pos, fmt.Sprintf("%s of the %s tree applied to a %s value", name, ts, as),
							fmt.Sprintf("%s is taken from the %s tree but applied to %s", name, ts, S.coDesc(S.callArgs(ci), -1)))
					}
				}
			}
		}
	}
}

// sidesCallbacks: the positions of the two API callbacks.
func sidesCallbacks(c *Ctx, S *sidesInfo) {
	P := c.P
	nEntry, nLink := 0, 0
	for _, fn := range S.fns {
		for _, ci := range CallsOf(fn) {
			kind := S.callbackKind(ci)
			if kind == "" {
				continue
			}
			args := ci.Common().Args
			pos := P.InstrPos(ci)
			switch kind {
			case "entry":
				nEntry++
				var idxs []int
				for i := range S.entrySeed {
					idxs = append(idxs, i)
				}
				sort.Ints(idxs)
				for _, i := range idxs {
					if i >= len(args) {
						continue
					}
					want := S.entrySeed[i]
					pn := S.entrySig.Params().At(i).Name()
					got := S.sideOf(args[i])
					what := fmt.Sprintf("entry callback argument %s (%s) = %s in %s", pn, want, sdDesc(args[i]), ir.FuncName(fn))
					switch {
					case got == want:
						c.OK(pos, what, "same side", false)
					case got == sdNone:
						if sdFresh(args[i]) {
							c.OK(pos, what, "constant / fresh value", true)
						} else {
							c.Undecided(fn, pos, "entry callback argument "+pn+" without a side",
								fmt.Sprintf("the callback's %s parameter must receive a %s value; the side of %s cannot be determined", pn, want, sdDesc(args[i])))
						}
					default:
						k := "value"
						if S.entryFlag[i] {
							k = "flag"
						}
						c.Violation(fn, pos, fmt.Sprintf("entry callback argument %s(%s) <- %s %s", pn, want, got, k),
							fmt.Sprintf("the callback's %s parameter (declared in DiffIter) stands for the %s side but receives the %s %s %s", pn, want, got, k, sdDesc(args[i])))
					}
				}
			case "link":
				nLink++
			}
		}
	}
	dl, unres := S.LinkDeliveries()
	for _, ci := range unres {
		c.Undecided(ci.Parent(), P.InstrPos(ci), "link callback: removed is not a constant",
			"the side a reported link must have is fixed by the constant passed as `removed`; here it is computed (and not a parameter that receives a constant at every call)")
	}
	for _, d := range dl {
		fn, pos := d.at.Parent(), P.InstrPos(d.at)
		rem, link := d.removed, d.link
		want := sdNew
		if rem {
			want = sdOld
		}
		got := S.sideOf(link)
		what := fmt.Sprintf("link callback (removed=%v) link = %s in %s", rem, sdDesc(link), ir.FuncName(fn))
		if d.via != "" {
			what += " via " + d.via
		}
		switch {
		case got == want:
			c.OK(pos, what, "the link is "+got.String(), false)
		case got == sdNone:
			c.Undecided(fn, pos, fmt.Sprintf("link callback removed=%v: link without a side", rem),
				fmt.Sprintf("the link %s reported with removed=%v must be a %s link; its side cannot be determined", sdDesc(link), rem, want))
		default:
			c.Violation(fn, pos, fmt.Sprintf("link callback removed=%v given %s link", rem, got),
				fmt.Sprintf("the link callback is told removed=%v (so the link must belong to the %s version) but receives the %s link %s", rem, want, got, sdDesc(link)))
		}
	}
	if nEntry == 0 {
		c.Undecided(nil, "-", "no entry callback invocation", "no call of a function value with the signature of DiffIter's callback is reachable from the diff entry points")
	}
	if nLink == 0 {
		c.Undecided(nil, "-", "no link callback invocation", "no call of a function value with the signature of DiffLinks' callback is reachable from the diff entry points")
	}
}

// sidesType: Diff.Type is computed from the two flags such that
// DiffType_Remove results exactly under the OLD flag and DiffType_Add under
// the NEW flag.
func sidesType(c *Ctx, S *sidesInfo) {
	P := c.P
	n := 0
	for _, fn := range S.fns {
		for _, b := range fn.Blocks {
			for _, ins := range b.Instrs {
				st, ok := ins.(*ssa.Store)
				if !ok {
					continue
				}
				fa, ok := st.Addr.(*ssa.FieldAddr)
				if !ok {
					continue
				}
				sl := S.sidedField(fa.X.Type(), fa.Field)
				if sl == nil || sl.owner != "Diff" || sl.field.Name() != "Type" {
					continue
				}
				n++
				pos := P.InstrPos(st)
				call, ok := ir.ResolveCell(st.Val).(*ssa.Call)
				var callee *ssa.Function
				if ok {
					callee = ir.Callee(call.Call)
				}
				if callee == nil || !S.slice[callee] || S.poly[callee] {
					c.Undecided(fn, pos, "Diff.Type not computed by a flags-to-type function",
						fmt.Sprintf("Diff.Type = %s: the rule checks a function of the OLD and the NEW flag; this value is not the result of one", sdDesc(st.Val)))
					continue
				}
				sidesTypeFn(c, S, callee, call)
			}
		}
	}
	if n == 0 {
		c.Undecided(nil, "-", "no store to Diff.Type", "no store into Diff.Type is reachable from the diff entry points")
	}
}

func sidesTypeFn(c *Ctx, S *sidesInfo, fn *ssa.Function, call *ssa.Call) {
	P := c.P
	var oldP, newP []*ssa.Parameter
	for _, p := range fn.Params {
		if !sdIsBool(p.Type()) {
			continue
		}
		switch S.sideOf(p) {
		case sdOld:
			oldP = append(oldP, p)
		case sdNew:
			newP = append(newP, p)
		}
	}
	if len(oldP) != 1 || len(newP) != 1 {
		c.Undecided(call.Parent(), P.InstrPos(call), "Diff.Type: flags of "+fn.Name()+" without sides",
			fmt.Sprintf("%s should receive one OLD flag and one NEW flag; found %d OLD and %d NEW boolean parameters", fn.Name(), len(oldP), len(newP)))
		return
	}
	po, pn := oldP[0], newP[0]
	site := fmt.Sprintf("flags passed at %s: ", P.InstrPos(call))
	for i, a := range call.Call.Args {
		if i < len(fn.Params) && sdIsBool(fn.Params[i].Type()) {
			site += fmt.Sprintf("%s=%s %s ", fn.Params[i].Name(), S.sideOf(a), sdDesc(a))
		}
	}
	site = strings.TrimSpace(site)
	type valn struct {
		o, n bool
		name string
		want constant.Value // nil: must be neither Remove nor Add
		wn   string
	}
	for _, v := range []valn{
		{true, false, "only the OLD flag (" + po.Name() + ") set", S.constRemove, "DiffType_Remove"},
		{false, true, "only the NEW flag (" + pn.Name() + ") set", S.constAdd, "DiffType_Add"},
		{false, false, "no flag set", nil, "neither DiffType_Remove nor DiffType_Add"},
	} {
		eval := func(cond ssa.Value) (bool, bool) {
			return sdEvalCond(cond, func(x ssa.Value) (bool, bool) {
				switch x {
				case ssa.Value(po):
					return v.o, true
				case ssa.Value(pn):
					return v.n, true
				}
				return false, false
			}, 0)
		}
		reach := ir.ReachableFrom(fn.Blocks[0], func(from, to *ssa.BasicBlock) bool {
			if len(from.Instrs) == 0 || len(from.Succs) != 2 {
				return false
			}
			iff, ok := from.Instrs[len(from.Instrs)-1].(*ssa.If)
			if !ok {
				return false
			}
			val, known := eval(iff.Cond)
			if !known {
				return false
			}
			if val {
				return to == from.Succs[1] && from.Succs[0] != from.Succs[1]
			}
			return to == from.Succs[0] && from.Succs[0] != from.Succs[1]
		})
		what := fmt.Sprintf("%s with %s returns %s", fn.Name(), v.name, v.wn)
		nret, bad := 0, false
		for _, r := range ir.Returns(fn) {
			if !reach[r.Block()] || len(r.Results) == 0 {
				continue
			}
			nret++
			k, isC := r.Results[0].(*ssa.Const)
			if !isC || k.Value == nil {
				c.Undecided(fn, P.InstrPos(r), "type for "+v.name+" not a constant",
					fmt.Sprintf("with %s, %s returns %s, which is not a DiffType constant", v.name, fn.Name(), sdDesc(r.Results[0])))
				bad = true
				continue
			}
			ok := false
			if v.want != nil {
				ok = constant.Compare(k.Value, token.EQL, v.want)
			} else {
				ok = !constant.Compare(k.Value, token.EQL, S.constRemove) && !constant.Compare(k.Value, token.EQL, S.constAdd)
			}
			if !ok {
				got := k.Value.ExactString()
				if constant.Compare(k.Value, token.EQL, S.constRemove) {
					got = "DiffType_Remove"
				} else if constant.Compare(k.Value, token.EQL, S.constAdd) {
					got = "DiffType_Add"
				}
				c.Violation(fn, P.InstrPos(r), fmt.Sprintf("%s returned with %s", got, v.name),
					fmt.Sprintf("with %s, %s must return %s but returns %s: the reported difference type is on the wrong side (%s)", v.name, fn.Name(), v.wn, got, site), site)
				bad = true
			}
		}
		if nret == 0 {
			c.Violation(fn, P.Pos(fn.Pos()), "no return with "+v.name,
				fmt.Sprintf("with %s, %s never returns (it must return %s)", v.name, fn.Name(), v.wn))
			bad = true
		}
		if !bad {
			c.OK(P.Pos(fn.Pos()), what, fmt.Sprintf("%d reachable return(s) under this valuation", nret), false)
		}
	}
}

// ---- LINKPROV ---------------------------------------------------------------------

// sdItemLink: v is a load of the link field of a stack item; returns the item.
func (S *sidesInfo) itemLink(v ssa.Value) (item ssa.Value, ok bool) {
	v = ir.ResolveCell(ir.Strip(v))
	switch x := v.(type) {
	case *ssa.UnOp:
		if x.Op != token.MUL {
			return nil, false
		}
		fa, isFA := x.X.(*ssa.FieldAddr)
		if !isFA || fa.Field != S.itemLinkF {
			return nil, false
		}
		if n, _ := sdNamedStruct(fa.X.Type()); n == nil || n.Obj() != S.itemT.Obj() {
			return nil, false
		}
		return ir.ResolveCell(fa.X), true
	case *ssa.Field:
		if n, _ := sdNamedStruct(x.X.Type()); n == nil || n.Obj() != S.itemT.Obj() || x.Field != S.itemLinkF {
			return nil, false
		}
		return ir.ResolveCell(x.X), true
	}
	return nil, false
}

// popOf: item is the result of a call that takes (the address of) a stack
// slot and returns an item; returns that slot.
func (S *sidesInfo) popOf(item ssa.Value) (*ssa.Call, *sdSlot) {
	if ex, isEx := item.(*ssa.Extract); isEx {
		return S.popOfExtract(ex)
	}
	call, ok := item.(*ssa.Call)
	if !ok {
		return nil, nil
	}
	if n, _ := sdNamedStruct(call.Type()); n == nil || n.Obj() != S.itemT.Obj() {
		return nil, nil
	}
	callee := ir.Callee(call.Call)
	if callee == nil || !S.slice[callee] {
		return nil, nil
	}
	for _, a := range call.Call.Args {
		if sl := S.slotRef(a); sl != nil {
			return call, sl
		}
	}
	return nil, nil
}

// popOfExtract: ex is one component of the result of a (monomorphic) helper
// of the diff that returns several values, and on every return of the helper
// that component is the result of a pop of one and the same stack slot
// (`o, n := dc.popPair()`). Returns the call of the helper (the point at
// which the pop happens in the caller) and the slot.
func (S *sidesInfo) popOfExtract(ex *ssa.Extract) (*ssa.Call, *sdSlot) {
	call, ok := ex.Tuple.(*ssa.Call)
	if !ok {
		return nil, nil
	}
	if n, _ := sdNamedStruct(ex.Type()); n == nil || S.itemT == nil || n.Obj() != S.itemT.Obj() {
		return nil, nil
	}
	callee := ir.Callee(call.Call)
	if callee == nil || !S.slice[callee] || S.poly[callee] {
		return nil, nil
	}
	rets := ir.Returns(callee)
	if len(rets) == 0 {
		return nil, nil
	}
	var slot *sdSlot
	for _, r := range rets {
		if ex.Index >= len(r.Results) {
			return nil, nil
		}
		inner, isCall := ir.ResolveCell(r.Results[ex.Index]).(*ssa.Call)
		if !isCall {
			return nil, nil
		}
		pc, sl := S.popOf(inner)
		if pc == nil || (slot != nil && sl != slot) {
			return nil, nil
		}
		slot = sl
	}
	return call, slot
}

// popHelperItems: call is a call of a helper that returns several values some
// of which are popped items (popOfExtract). Returns those components and the
// pops the helper performs (all of them, returned or not).
func (S *sidesInfo) popHelperItems(call *ssa.Call) (items []*ssa.Extract, inner []*sdSlot) {
	if _, isTuple := call.Type().(*types.Tuple); !isTuple || call.Referrers() == nil {
		return nil, nil
	}
	for _, r := range *call.Referrers() {
		if ex, ok := r.(*ssa.Extract); ok {
			if pc, _ := S.popOfExtract(ex); pc != nil {
				items = append(items, ex)
			}
		}
	}
	if len(items) == 0 {
		return nil, nil
	}
	for _, ci := range CallsOf(ir.Callee(call.Call)) {
		if ic, ok := ci.(*ssa.Call); ok {
			if pc, sl := S.popOf(ic); pc != nil {
				inner = append(inner, sl)
			}
		}
	}
	return items, inner
}

type lpVerdict struct {
	ok    bool
	und   bool
	why   string
	short string
	site  ssa.Instruction // call site at which a bad value enters a helper
}

// linkValProv: is v the link of the item popped from the stack of side want?
// A link parameter of a helper is traced to the argument at every call site.
func (S *sidesInfo) linkValProv(v ssa.Value, want side, use ssa.Instruction, depth int) lpVerdict {
	if depth > 4 {
		return lpVerdict{und: true, why: "provenance too deep", short: "untraceable link"}
	}
	if item, isLink := S.itemLink(v); isLink {
		return S.itemProv(item, want, use, depth)
	}
	switch x := ir.ResolveCell(ir.Strip(v)).(type) {
	case *ssa.Parameter:
		fn := x.Parent()
		idx := -1
		for i, p := range fn.Params {
			if p == x {
				idx = i
			}
		}
		n := 0
		for _, cs := range S.P.Callers[fn] {
			if !S.slice[cs.Parent()] || idx < 0 || idx >= len(cs.Common().Args) {
				continue
			}
			n++
			if r := S.linkValProv(cs.Common().Args[idx], want, cs, depth+1); !r.ok {
				r.why = fmt.Sprintf("%s passes %s as %s of %s: %s", ir.FuncName(cs.Parent()), sdDesc(cs.Common().Args[idx]), x.Name(), fn.Name(), r.why)
				if r.site == nil {
					r.site = cs
				}
				return r
			}
		}
		if n == 0 {
			return lpVerdict{und: true, why: "link parameter of a function without a call site in the diff", short: "untraceable link"}
		}
		return lpVerdict{ok: true, why: fmt.Sprintf("link parameter %s: at all %d call site(s) the link of the item popped from the %s stack", x.Name(), n, want)}
	case *ssa.Phi:
		for _, e := range x.Edges {
			if r := S.linkValProv(e, want, use, depth+1); !r.ok {
				return r
			}
		}
		return lpVerdict{ok: true, why: "all alternatives are links of items popped from the " + want.String() + " stack"}
	}
	kind := "added"
	if want == sdOld {
		kind = "removed"
	}
	return lpVerdict{short: sdDescShape(v),
		why: fmt.Sprintf("the link reported as %s is %s, not the link of the item popped from the %s stack in this step: a name that is not (known to be) a node of that version would be reported", kind, sdDesc(v), want)}
}

// itemProv: is item an item popped from the stack of side want, before use?
func (S *sidesInfo) itemProv(item ssa.Value, want side, use ssa.Instruction, depth int) lpVerdict {
	if depth > 4 {
		return lpVerdict{und: true, why: "provenance too deep", short: "untraceable item"}
	}
	item = ir.ResolveCell(item)
	if call, sl := S.popOf(item); call != nil {
		if want != sdNone && sl.cur != want {
			return lpVerdict{why: fmt.Sprintf("the item was taken from %s, the %s stack", sl.name, sl.cur), short: fmt.Sprintf("link of the item from the %s stack", sl.cur)}
		}
		if call.Parent() == use.Parent() && !ir.Before(call, use) {
			return lpVerdict{und: true, why: "the pop does not precede the use on every path", short: "pop not before use"}
		}
		return lpVerdict{ok: true, why: fmt.Sprintf("link of the item popped from %s (%s) by %s", sl.name, sl.cur, ir.Callee(call.Call).Name())}
	}
	switch x := item.(type) {
	case *ssa.Parameter:
		fn := x.Parent()
		idx := -1
		for i, p := range fn.Params {
			if p == x {
				idx = i
			}
		}
		n := 0
		for _, cs := range S.P.Callers[fn] {
			if !S.slice[cs.Parent()] || idx < 0 || idx >= len(cs.Common().Args) {
				continue
			}
			n++
			if v := S.itemProv(cs.Common().Args[idx], want, cs, depth+1); !v.ok {
				v.why = "via " + ir.FuncName(cs.Parent()) + ": " + v.why
				return v
			}
		}
		if n == 0 {
			return lpVerdict{und: true, why: "item parameter of a function without a call site in the diff", short: "untraceable item"}
		}
		return lpVerdict{ok: true, why: fmt.Sprintf("item parameter %s: at all %d call site(s) the item popped from the %s stack", x.Name(), n, want)}
	case *ssa.Phi:
		for _, e := range x.Edges {
			if v := S.itemProv(e, want, use, depth+1); !v.ok {
				return v
			}
		}
		return lpVerdict{ok: true, why: "all alternatives are items popped from the " + want.String() + " stack"}
	}
	return lpVerdict{und: true, why: "the item " + sdDesc(item) + " is not the result of a pop of a diff stack", short: "item not popped from a diff stack"}
}

func runLINKPROV(c *Ctx) {
	S := sidesReady(c)
	if S == nil {
		return
	}
	P := c.P
	// the fields handed to the link callback, and the side each must have
	report := map[*sdSlot]side{}
	dl, unres := S.LinkDeliveries()
	for _, ci := range unres {
		c.Undecided(ci.Parent(), P.InstrPos(ci), "link callback: removed is not a constant",
			"`removed` is neither a constant nor a parameter that receives a constant at every call: the provenance of the reported link cannot be traced")
	}
	for _, d := range dl {
		fn, pos := d.at.Parent(), P.InstrPos(d.at)
		rem := d.removed
		sl := S.slotRef(d.link)
		if sl == nil {
			c.Undecided(fn, pos, "link callback argument not a state field",
				fmt.Sprintf("the link given to the link callback (%s) is not read from a field of the diff state: its provenance cannot be traced", sdDesc(d.link)))
			continue
		}
		want := sdNew
		if rem {
			want = sdOld
		}
		if prev, dup := report[sl]; dup && prev != want {
			c.Violation(fn, pos, sl.name+" reported as added and as removed",
				sl.name+" is handed to the link callback both with removed=true and removed=false")
			continue
		}
		report[sl] = want
		c.OK(pos, fmt.Sprintf("link callback removed=%v reads %s", rem, sl.name), "stores into it are checked below", false)
	}
	if len(report) == 0 {
		c.Undecided(nil, "-", "no link callback invocation", "no invocation of the link callback found in the diff")
		return
	}
	for _, fn := range S.fns {
		for _, b := range fn.Blocks {
			for _, ins := range b.Instrs {
				if fa, isFA := ins.(*ssa.FieldAddr); isFA {
					if sl := S.sidedField(fa.X.Type(), fa.Field); sl != nil && fa.Referrers() != nil {
						if _, isRep := report[sl]; isRep {
							for _, r := range *fa.Referrers() {
								switch x := r.(type) {
								case *ssa.UnOp, *ssa.DebugRef:
								case *ssa.Store:
									if x.Addr != ssa.Value(fa) {
										c.Undecided(fn, P.InstrPos(r), "address of "+sl.field.Name()+" stored", "the address of "+sl.name+" is stored; writes through it cannot be traced")
									}
								case *ssa.Call:
									linkProvByRef(c, S, x, fa, sl, report[sl])
								default:
									c.Undecided(fn, P.InstrPos(r), "address of "+sl.field.Name()+" escapes", "the address of "+sl.name+" is passed on; the links written through it cannot be traced to a popped item")
								}
							}
						}
					}
					continue
				}
				st, ok := ins.(*ssa.Store)
				if !ok {
					continue
				}
				sl, _ := S.storeRoot(st.Addr)
				want, isRep := report[sl]
				if sl == nil || !isRep {
					continue
				}
				pos := P.InstrPos(st)
				kind := "added"
				if want == sdOld {
					kind = "removed"
				}
				what := fmt.Sprintf("%s = %s in %s", sl.name, sdDesc(st.Val), ir.FuncName(fn))
				if ir.IsNilConst(st.Val) {
					c.OK(pos, what, "reset to nil", true)
					continue
				}
				v := S.linkValProv(st.Val, want, st, 0)
				vfn, vpos := fn, pos
				if v.site != nil {
					// the offending value enters at a call site of the helper
					vfn, vpos = v.site.Parent(), P.InstrPos(v.site)
				}
				switch {
				case v.ok:
					c.OK(pos, what, v.why, false)
				case v.und:
					c.Undecided(vfn, vpos, fmt.Sprintf("%s link (%s) <- %s", kind, sl.field.Name(), v.short), v.why)
				default:
					c.Violation(vfn, vpos, fmt.Sprintf("%s link (%s) <- %s", kind, sl.field.Name(), v.short),
						fmt.Sprintf("the link reported as %s must be the link of the item popped from the %s stack; %s", kind, want, v.why))
				}
			}
		}
	}
}

// linkProvByRef: the address of a reported-link field is handed to a helper
// (a per-side helper writing `*report = item.link`): every store through that
// parameter must store the link of an item parameter, and the item passed at
// this call must be the one popped from the stack of the wanted side.
func linkProvByRef(c *Ctx, S *sidesInfo, call *ssa.Call, addr *ssa.FieldAddr, sl *sdSlot, want side) {
	P := c.P
	fn := call.Parent()
	pos := P.InstrPos(call)
	kind := "added"
	if want == sdOld {
		kind = "removed"
	}
	callee := ir.Callee(call.Call)
	und := func(why string) {
		c.Undecided(fn, pos, "address of "+sl.field.Name()+" escapes", "the address of "+sl.name+" is passed on; "+why)
	}
	if callee == nil || !S.slice[callee] {
		und("the callee is not a function of the diff")
		return
	}
	k := -1
	for i, a := range call.Call.Args {
		if a == ssa.Value(addr) {
			if k >= 0 {
				und("it is passed twice")
				return
			}
			k = i
		}
	}
	if k < 0 || k >= len(callee.Params) {
		und("the receiving parameter was not found")
		return
	}
	p := callee.Params[k]
	if p.Referrers() == nil {
		return
	}
	n := 0
	for _, r := range *p.Referrers() {
		switch x := r.(type) {
		case *ssa.DebugRef, *ssa.UnOp:
		case *ssa.Store:
			if x.Addr != ssa.Value(p) {
				und("the helper stores the address")
				return
			}
			if ir.IsNilConst(x.Val) {
				continue
			}
			item, isLink := S.itemLink(x.Val)
			var v lpVerdict
			if !isLink {
				// the helper may receive the link itself as a parameter
				li := sdParamIndex(callee, x.Val)
				if li < 0 || li >= len(call.Call.Args) {
					c.Violation(callee, P.InstrPos(x), fmt.Sprintf("%s link (%s, by reference) <- %s", kind, sl.field.Name(), sdDescShape(x.Val)),
						fmt.Sprintf("%s writes %s through the reference to %s: not the link of a popped item", callee.Name(), sdDesc(x.Val), sl.name))
					return
				}
				v = S.linkValProv(call.Call.Args[li], want, call, 1)
				n++
				switch {
				case v.ok:
					c.OK(pos, fmt.Sprintf("%s written by %s through a reference, link argument %s", sl.name, callee.Name(), sdDesc(call.Call.Args[li])), v.why, false)
				case v.und:
					c.Undecided(fn, pos, fmt.Sprintf("%s link (%s, by reference) <- %s", kind, sl.field.Name(), v.short), v.why)
				default:
					c.Violation(fn, pos, fmt.Sprintf("%s link (%s, by reference) <- %s", kind, sl.field.Name(), v.short),
						fmt.Sprintf("the link reported as %s must be the link of the item popped from the %s stack; %s", kind, want, v.why))
				}
				continue
			}
			q, isParam := item.(*ssa.Parameter)
			qi := -1
			if isParam {
				for i, pp := range callee.Params {
					if pp == q {
						qi = i
					}
				}
			}
			if qi < 0 || qi >= len(call.Call.Args) {
				und("the item whose link the helper writes is not one of its parameters")
				return
			}
			v = S.itemProv(call.Call.Args[qi], want, call, 1)
			n++
			switch {
			case v.ok:
				c.OK(pos, fmt.Sprintf("%s written by %s through a reference, item argument %s", sl.name, callee.Name(), sdDesc(call.Call.Args[qi])), v.why, false)
			case v.und:
				c.Undecided(fn, pos, fmt.Sprintf("%s link (%s, by reference) <- %s", kind, sl.field.Name(), v.short), v.why)
			default:
				c.Violation(fn, pos, fmt.Sprintf("%s link (%s, by reference) <- %s", kind, sl.field.Name(), v.short),
					fmt.Sprintf("the link reported as %s must be the link of the item popped from the %s stack; %s", kind, want, v.why))
			}
		default:
			und("the helper passes the reference on")
			return
		}
	}
	if n == 0 {
		c.OK(pos, sl.name+" passed by reference to "+callee.Name(), "never written through it", true)
	}
}

// sdDescShape: like sdDesc but without parameter/local names (for keys).
func sdDescShape(v ssa.Value) string {
	v = ir.ResolveCell(ir.Strip(v))
	switch x := v.(type) {
	case *ssa.UnOp:
		if x.Op == token.MUL {
			switch a := x.X.(type) {
			case *ssa.FieldAddr:
				return "field " + ir.FieldName(a.X.Type(), a.Field)
			case *ssa.IndexAddr:
				if ld, ok := a.X.(*ssa.UnOp); ok {
					if fa, ok := ld.X.(*ssa.FieldAddr); ok {
						return "element of " + ir.FieldName(fa.X.Type(), fa.Field)
					}
				}
				return "slice element"
			}
		}
	case *ssa.Parameter:
		return "parameter"
	case *ssa.Call:
		if sc := ir.Callee(x.Call); sc != nil {
			return "result of " + sc.Name()
		}
	case *ssa.Const:
		return "constant"
	}
	return "other value"
}

// ---- DIFFSHORTCUT -----------------------------------------------------------------

func sdMayLoad(c *Ctx, ci ssa.CallInstruction) (bool, string) {
	if c.Facts.External(ci) == "Persist.Load" {
		return true, "Persist.Load"
	}
	for _, f := range c.Facts.Callees(ci) {
		if c.Facts.MayLoad[f] {
			return true, f.Name()
		}
	}
	return false, ""
}

// sdCondIf finds the `if` instructions controlled by cond (directly or
// through negations) and, for each, the successor taken when cond is true.
func sdCondIfs(cond ssa.Value) (out []struct {
	If      *ssa.If
	OnTrue  *ssa.BasicBlock
	OnFalse *ssa.BasicBlock
}, other bool) {
	var walk func(v ssa.Value, neg bool)
	walk = func(v ssa.Value, neg bool) {
		if v.Referrers() == nil {
			return
		}
		for _, r := range *v.Referrers() {
			switch x := r.(type) {
			case *ssa.If:
				t, f := x.Block().Succs[0], x.Block().Succs[1]
				if neg {
					t, f = f, t
				}
				out = append(out, struct {
					If      *ssa.If
					OnTrue  *ssa.BasicBlock
					OnFalse *ssa.BasicBlock
				}{x, t, f})
			case *ssa.UnOp:
				if x.Op == token.NOT {
					walk(x, !neg)
				} else {
					other = true
				}
			case *ssa.DebugRef:
			default:
				other = true
			}
		}
	}
	walk(cond, false)
	return
}

// underEdge: block b can only be entered through the edge from→to.
func underEdge(b, from, to *ssa.BasicBlock) bool {
	if len(to.Preds) != 1 || to.Preds[0] != from {
		return false
	}
	return to.Dominates(b)
}

func runDIFFSHORTCUT(c *Ctx) {
	S := sidesReady(c)
	if S == nil {
		return
	}
	P := c.P
	step := c.MustFunc("(*Mast).diffOne")
	if step == nil {
		return
	}
	bodies, ok := stepBodies(c, S, step)
	if !ok {
		c.Undecided(step, P.Pos(step.Pos()), "popped items not found", "the diff step does not pop exactly one item from the OLD stack and one from the NEW stack (as found by the side inference)")
		return
	}
	shortcutRoots(c, S, bodies[0].stacks)
	tot := &scTotals{step: step}
	for _, b := range bodies {
		shortcutBody(c, S, b, tot)
	}
	fpos := P.Pos(step.Pos())
	if tot.cmps == 0 {
		c.Violation(step, fpos, "no comparison of the old link with the new link",
			fmt.Sprintf("%s (with the helpers it hands its items to) never compares the link of the item popped from the old stack with the link of the item popped from the new stack: subtrees common to both versions are not skipped, every diff loads both trees completely", step.Name()))
	} else if tot.both == 0 {
		c.Undecided(step, fpos, "no load in the both-links case", "the rule found the link comparison but no node load under `old link != nil && new link != nil`; the shape of the step is not the one the rule understands")
	}
}

type scTotals struct {
	cmps, both int
	step       *ssa.Function
}

// shortcutBody checks one body of the step (the step itself, or a helper it
// hands both items to, with the dispatching facts holding on entry).
func shortcutBody(c *Ctx, S *sidesInfo, sb *stepBody, tot *scTotals) {
	P := c.P
	fn := sb.fn
	fpos := P.Pos(fn.Pos())
	oldItem, newItem := sb.old, sb.new
	stackSlots := sb.stacks
	isLinkOf := func(v ssa.Value, item ssa.Value) bool { return S.linkOfItem(v, item) }
	_ = sb.isItem
	// facts of a block (with what is known on entry)
	type bfacts struct{ oldLink, newLink, oldNil, newNil bool }
	factsOf := func(b *ssa.BasicBlock) bfacts {
		f := bfacts{oldLink: sb.oldSt == isLink, newLink: sb.newSt == isLink, oldNil: sb.oldSt == isAbsent, newNil: sb.newSt == isAbsent}
		for _, ft := range sdExpandFacts(ir.FactsAt(b), 0) {
			it, lk, tnn, ok := S.itemTest(ft.Cond)
			if !ok || it == nil {
				continue
			}
			nonNil := ft.Truth == tnn
			switch {
			case lk && it == oldItem && nonNil:
				f.oldLink = true
			case lk && it == newItem && nonNil:
				f.newLink = true
			case !lk && it == oldItem && !nonNil:
				f.oldNil = true
			case !lk && it == newItem && !nonNil:
				f.newNil = true
			}
		}
		return f
	}
	// may-load calls and pushes
	type lcall struct {
		ci   ssa.CallInstruction
		name string
	}
	var loads, pushes []lcall
	for _, ci := range CallsOf(fn) {
		if ir.DeadByConst(ci.Block()) {
			continue
		}
		if sb.deleg[ci] {
			continue // handled in the body of the callee
		}
		if ml, name := sdMayLoad(c, ci); ml {
			loads = append(loads, lcall{ci, name})
		}
		if callee := ir.Callee(ci.Common()); callee != nil && S.slice[callee] {
			if call, isCall := ci.(*ssa.Call); isCall {
				if pc, _ := S.popOf(call); pc != nil {
					continue
				}
			}
			for _, a := range ci.Common().Args {
				if sl := S.slotRef(a); sl != nil && stackSlots[sl] {
					pushes = append(pushes, lcall{ci, callee.Name()})
					break
				}
			}
		}
	}
	// the comparison(s) of the old with the new link
	type cmpT struct {
		bin   ssa.Instruction
		eqTo  *ssa.BasicBlock
		neqTo *ssa.BasicBlock
		iff   *ssa.If
	}
	var cmps []cmpT
	for _, b := range fn.Blocks {
		for _, ins := range b.Instrs {
			ec, ok := S.eqCompare(ins)
			if !ok {
				continue
			}
			if !(isLinkOf(ec.X, oldItem) && isLinkOf(ec.Y, newItem)) && !(isLinkOf(ec.X, newItem) && isLinkOf(ec.Y, oldItem)) {
				continue
			}
			bin := ec.At
			ifs, other := sdCondIfs(ec.Val)
			if other || len(ifs) == 0 {
				c.Undecided(fn, P.InstrPos(bin), "link comparison not used as a branch condition",
					"the old and the new link are compared, but the result is not (only) used to branch: the rule cannot tell which code runs for equal links")
				continue
			}
			for _, i := range ifs {
				ct := cmpT{bin: bin, iff: i.If, eqTo: i.OnTrue, neqTo: i.OnFalse}
				if !ec.Eq {
					ct.eqTo, ct.neqTo = i.OnFalse, i.OnTrue
				}
				cmps = append(cmps, ct)
			}
		}
	}
	tot.cmps += len(cmps)
	// the links are interface values: a name (string) and the clean in-memory
	// node loaded from that name are the same node but compare different,
	// unless the links are normalised to names where items are built
	if len(cmps) > 0 {
		if raw, at := sdRawLinkStores(S); len(raw) > 0 {
			c.Violation(tot.step, P.InstrPos(cmps[0].bin), "links compared as interface values: a clean in-memory node and its name differ",
				fmt.Sprintf("%s decides `same subtree` by comparing the two links as interface{} values; a link can be a name or an in-memory *mastNode (Clone, an unflushed or just-loaded root), and a clean node with a source is the very node its name denotes: diffing a persisted version with its own clean Clone reads the root and reports it as removed and added. Items are built from un-normalised links at %s", fn.Name(), at), raw...)
		} else {
			c.OK(P.InstrPos(cmps[0].bin), "link comparison of "+fn.Name(), "item links are normalised to names where items are built", false)
		}
	}
	// (a) loads of the both-links case lie on an unequal edge
	nBoth := 0
	for _, l := range loads {
		f := factsOf(l.ci.Block())
		if !(f.oldLink && f.newLink) {
			continue
		}
		nBoth++
		pos := P.InstrPos(l.ci)
		what := fmt.Sprintf("load by %s in the both-links case of %s", l.name, fn.Name())
		ok := false
		for _, ct := range cmps {
			if underEdge(l.ci.Block(), ct.iff.Block(), ct.neqTo) {
				ok = true
			}
		}
		if ok {
			c.OK(pos, what, "only reached when the links differ", false)
		} else {
			c.Violation(fn, pos, "load by "+l.name+" in the both-links case not under the links-differ test",
				fmt.Sprintf("both items carry a link, and %s (which may read a node) runs without the old and the new link having been found different: an unchanged subtree is loaded instead of skipped", l.name))
		}
	}
	tot.both += nBoth
	// (b) the equal edge: no load, no push back; (c) no load before the comparison
	for _, ct := range cmps {
		pos := P.InstrPos(ct.bin)
		reach := ir.ReachableFrom(ct.eqTo, nil)
		if reach[ct.iff.Block()] {
			c.Undecided(fn, pos, "equal-link edge loops back", "the code after the equal-link edge can reach the comparison again; the rule only handles a step function without loops")
			continue
		}
		bad := false
		for _, l := range loads {
			if reach[l.ci.Block()] {
				c.Violation(fn, P.InstrPos(l.ci), "load by "+l.name+" reachable on the equal-link edge",
					fmt.Sprintf("when the old and the new link are equal, %s (which may read a node) is still reachable before the step returns", l.name))
				bad = true
			}
			if ir.InstrReaches(l.ci, ct.bin) {
				c.Violation(fn, P.InstrPos(l.ci), "load by "+l.name+" before the link comparison",
					fmt.Sprintf("%s (which may read a node) can run before the old and the new link are compared: the shortcut no longer saves the read", l.name))
				bad = true
			}
		}
		for _, p := range pushes {
			if reach[p.ci.Block()] {
				c.Violation(fn, P.InstrPos(p.ci), p.name+" on the equal-link edge",
					fmt.Sprintf("when the old and the new link are equal both items must stay popped (the common subtree is skipped); here %s puts something back on a stack", p.name))
				bad = true
			}
		}
		if !bad {
			c.OK(pos, "equal-link edge of "+fn.Name(), "returns without a load and without pushing an item; no load precedes the comparison", false)
		}
	}
	// (d) both stacks empty: ErrNoMoreDiffs without a load (the step itself only)
	if sb.depth > 0 {
		return
	}
	nEnd := 0
	for _, r := range ir.Returns(fn) {
		ei := ir.ErrorResultIndex(fn.Signature)
		if ei < 0 || !sdIsSentinel(r.Results[ei]) {
			continue
		}
		f := factsOf(r.Block())
		pos := P.InstrPos(r)
		if !(f.oldNil && f.newNil) {
			c.Undecided(fn, pos, "ErrNoMoreDiffs returned not under `both items nil`",
				"the step returns ErrNoMoreDiffs on a path where the two popped items are not both known to be nil")
			continue
		}
		nEnd++
		bad := false
		for _, l := range loads {
			if ir.InstrReaches(l.ci, r) {
				c.Violation(fn, P.InstrPos(l.ci), "load by "+l.name+" before the end-of-diff return",
					fmt.Sprintf("%s (which may read a node) can run before the step finds both stacks empty and returns ErrNoMoreDiffs: a diff of identical versions reads a node", l.name))
				bad = true
			}
		}
		if !bad {
			c.OK(pos, "both stacks empty: return ErrNoMoreDiffs", "no load can precede it", false)
		}
	}
	if nEnd == 0 {
		c.Undecided(fn, fpos, "no end-of-diff return", "no return of ErrNoMoreDiffs under `old item == nil && new item == nil` found in the step")
	}
}

// sdIsSentinel: v is a load of the exported variable ErrNoMoreDiffs.
func sdIsSentinel(v ssa.Value) bool {
	u, ok := ir.Strip(v).(*ssa.UnOp)
	if !ok || u.Op != token.MUL {
		return false
	}
	g, ok := u.X.(*ssa.Global)
	return ok && g.Name() == "ErrNoMoreDiffs"
}

// ---- CBPROP -----------------------------------------------------------------------

// cbResults returns the bool and the error result of a call (nil if unused).
func cbResults(call *ssa.Call) (keep, err ssa.Value) {
	if ir.IsErrorType(call.Type()) {
		return nil, call
	}
	if call.Referrers() == nil {
		return nil, nil
	}
	for _, r := range *call.Referrers() {
		ex, ok := r.(*ssa.Extract)
		if !ok || ex.Referrers() == nil {
			continue
		}
		used := false
		for _, rr := range *ex.Referrers() {
			if _, dbg := rr.(*ssa.DebugRef); !dbg {
				used = true
			}
		}
		if !used {
			continue
		}
		if ir.IsErrorType(ex.Type()) {
			err = ex
		} else if sdIsBool(ex.Type()) {
			keep = ex
		}
	}
	return
}

type nilIf struct {
	If             *ssa.If
	nonNil, isNil_ *ssa.BasicBlock
}

// nilIfsOf finds the branches on `v != nil` / `v == nil`.
func nilIfsOf(fn *ssa.Function, v ssa.Value) []nilIf {
	var out []nilIf
	for _, b := range fn.Blocks {
		if len(b.Instrs) == 0 {
			continue
		}
		iff, ok := b.Instrs[len(b.Instrs)-1].(*ssa.If)
		if !ok {
			continue
		}
		tv, tnn, ok := ir.NilTest(iff.Cond)
		if !ok || !sameValue(tv, v) {
			continue
		}
		if tnn {
			out = append(out, nilIf{iff, b.Succs[0], b.Succs[1]})
		} else {
			out = append(out, nilIf{iff, b.Succs[1], b.Succs[0]})
		}
	}
	return out
}

// errCarries: returning op hands error e (directly or wrapped by fmt.Errorf)
// to the caller.
func errCarries(c *Ctx, op, e ssa.Value) bool {
	if sameValue(op, e) || ir.Strip(op) == e {
		return true
	}
	call, ok := op.(*ssa.Call)
	if !ok {
		return false
	}
	// a private wrapper `func wrap(op string, err error) error { return fmt.Errorf("%s: %w", op, err) }`
	if pi, isW := sdErrWrapper(c, ir.Callee(call.Common()), 0); isW && pi < len(call.Call.Args) {
		return errCarries(c, call.Call.Args[pi], e)
	}
	if !strings.HasPrefix(c.Facts.External(call), "ext:fmt.Errorf") || len(call.Call.Args) < 2 {
		return false
	}
	for _, a := range varargValues(call.Call.Args[len(call.Call.Args)-1]) {
		if ir.Strip(a) == e || sameValue(ir.Strip(a), e) {
			return true
		}
	}
	return false
}

// sdErrWrapper: fn is a function of the repository whose every return is a
// fmt.Errorf (or a further wrapper) carrying its error parameter pi: its
// result is never nil and hands that error on.
func sdErrWrapper(c *Ctx, fn *ssa.Function, depth int) (pi int, ok bool) {
	if fn == nil || depth > 2 || !isOwn(c.P, fn) || fn.Signature.Results().Len() != 1 || !ir.IsErrorType(fn.Signature.Results().At(0).Type()) {
		return 0, false
	}
	pi = -1
	for i, p := range fn.Params {
		if ir.IsErrorType(p.Type()) {
			if pi >= 0 {
				return 0, false
			}
			pi = i
		}
	}
	rets := ir.Returns(fn)
	if pi < 0 || len(rets) == 0 {
		return 0, false
	}
	e := ssa.Value(fn.Params[pi])
	for _, r := range rets {
		call, isCall := r.Results[0].(*ssa.Call)
		if !isCall {
			return 0, false
		}
		carried := false
		if strings.HasPrefix(c.Facts.External(call), "ext:fmt.Errorf") && len(call.Call.Args) >= 2 {
			for _, a := range varargValues(call.Call.Args[len(call.Call.Args)-1]) {
				if ir.Strip(a) == e {
					carried = true
				}
			}
		} else if qi, isW := sdErrWrapper(c, ir.Callee(call.Common()), depth+1); isW && qi < len(call.Call.Args) && ir.Strip(call.Call.Args[qi]) == e {
			carried = true
		}
		if !carried {
			return 0, false
		}
	}
	return pi, true
}

// sentinelTests finds the branches that compare e with ErrNoMoreDiffs
// (==, != or errors.Is) and the successor taken when they are equal.
func sentinelTests(c *Ctx, fn *ssa.Function, e ssa.Value) (out []struct {
	If      *ssa.If
	eq, neq *ssa.BasicBlock
}) {
	add := func(cond ssa.Value, trueMeansEq bool) {
		ifs, _ := sdCondIfs(cond)
		for _, i := range ifs {
			eq, neq := i.OnTrue, i.OnFalse
			if !trueMeansEq {
				eq, neq = neq, eq
			}
			out = append(out, struct {
				If      *ssa.If
				eq, neq *ssa.BasicBlock
			}{i.If, eq, neq})
		}
	}
	for _, b := range fn.Blocks {
		for _, ins := range b.Instrs {
			switch x := ins.(type) {
			case *ssa.BinOp:
				if x.Op != token.EQL && x.Op != token.NEQ {
					continue
				}
				if (sameValue(x.X, e) && sdIsSentinel(x.Y)) || (sameValue(x.Y, e) && sdIsSentinel(x.X)) {
					add(x, x.Op == token.EQL)
				}
			case *ssa.Call:
				if c.Facts.External(x) == "ext:errors.Is" && len(x.Call.Args) == 2 && sameValue(x.Call.Args[0], e) && sdIsSentinel(x.Call.Args[1]) {
					add(x, true)
				}
			}
		}
	}
	return
}

type cbpCtx struct {
	c    *Ctx
	S    *sidesInfo
	fn   *ssa.Function
	step *ssa.Function
	// helpers wrapping the step that were followed from this function
	followed *[]*ssa.Function
}

// continues lists the callback invocations and diff steps in the blocks of reach.
func (k *cbpCtx) continues(reach map[*ssa.BasicBlock]bool) []string {
	var out []string
	for _, ci := range CallsOf(k.fn) {
		if !reach[ci.Block()] {
			continue
		}
		if kind := k.S.callbackKind(ci); kind != "" {
			out = append(out, kind+" callback")
		} else if w := k.callbackHelper(ci); w != "" {
			out = append(out, w)
		} else if _, isStep := k.stepCallee(ci); isStep {
			out = append(out, "next diff step")
		}
	}
	return dedup(out)
}

// callbackHelper: ci calls a helper of the diff that invokes a callback itself.
func (k *cbpCtx) callbackHelper(ci ssa.CallInstruction) string {
	callee := ir.Callee(ci.Common())
	if callee == nil || !k.S.slice[callee] || callee == k.fn {
		return ""
	}
	for _, c2 := range CallsOf(callee) {
		if kind := k.S.callbackKind(c2); kind != "" {
			return kind + " callback (through " + callee.Name() + ")"
		}
	}
	return ""
}

// stepCallee: ci calls the diff step, or a helper of the diff that wraps it
// (a function from which the step is reachable and that returns an error).
func (k *cbpCtx) stepCallee(ci ssa.CallInstruction) (*ssa.Function, bool) {
	callee := ir.Callee(ci.Common())
	if callee == nil {
		return nil, false
	}
	if callee == k.step {
		return callee, true
	}
	if callee != k.fn && k.S.slice[callee] && !k.S.poly[callee] && ir.ErrorResultIndex(callee.Signature) >= 0 && k.c.Facts.Reach(callee)[k.step] {
		return callee, true
	}
	return nil, false
}

func (k *cbpCtx) errIdx() int { return ir.ErrorResultIndex(k.fn.Signature) }

// mustFail: from block `from` (entered when error e is non-nil), every return
// carries e and nothing continues the diff.
func (k *cbpCtx) mustFail(what string, e ssa.Value, from *ssa.BasicBlock, skip func(a, b *ssa.BasicBlock) bool, at ssa.Instruction) {
	k.mustFailX(what, e, from, skip, at, false)
}

// mustFailX: with exact, the error must be returned as it is (not wrapped):
// it may be the ErrNoMoreDiffs sentinel, which callers compare with ==.
func (k *cbpCtx) mustFailX(what string, e ssa.Value, from *ssa.BasicBlock, skip func(a, b *ssa.BasicBlock) bool, at ssa.Instruction, exact bool) {
	c, P := k.c, k.c.P
	reach := ir.ReachableFrom(from, skip)
	bad := false
	if cont := k.continues(reach); len(cont) > 0 {
		c.Violation(k.fn, P.InstrPos(at), what+" does not stop the diff",
			fmt.Sprintf("%s: on the path where it is non-nil, %s goes on and can still reach: %s", what, k.fn.Name(), strings.Join(cont, ", ")))
		return
	}
	for _, r := range ir.Returns(k.fn) {
		if !reach[r.Block()] {
			continue
		}
		op := r.Results[k.errIdx()]
		switch {
		case exact && !(sameValue(op, e) || ir.Strip(op) == e) && errCarries(c, op, e):
			c.Violation(k.fn, P.InstrPos(r), what+" wrapped although it may be ErrNoMoreDiffs",
				fmt.Sprintf("%s: %s does not tell ErrNoMoreDiffs apart here, so it must hand the error on unchanged; wrapping it hides the end-of-diff sentinel from the caller", what, k.fn.Name()))
			bad = true
		case errCarries(c, op, e):
		case ir.IsNilConst(op):
			c.Violation(k.fn, P.InstrPos(r), what+" swallowed: return nil",
				fmt.Sprintf("%s: on the path where it is non-nil, %s returns a nil error — the failure is reported as success", what, k.fn.Name()))
			bad = true
		default:
			c.Undecided(k.fn, P.InstrPos(r), what+": returns another value",
				fmt.Sprintf("%s: on the path where it is non-nil, %s returns %s, which is not (known to be) that error", what, k.fn.Name(), sdDesc(op)))
			bad = true
		}
	}
	if !bad {
		c.OK(P.InstrPos(at), what+" in "+k.fn.Name(), "every path on which it is non-nil returns it (directly or wrapped) and invokes nothing further", false)
	}
}

// mustStop: from block `from`, every return has one of the allowed error
// operands and nothing continues the diff.
func (k *cbpCtx) mustStop(what string, from *ssa.BasicBlock, allowed func(op ssa.Value) bool, allowedDesc string, at ssa.Instruction) {
	c, P := k.c, k.c.P
	reach := ir.ReachableFrom(from, nil)
	bad := false
	if cont := k.continues(reach); len(cont) > 0 {
		c.Violation(k.fn, P.InstrPos(at), what+" does not stop the diff",
			fmt.Sprintf("%s: %s goes on and can still reach: %s", what, k.fn.Name(), strings.Join(cont, ", ")))
		return
	}
	for _, r := range ir.Returns(k.fn) {
		if !reach[r.Block()] {
			continue
		}
		op := r.Results[k.errIdx()]
		if !allowed(op) {
			c.Violation(k.fn, P.InstrPos(r), what+": returns "+sdDescShape(op),
				fmt.Sprintf("%s: %s must return %s here but returns %s", what, k.fn.Name(), allowedDesc, sdDesc(op)))
			bad = true
		}
	}
	if !bad {
		c.OK(P.InstrPos(at), what+" in "+k.fn.Name(), "returns "+allowedDesc+" without a further callback or step", false)
	}
}

// handsStepErrorOn: e, the error of step call `call`, is used for nothing but being returned, and every return
// of k.fn that can follow the call returns it unchanged (`return m.diffOne(ctx, dc)`), and neither a callback nor
// another step runs in between.
func (k *cbpCtx) handsStepErrorOn(call *ssa.Call, e ssa.Value) bool {
	if e.Referrers() == nil || k.errIdx() < 0 {
		return false
	}
	for _, r := range *e.Referrers() {
		switch x := r.(type) {
		case *ssa.DebugRef:
		case *ssa.Return:
			if x.Results[k.errIdx()] != e {
				return false
			}
		default:
			return false
		}
	}
	n := 0
	for _, r := range ir.Returns(k.fn) {
		if !ir.InstrReaches(call, r) {
			continue
		}
		if r.Results[k.errIdx()] != e {
			return false
		}
		n++
	}
	if n == 0 {
		return false
	}
	for _, ci := range CallsOf(k.fn) {
		if ci == ssa.CallInstruction(call) || !ir.InstrReaches(call, ci) {
			continue
		}
		if k.S.callbackKind(ci) != "" || k.callbackHelper(ci) != "" {
			return false
		}
		if _, isStep := k.stepCallee(ci); isStep {
			return false
		}
	}
	return true
}

// stepCalls checks the handling of the diff step's result in k.fn.
// endOK says which error operand ends the diff correctly.
func (k *cbpCtx) stepCalls(endOK func(op, e ssa.Value) bool, endDesc string, needTest bool, depth int) int {
	c, P := k.c, k.c.P
	n := 0
	for _, ci := range CallsOf(k.fn) {
		call, ok := ci.(*ssa.Call)
		callee, isStep := k.stepCallee(ci)
		if !ok || !isStep {
			continue
		}
		pos := P.InstrPos(call)
		if callee != k.step {
			// a helper wrapping the step: it must hand ErrNoMoreDiffs and
			// failures on unchanged; then its error is handled here like the
			// step's own
			if depth >= 2 {
				c.Undecided(k.fn, pos, "diff step wrapped too deeply", "the diff step is reached through more than two helper levels; the rule follows two")
				continue
			}
			kw := &cbpCtx{c: c, S: k.S, fn: callee, step: k.step, followed: k.followed}
			if kw.stepCalls(func(op, e ssa.Value) bool { return sdIsSentinel(op) || sameValue(op, e) }, "ErrNoMoreDiffs", false, depth+1) == 0 {
				c.Undecided(k.fn, pos, "helper "+callee.Name()+" does not call the diff step directly", "the rule follows helpers that call the step themselves")
				continue
			}
			*k.followed = append(*k.followed, callee)
		}
		n++
		_, e := cbResults(call)
		if e == nil {
			c.Violation(k.fn, pos, "result of the diff step ignored", "the error of "+callee.Name()+" is not used: neither the end of the diff nor a failure is noticed")
			continue
		}
		tests := sentinelTests(c, k.fn, e)
		if len(tests) == 0 && needTest {
			c.Violation(k.fn, pos, "ErrNoMoreDiffs not recognised",
				fmt.Sprintf("%s never compares the step's error with ErrNoMoreDiffs: the end of the diff is not told apart from a failure", k.fn.Name()))
		}
		for _, t := range tests {
			k.mustStop("end of diff (ErrNoMoreDiffs)", t.eq, func(op ssa.Value) bool { return endOK(op, e) }, endDesc, call)
		}
		nifs := nilIfsOf(k.fn, e)
		if len(nifs) == 0 && depth > 0 && len(tests) == 0 && k.handsStepErrorOn(call, e) {
			// a helper that only runs the step (after preparing the state) and returns its error as it is:
			// nil, ErrNoMoreDiffs and failures all reach the driver, which is held to the tests
			c.OK(pos, "error of the diff step in "+k.fn.Name(), "returned unchanged on every path after the step; tested by the caller", false)
			continue
		}
		if len(nifs) == 0 {
			c.Violation(k.fn, pos, "error of the diff step not tested",
				fmt.Sprintf("%s never tests the step's error against nil: a failed load is not reported", k.fn.Name()))
		}
		for _, ni := range nifs {
			skip := func(a, b *ssa.BasicBlock) bool {
				for _, t := range tests {
					if a == t.If.Block() && b == t.eq {
						return true
					}
				}
				return false
			}
			k.mustFailX("error of the diff step", e, ni.nonNil, skip, call, len(tests) == 0)
		}
	}
	return n
}

// cbpCheckCall checks the handling of the (keepGoing, error) results of a
// callback invocation — or of a call of a helper that invokes the callback
// and hands both results on to its caller (followed up to two levels).
func cbpCheckCall(kk *cbpCtx, ci ssa.CallInstruction, name string, depth int) {
	cbpCheckCallX(kk, ci, name, depth, false, false)
}

// cbpCheckCallX: stopVal is the value of the call's boolean result that asks
// the diff to stop (false for the callback's keepGoing and for a helper that
// hands keepGoing on; true for a helper answering `stop` = !keepGoing); tied
// says that the callee answers stopVal whenever it returns a non-nil error
// (every failing return of the helper has that constant), so that a caller
// which only branches on the boolean has the error in hand on the stop edge.
func cbpCheckCallX(kk *cbpCtx, ci ssa.CallInstruction, name string, depth int, stopVal, tied bool) {
	c, P, fn := kk.c, kk.c.P, kk.fn
	pos := P.InstrPos(ci)
	call, isCall := ci.(*ssa.Call)
	if !isCall || kk.errIdx() < 0 {
		c.Undecided(fn, pos, name+" not a plain call", "the callback is started with go/defer or from a function without an error result")
		return
	}
	keep, e := cbResults(call)
	var ifs []struct {
		If      *ssa.If
		OnTrue  *ssa.BasicBlock
		OnFalse *ssa.BasicBlock
	}
	other, errHanded := false, false
	if keep != nil {
		ifs, other = sdCondIfs(keep)
	}
	stopEdge := func(i struct {
		If      *ssa.If
		OnTrue  *ssa.BasicBlock
		OnFalse *ssa.BasicBlock
	}) *ssa.BasicBlock {
		if stopVal {
			return i.OnTrue
		}
		return i.OnFalse
	}
	if e == nil {
		c.Violation(fn, pos, "error of the "+name+" ignored", "the callback's error result is dropped: the diff goes on (or ends successfully) although the callback failed")
	} else if nifs := nilIfsOf(fn, e); len(nifs) > 0 {
		for _, ni := range nifs {
			kk.mustFail("error of the "+name, e, ni.nonNil, nil, ci)
		}
	} else if tied && !other && len(ifs) > 0 {
		// never compared with nil, but the helper asks to stop whenever it fails: the error can be non-nil only on
		// the stop edge, and there every return must carry it
		for _, i := range ifs {
			kk.mustFail("error of the "+name, e, stopEdge(i), nil, ci)
		}
	} else if !cbpHasDefers(fn) && kk.handsStepErrorOn(call, e) {
		// `return cb(...)`: the error is used for nothing but being returned, unchanged, by every return that can
		// follow the call, and nothing continues the diff in between: it is the caller that must test it — decided
		// below, where the call sites are checked (both results of the helper are held to this rule there)
		errHanded = true
	} else {
		c.Undecided(fn, pos, "error of the "+name+" never tested", "the callback's error is not compared with nil; the rule cannot find the failing path")
	}
	// errSettle: the decision on an error that is only handed on — fine where the call sites were checked
	errSettle := func(nCallers int) {
		if !errHanded {
			return
		}
		if nCallers > 0 {
			c.OK(pos, "error of the "+name+" in "+fn.Name(), fmt.Sprintf("returned unchanged to the caller; checked at its %d call site(s)", nCallers), false)
		} else {
			c.Undecided(fn, pos, "error of the "+name+" never tested", "the callback's error is not compared with nil; the rule cannot find the failing path")
		}
	}
	if keep == nil {
		errSettle(0)
		c.Violation(fn, pos, "keepGoing of the "+name+" ignored", "the callback's keepGoing result is dropped: the diff cannot be stopped early")
		return
	}
	checkCallers := func(upStop, upTied bool) int {
		n := 0
		for _, cs := range P.Callers[fn] {
			if !kk.S.slice[cs.Parent()] {
				continue
			}
			n++
			kc := &cbpCtx{c: c, S: kk.S, fn: cs.Parent(), step: kk.step}
			cbpCheckCallX(kc, cs, name+" (through "+fn.Name()+")", depth+1, upStop, upTied)
		}
		return n
	}
	checkStopEdges := func() {
		for _, i := range ifs {
			// a callback may return (false, err): `return nil` on the
			// keepGoing==false edge is right only where err is known nil
			errKnownNil := e == nil || nilFactOn(i.If.Block(), e, true)
			kk.mustStop("keepGoing==false of the "+name, stopEdge(i), func(op ssa.Value) bool {
				if e != nil && sameValue(op, e) {
					return true
				}
				return ir.IsNilConst(op) && errKnownNil
			}, "nil (with the callback's error known to be nil) or that error", ci)
		}
	}
	if other || len(ifs) == 0 {
		// handed on to the caller?
		if depth < 2 && len(ifs) == 0 {
			upStop, upTied, handed := stopVal, false, sdOnlyReturned(keep) && cbpKeepReachesReturns(fn, call, keep, stopVal)
			if onlyCalledStatically(c, fn) {
				if s, t, ok := cbpHandsOn(fn, call, keep, stopVal); ok {
					upStop, upTied, handed = s, t, true
				}
			}
			n := 0
			if handed {
				n = checkCallers(upStop, upTied)
			}
			if n > 0 {
				errSettle(n)
				c.OK(pos, "keepGoing of the "+name+" in "+fn.Name(), fmt.Sprintf("returned to the caller; checked at its %d call site(s)", n), false)
				return
			}
		} else if depth < 2 && onlyCalledStatically(c, fn) {
			// tested here AND handed on (`if err != nil || !keepGoing { return keepGoing, err }`): the helper must
			// stop on its stop edge like the driver, and answer there what asks its caller to stop
			var edges []*ssa.BasicBlock
			for _, i := range ifs {
				edges = append(edges, stopEdge(i))
			}
			if upStop, upTied, ok := cbpTestsAndHandsOn(fn, keep, edges, stopVal); ok {
				if n := checkCallers(upStop, upTied); n > 0 {
					errSettle(n)
					checkStopEdges()
					c.OK(pos, "keepGoing of the "+name+" in "+fn.Name(), fmt.Sprintf("tested here, and the stop request is returned to the caller; checked at its %d call site(s)", n), false)
					return
				}
			}
		}
		errSettle(0)
		c.Undecided(fn, pos, "keepGoing of the "+name+" not used as a branch condition", "keepGoing is not (only) used to branch; the rule cannot find the stopping path")
		return
	}
	if depth < 2 && cbpBoolResult(fn) >= 0 && len(P.Callers[fn]) > 0 {
		// a helper with a boolean result that branches on keepGoing: returning ends the helper, not the diff — the
		// stop edge must answer what asks the caller to stop, and the callers are held to it
		var edges []*ssa.BasicBlock
		for _, i := range ifs {
			edges = append(edges, stopEdge(i))
		}
		n := 0
		if upStop, upTied, ok := cbpTestsAndHandsOn(fn, keep, edges, stopVal); ok && onlyCalledStatically(c, fn) {
			n = checkCallers(upStop, upTied)
		}
		errSettle(n)
		if n == 0 {
			c.Undecided(fn, pos, "keepGoing of the "+name+": stop request not handed to the caller", "the helper "+fn.Name()+" branches on keepGoing, but the rule cannot see that its boolean result tells its caller to stop")
			return
		}
		checkStopEdges()
		return
	}
	errSettle(0)
	checkStopEdges()
}

// cbpBoolResult: the index of fn's single boolean result (-1 if none or several).
func cbpBoolResult(fn *ssa.Function) int {
	res, bi := fn.Signature.Results(), -1
	for i := 0; i < res.Len(); i++ {
		if sdIsBool(res.At(i).Type()) {
			if bi >= 0 {
				return -1
			}
			bi = i
		}
	}
	return bi
}

// cbpKeepReachesReturns: every return of fn that can follow the call answers,
// in fn's single boolean result, keep itself (possibly merged by a φ with the
// stopping constant) or the constant that asks to stop: no path after the call
// drops the callback's request to stop.
func cbpKeepReachesReturns(fn *ssa.Function, call *ssa.Call, keep ssa.Value, stopVal bool) bool {
	bi := cbpBoolResult(fn)
	if bi < 0 || cbpHasDefers(fn) {
		return false
	}
	var fine func(v ssa.Value, d int) bool
	fine = func(v ssa.Value, d int) bool {
		if v == keep {
			return true
		}
		if k, isK := ir.ConstBool(v); isK {
			return k == stopVal
		}
		if phi, isPhi := v.(*ssa.Phi); isPhi && d < 2 {
			for _, e := range phi.Edges {
				if !fine(e, d+1) {
					return false
				}
			}
			return true
		}
		return false
	}
	for _, r := range ir.Returns(fn) {
		if !ir.InstrReaches(call, r) {
			continue
		}
		if bi >= len(r.Results) || !fine(r.Results[bi], 0) {
			return false
		}
	}
	return true
}

// cbpHasDefers: fn has deferred calls (which could change its results).
func cbpHasDefers(fn *ssa.Function) bool {
	for _, b := range fn.Blocks {
		for _, ins := range b.Instrs {
			switch ins.(type) {
			case *ssa.Defer, *ssa.RunDefers:
				return true
			}
		}
	}
	return false
}

// cbpTestsAndHandsOn: helper fn branches on keep (the boolean result of a
// callback invocation, asking to stop when it equals stopVal) and also returns
// it: keep is used for nothing but branching and being returned (as it is or
// negated) in fn's single boolean result, and every return that can follow one
// of the stop edges answers the same request to stop — keep itself (which has
// the stopping value on every path through such an edge), its negation, or the
// constant. upStop is the value of fn's boolean result that asks to stop;
// upTied as in cbpHandsOn. Functions with defers do not qualify.
func cbpTestsAndHandsOn(fn *ssa.Function, keep ssa.Value, stopEdges []*ssa.BasicBlock, stopVal bool) (upStop, upTied, ok bool) {
	res := fn.Signature.Results()
	ei, bi := ir.ErrorResultIndex(fn.Signature), -1
	for i := 0; i < res.Len(); i++ {
		if sdIsBool(res.At(i).Type()) {
			if bi >= 0 {
				return false, false, false
			}
			bi = i
		}
	}
	if bi < 0 || ei < 0 || cbpHasDefers(fn) {
		return false, false, false
	}
	forms := map[ssa.Value]bool{} // value -> negated
	var walk func(v ssa.Value, neg bool, d int) bool
	walk = func(v ssa.Value, neg bool, d int) bool {
		if d > 2 || v.Referrers() == nil {
			return false
		}
		forms[v] = neg
		for _, r := range *v.Referrers() {
			switch x := r.(type) {
			case *ssa.DebugRef, *ssa.If:
			case *ssa.Return:
				for i, op := range x.Results {
					if op == v && i != bi {
						return false
					}
				}
			case *ssa.UnOp:
				if x.Op != token.NOT || !walk(x, !neg, d+1) {
					return false
				}
			default:
				return false
			}
		}
		return true
	}
	if !walk(keep, false, 0) {
		return false, false, false
	}
	n := 0
	for _, from := range stopEdges {
		reach := ir.ReachableFrom(from, nil)
		for _, r := range ir.Returns(fn) {
			if !reach[r.Block()] {
				continue
			}
			if bi >= len(r.Results) {
				return false, false, false
			}
			bop := r.Results[bi]
			var asks bool
			if neg, isForm := forms[bop]; isForm {
				asks = stopVal != neg
			} else if k, isK := ir.ConstBool(bop); isK {
				asks = k
			} else {
				return false, false, false
			}
			if n > 0 && asks != upStop {
				return false, false, false
			}
			upStop = asks
			n++
		}
	}
	if n == 0 {
		return false, false, false
	}
	// upTied: fn never fails without asking to stop
	upTied = true
	for _, r := range ir.Returns(fn) {
		if bi >= len(r.Results) || ei >= len(r.Results) {
			return false, false, false
		}
		k, isK := ir.ConstBool(ir.ForwardLoad(r.Results[bi]))
		if !ir.IsNilConst(ir.ForwardLoad(r.Results[ei])) && !(isK && k == upStop) {
			upTied = false
		}
	}
	return upStop, upTied, true
}

// cbpHandsOn: helper fn hands the stop request of `call` (its boolean result
// keep, which asks to stop when it equals stopVal) on to its own caller in its
// single boolean result, as it is or negated (`return !keepGoing, nil`): keep
// is used for nothing else, and every return that can follow the call answers
// keep in that form or the constant that asks to stop. upStop is the value of
// fn's boolean result that asks to stop; upTied: every return of fn whose error
// is not the nil constant answers that constant — fn never fails without asking
// to stop. Functions with defers (which could change the results) do not qualify.
func cbpHandsOn(fn *ssa.Function, call *ssa.Call, keep ssa.Value, stopVal bool) (upStop, upTied, ok bool) {
	res := fn.Signature.Results()
	ei, bi := ir.ErrorResultIndex(fn.Signature), -1
	for i := 0; i < res.Len(); i++ {
		if sdIsBool(res.At(i).Type()) {
			if bi >= 0 {
				return false, false, false
			}
			bi = i
		}
	}
	if bi < 0 || ei < 0 || keep.Referrers() == nil {
		return false, false, false
	}
	for _, b := range fn.Blocks {
		for _, ins := range b.Instrs {
			switch ins.(type) {
			case *ssa.Defer, *ssa.RunDefers:
				return false, false, false
			}
		}
	}
	// the forms in which keep reaches the returns
	forms := map[ssa.Value]bool{} // value -> negated
	nReturned, negSeen, posSeen := 0, false, false
	var walk func(v ssa.Value, neg bool, d int) bool
	walk = func(v ssa.Value, neg bool, d int) bool {
		if d > 2 || v.Referrers() == nil {
			return false
		}
		forms[v] = neg
		for _, r := range *v.Referrers() {
			switch x := r.(type) {
			case *ssa.DebugRef:
			case *ssa.Return:
				for i, op := range x.Results {
					if op == v && i != bi {
						return false
					}
				}
				nReturned++
				if neg {
					negSeen = true
				} else {
					posSeen = true
				}
			case *ssa.UnOp:
				if x.Op != token.NOT || !walk(x, !neg, d+1) {
					return false
				}
			default:
				return false
			}
		}
		return true
	}
	if !walk(keep, false, 0) || nReturned == 0 || negSeen == posSeen {
		return false, false, false
	}
	upStop = stopVal != negSeen
	upTied = true
	for _, r := range ir.Returns(fn) {
		if bi >= len(r.Results) || ei >= len(r.Results) {
			return false, false, false
		}
		bop := ir.ForwardLoad(r.Results[bi])
		k, isK := ir.ConstBool(bop)
		if ir.InstrReaches(call, r) {
			if _, isForm := forms[bop]; !isForm && !(isK && k == upStop) {
				return false, false, false // keepGoing is not what decides here
			}
		}
		if !ir.IsNilConst(ir.ForwardLoad(r.Results[ei])) && !(isK && k == upStop) {
			upTied = false
		}
	}
	return upStop, upTied, true
}

// sdOnlyReturned: v is used only as a result operand of return instructions
// (possibly through φs).
func sdOnlyReturned(v ssa.Value) bool {
	seen := map[ssa.Value]bool{}
	var ok func(v ssa.Value) bool
	ok = func(v ssa.Value) bool {
		if seen[v] {
			return true
		}
		seen[v] = true
		if v.Referrers() == nil {
			return false
		}
		n := 0
		for _, r := range *v.Referrers() {
			switch x := r.(type) {
			case *ssa.DebugRef:
			case *ssa.Return:
				n++
			case *ssa.Phi:
				if !ok(x) {
					return false
				}
				n++
			default:
				return false
			}
		}
		return n > 0
	}
	return ok(v)
}

func runCBPROP(c *Ctx) {
	S := sidesReady(c)
	if S == nil {
		return
	}
	P := c.P
	fnDiff, fnNext, step := c.MustFunc("(*Mast).diff"), c.MustFunc("(*DiffCursor).NextEntry"), c.MustFunc("(*Mast).diffOne")
	if fnDiff == nil || fnNext == nil || step == nil {
		return
	}
	// ---- the callback form
	k := &cbpCtx{c: c, S: S, fn: fnDiff, step: step}
	nCb := 0
	for _, fn := range S.fns {
		for _, ci := range CallsOf(fn) {
			kind := S.callbackKind(ci)
			if kind == "" {
				continue
			}
			nCb++
			kk := &cbpCtx{c: c, S: S, fn: fn, step: step}
			_ = k
			name := kind + " callback"
			if kind == "link" {
				if rem, ok := ir.ConstBool(ci.Common().Args[S.linkRemovedIdx]); ok {
					name = fmt.Sprintf("link callback(removed=%v)", rem)
				}
			}
			cbpCheckCall(kk, ci, name, 0)
		}
	}
	if nCb == 0 {
		c.Undecided(nil, "-", "no callback invocation", "no invocation of the diff callbacks found")
	}
	var followedDiff, followedNext []*ssa.Function
	k.followed = &followedDiff
	if k.stepCalls(func(op, e ssa.Value) bool { return ir.IsNilConst(op) }, "nil", true, 0) == 0 {
		c.Undecided(fnDiff, P.Pos(fnDiff.Pos()), "no diff step", fnDiff.Name()+" does not call "+step.Name())
	}
	// ---- the cursor form
	kn := &cbpCtx{c: c, S: S, fn: fnNext, step: step, followed: &followedNext}
	if kn.stepCalls(func(op, e ssa.Value) bool { return sdIsSentinel(op) || sameValue(op, e) }, "ErrNoMoreDiffs", false, 0) == 0 {
		c.Undecided(fnNext, P.Pos(fnNext.Pos()), "no diff step", fnNext.Name()+" does not call "+step.Name())
	}
	cbpCursorEnd(c, S, append([]*ssa.Function{fnNext}, followedNext...), step)
}

// cbpCursorEnd: ErrNoMoreDiffs is the only way the cursor ends — in NextEntry
// and the helpers through which it runs the step, the sentinel is returned
// only where the step reported it (or the cursor was marked done then), and
// the cursor is marked done nowhere else.
func cbpCursorEnd(c *Ctx, S *sidesInfo, fns []*ssa.Function, step *ssa.Function) {
	P := c.P
	type edge struct{ from, to *ssa.BasicBlock }
	under := func(b *ssa.BasicBlock, es []edge) bool {
		for _, e := range es {
			if underEdge(b, e.from, e.to) {
				return true
			}
		}
		return false
	}
	// done flags: boolean fields of the cursor that are tested
	doneField := func(v ssa.Value) *sdSlot {
		u, ok := v.(*ssa.UnOp)
		if !ok || u.Op != token.MUL {
			return nil
		}
		fa, ok := u.X.(*ssa.FieldAddr)
		if !ok {
			return nil
		}
		sl := S.sidedField(fa.X.Type(), fa.Field)
		if sl == nil || sl.owner != "DiffCursor" || !sl.isBool {
			return nil
		}
		return sl
	}
	endEdges := map[*ssa.Function][]edge{}
	doneEdges := map[*ssa.Function][]edge{}
	flags := map[*sdSlot]bool{}
	seen := map[*ssa.Function]bool{}
	var uniq []*ssa.Function
	for _, fn := range fns {
		if seen[fn] {
			continue
		}
		seen[fn] = true
		uniq = append(uniq, fn)
		k := &cbpCtx{c: c, S: S, fn: fn, step: step}
		for _, ci := range CallsOf(fn) {
			call, ok := ci.(*ssa.Call)
			if _, isStep := k.stepCallee(ci); !ok || !isStep {
				continue
			}
			if _, e := cbResults(call); e != nil {
				for _, t := range sentinelTests(c, fn, e) {
					endEdges[fn] = append(endEdges[fn], edge{t.If.Block(), t.eq})
				}
			}
		}
		for _, b := range fn.Blocks {
			for _, ins := range b.Instrs {
				u, ok := ins.(*ssa.UnOp)
				if !ok {
					continue
				}
				sl := doneField(u)
				if sl == nil {
					continue
				}
				ifs, _ := sdCondIfs(u)
				for _, i := range ifs {
					doneEdges[fn] = append(doneEdges[fn], edge{i.If.Block(), i.OnTrue})
					flags[sl] = true
				}
			}
		}
	}
	for _, fn := range uniq {
		ei := ir.ErrorResultIndex(fn.Signature)
		for _, r := range ir.Returns(fn) {
			if ei < 0 || !sdIsSentinel(r.Results[ei]) {
				continue
			}
			pos := P.InstrPos(r)
			switch {
			case under(r.Block(), endEdges[fn]):
				c.OK(pos, "return ErrNoMoreDiffs in "+fn.Name(), "on the edge where the step reported ErrNoMoreDiffs", false)
			case under(r.Block(), doneEdges[fn]):
				c.OK(pos, "return ErrNoMoreDiffs in "+fn.Name(), "the cursor was marked done (checked: only at the end of the diff)", false)
			default:
				c.Violation(fn, pos, "ErrNoMoreDiffs returned although the diff has not ended",
					fn.Name()+" returns ErrNoMoreDiffs on a path where the step has not reported the end of the diff: the cursor ends early and differences are lost")
			}
		}
		for _, b := range fn.Blocks {
			for _, ins := range b.Instrs {
				st, ok := ins.(*ssa.Store)
				if !ok || !sdConstTrue(st.Val) {
					continue
				}
				fa, ok := st.Addr.(*ssa.FieldAddr)
				if !ok {
					continue
				}
				sl := S.sidedField(fa.X.Type(), fa.Field)
				if sl == nil || !flags[sl] {
					continue
				}
				if under(b, endEdges[fn]) {
					c.OK(P.InstrPos(st), "cursor marked done ("+sl.field.Name()+") in "+fn.Name(), "only where the step reported ErrNoMoreDiffs", false)
				} else {
					c.Violation(fn, P.InstrPos(st), "cursor marked done ("+sl.field.Name()+") although the diff has not ended",
						fn.Name()+" sets "+sl.field.Name()+" on a path where the step has not reported the end of the diff: the next call returns ErrNoMoreDiffs and differences are lost")
				}
			}
		}
	}
}

var _ = types.Identical

// ---- NOTIFY -----------------------------------------------------------------------

// reportSlots: the state fields read by the link callback -> required side.
func reportSlots(S *sidesInfo) map[*sdSlot]side {
	report := map[*sdSlot]side{}
	dl, _ := S.LinkDeliveries()
	for _, d := range dl {
		sl := S.slotRef(d.link)
		if sl == nil {
			continue
		}
		if d.removed {
			report[sl] = sdOld
		} else {
			report[sl] = sdNew
		}
	}
	return report
}

// sameLink: two values denote the same link (same SSA value, or loads of the
// link field of the same item, or the same symbolic path).
func (S *sidesInfo) sameLink(a, b ssa.Value) bool {
	a, b = ir.ResolveCell(ir.Strip(a)), ir.ResolveCell(ir.Strip(b))
	if a == b {
		return true
	}
	ia, oka := S.itemLink(a)
	ib, okb := S.itemLink(b)
	if oka && okb && ia == ib {
		return true
	}
	return false
}

// notNotifiedGuard: block b is only entered after a call of notified(…, link)
// returned false for this link; returns that call.
func (S *sidesInfo) notNotifiedGuard(b *ssa.BasicBlock, notified *ssa.Function, link ssa.Value) *ssa.Call {
	for _, f := range sdExpandFacts(ir.FactsAt(b), 0) {
		cond, truth := f.Cond, f.Truth
		for {
			u, ok := cond.(*ssa.UnOp)
			if !ok || u.Op != token.NOT {
				break
			}
			cond, truth = u.X, !truth
		}
		// the answer: the call itself, or the boolean result of (answer, error)
		if ex, isEx := cond.(*ssa.Extract); isEx && sdIsBool(ex.Type()) {
			cond = ex.Tuple
		}
		call, ok := cond.(*ssa.Call)
		if !ok || truth || ir.Callee(call.Call) != notified || len(call.Call.Args) == 0 {
			continue
		}
		if S.sameLink(call.Call.Args[len(call.Call.Args)-1], link) {
			return call
		}
	}
	return nil
}

func runNOTIFY(c *Ctx) {
	S := sidesReady(c)
	if S == nil {
		return
	}
	P := c.P
	notified := c.MustFunc("(*Mast).alreadyNotified")
	if notified == nil {
		return
	}
	np := len(notified.Params)
	if np < 3 || !sdIsBool(notified.Signature.Results().At(0).Type()) {
		c.AnchorMissing("(*Mast).alreadyNotified(…, memo, link) bool")
		return
	}
	if _, isIface := notified.Params[np-1].Type().Underlying().(*types.Interface); !isIface {
		c.AnchorMissing("link (last) parameter of alreadyNotified")
		return
	}
	report := reportSlots(S)
	if len(report) == 0 {
		c.Undecided(nil, "-", "no link callback invocation", "no field read by the link callback found")
		return
	}
	// (1) every recording of a link is guarded by !alreadyNotified(memo of that side, that link)
	check := func(fn *ssa.Function, st *ssa.Store, sl *sdSlot, want side) {
		if ir.IsNilConst(st.Val) {
			return
		}
		pos := P.InstrPos(st)
		kind := "added"
		if want == sdOld {
			kind = "removed"
		}
		what := fmt.Sprintf("%s link recorded (%s = %s) in %s", kind, sl.field.Name(), sdDesc(st.Val), ir.FuncName(fn))
		g := S.notNotifiedGuard(st.Block(), notified, st.Val)
		if g == nil {
			c.Violation(fn, pos, fmt.Sprintf("%s link (%s) recorded without the !%s guard", kind, sl.field.Name(), notified.Name()),
				fmt.Sprintf("%s is set to %s on a path on which %s has not answered false for this very link: the same node can be reported to the link callback more than once", sl.name, sdDesc(st.Val), notified.Name()))
			return
		}
		memo := S.slotRef(g.Call.Args[np-2])
		if ms := S.sideOf(g.Call.Args[np-2]); ms != sdNone && ms != want {
			c.Violation(fn, pos, fmt.Sprintf("%s link (%s) guarded by the %s memo", kind, sl.field.Name(), ms),
				fmt.Sprintf("%s is recorded under !%s, but the memo consulted is the %s one", sl.name, notified.Name(), ms))
			return
		}
		mn := "memo"
		if memo != nil {
			mn = memo.name
		}
		c.OK(pos, what, "only where "+notified.Name()+"("+mn+", this link) answered false", false)
	}
	for _, fn := range S.fns {
		for _, b := range fn.Blocks {
			for _, ins := range b.Instrs {
				st, ok := ins.(*ssa.Store)
				if !ok {
					continue
				}
				if sl, _ := S.storeRoot(st.Addr); sl != nil {
					if want, isRep := report[sl]; isRep {
						check(fn, st, sl, want)
					}
					continue
				}
				// store through a pointer parameter bound to the address of a report field
				p, isP := st.Addr.(*ssa.Parameter)
				if !isP {
					continue
				}
				idx := -1
				for i, q := range fn.Params {
					if q == p {
						idx = i
					}
				}
				for _, cs := range P.Callers[fn] {
					if !S.slice[cs.Parent()] || idx < 0 || idx >= len(cs.Common().Args) {
						continue
					}
					if fa, isFA := cs.Common().Args[idx].(*ssa.FieldAddr); isFA {
						if sl := S.sidedField(fa.X.Type(), fa.Field); sl != nil {
							if want, isRep := report[sl]; isRep {
								check(fn, st, sl, want)
							}
						}
					}
				}
			}
		}
	}
	// (2) a failure inside alreadyNotified (a load or layer call failing there,
	// or in a helper that signals failure) is returned as an error: an
	// answer without the error — "not notified" or "notified" — makes the
	// caller record or drop the link on the strength of a read that failed
	nErr := 0
	nei := ir.ErrorResultIndex(notified.Signature)
	for _, fe := range sdFailEdges(c, S, notified, 0) {
		nErr++
		if nei < 0 {
			c.Violation(notified, P.InstrPos(fe.at), "failure of "+fe.what+" answered instead of returned",
				fmt.Sprintf("%s has no error result: when %s fails it can only answer; answering false makes the caller report the link now and — if the store recovers — again later, answering true drops the node from the node diff; the failure must reach the caller as an error", notified.Name(), fe.what))
			continue
		}
		reach := ir.ReachableFrom(fe.to, nil)
		bad := false
		for _, r := range ir.Returns(notified) {
			if !reach[r.Block()] || nei >= len(r.Results) {
				continue
			}
			op := r.Results[nei]
			switch op.(type) {
			case *ssa.Call, *ssa.MakeInterface, *ssa.Extract:
				continue // an error value: the failing call's, or one made here
			}
			c.Violation(notified, P.InstrPos(r), "failure of "+fe.what+" not returned as an error",
				fmt.Sprintf("when %s fails, %s must return the error; here it can return %s with the answer %s: the caller records or drops the link although the read failed", fe.what, notified.Name(), sdDesc(op), sdDesc(r.Results[0])))
			bad = true
		}
		if !bad {
			c.OK(P.InstrPos(fe.at), "failure of "+fe.what+" in "+notified.Name(), "returned as an error", false)
		}
	}
	if nErr == 0 {
		c.Undecided(notified, P.Pos(notified.Pos()), "no error path", notified.Name()+" has no tested error result; the rule expects it to load the link")
	}
	if step := c.MustFunc("(*Mast).diffOne"); step != nil {
		notifyConsumed(c, S, step, notified)
		notifyNoReset(c, S, step, notified, report)
		notifyRecords(c, S, notified, report)
		notifyMemoHeight(c, S, notified)
	}
}

func lpCallNameOf(call *ssa.Call) string {
	if sc := ir.Callee(call.Call); sc != nil {
		return sc.Name()
	}
	if call.Call.IsInvoke() {
		return call.Call.Method.Name()
	}
	return describeFuncValue(call.Call.Value)
}

// ---- DIFFREADS --------------------------------------------------------------------

// stepItems finds the items popped from the OLD and the NEW stack in the step.
func stepItems(S *sidesInfo, fn *ssa.Function) (oldItem, newItem ssa.Value, stacks map[*sdSlot]bool, ok bool) {
	stacks = map[*sdSlot]bool{}
	for _, ci := range CallsOf(fn) {
		call, isCall := ci.(*ssa.Call)
		if !isCall {
			continue
		}
		// a helper that pops and returns the items (o, n := dc.popPair()):
		// every pop it performs counts, each must come back as an item
		if items, inner := S.popHelperItems(call); len(items) > 0 {
			nOld, nNew := 0, 0
			for _, sl := range inner {
				stacks[sl] = true
				switch sl.cur {
				case sdOld:
					nOld++
				case sdNew:
					nNew++
				}
			}
			if nOld > 1 || nNew > 1 {
				return nil, nil, nil, false
			}
			for _, ex := range items {
				_, sl := S.popOfExtract(ex)
				switch sl.cur {
				case sdOld:
					if oldItem != nil {
						return nil, nil, nil, false
					}
					oldItem = ex
					nOld--
				case sdNew:
					if newItem != nil {
						return nil, nil, nil, false
					}
					newItem = ex
					nNew--
				}
			}
			if nOld != 0 || nNew != 0 {
				return nil, nil, nil, false // a pop of the helper whose item is dropped
			}
			continue
		}
		pc, sl := S.popOf(call)
		if pc == nil {
			continue
		}
		stacks[sl] = true
		switch sl.cur {
		case sdOld:
			if oldItem != nil {
				return nil, nil, nil, false
			}
			oldItem = pc
		case sdNew:
			if newItem != nil {
				return nil, nil, nil, false
			}
			newItem = pc
		}
	}
	return oldItem, newItem, stacks, oldItem != nil && newItem != nil
}

func sdIsNodePtr(t types.Type) bool { return ir.IsPtrToNamed(t, "mastNode") }

// cmpZeroLeaf evaluates comparisons of value v with integer constants for v == 0.
func cmpZeroLeaf(v ssa.Value) func(ssa.Value) (bool, bool) {
	return func(cond ssa.Value) (bool, bool) {
		bin, ok := cond.(*ssa.BinOp)
		if !ok {
			return false, false
		}
		var k int64
		op := bin.Op
		if bin.X == v {
			kk, isK := ir.ConstInt(bin.Y)
			if !isK {
				return false, false
			}
			k = kk
		} else if bin.Y == v {
			kk, isK := ir.ConstInt(bin.X)
			if !isK {
				return false, false
			}
			k = kk
			switch op { // k op v  ==>  v op' k
			case token.LSS:
				op = token.GTR
			case token.LEQ:
				op = token.GEQ
			case token.GTR:
				op = token.LSS
			case token.GEQ:
				op = token.LEQ
			}
		} else {
			return false, false
		}
		switch op {
		case token.LSS:
			return 0 < k, true
		case token.LEQ:
			return 0 <= k, true
		case token.GTR:
			return 0 > k, true
		case token.GEQ:
			return 0 >= k, true
		case token.EQL:
			return 0 == k, true
		case token.NEQ:
			return 0 != k, true
		}
		return false, false
	}
}

func runDIFFREADS(c *Ctx) {
	S := sidesReady(c)
	if S == nil {
		return
	}
	P := c.P
	step, notified := c.MustFunc("(*Mast).diffOne"), c.MustFunc("(*Mast).alreadyNotified")
	if step == nil || notified == nil {
		return
	}
	// (1) the entry points and the drivers (functions from which the step is
	// reachable) read nodes only through the step: with the step removed from
	// the call graph none of their calls may reach Persist.Load
	noStep := map[*ssa.Function]bool{}
	for _, fn := range P.Funcs {
		for _, ci := range CallsOf(fn) {
			if c.Facts.External(ci) == "Persist.Load" && fn != step {
				noStep[fn] = true
			}
		}
	}
	for changed := true; changed; {
		changed = false
		for _, fn := range P.Funcs {
			if noStep[fn] || fn == step {
				continue
			}
			for _, ci := range CallsOf(fn) {
				for _, callee := range c.Facts.Callees(ci) {
					if callee != step && noStep[callee] {
						noStep[fn] = true
						changed = true
					}
				}
			}
		}
	}
	isEntry := map[*ssa.Function]bool{}
	for _, e := range S.entries {
		isEntry[e] = true
	}
	nDrv := 0
	for _, fn := range S.fns {
		if fn == step || !(isEntry[fn] || c.Facts.Reach(fn)[step]) {
			continue
		}
		nDrv++
		bad := false
		for _, ci := range CallsOf(fn) {
			if S.callbackKind(ci) != "" {
				continue // the user's callback
			}
			for _, callee := range c.Facts.Callees(ci) {
				if callee == step || !noStep[callee] || isEntry[callee] || c.Facts.Reach(callee)[step] {
					continue // drivers are examined themselves
				}
				c.Violation(fn, P.InstrPos(ci), "node read outside the diff step: "+callee.Name(),
					fmt.Sprintf("%s calls %s, which may read nodes, outside the diff step: these reads happen even when the two versions are the same and are not bounded by the size of the change", fn.Name(), callee.Name()))
				bad = true
			}
			if c.Facts.External(ci) == "Persist.Load" {
				c.Violation(fn, P.InstrPos(ci), "node read outside the diff step: Persist.Load",
					fn.Name()+" reads from the store outside the diff step")
				bad = true
			}
		}
		if !bad {
			c.OK(P.Pos(fn.Pos()), "node reads of "+ir.FuncName(fn), "only through the diff step", false)
		}
	}
	if nDrv == 0 {
		c.Undecided(nil, "-", "no driver of the diff step", "no function reachable from the diff entry points calls "+step.Name())
	}
	diffReadsSameKey(c, S, step)
	diffReadsPassThrough(c, S, step)
	diffReadsEntryVsLink(c, S, step)
	diffReadsNotified(c, S, notified)
}

// diffReadsSameKey: in the both-links case, after the first keys of the two
// loaded nodes compared equal, both nodes are expanded and neither item is
// pushed back (otherwise one side descends below the other and common
// subtrees are never met link against link).
func diffReadsSameKey(c *Ctx, S *sidesInfo, step *ssa.Function) {
	P := c.P
	bodies, ok := stepBodies(c, S, step)
	if !ok {
		c.Undecided(step, P.Pos(step.Pos()), "popped items not found", "the diff step does not pop one item per side")
		return
	}
	n := 0
	for _, sb := range bodies {
		n += diffReadsSameKeyBody(c, S, sb)
	}
	if n == 0 {
		c.Undecided(step, P.Pos(step.Pos()), "no comparison of the first keys of the two loaded nodes",
			"the rule expects the both-links case to compare a key of the old node with a key of the new node through the key order")
	}
}

func diffReadsSameKeyBody(c *Ctx, S *sidesInfo, sb *stepBody) int {
	P := c.P
	step, oldItem, newItem, stacks := sb.fn, sb.old, sb.new, sb.stacks
	n := 0
	poison := S.Poisoned() // values whose side is unknown because of a call SIDES reports
	for _, ci := range CallsOf(step) {
		call, isCall := ci.(*ssa.Call)
		com := ci.Common()
		if !isCall || ir.Callee(com) != nil || com.IsInvoke() || S.callbackKind(ci) != "" || len(com.Args) != 2 {
			continue
		}
		tup, isT := call.Type().(*types.Tuple)
		if !isT || tup.Len() != 2 {
			continue
		}
		if b, isB := tup.At(0).Type().Underlying().(*types.Basic); !isB || b.Info()&types.IsInteger == 0 {
			continue
		}
		if S.sideOf(com.Args[0])|S.sideOf(com.Args[1]) != sdBoth && !poison[com.Args[0]] && !poison[com.Args[1]] {
			continue
		}
		// the keys must come from loaded nodes, not from the items
		fromItem := false
		for _, a := range com.Args {
			if r := sdAccessRoot(a); r == ssa.Value(oldItem) || r == ssa.Value(newItem) {
				fromItem = true
			}
		}
		if fromItem {
			continue
		}
		var cmpV ssa.Value
		if call.Referrers() != nil {
			for _, r := range *call.Referrers() {
				if ex, isEx := r.(*ssa.Extract); isEx && ex.Index == 0 {
					cmpV = ex
				}
			}
		}
		if cmpV == nil {
			continue
		}
		n++
		pos := P.InstrPos(call)
		leaf := cmpZeroLeaf(cmpV)
		pruned := func(from, to *ssa.BasicBlock) bool {
			if len(from.Instrs) == 0 || len(from.Succs) != 2 || from.Succs[0] == from.Succs[1] {
				return false
			}
			iff, isIf := from.Instrs[len(from.Instrs)-1].(*ssa.If)
			if !isIf {
				return false
			}
			v, known := sdEvalCond(iff.Cond, leaf, 0)
			if !known {
				return false
			}
			if v {
				return to == from.Succs[1]
			}
			return to == from.Succs[0]
		}
		expands := map[side]map[*ssa.BasicBlock]bool{sdOld: {}, sdNew: {}}
		var pushBacks []ssa.CallInstruction
		for _, pc := range CallsOf(step) {
			callee := ir.Callee(pc.Common())
			if callee == nil || !S.slice[callee] {
				continue
			}
			var st *sdSlot
			node, item := false, false
			for _, a := range pc.Common().Args {
				if sl := S.slotRef(a); sl != nil && stacks[sl] {
					st = sl
				} else if sdIsNodePtr(a.Type()) {
					node = true
				} else if (oldItem != nil && sdSameItem(a, oldItem)) || (newItem != nil && sdSameItem(a, newItem)) {
					item = true
				}
			}
			if st == nil {
				continue
			}
			if node {
				expands[st.cur][pc.Block()] = true
			}
			if item {
				pushBacks = append(pushBacks, pc)
			}
		}
		reach := ir.ReachableFrom(call.Block(), pruned)
		bad := false
		for _, pb := range pushBacks {
			if reach[pb.Block()] {
				c.Violation(step, P.InstrPos(pb), "item pushed back although both nodes start with the same key",
					"the first keys of the old and the new node compared equal (cmp == 0): both nodes are at the same level and must both be expanded; pushing an unexpanded item back makes the other side descend alone, so unchanged subtrees below are loaded instead of being skipped by link equality")
				bad = true
			}
		}
		ei := ir.ErrorResultIndex(step.Signature)
		for _, sd := range []side{sdOld, sdNew} {
			without := ir.ReachableFrom(call.Block(), func(from, to *ssa.BasicBlock) bool {
				return pruned(from, to) || expands[sd][to]
			})
			for _, r := range ir.Returns(step) {
				if without[r.Block()] && ei >= 0 && ir.IsNilConst(r.Results[ei]) && !expands[sd][r.Block()] {
					c.Violation(step, pos, fmt.Sprintf("%s node not expanded when both nodes start with the same key", sd),
						fmt.Sprintf("with cmp == 0 the step can finish without pushing the children of the %s node: the two sides get out of level and common subtrees are loaded", sd))
					bad = true
					break
				}
			}
		}
		if !bad {
			c.OK(pos, "first keys equal (cmp == 0) in "+step.Name(), "both nodes are expanded, no item is pushed back", false)
		}
	}
	return n
}

// sdAccessRoot follows field/element/load steps of an access path to its base.
func sdAccessRoot(v ssa.Value) ssa.Value {
	for i := 0; i < 16; i++ {
		v = ir.ResolveCell(ir.Strip(v))
		switch x := v.(type) {
		case *ssa.UnOp:
			if x.Op != token.MUL {
				return v
			}
			v = x.X
		case *ssa.FieldAddr:
			v = x.X
		case *ssa.Field:
			v = x.X
		case *ssa.IndexAddr:
			v = x.X
		case *ssa.Index:
			v = x.X
		default:
			return v
		}
	}
	return v
}

// diffReadsNotified: alreadyNotified loads only the link it is asked about
// and, below it, the child of a node that has exactly one link (an empty
// pass-through node).
func diffReadsNotified(c *Ctx, S *sidesInfo, notified *ssa.Function) {
	np := len(notified.Params)
	if np == 0 {
		return
	}
	diffReadsLoadsIn(c, S, notified, notified, notified.Params[np-1], 0)
}

// diffReadsLoadsIn checks the loads of fn (alreadyNotified, or a helper it
// hands its link to; followed two levels), whose link parameter is linkP.
func diffReadsLoadsIn(c *Ctx, S *sidesInfo, top, fn *ssa.Function, linkP *ssa.Parameter, depth int) {
	P := c.P
	notified := fn
	prim := c.P.MastFunc("(*Mast).load")
	lenIsOne := func(b *ssa.BasicBlock, slice ssa.Value) bool {
		want := ir.Sym(slice)
		for _, f := range sdExpandFacts(ir.FactsAt(b), 0) {
			bin, ok := f.Cond.(*ssa.BinOp)
			if !ok {
				continue
			}
			eq := (bin.Op == token.EQL && f.Truth) || (bin.Op == token.NEQ && !f.Truth)
			if !eq {
				continue
			}
			x, y := bin.X, bin.Y
			if _, isK := ir.ConstInt(x); isK {
				x, y = y, x
			}
			if k, isK := ir.ConstInt(y); !isK || k != 1 {
				continue
			}
			call, ok := x.(*ssa.Call)
			if !ok {
				continue
			}
			if bi, ok := call.Call.Value.(*ssa.Builtin); ok && bi.Name() == "len" && ir.Sym(call.Call.Args[0]) == want {
				return true
			}
		}
		return false
	}
	var allowed func(v ssa.Value, seen map[ssa.Value]bool) (bool, string)
	allowed = func(v ssa.Value, seen map[ssa.Value]bool) (bool, string) {
		v = ir.ResolveCell(ir.Strip(v))
		if seen[v] {
			return true, ""
		}
		seen[v] = true
		switch x := v.(type) {
		case *ssa.Parameter:
			if x == linkP {
				return true, ""
			}
		case *ssa.Phi:
			for _, e := range x.Edges {
				if ok, why := allowed(e, seen); !ok {
					return false, why
				}
			}
			return true, ""
		case *ssa.UnOp:
			if ia, ok := x.X.(*ssa.IndexAddr); ok && x.Op == token.MUL {
				if lenIsOne(x.Block(), ia.X) {
					return true, ""
				}
				return false, sdDesc(v) + " is followed without the node being known to have exactly one link"
			}
		}
		return false, sdDesc(v) + " is neither the link asked about nor the only child of a pass-through node"
	}
	n := 0
	for _, ci := range CallsOf(notified) {
		ml, name := sdMayLoad(c, ci)
		if !ml {
			continue
		}
		n++
		pos := P.InstrPos(ci)
		args := ci.Common().Args
		var linkArg ssa.Value
		for _, a := range args {
			if _, isIface := a.Type().Underlying().(*types.Interface); isIface && !sdSkipType(a.Type()) {
				linkArg = a
			}
		}
		if linkArg == nil {
			c.Undecided(notified, pos, "load by "+name+" without a link argument", "the rule cannot tell which node "+name+" reads")
			continue
		}
		if ok, why := allowed(linkArg, map[ssa.Value]bool{}); ok {
			c.OK(pos, "load by "+name+" in "+notified.Name(), "the link asked about, or the only child of a pass-through node", false)
			if callee := ir.Callee(ci.Common()); callee != nil && callee != prim && callee != fn && S.slice[callee] && depth < 2 {
				for ai, a := range args {
					if a == linkArg && ai < len(callee.Params) {
						diffReadsLoadsIn(c, S, top, callee, callee.Params[ai], depth+1)
					}
				}
			}
		} else {
			c.Violation(notified, pos, "load by "+name+" of a node that is not a pass-through child",
				fmt.Sprintf("%s reads %s: %s — the memo check then loads nodes (possibly whole paths of unchanged nodes) that the cost bound does not account for", notified.Name(), sdDesc(linkArg), why))
		}
	}
	if n == 0 {
		c.Undecided(notified, P.Pos(notified.Pos()), "no load", notified.Name()+" does not load; the rule expects it to read the link it is asked about")
	}
}

// offersLink: the call hands the link of item to alreadyNotified — directly,
// or through a helper of the diff that calls alreadyNotified with the
// corresponding parameter before each of its successful returns.
func (S *sidesInfo) offersLink(ci ssa.CallInstruction, item ssa.Value, notified *ssa.Function) bool {
	callee := ir.Callee(ci.Common())
	args := ci.Common().Args
	if callee == nil || len(args) == 0 {
		return false
	}
	isLink := func(v ssa.Value) bool {
		it, ok := S.itemLink(v)
		return ok && it == item
	}
	if callee == notified {
		return isLink(args[len(args)-1])
	}
	if !S.slice[callee] {
		return false
	}
	for i, a := range args {
		if i >= len(callee.Params) {
			break
		}
		asLink := isLink(a)
		asItem := sdSameItem(a, item)
		if !asLink && !asItem {
			continue
		}
		p := callee.Params[i]
		ei := ir.ErrorResultIndex(callee.Signature)
		for _, c2 := range CallsOf(callee) {
			if ir.Callee(c2.Common()) != notified {
				continue
			}
			last := c2.Common().Args[len(c2.Common().Args)-1]
			match := false
			if asLink {
				match = ir.ResolveCell(ir.Strip(last)) == ssa.Value(p)
			} else if it, ok := S.itemLink(last); ok {
				match = it == ssa.Value(p)
			}
			if !match {
				continue
			}
			all := true
			for _, r := range ir.Returns(callee) {
				if ei >= 0 && !ir.IsNilConst(r.Results[ei]) {
					continue // failing return
				}
				if !ir.MustPass(r, func(ins ssa.Instruction) bool { return ins == ssa.Instruction(c2) }) {
					all = false
				}
			}
			if all {
				return true
			}
		}
	}
	return false
}

// notifyConsumed: a link item that the step consumes (does not push back
// unchanged) is offered to alreadyNotified first — except on the edge where
// the old and the new link are equal (nothing differs there). Otherwise a
// node that belongs to one version only is descended through without ever
// being reported.
func notifyConsumed(c *Ctx, S *sidesInfo, step, notified *ssa.Function) {
	P := c.P
	bodies, ok := stepBodies(c, S, step)
	if !ok {
		c.Undecided(step, P.Pos(step.Pos()), "popped items not found", "the diff step does not pop one item per side")
		return
	}
	for _, sb := range bodies {
		for _, sd := range sb.sides() {
			item := sd.item
			blocked := map[*ssa.BasicBlock]bool{}
			nOffer := 0
			for _, ci := range CallsOf(sb.fn) {
				if S.offersLink(ci, item, notified) {
					blocked[ci.Block()] = true
					nOffer++
					continue
				}
				if sb.handsOn(ci, item) {
					blocked[ci.Block()] = true // the callee's body is checked with this item
					continue
				}
				callee := ir.Callee(ci.Common())
				if callee == nil || !S.slice[callee] {
					continue
				}
				onStack, same := false, false
				for _, a := range ci.Common().Args {
					if sl := S.slotRef(a); sl != nil && sb.stacks[sl] {
						onStack = true
					} else if sb.isItem(a, item) {
						same = true
					}
				}
				if ml, _ := sdMayLoad(c, ci); onStack && same && !ml {
					blocked[ci.Block()] = true // pushed back unchanged by a pure stack operation
				}
			}
			reach, relevant := stepConsumeReach(S, sb, sd, blocked)
			if !relevant {
				continue
			}
			bad := false
			for _, r := range ir.Returns(sb.fn) {
				if !reach[r.Block()] || !sdMaySucceed(S, sb.fn, r) {
					continue
				}
				c.Violation(sb.fn, P.InstrPos(r), fmt.Sprintf("%s link consumed without being offered to %s", sd.s, notified.Name()),
					fmt.Sprintf("%s can return successfully with the %s item carrying a link, the links not being equal, the item not pushed back, and %s never asked about that link: a node of the %s version is descended through without being reported to the link callback", sb.fn.Name(), sd.s, notified.Name(), sd.s))
				bad = true
			}
			if !bad {
				c.OK(sdValuePos(P, sb.fn, item), fmt.Sprintf("%s link item in %s", sd.s, sb.fn.Name()),
					fmt.Sprintf("every successful path either pushes it back unchanged, hands it on, takes the equal-link edge, or passes one of %d notification(s)", nOffer), false)
			}
		}
	}
}

// notifyNoReset: once the step has asked alreadyNotified about a link (which
// records it in the memo), a recorded link must not be cleared again in the
// same step: the memo would suppress it for good.
func notifyNoReset(c *Ctx, S *sidesInfo, step, notified *ssa.Function, report map[*sdSlot]side) {
	P := c.P
	// functions that (transitively) clear a report field
	clears := map[*ssa.Function]bool{}
	isClear := func(ins ssa.Instruction) *sdSlot {
		st, ok := ins.(*ssa.Store)
		if !ok || !ir.IsNilConst(st.Val) {
			return nil
		}
		sl, _ := S.storeRoot(st.Addr)
		if _, isRep := report[sl]; sl != nil && isRep {
			return sl
		}
		return nil
	}
	for _, fn := range S.fns {
		for _, b := range fn.Blocks {
			for _, ins := range b.Instrs {
				if isClear(ins) != nil {
					clears[fn] = true
				}
			}
		}
	}
	for changed := true; changed; {
		changed = false
		for _, fn := range S.fns {
			if clears[fn] {
				continue
			}
			for _, ci := range CallsOf(fn) {
				if cal := ir.Callee(ci.Common()); cal != nil && clears[cal] {
					clears[fn] = true
					changed = true
				}
			}
		}
	}
	inStep := c.Facts.Reach(step)
	n := 0
	for _, fn := range S.fns {
		if !inStep[fn] {
			continue
		}
		// notifications in fn: calls of alreadyNotified or of helpers containing one
		var offers []ssa.CallInstruction
		for _, ci := range CallsOf(fn) {
			cal := ir.Callee(ci.Common())
			if cal == nil {
				continue
			}
			if cal == notified || (S.slice[cal] && cal != fn && c.Facts.Reach(cal)[notified] && !clears[cal]) {
				offers = append(offers, ci)
			}
		}
		for _, b := range fn.Blocks {
			for _, ins := range b.Instrs {
				what := ""
				if sl := isClear(ins); sl != nil {
					what = sl.field.Name() + " = nil"
				} else if ci, ok := ins.(ssa.CallInstruction); ok {
					if cal := ir.Callee(ci.Common()); cal != nil && clears[cal] && cal != step {
						what = "call " + cal.Name()
					}
				}
				if what == "" {
					continue
				}
				n++
				bad := false
				for _, o := range offers {
					if o != ins && ir.InstrReaches(o, ins) {
						c.Violation(fn, P.InstrPos(ins), "recorded link cleared after the notification: "+what,
							fmt.Sprintf("%s runs after %s has been asked (and has memoised the link) in the same step: the link recorded for the callback is wiped, and the memo prevents it from ever being reported again", what, notified.Name()))
						bad = true
						break
					}
				}
				if !bad {
					c.OK(P.InstrPos(ins), what+" in "+ir.FuncName(fn), "not after a notification of the same step", false)
				}
			}
		}
	}
	_ = n
}

func notifyPruned(from, to *ssa.BasicBlock, blocked map[*ssa.BasicBlock]bool, leaf func(ssa.Value) (bool, bool), isEq func(f, t *ssa.BasicBlock) bool) bool {
	if blocked[to] || isEq(from, to) {
		return true
	}
	if len(from.Instrs) == 0 || len(from.Succs) != 2 || from.Succs[0] == from.Succs[1] {
		return false
	}
	iff, isIf := from.Instrs[len(from.Instrs)-1].(*ssa.If)
	if !isIf {
		return false
	}
	v, known := sdEvalCond(iff.Cond, leaf, 0)
	if !known {
		return false
	}
	if v {
		return to == from.Succs[1]
	}
	return to == from.Succs[0]
}

// diffReadsPassThrough: where the node loaded for one side is found to be a
// pass-through node (exactly one link, no key) only that side descends; the
// other side is not expanded there (its item goes back unchanged), or the
// two sides get out of level and whole unchanged paths are read.
func diffReadsPassThrough(c *Ctx, S *sidesInfo, step *ssa.Function) {
	bodies, ok := stepBodies(c, S, step)
	if !ok {
		return // reported by the same-key clause
	}
	for _, sb := range bodies {
		diffReadsPassThroughBody(c, S, sb)
	}
}

func diffReadsPassThroughBody(c *Ctx, S *sidesInfo, sb *stepBody) {
	P := c.P
	step, stacks := sb.fn, sb.stacks
	// blocks under a fact len(<node of side s>.Link) == 1
	passSide := func(b *ssa.BasicBlock) (side, ssa.Value) {
		for _, f := range ir.FactsAt(b) {
			bin, ok := f.Cond.(*ssa.BinOp)
			if !ok {
				continue
			}
			if !((bin.Op == token.EQL && f.Truth) || (bin.Op == token.NEQ && !f.Truth)) {
				continue
			}
			x, y := bin.X, bin.Y
			if _, isK := ir.ConstInt(x); isK {
				x, y = y, x
			}
			if k, isK := ir.ConstInt(y); !isK || k != 1 {
				continue
			}
			call, ok := x.(*ssa.Call)
			if !ok {
				continue
			}
			if bi, ok := call.Call.Value.(*ssa.Builtin); !ok || bi.Name() != "len" {
				continue
			}
			node := sdAccessRoot(call.Call.Args[0])
			if !sdIsNodePtr(node.Type()) {
				continue
			}
			if sd := S.sideOf(node); sd.single() {
				return sd, node
			}
		}
		return sdNone, nil
	}
	nPass := 0
	seen := map[*ssa.BasicBlock]bool{}
	for _, ci := range CallsOf(step) {
		b := ci.Block()
		sd, _ := passSide(b)
		if sd == sdNone {
			continue
		}
		if !seen[b] {
			seen[b] = true
			nPass++
		}
		callee := ir.Callee(ci.Common())
		if callee == nil || !S.slice[callee] {
			continue
		}
		var st *sdSlot
		var node ssa.Value
		for _, a := range ci.Common().Args {
			if sl := S.slotRef(a); sl != nil && stacks[sl] {
				st = sl
			} else if sdIsNodePtr(a.Type()) {
				node = a
			}
		}
		if st == nil || node == nil {
			continue
		}
		pos := P.InstrPos(ci)
		if st.cur != sd && st.cur.single() {
			c.Violation(step, pos, fmt.Sprintf("%s side expanded in the %s pass-through branch", st.cur, sd),
				fmt.Sprintf("the %s node has a single link (a pass-through node), so only the %s side descends; %s here pushes the children of the %s node as well: the two sides get out of level, links of common subtrees are no longer compared with each other, and the reads grow with the height of the tree", sd, sd, callee.Name(), st.cur))
		} else {
			c.OK(pos, fmt.Sprintf("%s in the %s pass-through branch of %s", callee.Name(), sd, step.Name()), "expands the descending side only", false)
		}
	}
	if nPass > 0 {
		c.OK(P.Pos(step.Pos()), fmt.Sprintf("%d pass-through block(s) of %s", nPass, step.Name()), "the other side is not expanded there", false)
	}
}

// sdFailEdge is a CFG edge of a function taken when an operation failed.
type sdFailEdge struct {
	to   *ssa.BasicBlock
	what string
	at   ssa.Instruction
}

// sdFailEdges: the edges of fn on which a call's error result is non-nil,
// plus — for helpers of the diff (followed two levels) that report failure
// through a boolean result which is constant false on each of their own
// failure paths — the edges on which that result is false.
func sdFailEdges(c *Ctx, S *sidesInfo, fn *ssa.Function, depth int) []sdFailEdge {
	var out []sdFailEdge
	for _, ci := range CallsOf(fn) {
		call, ok := ci.(*ssa.Call)
		if !ok {
			continue
		}
		name := lpCallNameOf(call)
		if _, e := cbResults(call); e != nil && ir.IsErrorType(e.Type()) {
			for _, ni := range nilIfsOf(fn, e) {
				out = append(out, sdFailEdge{ni.nonNil, name, call})
			}
		}
		callee := ir.Callee(call.Call)
		if callee == nil || !S.slice[callee] || callee == fn || depth >= 2 {
			continue
		}
		inner := sdFailEdges(c, S, callee, depth+1)
		if len(inner) == 0 {
			continue
		}
		// boolean results that are false on every failure return of the helper
		res := callee.Signature.Results()
		for j := 0; j < res.Len(); j++ {
			if !sdIsBool(res.At(j).Type()) {
				continue
			}
			allFalse, any := true, false
			for _, fe := range inner {
				reach := ir.ReachableFrom(fe.to, nil)
				for _, r := range ir.Returns(callee) {
					if !reach[r.Block()] || j >= len(r.Results) {
						continue
					}
					any = true
					if k, isC := ir.ConstBool(r.Results[j]); !isC || k {
						allFalse = false
					}
				}
			}
			if !allFalse || !any {
				continue
			}
			var ex ssa.Value
			if res.Len() == 1 {
				ex = call
			} else if call.Referrers() != nil {
				for _, r := range *call.Referrers() {
					if x, isEx := r.(*ssa.Extract); isEx && x.Index == j {
						ex = x
					}
				}
			}
			if ex == nil {
				continue
			}
			ifs, _ := sdCondIfs(ex)
			for _, i := range ifs {
				out = append(out, sdFailEdge{i.OnFalse, name + " (failure of " + inner[0].what + ")", call})
			}
		}
	}
	return out
}

// ---- shared: paths of the step that consume a link item ------------------------------

// bodySide is one of the two items of a step body.
type bodySide struct {
	item, other     ssa.Value
	itemSt, otherSt int
	s               side
	stack           *sdSlot
}

func (b *stepBody) sides() []bodySide {
	var out []bodySide
	if b.old != nil {
		out = append(out, bodySide{b.old, b.new, b.oldSt, b.newSt, sdOld, b.oldStack})
	}
	if b.new != nil {
		out = append(out, bodySide{b.new, b.old, b.newSt, b.oldSt, sdNew, b.newStack})
	}
	return out
}

// handsOn: ci passes item to a child body.
func (b *stepBody) handsOn(ci ssa.CallInstruction, item ssa.Value) bool {
	if !b.deleg[ci] {
		return false
	}
	for _, a := range ci.Common().Args {
		if b.isItem(a, item) {
			return true
		}
	}
	return false
}

func sdValuePos(P *ir.Program, fn *ssa.Function, v ssa.Value) string {
	if ins, ok := v.(ssa.Instruction); ok {
		return P.InstrPos(ins)
	}
	return P.Pos(fn.Pos())
}

// sdMaySucceed: the return may report success — its error operand is the nil
// constant, or the result of a call of a function of the diff (whose own body
// decides).
func sdMaySucceed(S *sidesInfo, fn *ssa.Function, r *ssa.Return) bool {
	ei := ir.ErrorResultIndex(fn.Signature)
	if ei < 0 || ei >= len(r.Results) {
		return true
	}
	op := r.Results[ei]
	if ir.IsNilConst(op) {
		return true
	}
	if nilFactOn(r.Block(), op, false) {
		return false // only reached with the error non-nil
	}
	if ex, ok := op.(*ssa.Extract); ok {
		op = ex.Tuple
	}
	if call, ok := op.(*ssa.Call); ok {
		cal := ir.Callee(call.Common())
		if _, isW := sdErrWrapper(&Ctx{P: S.P, Facts: S.F}, cal, 0); isW {
			return false // a wrapped error: never nil
		}
		if cal != nil && S.slice[cal] {
			return true
		}
	}
	return false
}

// stepConsumeReach: the blocks of a step body reachable from its entry when
// the item of side sd exists and carries a link (the other item being absent,
// an entry or a link — what is known on entry restricts this; each valuation
// is pruned consistently), without entering a blocked block and without
// taking the edge on which the old and the new link are equal. relevant is
// false if the item is known not to be a link in this body.
func stepConsumeReach(S *sidesInfo, sb *stepBody, sd bodySide, blocked map[*ssa.BasicBlock]bool) (map[*ssa.BasicBlock]bool, bool) {
	if sd.itemSt == isAbsent || sd.itemSt == isEntry {
		return nil, false
	}
	if blocked[sb.fn.Blocks[0]] {
		return map[*ssa.BasicBlock]bool{}, true // the entry block itself discharges the obligation
	}
	item, other := sd.item, sd.other
	isLinkOf := func(v ssa.Value, it ssa.Value) bool { return S.linkOfItem(v, it) }
	type edge struct{ from, to *ssa.BasicBlock }
	var eqEdges []edge
	for _, b := range sb.fn.Blocks {
		for _, ins := range b.Instrs {
			ec, isCmp := S.eqCompare(ins)
			if !isCmp {
				continue
			}
			if !(isLinkOf(ec.X, item) && isLinkOf(ec.Y, other)) && !(isLinkOf(ec.X, other) && isLinkOf(ec.Y, item)) {
				continue
			}
			ifs, _ := sdCondIfs(ec.Val)
			for _, i := range ifs {
				to := i.OnTrue
				if !ec.Eq {
					to = i.OnFalse
				}
				eqEdges = append(eqEdges, edge{i.If.Block(), to})
			}
		}
	}
	isEq := func(f, t *ssa.BasicBlock) bool {
		for _, e := range eqEdges {
			if e.from == f && e.to == t {
				return true
			}
		}
		return false
	}
	var states []int
	switch {
	case sd.otherSt == isPresent:
		states = []int{isEntry, isLink}
	case sd.otherSt != isUnknown:
		states = []int{sd.otherSt}
	case other == nil:
		states = []int{isUnknown}
	default:
		states = []int{isAbsent, isEntry, isLink}
	}
	reach := map[*ssa.BasicBlock]bool{}
	for _, otherState := range states {
		leaf := func(cond ssa.Value) (bool, bool) {
			it, lk, tnn, ok := S.itemTest(cond)
			if !ok || it == nil {
				return false, false
			}
			nonNil, known := false, false
			switch {
			case it == item:
				nonNil, known = true, true
			case !lk && other != nil && it == other && otherState != isUnknown:
				nonNil, known = otherState != isAbsent, true
			case lk && other != nil && it == other && (otherState == isEntry || otherState == isLink):
				nonNil, known = otherState == isLink, true
			case lk && other != nil && it == other && otherState == isAbsent:
				// no item, no link: answer repeated tests consistently
				nonNil, known = false, true
			}
			if !known {
				return false, false
			}
			return nonNil == tnn, true
		}
		for b := range ir.ReachableFrom(sb.fn.Blocks[0], func(from, to *ssa.BasicBlock) bool {
			return notifyPruned(from, to, blocked, leaf, isEq)
		}) {
			reach[b] = true
		}
	}
	return reach, true
}

// ---- EXPANDALL --------------------------------------------------------------------

func runEXPANDALL(c *Ctx) {
	S := sidesReady(c)
	if S == nil {
		return
	}
	P := c.P
	step := c.MustFunc("(*Mast).diffOne")
	if step == nil {
		return
	}
	bodies, ok := stepBodies(c, S, step)
	if !ok {
		c.Undecided(step, P.Pos(step.Pos()), "popped items not found", "the diff step does not pop one item per side")
		return
	}
	expandWholeNodes(c, S, step, bodies[0].stacks)
	expandedNodeProv(c, S, step, bodies[0].stacks)
	for _, sb := range bodies {
		for _, sd := range sb.sides() {
			blocked := map[*ssa.BasicBlock]bool{}
			nPush := 0
			for _, ci := range CallsOf(sb.fn) {
				if sb.handsOn(ci, sd.item) {
					blocked[ci.Block()] = true // the callee's body is checked with this item
					continue
				}
				callee := ir.Callee(ci.Common())
				if callee == nil || !S.slice[callee] {
					continue
				}
				if call, isCall := ci.(*ssa.Call); isCall {
					if pc, _ := S.popOf(call); pc != nil {
						continue
					}
				}
				for _, a := range ci.Common().Args {
					if sl := S.slotRef(a); sl != nil && sl == sd.stack {
						blocked[ci.Block()] = true
						nPush++
						break
					}
				}
			}
			reach, relevant := stepConsumeReach(S, sb, sd, blocked)
			if !relevant {
				continue
			}
			bad := false
			for _, r := range ir.Returns(sb.fn) {
				if !reach[r.Block()] || !sdMaySucceed(S, sb.fn, r) {
					continue
				}
				c.Violation(sb.fn, P.InstrPos(r), fmt.Sprintf("%s link item consumed without anything pushed on the %s stack", sd.s, sd.s),
					fmt.Sprintf("%s can return successfully with the %s item carrying a link (not equal to the other side's), and neither that item nor the children of its node were pushed onto %s: the whole subtree silently drops out of the diff", sb.fn.Name(), sd.s, sd.stack.name))
				bad = true
			}
			if !bad {
				c.OK(sdValuePos(P, sb.fn, sd.item), fmt.Sprintf("%s link item in %s", sd.s, sb.fn.Name()),
					fmt.Sprintf("every successful path that consumes it hands it on or passes one of the %d pushes onto %s", nPush, sd.stack.name), false)
			}
		}
	}
}

// ---- LOADPROV ---------------------------------------------------------------------

func runLOADPROV(c *Ctx) {
	S := sidesReady(c)
	if S == nil {
		return
	}
	P := c.P
	step, notified, prim := c.MustFunc("(*Mast).diffOne"), c.MustFunc("(*Mast).alreadyNotified"), c.MustFunc("(*Mast).load")
	if step == nil || notified == nil || prim == nil {
		return
	}
	// the step and its helpers, not entering the two reading primitives
	scope := map[*ssa.Function]bool{step: true}
	work := []*ssa.Function{step}
	for len(work) > 0 {
		fn := work[len(work)-1]
		work = work[:len(work)-1]
		for _, ci := range CallsOf(fn) {
			cal := ir.Callee(ci.Common())
			if cal == nil || !S.slice[cal] || cal == prim || cal == notified || scope[cal] {
				continue
			}
			scope[cal] = true
			work = append(work, cal)
		}
	}
	for _, fn := range S.fns {
		if !scope[fn] {
			continue
		}
		for _, ci := range CallsOf(fn) {
			cal := ir.Callee(ci.Common())
			if c.Facts.External(ci) == "Persist.Load" {
				c.Violation(fn, P.InstrPos(ci), "store read outside (*Mast).load", fn.Name()+" reads from the store directly")
				continue
			}
			if cal != prim && cal != notified {
				continue
			}
			args := ci.Common().Args
			link := args[len(args)-1]
			pos := P.InstrPos(ci)
			what := fmt.Sprintf("%s(%s) in %s", cal.Name(), sdDesc(link), ir.FuncName(fn))
			var v lpVerdict
			// the link of an item popped from either stack (which side a link
			// belongs to is the business of SIDES; a helper shared by the two
			// sides is decided call site by call site)
			v = S.linkValProv(link, sdNone, ci, 0)
			switch {
			case v.ok:
				c.OK(pos, what, v.why, false)
			case v.und:
				c.Undecided(fn, pos, "read by "+cal.Name()+" of "+v.short, v.why)
			default:
				c.Violation(fn, pos, "read by "+cal.Name()+" of a link that is not a popped item's: "+sdDescShape(link),
					fmt.Sprintf("%s reads %s, which is not the link of an item popped from a diff stack in this step: the step reads nodes beyond the two under comparison (e.g. children of a loaded node), which the cost bound 2·D+2 does not account for", fn.Name(), sdDesc(link)))
			}
		}
	}
}

// ---- DELIVERALL -------------------------------------------------------------------

func runDELIVERALL(c *Ctx) {
	S := sidesReady(c)
	if S == nil {
		return
	}
	P := c.P
	step := c.MustFunc("(*Mast).diffOne")
	if step == nil {
		return
	}
	dl, unres := S.LinkDeliveries()
	for _, ci := range unres {
		c.Undecided(ci.Parent(), P.InstrPos(ci), "link callback: removed is not a constant", "the delivery cannot be attributed to a side")
	}
	// deliveries per (function, cell)
	type key struct {
		fn *ssa.Function
		sl *sdSlot
	}
	sites := map[key][]sdDelivery{}
	var keys []key
	for _, d := range dl {
		sl := S.slotRef(d.link)
		if sl == nil {
			c.Undecided(d.at.Parent(), P.InstrPos(d.at), "link callback argument not a state field", "the delivered link is not read from a cell of the diff state")
			continue
		}
		k := key{d.at.Parent(), sl}
		if _, seen := sites[k]; !seen {
			keys = append(keys, k)
		}
		sites[k] = append(sites[k], d)
	}
	if len(keys) == 0 {
		c.Undecided(nil, "-", "no link delivery", "no delivery of a recorded link to the link callback found")
		return
	}
	depthOf := map[key]int{}
	for qi := 0; qi < len(keys); qi++ {
		k := keys[qi]
		fn, sl := k.fn, k.sl
		kc := &cbpCtx{c: c, S: S, fn: fn, step: step}
		var stepBlocks []*ssa.BasicBlock
		for _, ci := range CallsOf(fn) {
			if _, isStep := kc.stepCallee(ci); isStep {
				stepBlocks = append(stepBlocks, ci.Block())
			}
		}
		pos := P.InstrPos(sites[k][0].at)
		blocked := map[*ssa.BasicBlock]bool{}
		for _, d := range sites[k] {
			blocked[d.at.Block()] = true
		}
		// valuation: this cell is non-nil, callbacks are non-nil
		leaf := func(cond ssa.Value) (bool, bool) {
			v, tnn, ok := ir.NilTest(cond)
			if !ok {
				return false, false
			}
			if r := S.slotRef(v); r == sl {
				return tnn, true
			}
			if _, isSig := v.Type().Underlying().(*types.Signature); isSig {
				return tnn, true
			}
			return false, false
		}
		if len(stepBlocks) == 0 {
			// a helper that delivers the cell: every return that lets the
			// diff go on (no error, keepGoing not false) must pass the
			// delivery; its call sites then count as deliveries
			if depthOf[k] >= 2 {
				c.Undecided(fn, pos, "delivery of "+sl.field.Name()+" nested too deeply", "the rule follows delivering helpers two levels up to the function that runs the step")
				continue
			}
			reach := ir.ReachableFrom(fn.Blocks[0], func(from, to *ssa.BasicBlock) bool {
				return notifyPruned(from, to, blocked, leaf, func(_, _ *ssa.BasicBlock) bool { return false })
			})
			ei := ir.ErrorResultIndex(fn.Signature)
			skipped := false
			for _, r := range ir.Returns(fn) {
				if !reach[r.Block()] || blocked[r.Block()] {
					continue
				}
				goesOn := true
				for j, op := range r.Results {
					if j == ei && !ir.IsNilConst(op) {
						goesOn = false
					}
					if kb, isC := ir.ConstBool(op); isC && !kb && sdIsBool(op.Type()) {
						goesOn = false
					}
				}
				if goesOn {
					skipped = true
				}
			}
			kind := "added"
			if sites[k][0].removed {
				kind = "removed"
			}
			if skipped {
				c.Violation(fn, pos, "delivery of the "+kind+" link ("+sl.field.Name()+") can be skipped",
					fmt.Sprintf("with %s set (and the callback present), %s can return — letting the diff go on — without handing it to the link callback: its delivery depends on something else, e.g. on the other side's link being nil", sl.name, fn.Name()))
				continue
			}
			nc := 0
			for _, cs := range P.Callers[fn] {
				if !S.slice[cs.Parent()] {
					continue
				}
				nc++
				k2 := key{cs.Parent(), sl}
				if _, seen := sites[k2]; !seen {
					keys = append(keys, k2)
					depthOf[k2] = depthOf[k] + 1
				}
				sites[k2] = append(sites[k2], sdDelivery{at: cs, removed: sites[k][0].removed, link: sites[k][0].link, via: fn.Name()})
			}
			if nc == 0 {
				c.Undecided(fn, pos, "delivery of "+sl.field.Name()+" in a function that is never called", "no call site of "+fn.Name()+" in the diff")
			} else {
				c.OK(pos, "delivery of the "+kind+" link ("+sl.field.Name()+") in helper "+ir.FuncName(fn), fmt.Sprintf("passed before every go-on return; %d call site(s) count as deliveries", nc), false)
			}
			continue
		}
		bad := false
		for _, sb := range stepBlocks {
			reach := map[*ssa.BasicBlock]bool{}
			for _, succ := range sb.Succs {
				if notifyPruned(sb, succ, blocked, leaf, func(_, _ *ssa.BasicBlock) bool { return false }) {
					continue
				}
				for b := range ir.ReachableFrom(succ, func(from, to *ssa.BasicBlock) bool {
					return notifyPruned(from, to, blocked, leaf, func(_, _ *ssa.BasicBlock) bool { return false })
				}) {
					reach[b] = true
				}
			}
			for _, sb2 := range stepBlocks {
				if reach[sb2] {
					bad = true
				}
			}
		}
		kind := "added"
		if sites[k][0].removed {
			kind = "removed"
		}
		if bad {
			c.Violation(fn, pos, "delivery of the "+kind+" link ("+sl.field.Name()+") can be skipped",
				fmt.Sprintf("with %s set by a step (and the callback present), %s can reach the next step without handing it to the link callback: its delivery depends on something else — e.g. on the other side's link being nil — so a step that records both an added and a removed node reports only one", sl.name, fn.Name()))
		} else {
			c.OK(pos, "delivery of the "+kind+" link ("+sl.field.Name()+") in "+ir.FuncName(fn), "every path from a step to the next passes it (or stops the diff)", false)
		}
	}
}

// ---- KEYEQ ------------------------------------------------------------------------

func runKEYEQ(c *Ctx) {
	S := sidesReady(c)
	if S == nil {
		return
	}
	P := c.P
	// fields named on the access path of v
	pathFields := func(v ssa.Value) (fields []string, whole string) {
		v = ir.Strip(v)
		if n, st := sdNamedStruct(v.Type()); n != nil && st != nil {
			if _, isPtr := v.Type().Underlying().(*types.Pointer); !isPtr {
				whole = n.Obj().Name()
			}
		}
		for i := 0; i < 16; i++ {
			v = ir.ResolveCell(ir.Strip(v))
			switch x := v.(type) {
			case *ssa.UnOp:
				if x.Op != token.MUL {
					return
				}
				v = x.X
			case *ssa.FieldAddr:
				fields = append(fields, ir.FieldName(x.X.Type(), x.Field))
				v = x.X
			case *ssa.Field:
				fields = append(fields, ir.FieldName(x.X.Type(), x.Field))
				v = x.X
			case *ssa.IndexAddr:
				v = x.X
			case *ssa.Index:
				v = x.X
			default:
				return
			}
		}
		return
	}
	has := func(xs []string, s string) bool {
		for _, x := range xs {
			if x == s {
				return true
			}
		}
		return false
	}
	n := 0
	for _, fn := range S.fns {
		for _, ci := range CallsOf(fn) {
			if c.Facts.External(ci) != "ext:reflect.DeepEqual" || len(ci.Common().Args) != 2 {
				continue
			}
			a, b := ci.Common().Args[0], ci.Common().Args[1]
			if S.sideOf(a)|S.sideOf(b) != sdBoth {
				continue // not a comparison of the old with the new side
			}
			n++
			pos := P.InstrPos(ci)
			bad := false
			for _, x := range []ssa.Value{a, b} {
				fields, whole := pathFields(x)
				switch {
				case whole != "":
					c.Violation(fn, pos, "DeepEqual on a whole "+whole,
						fmt.Sprintf("%s compares %s, a whole %s (key included), with reflect.DeepEqual: keys that are equal under the tree's key order but not deeply equal make an unchanged entry look changed; only the two values are to be compared", fn.Name(), sdDesc(x), whole))
					bad = true
				case has(fields, "Key") || has(fields, S.entryKeyName):
					c.Violation(fn, pos, "DeepEqual on a key",
						fmt.Sprintf("%s compares the key %s with reflect.DeepEqual; key equality is decided by the tree's key order only", fn.Name(), sdDesc(x)))
					bad = true
				case has(fields, "Value") || has(fields, S.entryValueName):
				default:
					c.Undecided(fn, pos, "DeepEqual on something that is not a Value", fmt.Sprintf("%s is compared across the sides with reflect.DeepEqual; the rule cannot tell that it is an entry's value", sdDesc(x)))
					bad = true
				}
			}
			if !bad {
				c.OK(pos, "reflect.DeepEqual(old value, new value) in "+ir.FuncName(fn), "compares exactly the two sides' values", false)
			}
			if call, isCall := ci.(*ssa.Call); isCall {
				keyeqControl(c, S, call) // second clause (r_keyeqctl.go): DeepEqual alone decides `changed`
			}
		}
	}
	if n == 0 {
		c.Undecided(nil, "-", "no value comparison", "the diff never compares an old with a new value by reflect.DeepEqual: the rule cannot find the `changed` decision")
	}
}

// notifyRecords: where alreadyNotified(…, L) answered false (not notified
// yet — and L is memoised from now on), L is stored into the link cell of
// that side before the function returns; otherwise the node is never reported.
func notifyRecords(c *Ctx, S *sidesInfo, notified *ssa.Function, report map[*sdSlot]side) {
	P := c.P
	for _, fn := range S.fns {
		if fn == notified {
			continue
		}
		for _, ci := range CallsOf(fn) {
			call, ok := ci.(*ssa.Call)
			if !ok || ir.Callee(ci.Common()) != notified {
				continue
			}
			args := call.Call.Args
			link := args[len(args)-1]
			want := S.sideOf(link)
			pos := P.InstrPos(call)
			what := fmt.Sprintf("%s(%s) answered false in %s", notified.Name(), sdDesc(link), ir.FuncName(fn))
			// stores that record this link
			recBlocks := map[*ssa.BasicBlock]bool{}
			for _, b := range fn.Blocks {
				for _, ins := range b.Instrs {
					st, isSt := ins.(*ssa.Store)
					if !isSt || !S.sameLink(st.Val, link) {
						continue
					}
					if sl, _ := S.storeRoot(st.Addr); sl != nil {
						if w, isRep := report[sl]; isRep && (!want.single() || w == want) {
							recBlocks[b] = true
						}
						continue
					}
					// through a pointer parameter bound to a link cell at every call site
					if p, isP := st.Addr.(*ssa.Parameter); isP {
						idx, all, n := sdParamIndex(fn, p), true, 0
						for _, cs := range P.Callers[fn] {
							if !S.slice[cs.Parent()] || idx < 0 || idx >= len(cs.Common().Args) {
								continue
							}
							n++
							sl := S.slotRef(cs.Common().Args[idx])
							if _, isRep := report[sl]; sl == nil || !isRep {
								all = false
							}
						}
						if all && n > 0 {
							recBlocks[b] = true
						}
					}
				}
			}
			var answer ssa.Value = call
			var nerr ssa.Value
			if !sdIsBool(call.Type()) {
				answer = nil
				if call.Referrers() != nil {
					for _, r := range *call.Referrers() {
						if ex, isEx := r.(*ssa.Extract); isEx {
							if sdIsBool(ex.Type()) && ex.Index == 0 {
								answer = ex
							} else if ir.IsErrorType(ex.Type()) {
								nerr = ex
							}
						}
					}
				}
			}
			if ir.ErrorResultIndex(notified.Signature) >= 0 {
				// the error comes first: checked, returned, and the answer only used where it is nil
				kk := &cbpCtx{c: c, S: S, fn: fn}
				nifs := []nilIf(nil)
				if nerr != nil {
					nifs = nilIfsOf(fn, nerr)
				}
				if len(nifs) == 0 {
					c.Violation(fn, pos, "error of "+notified.Name()+" not checked",
						fmt.Sprintf("%s can fail (a node could not be read); its error is not tested here, so its answer about %s is used although it means nothing", notified.Name(), sdDesc(link)))
					continue
				}
				if kk.errIdx() >= 0 {
					for _, ni := range nifs {
						kk.mustFail("error of "+notified.Name(), nerr, ni.nonNil, nil, call)
					}
				}
			}
			if answer == nil {
				c.Violation(fn, pos, "answer of "+notified.Name()+" not used",
					fmt.Sprintf("%s is asked about %s (which memoises the link) but its answer does not decide anything: the link is never recorded for the link callback", notified.Name(), sdDesc(link)))
				continue
			}
			ifs, other := sdCondIfs(answer)
			if nerr != nil {
				for _, i := range ifs {
					if !nilFactOn(i.If.Block(), nerr, true) {
						c.Violation(fn, pos, "answer of "+notified.Name()+" used before its error is checked",
							fmt.Sprintf("the answer about %s is tested on a path on which the error of %s is not known to be nil", sdDesc(link), notified.Name()))
					}
				}
			}
			if len(ifs) == 0 {
				if other && sdOnlyReturned(answer) {
					c.Undecided(fn, pos, "answer of "+notified.Name()+" handed on", "the answer is returned to the caller; the rule expects the recording next to the question")
				} else {
					c.Violation(fn, pos, "answer of "+notified.Name()+" not used",
						fmt.Sprintf("%s is asked about %s (which memoises the link) but its answer does not decide anything: the link is never recorded for the link callback", notified.Name(), sdDesc(link)))
				}
				continue
			}
			bad := false
			for _, i := range ifs {
				start := i.OnFalse
				if recBlocks[start] {
					continue
				}
				reach := ir.ReachableFrom(start, func(_, to *ssa.BasicBlock) bool { return recBlocks[to] })
				for _, r := range ir.Returns(fn) {
					if reach[r.Block()] {
						bad = true
					}
				}
			}
			if bad {
				c.Violation(fn, pos, "link not recorded although "+notified.Name()+" answered false",
					fmt.Sprintf("after %s answered false for %s (not notified yet; the link is memoised by that very call) %s can return without storing the link into the %s link cell: the node is never handed to the link callback, now or later", notified.Name(), sdDesc(link), fn.Name(), want))
			} else {
				c.OK(pos, what, "the link is stored into the link cell of its side on every path to a return", false)
			}
		}
	}
}

// ---- ENTRYKEY ---------------------------------------------------------------------

func runENTRYKEY(c *Ctx) {
	S := sidesReady(c)
	if S == nil {
		return
	}
	P := c.P
	step := c.MustFunc("(*Mast).diffOne")
	if step == nil {
		return
	}
	// the cells read by the entry callback: value cells and the key cell
	valueCells := map[*sdSlot]bool{}
	var keyCell *sdSlot
	for _, fn := range S.fns {
		for _, ci := range CallsOf(fn) {
			if S.callbackKind(ci) != "entry" {
				continue
			}
			args := ci.Common().Args
			for i := 0; i < S.entrySig.Params().Len() && i < len(args); i++ {
				sl := S.slotRef(args[i])
				if sl == nil {
					continue
				}
				if _, seeded := S.entrySeed[i]; seeded && !S.entryFlag[i] {
					valueCells[sl] = true
				} else if S.entrySig.Params().At(i).Name() == "key" {
					keyCell = sl
				}
			}
		}
	}
	if keyCell == nil || len(valueCells) == 0 {
		c.Undecided(nil, "-", "entry cells not found", "the entry callback is not fed from a key cell and value cells of the diff state")
		return
	}
	inStep := c.Facts.Reach(step)
	type est struct {
		st   *ssa.Store
		item ssa.Value
	}
	for _, fn := range S.fns {
		if !inStep[fn] {
			continue
		}
		var keys, vals []est
		for _, b := range fn.Blocks {
			for _, ins := range b.Instrs {
				st, ok := ins.(*ssa.Store)
				if !ok {
					continue
				}
				if _, isC := st.Val.(*ssa.Const); isC {
					continue
				}
				sl, _ := S.storeRoot(st.Addr)
				switch {
				case sl == keyCell && sl != nil:
					if sdPathHasField(st.Val, "Key") || sdPathHasField(st.Val, S.entryKeyName) {
						keys = append(keys, est{st, sdAccessRoot(st.Val)})
					}
				case sl != nil && valueCells[sl]:
					vals = append(vals, est{st, sdAccessRoot(st.Val)})
				}
			}
		}
		// K accompanies S: same block, K before S on every path, or K on
		// every path from S to a return
		accompanies := func(k, s *ssa.Store) bool {
			if k.Block() == s.Block() || ir.Before(k, s) {
				return true
			}
			reach := ir.ReachableFrom(s.Block(), func(_, to *ssa.BasicBlock) bool { return to == k.Block() })
			for _, r := range ir.Returns(fn) {
				if reach[r.Block()] {
					return false
				}
			}
			return true
		}
		for _, v := range vals {
			pos := P.InstrPos(v.st)
			sl, _ := S.storeRoot(v.st.Addr)
			what := fmt.Sprintf("%s = %s in %s", sl.name, sdDesc(v.st.Val), ir.FuncName(fn))
			ok, wrongItem := false, false
			for _, k := range keys {
				if !accompanies(k.st, v.st) {
					continue
				}
				if k.item == v.item {
					ok = true
					break
				}
				// the key of the other item is fine where that item's value is recorded too
				both := false
				for _, v2 := range vals {
					if v2.st.Block() == v.st.Block() && v2.item == k.item {
						both = true
					}
				}
				if both {
					ok = true
					break
				}
				wrongItem = true
			}
			switch {
			case ok:
				c.OK(pos, what, "the key cell is set from the same item on this path", false)
			case wrongItem:
				c.Violation(fn, pos, "value recorded ("+sl.field.Name()+") under another item's key",
					fmt.Sprintf("%s records the value of %s, but the key cell is set from a different item on this path: the entry is reported under the wrong key", fn.Name(), sdDesc(v.st.Val)))
			default:
				c.Violation(fn, pos, "value recorded ("+sl.field.Name()+") without the key",
					fmt.Sprintf("%s records %s for the entry callback, but %s is not set from that item's key on this path: the step reports nothing (the drivers test the key cell) or an entry without its key — the difference is lost", fn.Name(), sdDesc(v.st.Val), keyCell.name))
			}
		}
	}
}

// sdPathHasField: the access path of v goes through a field of that name.
func sdPathHasField(v ssa.Value, name string) bool {
	for i := 0; i < 16; i++ {
		v = ir.ResolveCell(ir.Strip(v))
		switch x := v.(type) {
		case *ssa.UnOp:
			if x.Op != token.MUL {
				return false
			}
			v = x.X
		case *ssa.FieldAddr:
			if ir.FieldName(x.X.Type(), x.Field) == name {
				return true
			}
			v = x.X
		case *ssa.Field:
			if ir.FieldName(x.X.Type(), x.Field) == name {
				return true
			}
			v = x.X
		case *ssa.IndexAddr:
			v = x.X
		case *ssa.Index:
			v = x.X
		default:
			return false
		}
	}
	return false
}

// ---- step bodies: the diff step and the case methods it dispatches to ----------------

// item states known on entry to a body
const (
	isUnknown = 0
	isAbsent  = 1 // the item is nil
	isEntry   = 2 // the item exists and its link is nil
	isLink    = 3 // the item exists and carries a link
	isPresent = 4 // the item exists; link or entry not known
)

// stepBody is a function that handles (a part of) one diff step: the step
// itself, with the two popped items, or a helper it hands an item to — then
// the items are the helper's parameters, and what the call site knows about
// them (the dispatching condition) holds on entry.
type stepBody struct {
	fn       *ssa.Function
	old, new ssa.Value // the items in fn (pop result or parameter); nil if not available here
	oldSt    int
	newSt    int
	stacks   map[*sdSlot]bool
	oldStack *sdSlot
	newStack *sdSlot
	deleg    map[ssa.CallInstruction]bool // calls that hand an item on to a child body
	depth    int
}

func (b *stepBody) isItem(v, item ssa.Value) bool {
	return item != nil && sdSameItem(v, item)
}

// sdSameItem: v is the item (pointer) itself, or the whole item struct loaded
// through it (an item pushed by value is a copy of the popped item).
func sdSameItem(v, item ssa.Value) bool {
	r := ir.ResolveCell(ir.Strip(v))
	if r == item {
		return true
	}
	if u, ok := r.(*ssa.UnOp); ok && u.Op == token.MUL {
		if _, isStruct := u.Type().Underlying().(*types.Struct); isStruct && ir.ResolveCell(ir.Strip(u.X)) == item {
			return true
		}
	}
	return false
}

func (S *sidesInfo) linkOfItem(v, item ssa.Value) bool {
	if item == nil {
		return false
	}
	it, ok := S.itemLink(v)
	return ok && it == item
}

// itemState: what the facts dominating block blk (plus the facts inherited on
// entry) say about an item of body b.
func (S *sidesInfo) itemState(b *stepBody, blk *ssa.BasicBlock, item ssa.Value, inherited int) int {
	st := inherited
	if item == nil {
		return st
	}
	for _, ft := range sdExpandFacts(ir.FactsAt(blk), 0) {
		it, lk, tnn, ok := S.itemTest(ft.Cond)
		if !ok || it != item {
			continue
		}
		nonNil := ft.Truth == tnn
		switch {
		case !lk:
			if !nonNil {
				st = isAbsent
			} else if st == isUnknown {
				st = isPresent
			}
		default:
			if nonNil {
				st = isLink
			} else {
				st = isEntry
			}
		}
	}
	return st
}

// stepBodies enumerates the step and the helpers (two levels) that receive
// one of its items as a parameter.
func stepBodies(c *Ctx, S *sidesInfo, step *ssa.Function) ([]*stepBody, bool) {
	oldItem, newItem, stacks, ok := stepItems(S, step)
	if !ok {
		return nil, false
	}
	_, os := S.popOf(oldItem)
	_, ns := S.popOf(newItem)
	root := &stepBody{fn: step, old: oldItem, new: newItem, stacks: stacks, oldStack: os, newStack: ns, deleg: map[ssa.CallInstruction]bool{}}
	out := []*stepBody{root}
	notified, prim := c.P.MastFunc("(*Mast).alreadyNotified"), c.P.MastFunc("(*Mast).load")
	for qi := 0; qi < len(out); qi++ {
		b := out[qi]
		if b.depth >= 2 {
			continue
		}
		for _, ci := range CallsOf(b.fn) {
			callee := ir.Callee(ci.Common())
			if callee == nil || !S.slice[callee] || S.poly[callee] || callee == b.fn || callee == notified || callee == prim {
				continue
			}
			var po, pn ssa.Value
			for i, a := range ci.Common().Args {
				if i >= len(callee.Params) {
					break
				}
				switch {
				case b.isItem(a, b.old):
					po = callee.Params[i]
				case b.isItem(a, b.new):
					pn = callee.Params[i]
				}
			}
			if po == nil && pn == nil {
				continue
			}
			b.deleg[ci] = true
			child := &stepBody{fn: callee, old: po, new: pn, stacks: stacks, oldStack: os, newStack: ns, deleg: map[ssa.CallInstruction]bool{}, depth: b.depth + 1,
				oldSt: S.itemState(b, ci.Block(), b.old, b.oldSt), newSt: S.itemState(b, ci.Block(), b.new, b.newSt)}
			// an item that is not handed on and not known absent is simply not visible in the child
			out = append(out, child)
		}
	}
	return out, true
}

// sdRawLinkStores lists the stores into the link field of a stack item whose
// value is not normalised to a name: normalised means that the clean
// in-memory node case has been replaced by `*node.source` (a φ with such an
// alternative, or the result of a function of the diff all of whose returns
// are normalised).
func sdRawLinkStores(S *sidesInfo) (raw []string, at string) {
	var fromSource func(v ssa.Value, d int) bool
	fromSource = func(v ssa.Value, d int) bool {
		if d > 6 {
			return false
		}
		v = ir.ResolveCell(ir.Strip(v))
		if u, ok := v.(*ssa.UnOp); ok && u.Op == token.MUL {
			if fa, ok := u.X.(*ssa.FieldAddr); ok && ir.FieldName(fa.X.Type(), fa.Field) == "source" && ir.IsPtrToNamed(fa.X.Type(), "mastNode") {
				return true
			}
			return fromSource(u.X, d+1)
		}
		return false
	}
	var normalised func(v ssa.Value, d int) bool
	normalised = func(v ssa.Value, d int) bool {
		if d > 3 {
			return false
		}
		v = ir.ResolveCell(ir.Strip(v))
		switch x := v.(type) {
		case *ssa.Phi:
			for _, e := range x.Edges {
				if fromSource(e, 0) || normalised(e, d+1) {
					return true
				}
			}
		case *ssa.Call:
			cal := ir.Callee(x.Call)
			if cal == nil || !S.slice[cal] {
				return false
			}
			rets := ir.Returns(cal)
			if len(rets) == 0 {
				return false
			}
			for _, r := range rets {
				if len(r.Results) == 0 || !(fromSource(r.Results[0], 0) || normalised(r.Results[0], d+1)) {
					// a return that hands the argument back unchanged is fine if another does normalise
					continue
				}
				return true
			}
		}
		return false
	}
	for _, fn := range S.fns {
		for _, b := range fn.Blocks {
			for _, ins := range b.Instrs {
				st, ok := ins.(*ssa.Store)
				if !ok {
					continue
				}
				fa, ok := st.Addr.(*ssa.FieldAddr)
				if !ok || fa.Field != S.itemLinkF {
					continue
				}
				if n, _ := sdNamedStruct(fa.X.Type()); n == nil || n.Obj() != S.itemT.Obj() {
					continue
				}
				if _, isC := st.Val.(*ssa.Const); isC {
					continue
				}
				if !normalised(st.Val, 0) {
					pos := S.P.InstrPos(st)
					raw = append(raw, fmt.Sprintf("%s in %s stores %s", pos, ir.FuncName(fn), sdDesc(st.Val)))
					if at == "" {
						at = ir.FuncName(fn)
					} else if !strings.Contains(at, ir.FuncName(fn)) {
						at += ", " + ir.FuncName(fn)
					}
				}
			}
		}
	}
	return
}

// diffReadsEntryVsLink: where an entry of one side faces a link of the other,
// the link is loaded only after it has been compared with the next link of the
// entry's side (the item below the entry on that stack): if they are the same
// the subtree is common to both versions and must be left for the equal-link
// shortcut, not descended into.
func diffReadsEntryVsLink(c *Ctx, S *sidesInfo, step *ssa.Function) {
	P := c.P
	bodies, ok := stepBodies(c, S, step)
	if !ok {
		return
	}
	const construct = "entry-vs-link step loads a link without comparing it with the other side's next link"
	n := 0
	for _, sb := range bodies {
		for _, sd := range sb.sides() {
			if sd.other == nil {
				continue
			}
			otherStack := sb.oldStack
			if sd.s == sdOld {
				otherStack = sb.newStack
			}
			// what looks at the other stack without popping this step's item
			var peeks []*ssa.Call
			for _, ci := range CallsOf(sb.fn) {
				call, isCall := ci.(*ssa.Call)
				cal := ir.Callee(ci.Common())
				if !isCall || cal == nil || !S.slice[cal] || ssa.Value(call) == sb.old || ssa.Value(call) == sb.new {
					continue
				}
				if _, isTuple := call.Type().(*types.Tuple); isTuple && call.Type().(*types.Tuple).Len() == 0 {
					continue
				}
				for _, a := range ci.Common().Args {
					if sl := S.slotRef(a); sl != nil && sl == otherStack {
						peeks = append(peeks, call)
						break
					}
				}
			}
			type cmpE struct {
				eqTo *ssa.BasicBlock
				peek *ssa.Call
			}
			var cmps []cmpE
			for _, b := range sb.fn.Blocks {
				for _, ins := range b.Instrs {
					ec, isCmp := S.eqCompare(ins)
					if !isCmp {
						continue
					}
					x, y := ec.X, ec.Y
					if S.linkOfItem(y, sd.item) {
						x, y = y, x
					}
					if !S.linkOfItem(x, sd.item) {
						continue
					}
					root := sdAccessRoot(y)
					for _, pk := range peeks {
						if root != ssa.Value(pk) {
							continue
						}
						ifs, _ := sdCondIfs(ec.Val)
						for _, i := range ifs {
							to := i.OnTrue
							if !ec.Eq {
								to = i.OnFalse
							}
							cmps = append(cmps, cmpE{to, pk})
						}
					}
				}
			}
			for _, ci := range CallsOf(sb.fn) {
				if sb.deleg[ci] || ir.DeadByConst(ci.Block()) {
					continue
				}
				ml, name := sdMayLoad(c, ci)
				if !ml {
					continue
				}
				if S.itemState(sb, ci.Block(), sd.item, sd.itemSt) != isLink || S.itemState(sb, ci.Block(), sd.other, sd.otherSt) != isEntry {
					continue
				}
				n++
				okLoad := false
				for _, ce := range cmps {
					pk := ce.peek
					if ir.ReachableFrom(ce.eqTo, nil)[ci.Block()] {
						continue
					}
					if ir.MustPass(ci, func(ins ssa.Instruction) bool { return ins == ssa.Instruction(pk) }) {
						okLoad = true
					}
				}
				pos := P.InstrPos(ci)
				if okLoad {
					c.OK(pos, fmt.Sprintf("load by %s of the %s link facing an entry in %s", name, sd.s, sb.fn.Name()), "only after the link was compared with the next link of the entry's side and found different", false)
				} else {
					c.Violation(step, pos, construct,
						fmt.Sprintf("in %s an entry of one side faces a link of the %s side, and %s reads that link's node without first comparing the link with the next link on the entry's stack: when that is the same link, the subtree is common to both versions, yet it is descended into — the reads grow with the height of the shared subtree (D=2 but 7 reads in the demo) instead of being skipped by the equal-link shortcut", sb.fn.Name(), sd.s, name))
				}
			}
		}
	}
	if n == 0 {
		c.Undecided(step, P.Pos(step.Pos()), "no entry-vs-link load", "the rule found no node load in a region where one item is an entry and the other a link")
	}
}

// ---- EXPANDALL: a loaded node is expanded as a whole ---------------------------------

// sdNodeLinkElem: v is X.Link[i] for the node X; constIdx is i when constant (else -1).
func sdNodeLinkElem(v ssa.Value) (node ssa.Value, constIdx int64, ok bool) {
	u, isU := ir.ResolveCell(ir.Strip(v)).(*ssa.UnOp)
	if !isU || u.Op != token.MUL {
		return nil, 0, false
	}
	ia, isIA := u.X.(*ssa.IndexAddr)
	if !isIA || !sdPathThroughNodeField(ia.X, "Link") {
		return nil, 0, false
	}
	root := sdAccessRoot(ia.X)
	if !sdIsNodePtr(root.Type()) {
		return nil, 0, false
	}
	if k, isK := ir.ConstInt(ia.Index); isK {
		return root, k, true
	}
	return root, -1, true
}

func sdBlockInCycle(b *ssa.BasicBlock) bool {
	for _, s := range b.Succs {
		if ir.CanReach(s, b) {
			return true
		}
	}
	return false
}

// sdFuncReadsParamField: fn reads the exported Node field `name` of its parameter idx.
func sdFuncReadsParamField(fn *ssa.Function, idx int, name string) bool {
	if idx < 0 || idx >= len(fn.Params) {
		return false
	}
	p := fn.Params[idx]
	for _, b := range fn.Blocks {
		for _, ins := range b.Instrs {
			if fa, ok := ins.(*ssa.FieldAddr); ok && ir.FieldName(fa.X.Type(), fa.Field) == name && ir.IsPtrToNamed(fa.X.Type(), "Node") && sdAccessRoot(fa) == ssa.Value(p) {
				return true
			}
		}
	}
	return false
}

// sdCarriesNodeKey: a is a Key element of node p, or an item built in place from one: (the address of, or a copy
// of) a composite literal of the function into which a Key element of p is stored, directly or through a nested
// literal (`&iterItem{yield: entry{node.Key[i], node.Value[i]}}` — the entry-pushing helper written out at its call
// site).
func sdCarriesNodeKey(a, p ssa.Value, depth int) bool {
	if sdPathThroughNodeField(a, "Key") && sdAccessRoot(a) == p {
		return true
	}
	if depth >= 3 {
		return false
	}
	var lit *ssa.Alloc
	switch x := ir.Strip(a).(type) {
	case *ssa.Alloc:
		lit = x
	case *ssa.UnOp:
		if x.Op == token.MUL {
			lit, _ = x.X.(*ssa.Alloc)
		}
	}
	if lit == nil {
		return false
	}
	var stored func(addr ssa.Value, d int) bool
	stored = func(addr ssa.Value, d int) bool {
		if d > 3 || addr.Referrers() == nil {
			return false
		}
		for _, r := range *addr.Referrers() {
			switch x := r.(type) {
			case *ssa.Store:
				if x.Addr == addr && sdCarriesNodeKey(x.Val, p, depth+1) {
					return true
				}
			case *ssa.FieldAddr:
				if x.X == addr && stored(x, d+1) {
					return true
				}
			case *ssa.IndexAddr:
				if x.X == addr && stored(x, d+1) {
					return true
				}
			}
		}
		return false
	}
	return stored(lit, 0)
}

// wholeExpander: fn pushes the whole of its node parameter idx: in a loop it
// pushes the node's links (Link[i], i not constant) and its entries (a call
// that receives the node, or a Key element of it, per iteration) — the shape
// of pushNode; or (one level) it hands the parameter to such a function
// before each of its successful returns.
func (S *sidesInfo) wholeExpander(fn *ssa.Function, idx int, depth int) bool {
	if fn == nil || idx < 0 || idx >= len(fn.Params) || !sdIsNodePtr(fn.Params[idx].Type()) || !S.slice[fn] {
		return false
	}
	p := ssa.Value(fn.Params[idx])
	links, entries := false, false
	for _, ci := range CallsOf(fn) {
		callee := ir.Callee(ci.Common())
		if callee == nil || !S.slice[callee] || !sdBlockInCycle(ci.Block()) {
			continue
		}
		for ai, a := range ci.Common().Args {
			if n, k, ok := sdNodeLinkElem(a); ok && n == p && k < 0 {
				links = true
			}
			if ir.ResolveCell(ir.Strip(a)) == p && callee != fn && sdFuncReadsParamField(callee, ai, "Key") {
				entries = true
			}
			if sdCarriesNodeKey(a, p, 0) {
				entries = true
			}
		}
	}
	if links && entries {
		return true
	}
	if depth >= 1 {
		return false
	}
	ei := ir.ErrorResultIndex(fn.Signature)
	for _, ci := range CallsOf(fn) {
		callee := ir.Callee(ci.Common())
		if callee == nil || callee == fn {
			continue
		}
		for ai, a := range ci.Common().Args {
			if ir.ResolveCell(ir.Strip(a)) != p || !S.wholeExpander(callee, ai, depth+1) {
				continue
			}
			all := true
			for _, r := range ir.Returns(fn) {
				if ei >= 0 && !ir.IsNilConst(r.Results[ei]) {
					continue
				}
				if !ir.MustPass(r, func(ins ssa.Instruction) bool { return ins == ssa.Instruction(ci) }) {
					all = false
				}
			}
			if all {
				return true
			}
		}
	}
	return false
}

// expandWholeNodes: in the step and its helpers, a node obtained by loading an
// item's link is — on every path to a successful return — handed as a whole to
// a function that pushes all its entries and links, unless the item it was
// loaded for is pushed back unchanged, the node is a pass-through node (a
// dominating len(node.Link) == 1) whose only link is pushed, or the node is
// returned to the caller (which is then held to the same).
func expandWholeNodes(c *Ctx, S *sidesInfo, step *ssa.Function, stacks map[*sdSlot]bool) {
	P := c.P
	notified, prim := c.P.MastFunc("(*Mast).alreadyNotified"), c.P.MastFunc("(*Mast).load")
	if prim == nil {
		c.AnchorMissing("function (*Mast).load")
		return
	}
	var stackT types.Type
	for sl := range stacks {
		stackT = sl.field.Type()
	}
	isStackArg := func(a ssa.Value) bool {
		if sl := S.slotRef(a); sl != nil && stacks[sl] {
			return true
		}
		if pt, ok := a.Type().Underlying().(*types.Pointer); ok && stackT != nil && types.Identical(pt.Elem(), stackT) {
			return true
		}
		return false
	}
	scope := map[*ssa.Function]bool{step: true}
	work := []*ssa.Function{step}
	for len(work) > 0 {
		fn := work[len(work)-1]
		work = work[:len(work)-1]
		for _, ci := range CallsOf(fn) {
			cal := ir.Callee(ci.Common())
			if cal == nil || !S.slice[cal] || cal == prim || cal == notified || scope[cal] {
				continue
			}
			scope[cal] = true
			work = append(work, cal)
		}
	}
	lenIsOne := func(b *ssa.BasicBlock, node ssa.Value) bool {
		for _, f := range ir.FactsAt(b) {
			bin, ok := f.Cond.(*ssa.BinOp)
			if !ok || !((bin.Op == token.EQL && f.Truth) || (bin.Op == token.NEQ && !f.Truth)) {
				continue
			}
			x, y := bin.X, bin.Y
			if _, isK := ir.ConstInt(x); isK {
				x, y = y, x
			}
			if k, isK := ir.ConstInt(y); !isK || k != 1 {
				continue
			}
			call, ok := x.(*ssa.Call)
			if !ok {
				continue
			}
			if bi, ok := call.Call.Value.(*ssa.Builtin); ok && bi.Name() == "len" && sdPathThroughNodeField(call.Call.Args[0], "Link") && sdAccessRoot(call.Call.Args[0]) == node {
				return true
			}
		}
		return false
	}
	n := 0
	for _, fn := range S.fns {
		if !scope[fn] {
			continue
		}
		for _, ci := range CallsOf(fn) {
			call, ok := ci.(*ssa.Call)
			cal := ir.Callee(ci.Common())
			if !ok || cal == nil || !(cal == prim || (scope[cal] && c.Facts.MayLoad[cal])) {
				continue
			}
			// the node value
			var X ssa.Value
			if sdIsNodePtr(call.Type()) {
				X = call
			} else if call.Referrers() != nil {
				for _, r := range *call.Referrers() {
					if ex, isEx := r.(*ssa.Extract); isEx && sdIsNodePtr(ex.Type()) {
						X = ex
					}
				}
			}
			if X == nil {
				continue
			}
			n++
			// the item the node was loaded for (if the link is an item's)
			var item ssa.Value
			for _, a := range call.Call.Args {
				if it, isLink := S.itemLink(a); isLink {
					item = it
				}
			}
			discharges := func(ins ssa.Instruction) bool {
				if r, isRet := ins.(*ssa.Return); isRet {
					for _, op := range r.Results {
						if ir.ResolveCell(ir.Strip(op)) == X {
							return true // handed to the caller
						}
					}
					return false
				}
				pc, isCall := ins.(ssa.CallInstruction)
				if !isCall {
					return false
				}
				callee := ir.Callee(pc.Common())
				if callee == nil || !S.slice[callee] {
					return false
				}
				hasStack := false
				for _, a := range pc.Common().Args {
					if isStackArg(a) {
						hasStack = true
					}
				}
				for ai, a := range pc.Common().Args {
					switch {
					case ir.ResolveCell(ir.Strip(a)) == X && S.wholeExpander(callee, ai, 0):
						return true
					case item != nil && hasStack && sdSameItem(a, item):
						if ml, _ := sdMayLoad(c, pc); !ml {
							return true // the item goes back unchanged
						}
					}
					if nd, k, isEl := sdNodeLinkElem(a); isEl && nd == X && k == 0 && hasStack && lenIsOne(pc.Block(), X) {
						return true // a pass-through node: its only link is the whole node
					}
				}
				return false
			}
			blocked := map[*ssa.BasicBlock]bool{}
			for _, b := range fn.Blocks {
				for _, ins := range b.Instrs {
					if discharges(ins) {
						blocked[b] = true
					}
				}
			}
			pos := P.InstrPos(call)
			what := fmt.Sprintf("node loaded by %s(%s) in %s", cal.Name(), sdDesc(call.Call.Args[len(call.Call.Args)-1]), ir.FuncName(fn))
			// in the load's own block only what follows the load counts
			blocked[call.Block()] = false
			seenLoad := false
			for _, ins := range call.Block().Instrs {
				if ins == ssa.Instruction(call) {
					seenLoad = true
				} else if seenLoad && discharges(ins) {
					blocked[call.Block()] = true
				}
			}
			if blocked[call.Block()] {
				c.OK(pos, what, "expanded as a whole (or handed on) right away", false)
				continue
			}
			reach := map[*ssa.BasicBlock]bool{}
			for _, succ := range call.Block().Succs {
				if blocked[succ] {
					continue
				}
				for b := range ir.ReachableFrom(succ, func(_, to *ssa.BasicBlock) bool { return blocked[to] }) {
					reach[b] = true
				}
			}
			bad := false
			for _, r := range ir.Returns(fn) {
				if !reach[r.Block()] || !sdMaySucceed(S, fn, r) {
					continue
				}
				c.Violation(fn, pos, "loaded node not expanded as a whole",
					fmt.Sprintf("%s loads a node (%s) and can return successfully (at "+P.InstrPos(r)+") without handing it to the function that pushes all its entries and links, without pushing the item back, and without the node being a known pass-through node whose only link is pushed: entries and subtrees of that node silently drop out of the diff", fn.Name(), sdDesc(call.Call.Args[len(call.Call.Args)-1])))
				bad = true
				break
			}
			if !bad {
				c.OK(pos, what, "on every successful path expanded as a whole, pushed back as an item, pushed as the only link of a pass-through node, or returned", false)
			}
		}
	}
	if n == 0 {
		c.Undecided(step, P.Pos(step.Pos()), "no node load in the step", "the rule found no load of a node in the diff step or its helpers")
	}
}

// notifyMemoHeight: the memo of alreadyNotified is indexed by height; the
// height it starts from must be the layer of a key (the result of the tree's
// layer function applied to a Key of a loaded node) on every path that reaches
// a memo access — in alreadyNotified itself or in the helpers it is split
// into. A path on which the height is still its initial constant (the descent
// through single-link nodes left before the layer was computed) makes links of
// different heights share memo slots, and a link is then reported again.
func notifyMemoHeight(c *Ctx, S *sidesInfo, notified *ssa.Function) {
	P := c.P
	prim := c.P.MastFunc("(*Mast).load")
	scope := map[*ssa.Function]bool{notified: true}
	work := []*ssa.Function{notified}
	for len(work) > 0 {
		fn := work[len(work)-1]
		work = work[:len(work)-1]
		for _, ci := range CallsOf(fn) {
			cal := ir.Callee(ci.Common())
			if cal == nil || !S.slice[cal] || cal == prim || scope[cal] {
				continue
			}
			scope[cal] = true
			work = append(work, cal)
		}
	}
	// failure returns of a function: reachable from an edge on which an error is non-nil
	failRet := func(fn *ssa.Function) map[*ssa.Return]bool {
		out := map[*ssa.Return]bool{}
		ei := ir.ErrorResultIndex(fn.Signature)
		for _, r := range ir.Returns(fn) {
			if ei >= 0 && ei < len(r.Results) && !ir.IsNilConst(r.Results[ei]) {
				out[r] = true
			}
		}
		for _, fe := range sdFailEdges(c, S, fn, 0) {
			reach := ir.ReachableFrom(fe.to, nil)
			for _, r := range ir.Returns(fn) {
				if reach[r.Block()] {
					out[r] = true
				}
			}
		}
		return out
	}
	type leaf struct {
		v   ssa.Value
		why string
	}
	var resolve func(v ssa.Value, depth int, seen map[ssa.Value]bool) []leaf
	resolve = func(v ssa.Value, depth int, seen map[ssa.Value]bool) []leaf {
		if seen[v] {
			return nil
		}
		seen[v] = true
		if depth > 6 {
			return []leaf{{v, "the value could not be traced"}}
		}
		idx := 0
		var call *ssa.Call
		switch x := v.(type) {
		case *ssa.Convert:
			return resolve(x.X, depth, seen)
		case *ssa.ChangeType:
			return resolve(x.X, depth, seen)
		case *ssa.Phi:
			var out []leaf
			for _, e := range x.Edges {
				out = append(out, resolve(e, depth, seen)...)
			}
			return out
		case *ssa.UnOp:
			if r := ir.ResolveCell(x); r != ssa.Value(x) {
				return resolve(r, depth, seen)
			}
		case *ssa.Extract:
			idx = x.Index
			call, _ = x.Tuple.(*ssa.Call)
		case *ssa.Call:
			call = x
		case *ssa.Parameter:
			fn := x.Parent()
			pi := sdParamIndex(fn, x)
			var out []leaf
			n := 0
			for _, cs := range P.Callers[fn] {
				if !scope[cs.Parent()] || pi < 0 || pi >= len(cs.Common().Args) {
					continue
				}
				n++
				out = append(out, resolve(cs.Common().Args[pi], depth+1, seen)...)
			}
			if n == 0 {
				return []leaf{{v, "a parameter without a call site under " + notified.Name()}}
			}
			return out
		case *ssa.Const:
			return []leaf{{v, "the constant " + sdDesc(v) + " (the height's initial value)"}}
		}
		if call == nil {
			return []leaf{{v, sdDesc(v) + " is not the result of the layer function"}}
		}
		if cal := ir.Callee(call.Common()); cal != nil {
			if !scope[cal] {
				return []leaf{{v, "the result of " + cal.Name()}}
			}
			fails := failRet(cal)
			var out []leaf
			for _, r := range ir.Returns(cal) {
				if fails[r] || idx >= len(r.Results) {
					continue
				}
				out = append(out, resolve(r.Results[idx], depth+1, seen)...)
			}
			return out
		}
		// a function value taken from a field of the tree, applied to a key of a node
		if ld, ok := call.Call.Value.(*ssa.UnOp); ok && ld.Op == token.MUL && !call.Call.IsInvoke() {
			if fa, ok := ld.X.(*ssa.FieldAddr); ok && sdIsMast(fa.X.Type()) && len(call.Call.Args) > 0 {
				var keyArg func(a ssa.Value, d int) bool
				keyArg = func(a ssa.Value, d int) bool {
					if sdPathThroughNodeField(a, "Key") {
						// the first key: the only one every keyed node has
						if u, ok := ir.ResolveCell(ir.Strip(a)).(*ssa.UnOp); ok && u.Op == token.MUL {
							if ia, isIA := u.X.(*ssa.IndexAddr); isIA {
								if k, isK := ir.ConstInt(ia.Index); isK && k != 0 {
									return false
								}
							}
						}
						return true
					}
					// the parameter of a helper wrapping the layer function: every call site passes a key
					pp, isP := ir.ResolveCell(ir.Strip(a)).(*ssa.Parameter)
					if !isP || d > 2 {
						return false
					}
					pi, n := sdParamIndex(pp.Parent(), pp), 0
					for _, cs := range P.Callers[pp.Parent()] {
						if !scope[cs.Parent()] || pi < 0 || pi >= len(cs.Common().Args) {
							continue
						}
						n++
						if !keyArg(cs.Common().Args[pi], d+1) {
							return false
						}
					}
					return n > 0
				}
				if keyArg(call.Call.Args[0], 0) {
					return nil // the layer of a key
				}
				return []leaf{{v, "the layer function applied to " + sdDesc(call.Call.Args[0]) + ", which is not the first key of a loaded node"}}
			}
		}
		return []leaf{{v, sdDesc(v) + " is not the result of the layer function"}}
	}
	n := 0
	for _, fn := range S.fns {
		if !scope[fn] {
			continue
		}
		for _, b := range fn.Blocks {
			for _, ins := range b.Instrs {
				var index ssa.Value
				var kind string
				switch x := ins.(type) {
				case *ssa.Lookup:
					if _, isMap := x.X.Type().Underlying().(*types.Map); isMap {
						index, kind = x.Index, "look-up"
					}
				case *ssa.MapUpdate:
					index, kind = x.Key, "update"
				}
				if index == nil {
					continue
				}
				n++
				// the height operand(s): not computed in the loop of the access itself
				var hs []ssa.Value
				iv := index
				if cv, ok := iv.(*ssa.Convert); ok {
					iv = cv.X
				}
				if bin, ok := iv.(*ssa.BinOp); ok && bin.Op == token.ADD {
					for _, op := range []ssa.Value{bin.X, bin.Y} {
						o := op
						for {
							cv, isCv := o.(*ssa.Convert)
							if !isCv {
								break
							}
							o = cv.X
						}
						if di, isI := o.(ssa.Instruction); isI && di.Block() != nil && di.Parent() == fn && ir.CanReach(b, di.Block()) && ir.CanReach(di.Block(), b) && sdBlockInCycle(di.Block()) {
							continue // the per-level offset of the loop over the path
						}
						hs = append(hs, op)
					}
				} else {
					hs = []ssa.Value{iv}
				}
				pos := P.InstrPos(ins)
				bad := false
				for _, h := range hs {
					for _, lf := range resolve(h, 0, map[ssa.Value]bool{}) {
						c.Violation(fn, pos, "memo "+kind+" at a height that is not the layer of a key",
							fmt.Sprintf("the memo of %s is indexed from %s; on some path this is %s: the descent through single-link nodes can end before the layer of the first keyed node's key is computed, so links of different heights share memo slots and a link is reported to the link callback again", notified.Name(), sdDesc(h), lf.why))
						bad = true
					}
				}
				if !bad {
					c.OK(pos, "memo "+kind+" in "+ir.FuncName(fn), "the height is the layer of a key of a loaded node on every path", false)
				}
			}
		}
	}
	if n == 0 {
		c.Undecided(notified, P.Pos(notified.Pos()), "no memo access", notified.Name()+" (with its helpers) never reads or writes a map: the rule cannot find the memo")
	}
}

// ---- DIFFSHORTCUT: the diff starts from the two root links ------------------------------

// shortcutRoots: where the diff state is built, each tree's root is put on its
// stack as ONE link item (the callee may decline for nil or the entry-less
// placeholder) and is neither expanded nor loaded there: the first thing the
// step compares must be the two root links — otherwise one side starts a
// level ahead and the common left spine is read even for identical versions.
func shortcutRoots(c *Ctx, S *sidesInfo, stacks map[*sdSlot]bool) {
	P := c.P
	var stackT types.Type
	for sl := range stacks {
		stackT = sl.field.Type()
	}
	isStackArg := func(a ssa.Value) bool {
		if sl := S.slotRef(a); sl != nil && stacks[sl] {
			return true
		}
		if pt, ok := a.Type().Underlying().(*types.Pointer); ok && stackT != nil && types.Identical(pt.Elem(), stackT) {
			return true
		}
		return false
	}
	// v is the root value `base` or obtained from it by type assertion / φ
	var derived func(v, base ssa.Value, d int) bool
	derived = func(v, base ssa.Value, d int) bool {
		if d > 6 {
			return false
		}
		v = ir.ResolveCell(ir.Strip(v))
		if v == base {
			return true
		}
		switch x := v.(type) {
		case *ssa.TypeAssert:
			return derived(x.X, base, d+1)
		case *ssa.Extract:
			if ta, ok := x.Tuple.(*ssa.TypeAssert); ok && x.Index == 0 {
				return derived(ta.X, base, d+1)
			}
		case *ssa.Phi:
			for _, e := range x.Edges {
				if derived(e, base, d+1) {
					return true
				}
			}
		}
		return false
	}
	isItemPtr := func(t types.Type) bool { // an item, by pointer or by value
		n, _ := sdNamedStruct(t)
		return n != nil && n.Obj() == S.itemT.Obj()
	}
	itemAlloc := func(v ssa.Value) (*ssa.Alloc, bool) {
		v = ir.Strip(v)
		if u, ok := v.(*ssa.UnOp); ok && u.Op == token.MUL {
			if a, isA := u.X.(*ssa.Alloc); isA {
				return a, true // the value of a local composite literal
			}
		}
		a, ok := ir.ResolveCell(v).(*ssa.Alloc)
		return a, ok
	}
	type verdict struct {
		bad  string
		at   ssa.Instruction
		push int
	}
	// check fn, which received the root as `base` (a parameter, or the load of
	// Mast.root in the constructor): returns the first defect, and the push calls
	var check func(fn *ssa.Function, isBase func(ssa.Value) bool, depth int) (string, ssa.Instruction, []ssa.CallInstruction)
	check = func(fn *ssa.Function, isBase func(ssa.Value) bool, depth int) (string, ssa.Instruction, []ssa.CallInstruction) {
		var pushes []ssa.CallInstruction
		if depth > 4 {
			return "the root is handed on through more than four helpers", nil, nil
		}
		for _, ci := range CallsOf(fn) {
			callee := ir.Callee(ci.Common())
			args := ci.Common().Args
			rootIdx, hasStack, itemArg := -1, false, ssa.Value(nil)
			for ai, a := range args {
				if isBase(a) {
					rootIdx = ai
				}
				if isStackArg(a) {
					hasStack = true
				}
				if isItemPtr(a.Type()) {
					itemArg = a
				}
			}
			if rootIdx >= 0 {
				if callee != nil && S.wholeExpander(callee, rootIdx, 0) {
					return fmt.Sprintf("the root node is expanded at once by %s", callee.Name()), ci, nil
				}
				if ml, name := sdMayLoad(c, ci); ml {
					return fmt.Sprintf("the root is read by %s while the diff state is built", name), ci, nil
				}
			}
			if !hasStack || callee == nil || !S.slice[callee] {
				continue
			}
			if call, isCall := ci.(*ssa.Call); isCall {
				if n, _ := sdNamedStruct(call.Type()); n != nil && n.Obj() == S.itemT.Obj() {
					continue // a pop / peek
				}
			}
			if depth == 0 && rootIdx < 0 {
				// in the constructor only what concerns this root counts
				// (the other root has its own obligation)
				var al *ssa.Alloc
				isAlloc := false
				if itemArg != nil {
					al, isAlloc = itemAlloc(itemArg)
				}
				carries := false
				if isAlloc && al.Referrers() != nil {
					for _, r := range *al.Referrers() {
						if fa, isFA := r.(*ssa.FieldAddr); isFA && fa.Field == S.itemLinkF && fa.Referrers() != nil {
							for _, rr := range *fa.Referrers() {
								if st, isSt := rr.(*ssa.Store); isSt && isBase(st.Val) {
									carries = true
								}
							}
						}
					}
				}
				if !carries {
					continue
				}
			}
			pushes = append(pushes, ci)
			switch {
			case rootIdx >= 0:
				p := callee.Params[rootIdx]
				bad, at, inner := check(callee, func(v ssa.Value) bool { return derived(v, p, 0) }, depth+1)
				if bad != "" {
					return bad, at, nil
				}
				_ = inner
			case itemArg != nil:
				// the primitive push of an item built here: its link must be the root
				al, isAlloc := itemAlloc(itemArg)
				okItem := false
				if isAlloc && al.Referrers() != nil {
					for _, r := range *al.Referrers() {
						fa, isFA := r.(*ssa.FieldAddr)
						if !isFA || fa.Field != S.itemLinkF || fa.Referrers() == nil {
							continue
						}
						for _, rr := range *fa.Referrers() {
							if st, isSt := rr.(*ssa.Store); isSt && st.Addr == ssa.Value(fa) && isBase(st.Val) {
								okItem = true
							}
						}
					}
				}
				if !okItem {
					return "an item that does not carry the root link is pushed", ci, nil
				}
			default:
				return fmt.Sprintf("%s pushes something other than the root link", callee.Name()), ci, nil
			}
		}
		for i, a := range pushes {
			if sdBlockInCycle(a.Block()) {
				return "the root is pushed in a loop", a, nil
			}
			for j, b := range pushes {
				if i != j && ir.InstrReaches(a, b) {
					return "more than one item is pushed for the root on one path", b, nil
				}
			}
		}
		return "", nil, pushes
	}
	n := 0
	for _, fn := range S.fns {
		isCtor := false
		res := fn.Signature.Results()
		for i := 0; i < res.Len(); i++ {
			if nt, _ := sdNamedStruct(res.At(i).Type()); nt != nil && S.sidedT[nt.Obj()] == "state" {
				if _, isPtr := res.At(i).Type().Underlying().(*types.Pointer); isPtr {
					isCtor = true
				}
			}
		}
		if !isCtor {
			continue
		}
		// the roots used in the constructor, by tree
		roots := map[ssa.Value][]ssa.Value{} // tree -> loads of its root
		for _, b := range fn.Blocks {
			for _, ins := range b.Instrs {
				if v, ok := ins.(ssa.Value); ok {
					if tree, isRoot := rootLoad(v); isRoot {
						roots[tree] = append(roots[tree], v)
					}
				}
			}
		}
		for tree, loads := range roots {
			n++
			isBase := func(v ssa.Value) bool {
				for _, l := range loads {
					if derived(v, l, 0) {
						return true
					}
				}
				return false
			}
			bad, at, pushes := check(fn, isBase, 0)
			pos := P.Pos(fn.Pos())
			if at != nil {
				pos = P.InstrPos(at)
			}
			what := fmt.Sprintf("root of %s in %s", sdDesc(tree), ir.FuncName(fn))
			switch {
			case bad != "":
				atFn := fn
				if at != nil {
					atFn = at.Parent()
				}
				c.Violation(atFn, pos, "the diff does not start from the root link: "+bad,
					fmt.Sprintf("building the diff state, the root of %s must go onto its stack as one link item, to be compared with the other root by the first step; here %s — that side starts a level ahead (or with other items), the two roots are never compared, and nodes common to both versions are read even when the versions are the same", sdDesc(tree), bad))
			case len(pushes) == 0:
				c.Undecided(fn, pos, "root never handed to a stack", "the rule found no call that puts the root of "+sdDesc(tree)+" on a diff stack")
			default:
				c.OK(pos, what, "pushed as one link item; not expanded or loaded while the state is built", false)
			}
		}
	}
	if n == 0 {
		c.Undecided(nil, "-", "no construction of the diff state", "no function returning the diff state reads a tree's root")
	}
}

// ---- EXPANDALL: what is expanded is the node loaded from the item's own link -----------

// expandedNodeProv: the node handed to a whole-expander in the step is the
// result of load(L) for the very link L it stands for: directly, or the node
// result of a helper that on every successful return hands back the result of
// loading its own link parameter (not a link it derived, e.g. while descending
// through pass-through nodes — then the children of a deeper node would be
// pushed in place of the item's, and the nodes in between never reported).
func expandedNodeProv(c *Ctx, S *sidesInfo, step *ssa.Function, stacks map[*sdSlot]bool) {
	P := c.P
	prim := c.P.MastFunc("(*Mast).load")
	if prim == nil {
		return
	}
	scope := map[*ssa.Function]bool{step: true}
	work := []*ssa.Function{step}
	for len(work) > 0 {
		fn := work[len(work)-1]
		work = work[:len(work)-1]
		for _, ci := range CallsOf(fn) {
			cal := ir.Callee(ci.Common())
			if cal == nil || !S.slice[cal] || cal == prim || scope[cal] {
				continue
			}
			scope[cal] = true
			work = append(work, cal)
		}
	}
	var prov func(v ssa.Value, wantLinkParam *ssa.Function, depth int) string
	prov = func(v ssa.Value, inHelper *ssa.Function, depth int) string {
		if depth > 4 {
			return "its origin could not be traced"
		}
		v = ir.ResolveCell(ir.Strip(v))
		idx := 0
		var call *ssa.Call
		switch x := v.(type) {
		case *ssa.Extract:
			idx = x.Index
			call, _ = x.Tuple.(*ssa.Call)
		case *ssa.Call:
			call = x
		case *ssa.Phi:
			for _, e := range x.Edges {
				if ir.IsNilConst(e) {
					continue
				}
				if why := prov(e, inHelper, depth+1); why != "" {
					return why
				}
			}
			return ""
		case *ssa.Parameter:
			fn := x.Parent()
			pi := sdParamIndex(fn, x)
			n := 0
			for _, cs := range P.Callers[fn] {
				if !scope[cs.Parent()] || pi < 0 || pi >= len(cs.Common().Args) {
					continue
				}
				n++
				if why := prov(cs.Common().Args[pi], nil, depth+1); why != "" {
					return why
				}
			}
			if n == 0 {
				return "it is a parameter without a call site in the step"
			}
			return ""
		case *ssa.UnOp:
			// a local assigned in a loop: every stored value counts
			if a, ok := x.X.(*ssa.Alloc); ok && x.Op == token.MUL {
				stores, esc := ir.AllCellStores(a)
				if esc || len(stores) == 0 {
					return "it is read from a variable whose writes cannot be followed"
				}
				for _, st := range stores {
					if ir.IsNilConst(st.Val) {
						continue
					}
					if why := prov(st.Val, inHelper, depth+1); why != "" {
						return why
					}
				}
				return ""
			}
		}
		if call == nil {
			return sdDesc(v) + " is not the result of a load"
		}
		cal := ir.Callee(call.Common())
		if cal == prim {
			link := call.Call.Args[len(call.Call.Args)-1]
			if inHelper != nil {
				if sdParamIndex(inHelper, link) < 0 {
					return fmt.Sprintf("%s returns the node loaded from %s, a link it derived itself, not from its own link parameter", inHelper.Name(), sdDesc(link))
				}
			}
			return ""
		}
		if cal == nil || !S.slice[cal] {
			return sdDesc(v) + " is not the result of a load"
		}
		ei := ir.ErrorResultIndex(cal.Signature)
		for _, r := range ir.Returns(cal) {
			if ei >= 0 && ei < len(r.Results) && !ir.IsNilConst(r.Results[ei]) {
				continue
			}
			if idx >= len(r.Results) || ir.IsNilConst(r.Results[idx]) {
				continue
			}
			if why := prov(r.Results[idx], cal, depth+1); why != "" {
				return why
			}
		}
		return ""
	}
	for _, fn := range S.fns {
		if !scope[fn] {
			continue
		}
		for _, ci := range CallsOf(fn) {
			callee := ir.Callee(ci.Common())
			if callee == nil || !S.slice[callee] {
				continue
			}
			hasStack := false
			for _, a := range ci.Common().Args {
				if sl := S.slotRef(a); sl != nil && stacks[sl] {
					hasStack = true
				}
			}
			if !hasStack {
				continue
			}
			for ai, a := range ci.Common().Args {
				if !sdIsNodePtr(a.Type()) || !S.wholeExpander(callee, ai, 0) {
					continue
				}
				pos := P.InstrPos(ci)
				if why := prov(a, nil, 0); why != "" {
					c.Violation(fn, pos, "expanded node is not the node loaded from the item's link",
						fmt.Sprintf("%s hands %s to %s, but %s: the entries and links pushed are not those of the node the popped link names, and the nodes skipped on the way are never reported to the link callback", fn.Name(), sdDesc(a), callee.Name(), why))
				} else {
					c.OK(pos, fmt.Sprintf("node expanded by %s in %s", callee.Name(), ir.FuncName(fn)), "the result of loading the link itself (directly or through a helper that loads its link parameter)", false)
				}
			}
		}
	}
}

// expanderUnconditional: in a function that expands a node (pushes Link[i] and
// entry i in a loop) no such push depends on anything but the loop bounds and
// the nil-ness of a link: an expansion that a mode flag can thin out (links
// only, entries only) makes the two stacks lose their alignment.
func expanderUnconditional(c *Ctx, S *sidesInfo) {
	P := c.P
	for _, fn := range S.fns {
		for pi, p := range fn.Params {
			if !sdIsNodePtr(p.Type()) {
				continue
			}
			var pushes []ssa.CallInstruction
			links, entries := false, false
			for _, ci := range CallsOf(fn) {
				callee := ir.Callee(ci.Common())
				if callee == nil || !S.slice[callee] || !sdBlockInCycle(ci.Block()) {
					continue
				}
				for ai, a := range ci.Common().Args {
					isL, isE := false, false
					if n, k, ok := sdNodeLinkElem(a); ok && n == ssa.Value(p) && k < 0 {
						isL = true
					}
					if ir.ResolveCell(ir.Strip(a)) == ssa.Value(p) && callee != fn && sdFuncReadsParamField(callee, ai, "Key") {
						isE = true
					}
					if sdCarriesNodeKey(a, ssa.Value(p), 0) {
						isE = true
					}
					if isL || isE {
						links, entries = links || isL, entries || isE
						pushes = append(pushes, ci)
					}
				}
			}
			if !links || !entries {
				continue
			}
			_ = pi
			for _, ci := range pushes {
				bad := ""
				for _, f := range ir.FactsAt(ci.Block()) {
					if f.From == nil || !sdBlockInCycle(f.From) {
						continue // decided before the loop: applies to the whole expansion
					}
					cond := f.Cond
					for {
						u, ok := cond.(*ssa.UnOp)
						if !ok || u.Op != token.NOT {
							break
						}
						cond = u.X
					}
					if _, _, isNil := ir.NilTest(cond); isNil {
						continue
					}
					if bin, ok := cond.(*ssa.BinOp); ok {
						if b, isB := bin.X.Type().Underlying().(*types.Basic); isB && b.Info()&types.IsInteger != 0 {
							continue // loop bounds / index arithmetic
						}
					}
					if _, isOk := cond.(*ssa.Extract); isOk {
						if _, isNext := cond.(*ssa.Extract).Tuple.(*ssa.Next); isNext {
							continue // range loop
						}
					}
					bad = sdDesc(cond)
				}
				pos := P.InstrPos(ci)
				what := fmt.Sprintf("push by %s in the expansion loop of %s", ir.Callee(ci.Common()).Name(), ir.FuncName(fn))
				if bad != "" {
					c.Violation(fn, pos, "the expansion of a node depends on a mode flag",
						fmt.Sprintf("%s pushes this part of the node only when %s holds — a condition that is neither a loop bound nor the nil-ness of a link: an expansion without all its links or all its entries leaves the two stacks out of step, so equal subtrees no longer meet link against link (and are read), or entries go missing", fn.Name(), bad))
				} else {
					c.OK(pos, what, "depends only on the loop bounds", false)
				}
			}
		}
	}
}
