package rules

import (
	"mastcheck/ir"
)

// DIFFCAPTURE: a version is captured by cloning, "explicitly, or implicitly by opening a cursor on it". Cursor() clones
// (CURSORCLONE). StartDiff hands out a cursor as well — a DiffCursor the caller steps through at its own pace — but it
// keeps the two *Mast it was given: edits made to either tree between two NextEntry calls move under the cursor.

func init() {
	Register(&Rule{ID: "DIFFCAPTURE", Props: []string{"C02"}, Min: 1,
		Doc: "StartDiff captures both trees the way Cursor() does: Clone is called (in StartDiff or a private helper of it) for the trees the DiffCursor goes on reading.",
		Run: runDIFFCAPTURE})
}

func runDIFFCAPTURE(c *Ctx) {
	P := c.P
	sd := c.MustFunc("(*Mast).StartDiff")
	clone := c.MustFunc("(*Mast).Clone")
	if sd == nil || clone == nil {
		return
	}
	n := 0
	for _, fn := range regionOf(c, sd) {
		for _, ci := range CallsOf(fn) {
			if ir.Callee(ci.Common()) == clone {
				n++
			}
		}
	}
	if n >= 2 {
		c.OK(P.Pos(sd.Pos()), "StartDiff captures its trees", "both are cloned", false)
	} else {
		c.Violation(sd, P.Pos(sd.Pos()), "diff cursor keeps the live trees",
			"StartDiff stores the caller's *Mast values in the DiffCursor without cloning them: Insert/Delete on either tree between two NextEntry calls change what the cursor reports (keys 1..10, one step, Delete(7): the cursor never yields 7), unlike a Cursor, which walks a clone")
	}
}
