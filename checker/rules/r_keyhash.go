package rules

import (
	"fmt"
	"go/types"

	"golang.org/x/tools/go/ssa"

	"mastcheck/ir"
)

// KEYHASH: keys and values are arbitrary user types held in interface{}; []byte is a natively supported key type.
// Hashing an interface (using it as the key of a map, of a sync.Map, or as a `comparable` type argument) panics at
// run time when the dynamic type is not hashable — the same failure as `==` on two interfaces (IFACEEQ), reached
// through a different instruction. Asserting the user value to one concrete type to obtain a hashable key panics for
// every other key type.

func init() {
	Register(&Rule{
		ID:    "KEYHASH",
		Props: []string{"C01", "C10", "C06"},
		Min:   1,
		Doc: "no user key or value (a value that originates from a node's Key/Value slot, from an entry{Key,Value}, or from a key/value argument of the exported API — the provenance IFACEEQ uses) " +
			"is hashed: it is not the key of a map insertion, lookup or delete on a map whose key type is, or contains, an interface, not the key of a sync.Map operation, not an argument of a generic function instantiated with an interface for a `comparable` type parameter, " +
			"and it is not forced into a hashable map key by a single-result type assertion.",
		Run: runKEYHASH,
	})
}

func isSyncMapPtr(t types.Type) bool {
	p, ok := t.Underlying().(*types.Pointer)
	if !ok {
		return false
	}
	n, ok := types.Unalias(p.Elem()).(*types.Named)
	return ok && n.Obj().Pkg() != nil && n.Obj().Pkg().Path() == "sync" && n.Obj().Name() == "Map"
}

// typeHoldsIface: an interface, or a struct/array with an interface component (such a map key is hashed component-wise).
func typeHoldsIface(t types.Type, d int) bool {
	if d > 4 {
		return false
	}
	switch u := t.Underlying().(type) {
	case *types.Interface:
		return true
	case *types.Struct:
		for i := 0; i < u.NumFields(); i++ {
			if typeHoldsIface(u.Field(i).Type(), d+1) {
				return true
			}
		}
	case *types.Array:
		return typeHoldsIface(u.Elem(), d+1)
	}
	return false
}

// hashedUserValue: does the map key v carry a user key/value? Either v itself, or — for a composite key — one of the
// components stored into the local it is read from.
func hashedUserValue(v ssa.Value, userParams map[*ssa.Parameter]bool) (string, bool) {
	if isIface(v.Type()) {
		if k, w := provenance(v, userParams, 0); k == provUser {
			return w, true
		}
		// a user value boxed again (`interface{}(k)` of a type-asserted key) or converted between interface types
		if s := ir.Strip(v); s != v && isIface(s.Type()) {
			if k, w := provenance(s, userParams, 0); k == provUser {
				return w, true
			}
		}
		return "", false
	}
	// composite key: a struct / array value
	r := ir.ResolveCell(v)
	var alloc *ssa.Alloc
	if ld, ok := r.(*ssa.UnOp); ok {
		alloc, _ = ld.X.(*ssa.Alloc)
	}
	if alloc != nil && alloc.Referrers() != nil {
		for _, ref := range *alloc.Referrers() {
			var addr ssa.Value
			switch a := ref.(type) {
			case *ssa.FieldAddr:
				addr = a
			case *ssa.IndexAddr:
				addr = a
			case *ssa.Store:
				if a.Addr == ssa.Value(alloc) {
					if w, ok := hashedUserValue(a.Val, userParams); ok {
						return w, true
					}
				}
				continue
			default:
				continue
			}
			if addr.Referrers() == nil {
				continue
			}
			for _, r2 := range *addr.Referrers() {
				if st, ok := r2.(*ssa.Store); ok && st.Addr == addr && isIface(st.Val.Type()) {
					if k, w := provenance(st.Val, userParams, 0); k == provUser {
						return w, true
					}
				}
			}
		}
	}
	// an entry copied out of a list of entries, a diff state … : a value of a repository type that holds user values
	if n, ok := v.Type().(*types.Named); ok && n.Obj().Name() == "entry" {
		return "entry", true
	}
	return "", false
}

// assertedUserValue: v is the single-result assertion `x.(T)` of a user key/value (possibly converted further).
func assertedUserValue(v ssa.Value, userParams map[*ssa.Parameter]bool) (string, bool) {
	for i := 0; i < 4; i++ {
		switch x := v.(type) {
		case *ssa.Convert:
			v = x.X
			continue
		case *ssa.ChangeType:
			v = x.X
			continue
		case *ssa.TypeAssert:
			if x.CommaOk || isIface(x.AssertedType) {
				return "", false
			}
			if k, w := provenance(x.X, userParams, 0); k == provUser {
				return w + ".(" + types.TypeString(x.AssertedType, func(*types.Package) string { return "" }) + ")", true
			}
			return "", false
		}
		break
	}
	return "", false
}

func runKEYHASH(c *Ctx) {
	P := c.P
	userParams := userValueParams(c)
	examined := 0
	judge := func(fn *ssa.Function, ins ssa.Instruction, mapT types.Type, key ssa.Value, op string) {
		m, ok := mapT.Underlying().(*types.Map)
		if !ok {
			return
		}
		pos := P.InstrPos(ins)
		examined++
		if typeHoldsIface(m.Key(), 0) {
			if w, bad := hashedUserValue(key, userParams); bad {
				c.Violation(fn, pos, fmt.Sprintf("%s keyed by %s", op, w),
					fmt.Sprintf("the user key/value %s is used as the key of a %s: hashing an interface panics at run time when its dynamic type is not hashable — []byte, a natively supported key type, any slice or map — so a tree of such keys cannot be operated on; the sibling paths use the key order / reflect.DeepEqual", w, types.TypeString(mapT, nil)))
				return
			}
			c.OK(pos, fmt.Sprintf("%s on %s in %s", op, types.TypeString(mapT, nil), ir.FuncName(fn)), "the key is not a user key/value", false)
			return
		}
		if w, bad := assertedUserValue(key, userParams); bad {
			c.Violation(fn, pos, fmt.Sprintf("%s keyed by asserted %s", op, w),
				fmt.Sprintf("the user key/value is forced into a hashable map key by the single-result assertion %s: it panics for every other key type the tree supports", w))
			return
		}
		c.OK(pos, fmt.Sprintf("%s on %s in %s", op, types.TypeString(mapT, nil), ir.FuncName(fn)), "key type holds no interface", true)
	}
	for _, fn := range P.Funcs {
		for _, b := range fn.Blocks {
			if ir.IsDead(b) {
				continue
			}
			for _, ins := range b.Instrs {
				switch x := ins.(type) {
				case *ssa.MapUpdate:
					judge(fn, x, x.Map.Type(), x.Key, "map insertion")
				case *ssa.Lookup:
					judge(fn, x, x.X.Type(), x.Index, "map lookup")
				case ssa.CallInstruction:
					cc := x.Common()
					if bi, ok := cc.Value.(*ssa.Builtin); ok {
						if bi.Name() == "delete" && len(cc.Args) == 2 {
							judge(fn, x, cc.Args[0].Type(), cc.Args[1], "map delete")
						}
						continue
					}
					callee := ir.Callee(*cc)
					if callee == nil {
						continue
					}
					// sync.Map: every operation hashes its key
					if recv := callee.Signature.Recv(); recv != nil && isSyncMapPtr(recv.Type()) {
						if len(cc.Args) >= 2 && isIface(cc.Args[1].Type()) {
							examined++
							if w, bad := hashedUserValue(cc.Args[1], userParams); bad {
								c.Violation(fn, P.InstrPos(x), fmt.Sprintf("sync.Map.%s keyed by %s", callee.Name(), w),
									fmt.Sprintf("the user key/value %s is the key of a sync.Map operation: hashing an interface panics at run time when its dynamic type is not hashable ([]byte, a natively supported key type, any slice or map)", w))
							} else {
								c.OK(P.InstrPos(x), "sync.Map."+callee.Name()+" in "+ir.FuncName(fn), "the key is not a user key/value", false)
							}
						}
						continue
					}
					// a generic function instantiated with an interface for a comparable type parameter
					if sc := ir.Callee(cc); sc != nil && len(sc.TypeArgs()) > 0 && sc.Origin() != nil {
						targs := sc.TypeArgs()
						callee = sc
						tps := sc.Origin().TypeParams()
						for i, ta := range targs {
							if i >= tps.Len() || !isIface(ta) {
								continue
							}
							ci, ok := tps.At(i).Constraint().Underlying().(*types.Interface)
							if !ok || !ci.IsComparable() {
								continue
							}
							examined++
							hit := ""
							for _, a := range cc.Args {
								if isIface(a.Type()) {
									if w, bad := hashedUserValue(a, userParams); bad {
										hit = w
									}
								} else if sl, ok := a.Type().Underlying().(*types.Slice); ok && isIface(sl.Elem()) {
									if _, f, ok := nodeSliceRoot(a); ok && (f == "Key" || f == "Value") {
										hit = "node." + f
									}
								}
							}
							if hit != "" {
								c.Violation(fn, P.InstrPos(x), fmt.Sprintf("%s instantiated with an interface over %s", callee.Origin().Name(), hit),
									fmt.Sprintf("%s compares/hashes its `comparable` type parameter, instantiated here with an interface and fed the user key/value %s: this panics at run time for dynamic types that are not comparable ([]byte, a natively supported key type)", callee.Origin().Name(), hit))
							} else {
								c.OK(P.InstrPos(x), "generic call "+callee.Origin().Name()+" in "+ir.FuncName(fn), "no user key/value among the arguments", false)
							}
						}
					}
				}
			}
		}
	}
	if examined == 0 {
		c.OK("-", "no map, sync.Map or comparable-generic operation in the analysed packages", "scan of all functions", true)
	}
}
