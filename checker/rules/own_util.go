package rules

import (
	"go/token"
	"go/types"
	"sort"

	"golang.org/x/tools/go/ssa"

	"mastcheck/ir"
)

// ---- store sites: writers and pass-throughs ----------------------------------
//
// A *store site* of package mast is an instruction that hands a (name, bytes)
// pair to a store: a call through an interface of a method `Store` with the
// signature of Persist.Store, or a static call of a pass-through (below), whose
// name/bytes arguments are the ones at the positions the pass-through forwards.
//
// A function f is a *pass-through* of the store interface iff
//   - every store site in f passes, as name and as bytes, two parameters of f
//     itself, by SSA identity (not a variable that could have been reassigned,
//     not an expression over them), the same two at every site of f;
//   - f does nothing else with the bytes parameter than hand it to those sites
//     and take its len/cap: it cannot write into the array;
//   - the value of f is never taken (no function value, method value or method
//     expression), and f cannot be reached through an interface other than as
//     a `Store` of Persist's signature: so every caller of f is a static call —
//     counted as a store site — or an interface call that is a store site already.
//
// Such a function introduces no (name, bytes) pair of its own: every pair it
// hands on was handed to it by a store site, and that site is subject to the
// rules. A decorator around a Persist (counting, logging, retrying) is of that
// kind. The *writer sites* are the store sites that are not the forwarding call
// inside a pass-through: the places where a name and the bytes are brought
// together. Anything that fails one of the conditions is a writer site.

type storeSiteInfo struct {
	Call        ssa.CallInstruction
	Name, Bytes ssa.Value
}

type storeSiteFacts struct {
	sites   []storeSiteInfo // all store sites of package mast
	writers []storeSiteInfo
	pass    map[*ssa.Function][2]int // pass-through → (name param index, bytes param index)
}

func persistStoreSig(P *ir.Program) *types.Signature {
	n := P.Named(ir.MastPath, "Persist")
	if n == nil {
		return nil
	}
	it, _ := n.Underlying().(*types.Interface)
	if it == nil {
		return nil
	}
	for i := 0; i < it.NumMethods(); i++ {
		if m := it.Method(i); m.Name() == "Store" {
			s, _ := m.Type().(*types.Signature)
			return s
		}
	}
	return nil
}

// sameParamsResults: identical parameter and result lists (receivers ignored).
func sameParamsResults(a, b *types.Signature) bool {
	return a != nil && b != nil && types.Identical(a.Params(), b.Params()) && types.Identical(a.Results(), b.Results()) && a.Variadic() == b.Variadic()
}

func computeStoreSites(c *Ctx) *storeSiteFacts {
	P := c.P
	R := &storeSiteFacts{pass: map[*ssa.Function][2]int{}}
	sig := persistStoreSig(P)
	var mastFuncs []*ssa.Function
	for _, fn := range P.Funcs {
		if fn.Pkg.Pkg.Path() == ir.MastPath {
			mastFuncs = append(mastFuncs, fn)
		}
	}
	// interface store sites
	var iface []storeSiteInfo
	for _, fn := range mastFuncs {
		for _, ci := range CallsOf(fn) {
			com := ci.Common()
			if !com.IsInvoke() {
				continue
			}
			isStore := c.Facts.External(ci) == "Persist.Store"
			if !isStore && sig != nil && com.Method.Name() == "Store" {
				if ms, ok := com.Method.Type().(*types.Signature); ok && sameParamsResults(ms, sig) {
					isStore = true
				}
			}
			if isStore && len(com.Args) == 3 {
				iface = append(iface, storeSiteInfo{ci, com.Args[1], com.Args[2]})
			}
		}
	}
	// functions whose value is taken somewhere (directly, or through the synthetic wrapper of a method value / method
	// expression), anywhere in the repository
	valueTaken := map[*ssa.Function]bool{}
	mark := func(g *ssa.Function) {
		if g == nil {
			return
		}
		valueTaken[g] = true
		if g.Origin() != nil {
			valueTaken[g.Origin()] = true
		}
		if g.Synthetic != "" {
			for _, b := range g.Blocks {
				for _, ins := range b.Instrs {
					if ci, ok := ins.(ssa.CallInstruction); ok {
						if sc := ir.Callee(ci.Common()); sc != nil {
							valueTaken[sc] = true
						}
					}
				}
			}
		}
	}
	// interface calls of any method, by name: a method of that name and shape may be reached through them
	type ifaceCall struct {
		name string
		sig  *types.Signature
	}
	var otherInvokes []ifaceCall
	for _, fn := range P.Funcs {
		for _, b := range fn.Blocks {
			for _, ins := range b.Instrs {
				var callV ssa.Value
				if ci, ok := ins.(ssa.CallInstruction); ok {
					com := ci.Common()
					callV = com.Value
					if com.IsInvoke() {
						if ms, ok := com.Method.Type().(*types.Signature); ok {
							otherInvokes = append(otherInvokes, ifaceCall{com.Method.Name(), ms})
						}
					}
				}
				for _, op := range ins.Operands(nil) {
					if op == nil || *op == nil {
						continue
					}
					switch v := (*op).(type) {
					case *ssa.Function:
						if ssa.Value(v) != callV {
							mark(v)
						}
					case *ssa.MakeClosure:
						if g, ok := v.Fn.(*ssa.Function); ok && g.Synthetic != "" {
							mark(g)
						}
					}
				}
				if mc, ok := ins.(*ssa.MakeClosure); ok {
					if g, ok := mc.Fn.(*ssa.Function); ok && g.Synthetic != "" {
						mark(g)
					}
				}
			}
		}
	}
	reachableOnlyAsSiteOrStatically := func(f *ssa.Function) bool {
		if valueTaken[f] || c.Facts.addrTaken[f] || f.Parent() != nil {
			return false
		}
		if f.Signature.Recv() == nil {
			return true
		}
		// a method: every interface call in the repository that could dispatch to it must be a store site
		for _, ic := range otherInvokes {
			if ic.name != f.Name() || !sameParamsResults(ic.sig, f.Signature) {
				continue
			}
			if f.Name() == "Store" && sig != nil && sameParamsResults(ic.sig, sig) {
				continue // a store site (in package mast), or a backend-side call outside the package's writers
			}
			return false
		}
		return true
	}
	paramIdx := func(f *ssa.Function, v ssa.Value) int {
		p, ok := v.(*ssa.Parameter)
		if !ok || p.Parent() != f {
			return -1
		}
		return paramIndex(p)
	}
	bytesUntouched := func(f *ssa.Function, p *ssa.Parameter, sites map[ssa.Instruction]bool) bool {
		if p.Referrers() == nil {
			return true
		}
		for _, r := range *p.Referrers() {
			switch x := r.(type) {
			case *ssa.DebugRef:
			case ssa.CallInstruction:
				if sites[x] {
					// only in the bytes position (checked by the caller); not, say, also as a destination
					continue
				}
				if b, ok := x.Common().Value.(*ssa.Builtin); ok && (b.Name() == "len" || b.Name() == "cap") {
					continue
				}
				return false
			default:
				return false
			}
		}
		return true
	}
	// fixpoint: sites = interface sites + static calls of pass-throughs; pass-throughs = functions all of whose sites forward
	// their own parameters
	for iter := 0; iter < 6; iter++ {
		sites := append([]storeSiteInfo(nil), iface...)
		for _, fn := range mastFuncs {
			for _, ci := range CallsOf(fn) {
				com := ci.Common()
				if com.IsInvoke() {
					continue
				}
				callee := ir.Callee(com)
				if idx, ok := R.pass[callee]; ok && callee != nil && idx[0] < len(com.Args) && idx[1] < len(com.Args) {
					sites = append(sites, storeSiteInfo{ci, com.Args[idx[0]], com.Args[idx[1]]})
				}
			}
		}
		byFn := map[*ssa.Function][]storeSiteInfo{}
		for _, s := range sites {
			byFn[s.Call.Parent()] = append(byFn[s.Call.Parent()], s)
		}
		pass := map[*ssa.Function][2]int{}
		for f, ss := range byFn {
			if !reachableOnlyAsSiteOrStatically(f) {
				continue
			}
			ni, bi := -1, -1
			ok := true
			callSet := map[ssa.Instruction]bool{}
			for _, s := range ss {
				n, b := paramIdx(f, s.Name), paramIdx(f, s.Bytes)
				if n < 0 || b < 0 || (ni >= 0 && (n != ni || b != bi)) {
					ok = false
					break
				}
				if _, isCall := s.Call.(*ssa.Call); !isCall {
					ok = false // go/defer: not a plain forwarding call
					break
				}
				// the bytes parameter occurs in the call only as the bytes argument
				cnt := 0
				for _, a := range s.Call.Common().Args {
					if a == s.Bytes {
						cnt++
					}
				}
				if cnt != 1 || s.Call.Common().Value == s.Bytes {
					ok = false
					break
				}
				ni, bi = n, b
				callSet[s.Call] = true
			}
			if !ok || ni < 0 {
				continue
			}
			if !bytesUntouched(f, f.Params[bi], callSet) {
				continue
			}
			pass[f] = [2]int{ni, bi}
		}
		same := len(pass) == len(R.pass)
		for f, v := range pass {
			if w, ok := R.pass[f]; !ok || w != v {
				same = false
			}
		}
		R.pass, R.sites = pass, sites
		if same && iter > 0 {
			break
		}
	}
	for _, s := range R.sites {
		if _, isPass := R.pass[s.Call.Parent()]; isPass {
			continue
		}
		R.writers = append(R.writers, s)
	}
	// the node store's site first (a closure or body of a function with a node receiver), then source order
	rank := func(s storeSiteInfo) int {
		o := ir.Outermost(s.Call.Parent())
		if len(o.Params) > 0 && isNodePtr(o.Params[0].Type()) {
			return 0
		}
		return 1
	}
	sort.SliceStable(R.writers, func(i, j int) bool {
		ri, rj := rank(R.writers[i]), rank(R.writers[j])
		if ri != rj {
			return ri < rj
		}
		return false
	})
	return R
}

var storeSiteMemo = map[*Facts]*storeSiteFacts{}

func storeSiteFactsOf(c *Ctx) *storeSiteFacts {
	if r, ok := storeSiteMemo[c.Facts]; ok {
		return r
	}
	for k := range storeSiteMemo {
		delete(storeSiteMemo, k)
	}
	r := computeStoreSites(c)
	storeSiteMemo[c.Facts] = r
	return r
}

// writerStoreSites: the store sites of package mast that are not the forwarding call of a pass-through.
func writerStoreSites(c *Ctx) []ssa.CallInstruction {
	var out []ssa.CallInstruction
	for _, s := range storeSiteFactsOf(c).writers {
		out = append(out, s.Call)
	}
	return out
}

// writerStoreSiteInfos is writerStoreSites with the name and bytes operands.
func writerStoreSiteInfos(c *Ctx) []storeSiteInfo { return storeSiteFactsOf(c).writers }

// ---- values through cells and helpers ------------------------------------------

// reachingValue sees through a load of a local variable cell to the value last stored into it, when that store is
// found by walking back from the load through the block and then through single-predecessor blocks, with no call
// (a call may run a closure that assigns the variable) and no other store to the cell in between.
func reachingValue(v ssa.Value) ssa.Value {
	for i := 0; i < 4; i++ {
		ld, ok := v.(*ssa.UnOp)
		if !ok || ld.Op != token.MUL {
			return v
		}
		cell, ok := ld.X.(*ssa.Alloc)
		if !ok {
			return v
		}
		if st := ir.SingleStore(cell); st != nil {
			v = st.Val
			continue
		}
		b := ld.Block()
		at := ir.InstrIndex(ld)
		var found ssa.Value
	walk:
		for hops := 0; hops < 8 && b != nil; hops++ {
			for j := at - 1; j >= 0; j-- {
				switch x := b.Instrs[j].(type) {
				case *ssa.Store:
					if x.Addr == ssa.Value(cell) {
						found = x.Val
						break walk
					}
				case ssa.CallInstruction:
					if _, isB := x.Common().Value.(*ssa.Builtin); !isB {
						break walk
					}
				}
			}
			if len(b.Preds) != 1 {
				break
			}
			b = b.Preds[0]
			at = len(b.Instrs)
		}
		if found == nil {
			return v
		}
		v = found
	}
	return v
}

// tupleResult: v (possibly read back from a variable) is result #idx of a call.
func tupleResult(v ssa.Value) (call *ssa.Call, idx int, ok bool) {
	v = reachingValue(stripConv(v))
	switch x := v.(type) {
	case *ssa.Extract:
		if cl, isCall := x.Tuple.(*ssa.Call); isCall {
			return cl, x.Index, true
		}
	case *ssa.Call:
		if x.Call.Signature().Results().Len() == 1 {
			return x, 0, true
		}
	}
	return nil, 0, false
}

// ownHelper: the same-package function with a body that call statically calls.
func ownHelper(call *ssa.Call) *ssa.Function {
	if call.Call.IsInvoke() {
		return nil
	}
	f := ir.Callee(call.Call)
	if f == nil || f.Blocks == nil || f.Pkg == nil || call.Parent() == nil || f.Pkg != call.Parent().Pkg {
		return nil
	}
	return f
}

// knownNonNilError: e is an error that is certainly non-nil where it is used at `at`: made by errors.New / fmt.Errorf,
// or a value (possibly read back from a variable) that a dominating branch found non-nil.
func knownNonNilError(e ssa.Value, at ssa.Instruction) bool {
	e = reachingValue(e)
	if call, ok := ir.Strip(e).(*ssa.Call); ok {
		if sc := ir.Callee(call.Call); sc != nil {
			switch sc.String() {
			case "fmt.Errorf", "errors.New":
				return true
			}
		}
	}
	for _, f := range ir.FactsAt(at.Block()) {
		tv, tnn, isNil := ir.NilTest(f.Cond)
		if !isNil || f.Truth != tnn {
			continue
		}
		// the tested value is read where the branch is; compare what both denote
		if tv == e || reachingValue(tv) == e {
			return true
		}
	}
	return false
}

// nilCheckedAt: the error result (#ei) of call is known to be nil on every path into block b of the caller.
func nilCheckedAt(call *ssa.Call, ei int, b *ssa.BasicBlock) bool {
	for _, f := range ir.FactsAt(b) {
		tv, tnn, isNil := ir.NilTest(f.Cond)
		if !isNil || f.Truth == tnn {
			continue
		}
		if cl, idx, ok := tupleResult(tv); ok && cl == call && idx == ei {
			return true
		}
	}
	return false
}

// useBlockIn: the block of function outer in which instruction ins executes or, when ins sits in a closure
// nested in outer, in which that closure is created (the closure cannot run before it exists).
func useBlockIn(outer *ssa.Function, ins ssa.Instruction) *ssa.BasicBlock {
	fn := ins.Parent()
	b := ins.Block()
	for i := 0; fn != nil && fn != outer && i < 6; i++ {
		par := fn.Parent()
		if par == nil {
			return nil
		}
		var mk *ssa.MakeClosure
		n := 0
		for _, bb := range par.Blocks {
			for _, x := range bb.Instrs {
				if mc, ok := x.(*ssa.MakeClosure); ok && mc.Fn == ssa.Value(fn) {
					mk = mc
					n++
				}
			}
		}
		if n != 1 {
			return nil
		}
		fn, b = par, mk.Block()
	}
	if fn != outer {
		return nil
	}
	return b
}

// nodeStoreDriver: the function reachable from MakeRoot that calls the node store (flush), found from the writer
// site — not from the first store site in source order, which may be the forwarding call of a pass-through.
// It is the first half of findFlush, with the same fail-closed reports.
func nodeStoreDriver(c *Ctx) *ssa.Function {
	mk := c.MustFunc("(*Mast).MakeRoot")
	sites := writerStoreSites(c)
	if mk == nil || len(sites) == 0 {
		if len(sites) == 0 {
			c.AnchorMissing("Persist.Store call site")
		}
		return nil
	}
	store := ir.Outermost(sites[0].Parent())
	family := storeFamily(c, store)
	reach := c.Facts.Reach(mk)
	var F *ssa.Function
	for _, cs := range c.P.Callers[store] {
		caller := ir.Outermost(cs.Parent())
		if family[caller] || !reach[caller] {
			continue
		}
		if F != nil && F != caller {
			c.Undecided(caller, c.P.Pos(caller.Pos()), "second driver of the node store", "more than one function reachable from MakeRoot calls the node store")
			continue
		}
		F = caller
	}
	if F == nil {
		c.AnchorMissing("function reachable from MakeRoot that calls the node store")
	}
	return F
}
